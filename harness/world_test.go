//go:build verif && (h_world || h_all)

package harness

// World mode: a case is a store of real API objects plus a sequence of operations (reconciles of the
// four real controllers, kubectl-eds command bodies, environment actions, clock ticks, faults). It runs
// inside a testing/synctest bubble, so time.Now() everywhere is a virtual clock that starts at
// 2000-01-01T00:00:00Z and moves only when the harness sleeps. Every mutating API call goes through an
// interceptor that logs it, names GenerateName objects deterministically, stamps creationTimestamp,
// emulates graceful pod termination with a finalizer and injects the faults the case asks for.

import (
	"context"
	"crypto/md5"
	"encoding/hex"
	"encoding/json"
	"errors"
	"fmt"
	"sort"
	"strings"
	"sync"
	"testing"
	"reflect"
	"runtime/debug"
	"testing/synctest"
	"time"
	"unsafe"

	"github.com/go-logr/logr"
	appsv1 "k8s.io/api/apps/v1"
	corev1 "k8s.io/api/core/v1"
	apierrors "k8s.io/apimachinery/pkg/api/errors"
	metav1 "k8s.io/apimachinery/pkg/apis/meta/v1"
	"k8s.io/apimachinery/pkg/runtime"
	"k8s.io/apimachinery/pkg/types"
	clientgoscheme "k8s.io/client-go/kubernetes/scheme"
	"k8s.io/client-go/tools/record"
	"sigs.k8s.io/controller-runtime/pkg/client"
	"sigs.k8s.io/controller-runtime/pkg/client/fake"
	"sigs.k8s.io/controller-runtime/pkg/client/interceptor"
	"sigs.k8s.io/controller-runtime/pkg/reconcile"

	v1alpha1 "github.com/DataDog/extendeddaemonset/api/v1alpha1"
	edsctrl "github.com/DataDog/extendeddaemonset/controllers/extendeddaemonset"
	ersctrl "github.com/DataDog/extendeddaemonset/controllers/extendeddaemonsetreplicaset"
	settingctrl "github.com/DataDog/extendeddaemonset/controllers/extendeddaemonsetsetting"
	ptctrl "github.com/DataDog/extendeddaemonset/controllers/podtemplate"
	plcanary "github.com/DataDog/extendeddaemonset/pkg/plugin/canary"
	plfreeze "github.com/DataDog/extendeddaemonset/pkg/plugin/freeze"
	plpause "github.com/DataDog/extendeddaemonset/pkg/plugin/pause"
)

const harnessFinalizer = "verif.example/graceful"

func init() { register("world", runWorld) }

type faultSpec struct {
	CreateNodes []string `json:"create_nodes"` // pod creations for these nodes fail
	DeletePods  []string `json:"delete_pods"`  // pod deletions fail
	PatchPods   []string `json:"patch_pods"`   // pod patches fail
	Status      bool     `json:"status"`       // status writes of EDS/ERS/setting fail
	Update      bool     `json:"update"`       // Update of EDS / PodTemplate fails
	RsDelete    []string `json:"rs_delete"`    // replica-set deletions fail
	RsCreate    bool     `json:"rs_create"`    // replica-set creation fails
	ListFail    []string `json:"list_fail"`    // List calls for these kinds fail (reads: nothing is recorded)
	DeleteGone  []string `json:"delete_gone"`  // these pods vanish just before the controller's Delete reaches the store: it answers NotFound
	GetFail     []string `json:"get_fail"`     // Get calls for these kinds fail with a server error ("DaemonSet": the old DaemonSet of a migration)
	// MidEdit: a user edit of the reconciled ExtendedDaemonSet ("image:img:2", ...) that lands in the middle of the
	// reconcile, right after its List of the replica sets. The controller works on the copy it read before; its later
	// writes on the ExtendedDaemonSet itself meet the API server's optimistic concurrency: refused with a conflict.
	MidEdit string `json:"mid_edit"`
	// MidCmd: a kubectl-eds command ("canary_fail:<eds>", "canary_pause:<eds>", ...) that lands in the middle of a replica-set
	// reconcile, right after its List of the pods. The controller goes on with the copies it read before; when the command
	// changed the reconciled replica set itself (canary fail writes its status), the controller's own status write is
	// refused with a conflict.
	MidCmd string `json:"mid_cmd"`
	Lost        bool     `json:"lost"`         // failing calls are applied, then the error is returned
	StopAt      int      `json:"stop_at"`      // >0: the process stops (panic) before the k-th write of this op
	StopAfter   int      `json:"stop_after"`   // >0: the process stops right after the k-th write of this op
}

type opSpec struct {
	Op      string          `json:"op"`
	Seconds int64           `json:"seconds"`
	Millis  int64           `json:"millis"` // sleep: a fraction of a second on top of Seconds
	Ctrl    string          `json:"ctrl"`
	Ns      string          `json:"ns"`
	Name    string          `json:"name"`
	Kind    string          `json:"kind"`
	Object  json.RawMessage `json:"object"`
	Cmd     string          `json:"cmd"`
	Faults  *faultSpec      `json:"faults"`
	NoDump  bool            `json:"nodump"`
}

type worldCase struct {
	Objects []json.RawMessage `json:"objects"`
	Ops     []opSpec          `json:"ops"`
	Options struct {
		Affinity    bool   `json:"affinity"`
		DefaultMode string `json:"default_mode"`
		// ListOrder: the order of the lists the controllers read (an informer cache returns no particular order; the
		// fake client sorts by name): 0 = by name, otherwise reversed. (Reversal commutes with the filtering of a
		// list by namespace or labels, so the snapshot given to the model is simply reversed as well.)
		ListOrder int `json:"list_order"`
	} `json:"options"`
	// Global: one fault at the K-th write issued by the reconciles of the whole case:
	// kind reject | lost | stop_before | stop_after
	Global *struct {
		K    int    `json:"k"`
		Kind string `json:"kind"`
		On   string `json:"on"` // "" = the k-th write of any kind; "control" = the k-th write of the ExtendedDaemonSet controller (on the ExtendedDaemonSet, replica-set creation/deletion)
	} `json:"global_fault"`
}

type callLog struct {
	Verb   string          `json:"verb"`
	Kind   string          `json:"kind"`
	Ns     string          `json:"ns"`
	Name   string          `json:"name"`
	Node   string          `json:"node,omitempty"`
	Failed bool            `json:"failed"`
	Obj    json.RawMessage `json:"obj,omitempty"`
}

type stepOut struct {
	Op       opSpec            `json:"op"`
	Now      int64             `json:"now"` // unix nanoseconds of the virtual clock
	Pre      []json.RawMessage `json:"pre,omitempty"`
	Post     []json.RawMessage `json:"post,omitempty"`
	Calls    []callLog         `json:"calls"`
	Requeue  bool              `json:"requeue"`
	After    int64             `json:"requeue_after"`
	Err      string            `json:"err,omitempty"`
	ErrCount int               `json:"err_count"` // leaf errors in the returned aggregate
	Panic    string            `json:"panic,omitempty"`
	Stack    string            `json:"stack,omitempty"`
	Stopped  bool              `json:"stopped,omitempty"`
	CmdError string            `json:"cmd_error,omitempty"`
	BoPre    []boEntry         `json:"backoff_pre,omitempty"`
	BoPost   []boEntry         `json:"backoff_post,omitempty"`
}

type boEntry struct {
	Key     string `json:"key"`
	Backoff int64  `json:"backoff"`
	Last    int64  `json:"last"`
}

// backoffDump reads the replica-set reconciler's unexported failed-pod back-off memory (reflect +
// unsafe: observation only, no source change needed).
func backoffDump(r *ersctrl.Reconciler) []boEntry {
	out := []boEntry{}
	defer func() { _ = recover() }()
	f := reflect.ValueOf(r).Elem().FieldByName("failedPodsBackOff")
	f = reflect.NewAt(f.Type(), unsafe.Pointer(f.UnsafeAddr())).Elem()
	if f.IsNil() {
		return out
	}
	m := f.Elem().FieldByName("perItemBackoff")
	m = reflect.NewAt(m.Type(), unsafe.Pointer(m.UnsafeAddr())).Elem()
	it := m.MapRange()
	for it.Next() {
		e := it.Value().Elem()
		b := e.FieldByName("backoff")
		b = reflect.NewAt(b.Type(), unsafe.Pointer(b.UnsafeAddr())).Elem()
		l := e.FieldByName("lastUpdate")
		l = reflect.NewAt(l.Type(), unsafe.Pointer(l.UnsafeAddr())).Elem()
		out = append(out, boEntry{Key: it.Key().String(), Backoff: b.Int(), Last: l.Interface().(time.Time).UnixNano()})
	}
	sort.Slice(out, func(i, j int) bool { return out[i].Key < out[j].Key })

	return out
}

type stopSignal struct{}

type world struct {
	mu      sync.Mutex // the controllers issue calls from several goroutines
	delMu   sync.Mutex // makes read-then-delete of a pod atomic
	t       *testing.T
	scheme  *runtime.Scheme
	c       client.Client // intercepted
	raw     client.WithWatch
	calls   []callLog
	faults  *faultSpec
	writes  int
	total   int    // writes issued by reconciles since the start of the case (for the global fault)
	totalCtl int   // ... those of the ExtendedDaemonSet controller
	globalHit string // kind of the global fault that fires on the current call
	globalNow string
	inReconcile bool
	dead        bool
	counter int
	opts    worldCase
	eds     *edsctrl.Reconciler
	ers     *ersctrl.Reconciler
	set     *settingctrl.Reconciler
	pt      *ptctrl.Reconciler
	// rawSettingSpec keeps the spec of every ExtendedDaemonsetSetting as the JSON text it was applied with. A real API
	// server stores a custom resource verbatim, so a quantity written "0.5" is decoded by the client as 5*10^-1, while
	// the same quantity of a Pod comes back canonical ("500m" = 500*10^-3). The fake client canonicalises both; reads
	// of settings are therefore re-decoded from the text (see verbatim).
	rawMu          sync.Mutex
	rawSettingSpec map[string]json.RawMessage
	savedCanary    *v1alpha1.ExtendedDaemonSetSpecStrategyCanary // edit "canary:off" keeps the block for "canary:on"
	midDone        bool   // the fault MidEdit was applied in this op
	midCmdDone     bool   // the fault MidCmd was applied in this op
	midConflictErs bool   // ... and changed the reconciled replica set: its status write conflicts
	curOp          opSpec // the op being run
}

// deleteGone: the fault DeleteGone for this pod, during a reconcile.
func (w *world) deleteGone(name string) bool {
	w.mu.Lock()
	defer w.mu.Unlock()
	if !w.inReconcile || w.faults == nil {
		return false
	}

	return contains(w.faults.DeleteGone, name) || contains(w.faults.DeleteGone, "*")
}

// getFails: the fault GetFail for the kind of obj, during a reconcile.
func (w *world) getFails(obj client.Object) bool {
	w.mu.Lock()
	defer w.mu.Unlock()
	if !w.inReconcile || w.faults == nil || len(w.faults.GetFail) == 0 {
		return false
	}
	if _, ok := obj.(*appsv1.DaemonSet); ok {
		return contains(w.faults.GetFail, "DaemonSet")
	}

	return false
}

// midEdit applies the fault MidEdit once per reconcile of the ExtendedDaemonSet controller.
func (w *world) midEdit() {
	w.mu.Lock()
	f := w.faults
	if !w.inReconcile || f == nil || f.MidEdit == "" || w.midDone || w.curOp.Ctrl != "eds" {
		w.mu.Unlock()

		return
	}
	w.midDone = true
	op := opSpec{Kind: "ExtendedDaemonSet", Ns: w.curOp.Ns, Name: w.curOp.Name, Cmd: f.MidEdit}
	w.mu.Unlock()
	_ = w.edit(op)
}

// midCmd applies the fault MidCmd once per reconcile of the replica-set controller.
func (w *world) midCmd() {
	w.mu.Lock()
	f := w.faults
	if !w.inReconcile || f == nil || f.MidCmd == "" || w.midCmdDone || w.curOp.Ctrl != "ers" {
		w.mu.Unlock()

		return
	}
	w.midCmdDone = true
	ns, rsName := w.curOp.Ns, w.curOp.Name
	w.mu.Unlock()
	cmd, eds, _ := strings.Cut(f.MidCmd, ":")
	ctx := context.TODO()
	before := &v1alpha1.ExtendedDaemonSetReplicaSet{}
	_ = w.raw.Get(ctx, types.NamespacedName{Namespace: ns, Name: rsName}, before)
	switch cmd {
	case "canary_pause":
		_ = plcanary.VerifRunPause(w.raw, ns, eds, true)
	case "canary_unpause":
		_ = plcanary.VerifRunPause(w.raw, ns, eds, false)
	case "canary_validate":
		_ = plcanary.VerifRunValidate(w.raw, ns, eds)
	case "canary_fail":
		_ = plcanary.VerifRunFail(w.raw, ns, eds)
	}
	after := &v1alpha1.ExtendedDaemonSetReplicaSet{}
	_ = w.raw.Get(ctx, types.NamespacedName{Namespace: ns, Name: rsName}, after)
	if before.ResourceVersion != after.ResourceVersion {
		w.mu.Lock()
		w.midConflictErs = true
		w.mu.Unlock()
	}
}

func (w *world) listFails(list client.ObjectList) bool {
	w.mu.Lock()
	defer w.mu.Unlock()
	if !w.inReconcile || w.faults == nil || len(w.faults.ListFail) == 0 {
		return false
	}
	kind := ""
	switch list.(type) {
	case *corev1.PodList:
		kind = "Pod"
	case *corev1.NodeList:
		kind = "Node"
	case *v1alpha1.ExtendedDaemonSetReplicaSetList:
		kind = "ExtendedDaemonSetReplicaSet"
	case *v1alpha1.ExtendedDaemonsetSettingList:
		kind = "ExtendedDaemonsetSetting"
	}

	return contains(w.faults.ListFail, kind)
}

// permute: the list reversed
func permute[T any](in []T, _ int) []T {
	n := len(in)
	out := make([]T, 0, n)
	for i := n - 1; i >= 0; i-- {
		out = append(out, in[i])
	}

	return out
}

func (w *world) rememberRaw(raw json.RawMessage) {
	var tm struct {
		Kind     string `json:"kind"`
		Metadata struct {
			Name      string `json:"name"`
			Namespace string `json:"namespace"`
		} `json:"metadata"`
		Spec json.RawMessage `json:"spec"`
	}
	if json.Unmarshal(raw, &tm) != nil || tm.Kind != "ExtendedDaemonsetSetting" || tm.Spec == nil {
		return
	}
	w.rawMu.Lock()
	defer w.rawMu.Unlock()
	if w.rawSettingSpec == nil {
		w.rawSettingSpec = map[string]json.RawMessage{}
	}
	w.rawSettingSpec[tm.Metadata.Namespace+"/"+tm.Metadata.Name] = tm.Spec
}

func (w *world) verbatim(s *v1alpha1.ExtendedDaemonsetSetting) {
	w.rawMu.Lock()
	raw, ok := w.rawSettingSpec[s.Namespace+"/"+s.Name]
	w.rawMu.Unlock()
	if !ok {
		return
	}
	var spec v1alpha1.ExtendedDaemonsetSettingSpec
	if json.Unmarshal(raw, &spec) == nil {
		s.Spec = spec
	}
}

func contains(l []string, s string) bool {
	for _, x := range l {
		if x == s {
			return true
		}
	}

	return false
}

func kindOf(obj client.Object) string {
	switch obj.(type) {
	case *corev1.Pod:
		return "Pod"
	case *corev1.Node:
		return "Node"
	case *corev1.PodTemplate:
		return "PodTemplate"
	case *appsv1.DaemonSet:
		return "DaemonSet"
	case *v1alpha1.ExtendedDaemonSet:
		return "ExtendedDaemonSet"
	case *v1alpha1.ExtendedDaemonSetReplicaSet:
		return "ExtendedDaemonSetReplicaSet"
	case *v1alpha1.ExtendedDaemonsetSetting:
		return "ExtendedDaemonsetSetting"
	}

	return fmt.Sprintf("%T", obj)
}

// podTargetNode: the node a pod is bound to (harness's own reading of the object).
func podTargetNode(p *corev1.Pod) string {
	if p.Spec.NodeName != "" {
		return p.Spec.NodeName
	}
	if a := p.Spec.Affinity; a != nil && a.NodeAffinity != nil && a.NodeAffinity.RequiredDuringSchedulingIgnoredDuringExecution != nil {
		for _, term := range a.NodeAffinity.RequiredDuringSchedulingIgnoredDuringExecution.NodeSelectorTerms {
			for _, f := range term.MatchFields {
				if f.Key == "metadata.name" && len(f.Values) > 0 {
					return f.Values[0]
				}
			}
		}
	}

	return ""
}

func tmplHash(tpl *corev1.PodTemplateSpec) string {
	b, _ := json.Marshal(tpl)
	s := md5.Sum(b)

	return hex.EncodeToString(s[:])
}

// acceptedSpec: the implementation's own verdict on a spec - recognised as defaulted and passing validation.
func acceptedSpec(e *v1alpha1.ExtendedDaemonSet) (ok bool) {
	defer func() {
		if r := recover(); r != nil {
			ok = false
		}
	}()

	return v1alpha1.IsDefaultedExtendedDaemonSet(e) && v1alpha1.ValidateExtendedDaemonSetSpec(&e.Spec) == nil
}

func marshalObj(obj client.Object) json.RawMessage {
	b, err := json.Marshal(obj)
	if err != nil {
		return json.RawMessage(`{"marshal_error":true}`)
	}
	var m map[string]any
	_ = json.Unmarshal(b, &m)
	m["kind"] = kindOf(obj)
	if md, ok := m["metadata"].(map[string]any); ok {
		delete(md, "managedFields")
		delete(md, "resourceVersion")
	}
	switch o := obj.(type) {
	case *v1alpha1.ExtendedDaemonSet:
		m["_tmplHash"] = tmplHash(&o.Spec.Template)
		m["_accepted"] = acceptedSpec(o)
	case *v1alpha1.ExtendedDaemonSetReplicaSet:
		m["_tmplHash"] = tmplHash(&o.Spec.Template)
	case *corev1.PodTemplate:
		m["_tmplHash"] = tmplHash(&o.Template)
	}
	out, _ := json.Marshal(m)

	return out
}

func (w *world) record(verb string, obj client.Object, failed bool, withObj bool) {
	cl := callLog{Verb: verb, Kind: kindOf(obj), Ns: obj.GetNamespace(), Name: obj.GetName(), Failed: failed}
	if p, ok := obj.(*corev1.Pod); ok {
		cl.Node = podTargetNode(p)
	}
	if withObj {
		cl.Obj = marshalObj(obj)
	}
	w.mu.Lock()
	w.calls = append(w.calls, cl)
	w.mu.Unlock()
}

// beforeWrite implements the process-stop faults.
func (w *world) beforeWrite(verb string, obj client.Object) {
	w.mu.Lock()
	w.writes++
	w.total++
	// writes of the ExtendedDaemonSet controller: on the ExtendedDaemonSet itself, and replica-set creation/deletion
	isCtl := false
	switch obj.(type) {
	case *v1alpha1.ExtendedDaemonSet:
		isCtl = true
	case *v1alpha1.ExtendedDaemonSetReplicaSet:
		isCtl = verb == "create" || verb == "delete"
	}
	if isCtl && w.inReconcile {
		w.totalCtl++
	}
	n := w.writes
	g := w.opts.Global
	hit := g != nil && g.K > 0 && w.inReconcile && ((g.On == "" && w.total == g.K) || (g.On == "control" && isCtl && w.totalCtl == g.K))
	if hit {
		w.globalHit = g.Kind
	}
	w.mu.Unlock()
	if (w.faults != nil && w.faults.StopAt > 0 && n == w.faults.StopAt) || (hit && g.Kind == "stop_before") {
		w.die()
	}
}

// die: the process stops here. Calls may come from worker goroutines, where a panic cannot be recovered by
// the caller of Reconcile, so a stop is emulated: from now on no call of this reconcile reaches the store
// (each returns an error, unrecorded); when Reconcile returns the step is marked stopped, its result is
// discarded and fresh controller instances (empty memory) take over.
func (w *world) die() {
	w.mu.Lock()
	w.dead = true
	w.mu.Unlock()
}

func (w *world) isDead() bool {
	w.mu.Lock()
	defer w.mu.Unlock()

	return w.dead
}

func (w *world) afterWrite() {
	w.mu.Lock()
	n := w.writes
	hit := w.globalHit == "stop_after"
	if hit {
		w.globalHit = ""
	}
	w.mu.Unlock()
	if (w.faults != nil && w.faults.StopAfter > 0 && n == w.faults.StopAfter) || hit {
		w.die()
	}
}

// lost: the failing call is applied and then reported as failed
func (w *world) lost() bool {
	w.mu.Lock()
	defer w.mu.Unlock()
	if w.globalNow == "lost" {
		return true
	}

	return w.faults != nil && w.faults.Lost
}

var errInjected = errors.New("injected fault")

func (w *world) shouldFail(verb string, obj client.Object) bool {
	w.mu.Lock()
	g := w.globalHit
	w.globalNow = ""
	if g == "reject" || g == "lost" {
		w.globalHit = ""
		w.globalNow = g
		w.mu.Unlock()

		return true
	}
	w.mu.Unlock()
	f := w.faults
	if f == nil {
		return false
	}
	switch o := obj.(type) {
	case *corev1.Pod:
		switch verb {
		case "create":
			return contains(f.CreateNodes, podTargetNode(o)) || contains(f.CreateNodes, "*")
		case "delete":
			return contains(f.DeletePods, o.Name) || contains(f.DeletePods, "*")
		case "patch":
			return contains(f.PatchPods, o.Name) || contains(f.PatchPods, "*")
		}
	case *v1alpha1.ExtendedDaemonSetReplicaSet:
		w.mu.Lock()
		conflict := w.midConflictErs
		w.mu.Unlock()
		if conflict && verb == "status_update" {
			return true
		}
		switch verb {
		case "status_update":
			return f.Status
		case "delete":
			return contains(f.RsDelete, o.Name) || contains(f.RsDelete, "*")
		case "create":
			return f.RsCreate
		}
	case *v1alpha1.ExtendedDaemonSet:
		w.mu.Lock()
		conflict := w.midDone
		w.mu.Unlock()
		if conflict && (verb == "status_update" || verb == "update") {
			return true
		}
		switch verb {
		case "status_update":
			return f.Status
		case "update", "patch":
			return f.Update
		}
	case *v1alpha1.ExtendedDaemonsetSetting:
		if verb == "status_update" {
			return f.Status
		}
	case *corev1.PodTemplate:
		if verb == "update" || verb == "create" {
			return f.Update
		}
	}

	return false
}

func (w *world) nextName(prefix string) string {
	w.mu.Lock()
	defer w.mu.Unlock()
	w.counter++

	return fmt.Sprintf("%s%05d", prefix, w.counter)
}

func (w *world) build(objs []client.Object) {
	w.scheme = runtime.NewScheme()
	_ = clientgoscheme.AddToScheme(w.scheme)
	_ = v1alpha1.AddToScheme(w.scheme)
	funcs := interceptor.Funcs{
		Get: func(ctx context.Context, c client.WithWatch, key client.ObjectKey, obj client.Object, opts ...client.GetOption) error {
			if w.getFails(obj) {
				return errInjected
			}
			err := c.Get(ctx, key, obj, opts...)
			if st, ok := obj.(*v1alpha1.ExtendedDaemonsetSetting); ok && err == nil {
				w.verbatim(st)
			}

			return err
		},
		List: func(ctx context.Context, c client.WithWatch, list client.ObjectList, opts ...client.ListOption) error {
			if w.listFails(list) {
				return errInjected
			}
			err := c.List(ctx, list, opts...)
			if _, ok := list.(*v1alpha1.ExtendedDaemonSetReplicaSetList); ok && err == nil {
				w.midEdit()
			}
			if _, ok := list.(*corev1.PodList); ok && err == nil {
				w.midCmd()
			}
			if sl, ok := list.(*v1alpha1.ExtendedDaemonsetSettingList); ok && err == nil {
				for i := range sl.Items {
					w.verbatim(&sl.Items[i])
				}
			}
			if k := w.opts.Options.ListOrder; k > 0 && err == nil {
				switch l := list.(type) {
				case *corev1.PodList:
					l.Items = permute(l.Items, k)
				case *corev1.NodeList:
					l.Items = permute(l.Items, k)
				case *v1alpha1.ExtendedDaemonSetReplicaSetList:
					l.Items = permute(l.Items, k)
				}
			}

			return err
		},
		Create: func(ctx context.Context, c client.WithWatch, obj client.Object, opts ...client.CreateOption) error {
			if w.isDead() {
				return errInjected
			}
			w.beforeWrite("create", obj)
			if w.isDead() {
				return errInjected
			}
			if obj.GetName() == "" && obj.GetGenerateName() != "" {
				obj.SetName(w.nextName(obj.GetGenerateName()))
			}
			obj.SetCreationTimestamp(metav1.NewTime(time.Now().Truncate(time.Second)))
			if _, ok := obj.(*corev1.Pod); ok {
				obj.SetFinalizers(append(obj.GetFinalizers(), harnessFinalizer))
			}
			fail := w.shouldFail("create", obj)
			w.record("create", obj, fail, true)
			if fail && !w.lost() {
				return errInjected
			}
			err := c.Create(ctx, obj, opts...)
			w.afterWrite()
			if fail {
				return errInjected
			}

			return err
		},
		Delete: func(ctx context.Context, c client.WithWatch, obj client.Object, opts ...client.DeleteOption) error {
			if w.isDead() {
				return errInjected
			}
			w.beforeWrite("delete", obj)
			if w.isDead() {
				return errInjected
			}
			fail := w.shouldFail("delete", obj)
			if p, isPod := obj.(*corev1.Pod); isPod && !fail && w.deleteGone(p.Name) {
				// the pod disappeared between the controller's List and its Delete (the node was drained, a user deleted it):
				// the call fails with a genuine NotFound
				w.record("delete", obj, true, false)
				// (the pod is taken out of the store for the duration of the call and put back unchanged afterwards, so that
				// the rest of the sync - which lists the pods again - sees the store it read: only this call is affected)
				w.delMu.Lock()
				defer w.delMu.Unlock()
				cur := &corev1.Pod{}
				var saved *corev1.Pod
				if gerr := w.raw.Get(ctx, client.ObjectKeyFromObject(obj), cur); gerr == nil {
					saved = cur.DeepCopy()
					cur.Finalizers = nil
					_ = w.raw.Update(ctx, cur)
					_ = w.raw.Delete(ctx, cur)
				}
				err := c.Delete(ctx, obj, opts...)
				if saved != nil {
					saved.ResourceVersion = ""
					st := saved.Status.DeepCopy()
					if cerr := w.raw.Create(ctx, saved); cerr == nil {
						saved.Status = *st
						_ = w.raw.Status().Update(ctx, saved)
					}
				}
				w.afterWrite()
				if err == nil {
					err = errInjected
				}

				return err
			}
			w.record("delete", obj, fail, false)
			if fail && !w.lost() {
				return errInjected
			}
			// A real API server does not compare resourceVersions on an unconditional DELETE; the fake
			// client does when a finalizer turns the deletion into an update, so delete a fresh copy.
			// Deletions of one sync run in parallel; read-then-delete is made atomic so that deleting the same
			// pod twice behaves as on a real API server (the second call finds it terminating: no conflict).
			if _, isPod := obj.(*corev1.Pod); isPod {
				w.delMu.Lock()
				defer w.delMu.Unlock()
				cur := &corev1.Pod{}
				if gerr := c.Get(ctx, client.ObjectKeyFromObject(obj), cur); gerr == nil {
					obj = cur
					if cur.DeletionTimestamp != nil {
						w.afterWrite()
						if fail {
							return errInjected
						}

						return nil
					}
				}
			}
			err := c.Delete(ctx, obj, opts...)
			w.afterWrite()
			if fail {
				return errInjected
			}

			return err
		},
		Update: func(ctx context.Context, c client.WithWatch, obj client.Object, opts ...client.UpdateOption) error {
			if w.isDead() {
				return errInjected
			}
			w.beforeWrite("update", obj)
			if w.isDead() {
				return errInjected
			}
			fail := w.shouldFail("update", obj)
			w.record("update", obj, fail, true)
			if fail && !w.lost() {
				return errInjected
			}
			err := c.Update(ctx, obj, opts...)
			w.afterWrite()
			if fail {
				return errInjected
			}

			return err
		},
		Patch: func(ctx context.Context, c client.WithWatch, obj client.Object, patch client.Patch, opts ...client.PatchOption) error {
			if w.isDead() {
				return errInjected
			}
			w.beforeWrite("patch", obj)
			if w.isDead() {
				return errInjected
			}
			fail := w.shouldFail("patch", obj)
			w.record("patch", obj, fail, true)
			if fail && !w.lost() {
				return errInjected
			}
			err := c.Patch(ctx, obj, patch, opts...)
			w.afterWrite()
			if fail {
				return errInjected
			}

			return err
		},
		SubResourceUpdate: func(ctx context.Context, c client.Client, sub string, obj client.Object, opts ...client.SubResourceUpdateOption) error {
			if w.isDead() {
				return errInjected
			}
			w.beforeWrite("status_update", obj)
			if w.isDead() {
				return errInjected
			}
			fail := w.shouldFail("status_update", obj)
			w.record("status_update", obj, fail, true)
			if fail && !w.lost() {
				return errInjected
			}
			err := c.SubResource(sub).Update(ctx, obj, opts...)
			w.afterWrite()
			if fail {
				return errInjected
			}

			return err
		},
	}
	w.raw = fake.NewClientBuilder().WithScheme(w.scheme).
		WithStatusSubresource(&v1alpha1.ExtendedDaemonSet{}, &v1alpha1.ExtendedDaemonSetReplicaSet{}, &v1alpha1.ExtendedDaemonsetSetting{}).
		WithObjects(objs...).Build()
	w.c = interceptor.NewClient(w.raw, funcs)
	w.freshControllers()
}

func (w *world) freshControllers() {
	rec := &record.FakeRecorder{}
	mode := v1alpha1.ExtendedDaemonSetSpecStrategyCanaryValidationMode(w.opts.Options.DefaultMode)
	if mode == "" {
		mode = v1alpha1.ExtendedDaemonSetSpecStrategyCanaryValidationModeAuto
	}
	w.eds, _ = edsctrl.NewReconciler(edsctrl.ReconcilerOptions{DefaultValidationMode: mode}, w.c, w.scheme, logr.Discard(), rec)
	w.ers, _ = ersctrl.NewReconciler(ersctrl.ReconcilerOptions{IsNodeAffinitySupported: w.opts.Options.Affinity}, w.c, w.scheme, logr.Discard(), rec)
	w.set, _ = settingctrl.NewReconciler(settingctrl.ReconcilerOptions{}, w.c, w.scheme, logr.Discard(), rec)
	w.pt, _ = ptctrl.NewReconciler(ptctrl.ReconcilerOptions{}, w.c, w.scheme, logr.Discard(), rec)
}

func decodeObject(raw json.RawMessage) (client.Object, error) {
	var tm struct {
		Kind string `json:"kind"`
	}
	if err := json.Unmarshal(raw, &tm); err != nil {
		return nil, err
	}
	var obj client.Object
	switch tm.Kind {
	case "Pod":
		obj = &corev1.Pod{}
	case "Node":
		obj = &corev1.Node{}
	case "PodTemplate":
		obj = &corev1.PodTemplate{}
	case "DaemonSet":
		obj = &appsv1.DaemonSet{}
	case "ExtendedDaemonSet":
		obj = &v1alpha1.ExtendedDaemonSet{}
	case "ExtendedDaemonSetReplicaSet":
		obj = &v1alpha1.ExtendedDaemonSetReplicaSet{}
	case "ExtendedDaemonsetSetting":
		obj = &v1alpha1.ExtendedDaemonsetSetting{}
	default:
		return nil, fmt.Errorf("unknown kind %q", tm.Kind)
	}
	if err := json.Unmarshal(raw, obj); err != nil {
		return nil, err
	}
	obj.GetObjectKind().SetGroupVersionKind(obj.GetObjectKind().GroupVersionKind())

	return obj, nil
}

func (w *world) dump() []json.RawMessage {
	ctx := context.TODO()
	var out []json.RawMessage
	var eds v1alpha1.ExtendedDaemonSetList
	_ = w.raw.List(ctx, &eds)
	for i := range eds.Items {
		out = append(out, marshalObj(&eds.Items[i]))
	}
	var ers v1alpha1.ExtendedDaemonSetReplicaSetList
	_ = w.raw.List(ctx, &ers)
	for i := range ers.Items {
		out = append(out, marshalObj(&ers.Items[i]))
	}
	var sets v1alpha1.ExtendedDaemonsetSettingList
	_ = w.raw.List(ctx, &sets)
	for i := range sets.Items {
		out = append(out, marshalObj(&sets.Items[i]))
	}
	var nodes corev1.NodeList
	_ = w.raw.List(ctx, &nodes)
	for i := range nodes.Items {
		out = append(out, marshalObj(&nodes.Items[i]))
	}
	var pods corev1.PodList
	_ = w.raw.List(ctx, &pods)
	for i := range pods.Items {
		out = append(out, marshalObj(&pods.Items[i]))
	}
	var dss appsv1.DaemonSetList
	_ = w.raw.List(ctx, &dss)
	for i := range dss.Items {
		out = append(out, marshalObj(&dss.Items[i]))
	}
	var pts corev1.PodTemplateList
	_ = w.raw.List(ctx, &pts)
	for i := range pts.Items {
		out = append(out, marshalObj(&pts.Items[i]))
	}

	return out
}

// apply creates the object or replaces it (metadata labels/annotations/finalizers/owner refs, spec and
// status) through the raw client: an environment action, not logged as a controller call.
func (w *world) apply(raw json.RawMessage) error {
	obj, err := decodeObject(raw)
	if err != nil {
		return err
	}
	w.rememberRaw(raw)
	ctx := context.TODO()
	cur, _ := decodeObject(raw)
	err = w.raw.Get(ctx, client.ObjectKeyFromObject(obj), cur)
	if apierrors.IsNotFound(err) {
		if obj.GetCreationTimestamp().Time.IsZero() {
			obj.SetCreationTimestamp(metav1.NewTime(time.Now().Truncate(time.Second)))
		}
		if _, ok := obj.(*corev1.Pod); ok && len(obj.GetFinalizers()) == 0 {
			obj.SetFinalizers([]string{harnessFinalizer})
		}
		if err = w.raw.Create(ctx, obj); err != nil {
			return err
		}

		return w.applyStatus(obj)
	} else if err != nil {
		return err
	}
	obj.SetResourceVersion(cur.GetResourceVersion())
	obj.SetUID(cur.GetUID())
	if obj.GetCreationTimestamp().Time.IsZero() {
		obj.SetCreationTimestamp(cur.GetCreationTimestamp())
	}
	if obj.GetDeletionTimestamp() == nil {
		obj.SetDeletionTimestamp(cur.GetDeletionTimestamp())
	}
	if _, ok := obj.(*corev1.Pod); ok && len(obj.GetFinalizers()) == 0 {
		obj.SetFinalizers(cur.GetFinalizers())
	}
	if err = w.raw.Update(ctx, obj); err != nil {
		return err
	}

	return w.applyStatus(obj)
}

func (w *world) applyStatus(obj client.Object) error {
	switch obj.(type) {
	case *v1alpha1.ExtendedDaemonSet, *v1alpha1.ExtendedDaemonSetReplicaSet, *v1alpha1.ExtendedDaemonsetSetting:
		cp := obj.DeepCopyObject().(client.Object)
		cur := obj.DeepCopyObject().(client.Object)
		if err := w.raw.Get(context.TODO(), client.ObjectKeyFromObject(obj), cur); err != nil {
			return err
		}
		cp.SetResourceVersion(cur.GetResourceVersion())

		return w.raw.Status().Update(context.TODO(), cp)
	}

	return nil
}

func (w *world) runOp(op opSpec) (so stepOut) {
	so.Op = op
	so.Op.Object = nil
	w.calls = nil
	w.faults = op.Faults
	w.writes = 0
	w.midDone = false
	w.midCmdDone = false
	w.midConflictErs = false
	w.curOp = op
	ctx := context.TODO()
	so.Now = time.Now().UnixNano()
	switch op.Op {
	case "sleep":
		time.Sleep(time.Duration(op.Seconds)*time.Second + time.Duration(op.Millis)*time.Millisecond)
	case "restart":
		w.freshControllers()
	case "concurrent":
		w.faults = op.Faults
		w.concurrent(op)
	case "kubelet":
		if err := w.kubelet(op); err != nil {
			so.Err = "kubelet: " + err.Error()
		}
	case "edit":
		if err := w.edit(op); err != nil {
			so.Err = "edit: " + err.Error()
		}
	case "apply":
		if err := w.apply(op.Object); err != nil {
			so.Err = "apply: " + err.Error()
		}
	case "delete", "finalize":
		obj, err := decodeObject(json.RawMessage(fmt.Sprintf(`{"kind":%q,"metadata":{"name":%q,"namespace":%q}}`, op.Kind, op.Name, op.Ns)))
		if err != nil {
			so.Err = err.Error()

			break
		}
		if err = w.raw.Get(ctx, types.NamespacedName{Namespace: op.Ns, Name: op.Name}, obj); err != nil {
			so.Err = "get: " + err.Error()

			break
		}
		if op.Op == "delete" {
			// environment deletion: remove at once, whatever the finalizers
			if len(obj.GetFinalizers()) > 0 {
				obj.SetFinalizers(nil)
				if err = w.raw.Update(ctx, obj); err != nil {
					so.Err = "update: " + err.Error()

					break
				}
			}
			if obj.GetDeletionTimestamp() == nil {
				if err = w.raw.Delete(ctx, obj); err != nil && !apierrors.IsNotFound(err) {
					so.Err = "delete: " + err.Error()
				}
			}
		} else if obj.GetDeletionTimestamp() != nil {
			obj.SetFinalizers(nil)
			if err = w.raw.Update(ctx, obj); err != nil {
				so.Err = "finalize: " + err.Error()
			}
		}
	case "reconcile", "cmd":
		if !op.NoDump {
			so.Pre = w.dump()
		}
		if op.Ctrl == "ers" {
			so.BoPre = backoffDump(w.ers)
		}
		func() {
			defer func() {
				if r := recover(); r != nil {
					if _, ok := r.(stopSignal); ok {
						so.Stopped = true
						w.freshControllers() // a fresh controller instance takes over

						return
					}
					so.Panic = fmt.Sprint(r)
					st := string(debug.Stack())
					if len(st) > 6000 {
						st = st[:6000]
					}
					so.Stack = st
				}
			}()
			if op.Op == "cmd" {
				var err error
				switch op.Cmd {
				case "canary_pause":
					err = plcanary.VerifRunPause(w.c, op.Ns, op.Name, true)
				case "canary_unpause":
					err = plcanary.VerifRunPause(w.c, op.Ns, op.Name, false)
				case "canary_validate":
					err = plcanary.VerifRunValidate(w.c, op.Ns, op.Name)
				case "canary_fail":
					err = plcanary.VerifRunFail(w.c, op.Ns, op.Name)
				case "ru_pause":
					err = plpause.VerifRunPause(w.c, op.Ns, op.Name, true)
				case "ru_unpause":
					err = plpause.VerifRunPause(w.c, op.Ns, op.Name, false)
				case "freeze":
					err = plfreeze.VerifRunFreeze(w.c, op.Ns, op.Name, true)
				case "unfreeze":
					err = plfreeze.VerifRunFreeze(w.c, op.Ns, op.Name, false)
				default:
					err = fmt.Errorf("unknown command %q", op.Cmd)
				}
				if err != nil {
					so.CmdError = err.Error()
				}

				return
			}
			req := reconcile.Request{NamespacedName: types.NamespacedName{Namespace: op.Ns, Name: op.Name}}
			var res reconcile.Result
			var err error
			w.mu.Lock()
			w.inReconcile = true
			w.mu.Unlock()
			defer func() {
				w.mu.Lock()
				w.inReconcile = false
				w.mu.Unlock()
			}()
			switch op.Ctrl {
			case "eds":
				res, err = w.eds.Reconcile(ctx, req)
			case "ers":
				res, err = w.ers.Reconcile(ctx, req)
			case "setting":
				res, err = w.set.Reconcile(ctx, req)
			case "podtemplate":
				res, err = w.pt.Reconcile(ctx, req)
			default:
				err = fmt.Errorf("unknown controller %q", op.Ctrl)
			}
			if w.isDead() {
				w.mu.Lock()
				w.dead = false
				w.mu.Unlock()
				so.Stopped = true
				w.freshControllers()

				return
			}
			so.Requeue, so.After = res.Requeue, int64(res.RequeueAfter)
			if err != nil {
				so.ErrCount = countErrors(err)
				so.Err = err.Error()
				if len(so.Err) > 300 {
					so.Err = so.Err[:300]
				}
			}
		}()
		if !op.NoDump {
			so.Post = w.dump()
		}
		if op.Ctrl == "ers" && !so.Stopped {
			so.BoPost = backoffDump(w.ers)
		}
	default:
		so.Err = "unknown op " + op.Op
	}
	so.Calls = w.calls
	if so.Calls == nil {
		so.Calls = []callLog{}
	}
	w.faults = nil

	return so
}

// countErrors: the number of leaf errors of a (possibly nested) aggregate.
func countErrors(err error) int {
	if err == nil {
		return 0
	}
	var agg interface{ Errors() []error }
	if errors.As(err, &agg) {
		n := 0
		for _, e := range agg.Errors() {
			n += countErrors(e)
		}

		return n
	}

	return 1
}

// concurrent runs the four controllers and a kubelet concurrently against the store for op.Seconds rounds:
// the schedule is the runtime's; the race detector watches.
func (w *world) concurrent(op opSpec) {
	ctx := context.TODO()
	rounds := int(op.Seconds)
	if rounds <= 0 {
		rounds = 3
	}
	var wg sync.WaitGroup
	run := func(f func()) {
		wg.Add(1)
		go func() {
			defer wg.Done()
			defer func() { _ = recover() }()
			for i := 0; i < rounds; i++ {
				f()
			}
		}()
	}
	var edsl v1alpha1.ExtendedDaemonSetList
	_ = w.raw.List(ctx, &edsl)
	for i := range edsl.Items {
		nn := types.NamespacedName{Namespace: edsl.Items[i].Namespace, Name: edsl.Items[i].Name}
		run(func() { _, _ = w.eds.Reconcile(ctx, reconcile.Request{NamespacedName: nn}) })
		run(func() { _, _ = w.pt.Reconcile(ctx, reconcile.Request{NamespacedName: nn}) })
	}
	var ersl v1alpha1.ExtendedDaemonSetReplicaSetList
	_ = w.raw.List(ctx, &ersl)
	for i := range ersl.Items {
		nn := types.NamespacedName{Namespace: ersl.Items[i].Namespace, Name: ersl.Items[i].Name}
		run(func() { _, _ = w.ers.Reconcile(ctx, reconcile.Request{NamespacedName: nn}) })
	}
	var setl v1alpha1.ExtendedDaemonsetSettingList
	_ = w.raw.List(ctx, &setl)
	for i := range setl.Items {
		nn := types.NamespacedName{Namespace: setl.Items[i].Namespace, Name: setl.Items[i].Name}
		run(func() { _, _ = w.set.Reconcile(ctx, reconcile.Request{NamespacedName: nn}) })
	}
	run(func() { _ = w.kubelet(opSpec{Cmd: "all"}) })
	wg.Wait()
}

// expand turns a wildcard reconcile ("name":"*" for the replica-set controller: every replica set of the
// namespace, in name order rotated by "seconds"; seconds < 0: those that are not active first) into one reconcile per
// object that exists now.
func (w *world) expand(op opSpec) []opSpec {
	if op.Op != "reconcile" || op.Name != "*" {
		return []opSpec{op}
	}
	ctx := context.TODO()
	var names []string
	switch op.Ctrl {
	case "ers":
		var l v1alpha1.ExtendedDaemonSetReplicaSetList
		_ = w.raw.List(ctx, &l, client.InNamespace(op.Ns))
		for i := range l.Items {
			names = append(names, l.Items[i].Name)
		}
	case "eds", "podtemplate":
		var l v1alpha1.ExtendedDaemonSetList
		_ = w.raw.List(ctx, &l, client.InNamespace(op.Ns))
		for i := range l.Items {
			names = append(names, l.Items[i].Name)
		}
	case "setting":
		var l v1alpha1.ExtendedDaemonsetSettingList
		_ = w.raw.List(ctx, &l, client.InNamespace(op.Ns))
		for i := range l.Items {
			names = append(names, l.Items[i].Name)
		}
	}
	sort.Strings(names)
	out := []opSpec{}
	n := len(names)
	if op.Ctrl == "ers" && op.Seconds < 0 {
		// the adversarial order: the replica sets that are not the active one of their ExtendedDaemonSet first
		var el v1alpha1.ExtendedDaemonSetList
		_ = w.raw.List(ctx, &el, client.InNamespace(op.Ns))
		active := map[string]bool{}
		for i := range el.Items {
			active[el.Items[i].Status.ActiveReplicaSet] = true
		}
		sort.SliceStable(names, func(i, j int) bool { return !active[names[i]] && active[names[j]] })
		op.Seconds = 0
	}
	for i := 0; i < n; i++ {
		x := op
		x.Name = names[(i+int(op.Seconds))%n]
		x.Seconds = 0
		out = append(out, x)
	}

	return out
}

// kubelet plays scheduler and kubelet for the pods selected by op.Cmd: "all", "finalize" (only remove
// terminating pods), "ready" (only start pods); op.Seconds > 0 restricts to pods whose index modulo
// op.Seconds is 0 (a partial settle).
const crashLoopAnnotation = "verif.example/crashloop"
const hungAnnotation = "verif.example/hung"

func (w *world) kubelet(op opSpec) error {
	ctx := context.TODO()
	var pods corev1.PodList
	if err := w.raw.List(ctx, &pods); err != nil {
		return err
	}
	activeRS := map[string]bool{}
	if op.Kind == "active" {
		var el v1alpha1.ExtendedDaemonSetList
		_ = w.raw.List(ctx, &el)
		for i := range el.Items {
			activeRS[el.Items[i].Namespace+"/"+el.Items[i].Status.ActiveReplicaSet] = true
		}
	}
	for i := range pods.Items {
		p := &pods.Items[i]
		if op.Seconds > 0 && int64(i)%op.Seconds != 0 {
			continue
		}
		if op.Ns != "" && p.Namespace != op.Ns {
			continue
		}
		// op.Kind "active": only the pods of an active replica set
		if op.Kind == "active" && !activeRS[p.Namespace+"/"+p.Labels[v1alpha1.ExtendedDaemonSetReplicaSetNameLabelKey]] {
			continue
		}
		// op.Kind "canary": only the pods carrying the canary label
		if op.Kind == "canary" && p.Labels[v1alpha1.ExtendedDaemonSetReplicaSetCanaryLabelKey] != v1alpha1.ExtendedDaemonSetReplicaSetCanaryLabelValue {
			continue
		}
		if op.Cmd == "restarted" || op.Cmd == "evict" {
			// "restarted": the containers of a running pod restarted once (and run again); "evict": the kubelet evicted
			// the pod (phase Failed, reason Evicted) - later kubelet passes leave a Failed pod alone
			if p.Status.Phase != corev1.PodRunning || p.Spec.NodeName == "" || p.DeletionTimestamp != nil {
				continue
			}
			now := metav1.NewTime(time.Now().Truncate(time.Second))
			st := p.Status.DeepCopy()
			if op.Cmd == "evict" {
				st.Phase = corev1.PodFailed
				st.Reason = "Evicted"
				for i := range st.Conditions {
					if st.Conditions[i].Type == corev1.PodReady {
						st.Conditions[i].Status = corev1.ConditionFalse
						st.Conditions[i].LastTransitionTime = now
					}
				}
			} else {
				if len(st.ContainerStatuses) == 0 {
					for _, c := range p.Spec.Containers {
						st.ContainerStatuses = append(st.ContainerStatuses, corev1.ContainerStatus{Name: c.Name, Ready: true,
							State: corev1.ContainerState{Running: &corev1.ContainerStateRunning{StartedAt: now}}})
					}
				}
				for i := range st.ContainerStatuses {
					st.ContainerStatuses[i].RestartCount++
					st.ContainerStatuses[i].LastTerminationState = corev1.ContainerState{Terminated: &corev1.ContainerStateTerminated{Reason: "Error", ExitCode: 1, FinishedAt: now}}
				}
			}
			p.Status = *st
			if err := w.raw.Status().Update(ctx, p); err != nil {
				return err
			}

			continue
		}
		if op.Cmd == "hang" {
			// the node of this pod stops answering: the pod is deleted gracefully and never goes away
			if p.DeletionTimestamp != nil || p.Spec.NodeName == "" {
				continue
			}
			if p.Annotations == nil {
				p.Annotations = map[string]string{}
			}
			p.Annotations[hungAnnotation] = "true"
			if err := w.raw.Update(ctx, p); err != nil {
				return err
			}
			if err := w.raw.Delete(ctx, p, client.GracePeriodSeconds(30)); err != nil {
				return err
			}
			// what the API server and the node life-cycle controller record: the grace period, and Ready=False
			cur := &corev1.Pod{}
			if err := w.raw.Get(ctx, client.ObjectKeyFromObject(p), cur); err != nil {
				return err
			}
			grace := int64(30)
			cur.DeletionGracePeriodSeconds = &grace
			st := cur.Status.DeepCopy()
			if err := w.raw.Update(ctx, cur); err != nil {
				return err
			}
			for i := range st.Conditions {
				if st.Conditions[i].Type == corev1.PodReady {
					st.Conditions[i].Status = corev1.ConditionFalse
				}
			}
			cur.Status = *st
			if err := w.raw.Status().Update(ctx, cur); err != nil {
				return err
			}

			continue
		}
		if p.DeletionTimestamp != nil {
			if p.Annotations[hungAnnotation] == "true" {
				continue
			}
			if op.Cmd == "all" || op.Cmd == "finalize" {
				p.Finalizers = nil
				if err := w.raw.Update(ctx, p); err != nil {
					return err
				}
			}

			continue
		}
		if op.Cmd == "crashloop" {
			// the containers of this pod start crash-looping and stay so: not Ready, waiting in CrashLoopBackOff,
			// a growing restart count; later kubelet passes leave the pod alone
			if p.Status.Phase != corev1.PodRunning || p.Spec.NodeName == "" {
				continue
			}
			now := metav1.NewTime(time.Now().Truncate(time.Second))
			if p.Annotations == nil {
				p.Annotations = map[string]string{}
			}
			p.Annotations[crashLoopAnnotation] = "true"
			st := p.Status.DeepCopy()
			if err := w.raw.Update(ctx, p); err != nil {
				return err
			}
			for i := range st.Conditions {
				if st.Conditions[i].Type == corev1.PodReady {
					st.Conditions[i].Status = corev1.ConditionFalse
					st.Conditions[i].LastTransitionTime = now
				}
			}
			if len(st.ContainerStatuses) == 0 {
				for _, c := range p.Spec.Containers {
					st.ContainerStatuses = append(st.ContainerStatuses, corev1.ContainerStatus{Name: c.Name})
				}
			}
			for i := range st.ContainerStatuses {
				st.ContainerStatuses[i].Ready = false
				st.ContainerStatuses[i].RestartCount += 3
				st.ContainerStatuses[i].State = corev1.ContainerState{Waiting: &corev1.ContainerStateWaiting{Reason: "CrashLoopBackOff"}}
				st.ContainerStatuses[i].LastTerminationState = corev1.ContainerState{Terminated: &corev1.ContainerStateTerminated{Reason: "Error", ExitCode: 1, FinishedAt: now}}
			}
			p.Status = *st
			if err := w.raw.Status().Update(ctx, p); err != nil {
				return err
			}

			continue
		}
		if op.Cmd != "all" && op.Cmd != "ready" {
			continue
		}
		if p.Annotations[crashLoopAnnotation] == "true" {
			continue
		}
		if p.Status.Phase == corev1.PodFailed || p.Status.Phase == corev1.PodSucceeded || p.Status.Phase == corev1.PodUnknown {
			continue
		}
		if p.Spec.NodeName == "" {
			n := podTargetNode(p)
			if n == "" {
				continue
			}
			node := &corev1.Node{}
			if err := w.raw.Get(ctx, types.NamespacedName{Name: n}, node); err != nil {
				continue // no such node: stays pending
			}
			p.Spec.NodeName = n
		}
		now := metav1.NewTime(time.Now().Truncate(time.Second))
		p.Status.Phase = corev1.PodRunning
		if p.Status.StartTime == nil {
			p.Status.StartTime = &now
		}
		p.Status.Conditions = []corev1.PodCondition{{Type: corev1.PodScheduled, Status: corev1.ConditionTrue}, {Type: corev1.PodReady, Status: corev1.ConditionTrue, LastTransitionTime: now}}
		var cs []corev1.ContainerStatus
		for _, c := range p.Spec.Containers {
			cs = append(cs, corev1.ContainerStatus{Name: c.Name, Ready: true, State: corev1.ContainerState{Running: &corev1.ContainerStateRunning{StartedAt: now}}})
		}
		p.Status.ContainerStatuses = cs
		// spec (binding) and status are separate writes on a real API server and on the fake client
		st := p.Status.DeepCopy()
		if err := w.raw.Update(ctx, p); err != nil {
			return err
		}
		p.Status = *st
		if err := w.raw.Status().Update(ctx, p); err != nil {
			return err
		}
	}

	return nil
}

// edit applies a small user/environment edit given as op.Cmd to the object op.Kind/op.Ns/op.Name:
// "image:<img>" (ExtendedDaemonSet template), "tmplname:<name>" (metadata.name of the pod template), "annotate:<k>=<v>", "unannotate:<k>", "label:<k>=<v>",
// "unlabel:<k>", "taint:<key>=<value>:<effect>", "untaint", "restart:<n>" (pod: container restart count).
func (w *world) edit(op opSpec) error {
	ctx := context.TODO()
	obj, err := decodeObject(json.RawMessage(fmt.Sprintf(`{"kind":%q,"metadata":{"name":%q,"namespace":%q}}`, op.Kind, op.Name, op.Ns)))
	if err != nil {
		return err
	}
	if err = w.raw.Get(ctx, types.NamespacedName{Namespace: op.Ns, Name: op.Name}, obj); err != nil {
		return err
	}
	verb, arg, _ := strings.Cut(op.Cmd, ":")
	kv := func() (string, string) { k, v, _ := strings.Cut(arg, "="); return k, v }
	switch verb {
	case "image":
		e, ok := obj.(*v1alpha1.ExtendedDaemonSet)
		if !ok || len(e.Spec.Template.Spec.Containers) == 0 {
			return fmt.Errorf("image edit needs an ExtendedDaemonSet with a container")
		}
		e.Spec.Template.Spec.Containers[0].Image = arg
	case "tmplannot":
		// an annotation on the pod template (spec.template.metadata.annotations)
		e, ok := obj.(*v1alpha1.ExtendedDaemonSet)
		if !ok {
			return fmt.Errorf("tmplannot edit needs an ExtendedDaemonSet")
		}
		k, v := kv()
		if e.Spec.Template.Annotations == nil {
			e.Spec.Template.Annotations = map[string]string{}
		}
		e.Spec.Template.Annotations[k] = v
	case "canary":
		// "canary:off" drops spec.strategy.canary (kept aside), "canary:on" puts it back
		e, ok := obj.(*v1alpha1.ExtendedDaemonSet)
		if !ok {
			return fmt.Errorf("canary edit needs an ExtendedDaemonSet")
		}
		if arg == "off" {
			if e.Spec.Strategy.Canary != nil {
				w.savedCanary = e.Spec.Strategy.Canary.DeepCopy()
			}
			e.Spec.Strategy.Canary = nil
		} else if w.savedCanary != nil {
			e.Spec.Strategy.Canary = w.savedCanary.DeepCopy()
		}
	case "tmplname":
		e, ok := obj.(*v1alpha1.ExtendedDaemonSet)
		if !ok {
			return fmt.Errorf("tmplname edit needs an ExtendedDaemonSet")
		}
		e.Spec.Template.Name = arg
	case "annotate":
		k, v := kv()
		a := obj.GetAnnotations()
		if a == nil {
			a = map[string]string{}
		}
		a[k] = v
		obj.SetAnnotations(a)
	case "unannotate":
		a := obj.GetAnnotations()
		delete(a, arg)
		obj.SetAnnotations(a)
	case "label":
		k, v := kv()
		a := obj.GetLabels()
		if a == nil {
			a = map[string]string{}
		}
		a[k] = v
		obj.SetLabels(a)
	case "unlabel":
		a := obj.GetLabels()
		delete(a, arg)
		obj.SetLabels(a)
	case "taint":
		n, ok := obj.(*corev1.Node)
		if !ok {
			return fmt.Errorf("taint needs a node")
		}
		k, rest := kv()
		v, eff, _ := strings.Cut(rest, ":")
		n.Spec.Taints = append(n.Spec.Taints, corev1.Taint{Key: k, Value: v, Effect: corev1.TaintEffect(eff)})
	case "untaint":
		n, ok := obj.(*corev1.Node)
		if !ok {
			return fmt.Errorf("untaint needs a node")
		}
		n.Spec.Taints = nil
	case "restart":
		p, ok := obj.(*corev1.Pod)
		if !ok {
			return fmt.Errorf("restart needs a pod")
		}
		var n int32
		fmt.Sscanf(arg, "%d", &n)
		now := metav1.NewTime(time.Now().Truncate(time.Second))
		if len(p.Status.ContainerStatuses) == 0 {
			for _, c := range p.Spec.Containers {
				p.Status.ContainerStatuses = append(p.Status.ContainerStatuses, corev1.ContainerStatus{Name: c.Name})
			}
		}
		for i := range p.Status.ContainerStatuses {
			p.Status.ContainerStatuses[i].RestartCount += n
			p.Status.ContainerStatuses[i].LastTerminationState = corev1.ContainerState{Terminated: &corev1.ContainerStateTerminated{Reason: "Error", ExitCode: 1, FinishedAt: now}}
		}
		if p.Status.StartTime == nil {
			p.Status.StartTime = &now
		}
	default:
		return fmt.Errorf("unknown edit %q", op.Cmd)
	}
	if p, ok := obj.(*corev1.Pod); ok && verb == "restart" {
		return w.raw.Status().Update(ctx, p)
	}

	return w.raw.Update(ctx, obj)
}

func runWorld(t *testing.T, raw json.RawMessage) (any, error) {
	var wc worldCase
	if err := json.Unmarshal(raw, &wc); err != nil {
		return nil, err
	}
	var objs []client.Object
	for _, r := range wc.Objects {
		o, err := decodeObject(r)
		if err != nil {
			return nil, err
		}
		objs = append(objs, o)
	}
	resolveHashes(objs)
	sort.SliceStable(objs, func(i, j int) bool {
		return strings.Compare(kindOf(objs[i])+"/"+objs[i].GetNamespace()+"/"+objs[i].GetName(), kindOf(objs[j])+"/"+objs[j].GetNamespace()+"/"+objs[j].GetName()) < 0
	})
	var steps []stepOut
	var final []json.RawMessage
	var fatal error
	synctest.Test(t, func(t *testing.T) {
		// a panic in this goroutine (the bubble's root) would take the whole binary down: turn it into an error
		defer func() {
			if r := recover(); r != nil {
				fatal = fmt.Errorf("harness panic while running the case: %v", r)
			}
		}()
		w := &world{t: t, opts: wc}
		for _, r := range wc.Objects {
			w.rememberRaw(r)
		}
		w.build(objs)
		// pre-seeded EDS/ERS/setting status must be written through the status subresource
		for _, o := range objs {
			if err := w.applyStatus(o); err != nil {
				fatal = err

				return
			}
		}
		for _, op := range wc.Ops {
			for _, x := range w.expand(op) {
				steps = append(steps, w.runOp(x))
			}
		}
		final = w.dump()
	})
	if fatal != nil {
		return nil, fatal
	}

	return map[string]any{"steps": steps, "final": final}, nil
}

// resolveHashes substitutes the placeholders the Python builders use for template hashes (they cannot
// reproduce Go's JSON marshalling): "@HASH" in a replica set = the hash of its own template;
// "@HASH:<rs name>" on a pod = the hash of that replica set's template (same namespace).
func resolveHashes(objs []client.Object) {
	hashes := map[string]string{}
	for _, o := range objs {
		if rs, ok := o.(*v1alpha1.ExtendedDaemonSetReplicaSet); ok {
			hashes[rs.Namespace+"/"+rs.Name] = tmplHash(&rs.Spec.Template)
		}
	}
	for _, o := range objs {
		switch x := o.(type) {
		case *v1alpha1.ExtendedDaemonSetReplicaSet:
			h := hashes[x.Namespace+"/"+x.Name]
			for k, v := range x.Annotations {
				if v == "@HASH" {
					x.Annotations[k] = h
				}
			}
			if x.Spec.TemplateGeneration == "@HASH" {
				x.Spec.TemplateGeneration = h
			}
		case *corev1.Pod:
			for k, v := range x.Annotations {
				if strings.HasPrefix(v, "@HASH:") {
					x.Annotations[k] = hashes[x.Namespace+"/"+strings.TrimPrefix(v, "@HASH:")]
				}
			}
		}
	}
}
