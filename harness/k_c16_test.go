//go:build verif && (h_world || h_all)

package harness

import (
	"encoding/json"
	"errors"
	"fmt"
	"testing"

	v1alpha1 "github.com/DataDog/extendeddaemonset/api/v1alpha1"
)

func init() { register("c16_default", c16Default) }

// c16Default: the real Default / IsDefaulted / Validate on one ExtendedDaemonSet spec (strategy + the
// template's name), for a controller-level default validation mode.
func c16Default(_ *testing.T, raw json.RawMessage) (any, error) {
	var c struct {
		Strategy     json.RawMessage `json:"strategy"`
		TemplateName string          `json:"template_name"`
		Mode         string          `json:"mode"`
	}
	if err := json.Unmarshal(raw, &c); err != nil {
		return nil, err
	}
	eds := &v1alpha1.ExtendedDaemonSet{}
	if err := json.Unmarshal(c.Strategy, &eds.Spec.Strategy); err != nil {
		return nil, fmt.Errorf("strategy: %w", err)
	}
	eds.Spec.Template.Name = c.TemplateName
	before := v1alpha1.IsDefaultedExtendedDaemonSet(eds)
	mode := v1alpha1.ExtendedDaemonSetSpecStrategyCanaryValidationMode(c.Mode)
	d1 := v1alpha1.DefaultExtendedDaemonSet(eds, mode)
	d2 := v1alpha1.DefaultExtendedDaemonSet(d1, mode)
	after := v1alpha1.IsDefaultedExtendedDaemonSet(d1)
	out := map[string]any{
		"defaulted":           d1.Spec.Strategy,
		"defaulted_name":      d1.Spec.Template.Name,
		"twice":               d2.Spec.Strategy,
		"is_defaulted_before": before,
		"is_defaulted_after":  after,
	}
	// validation may dereference nil: report it as class 99 instead of losing the other observations
	func() {
		defer func() {
			if r := recover(); r != nil {
				out["validate"] = 99
				out["validate_panic"] = fmt.Sprint(r)
			}
		}()
		err := v1alpha1.ValidateExtendedDaemonSetSpec(&d1.Spec)
		switch {
		case err == nil:
			out["validate"] = 0
		case errors.Is(err, v1alpha1.ErrInvalidAutoFailRestarts):
			out["validate"] = 1
		case errors.Is(err, v1alpha1.ErrInvalidCanaryTimeout):
			out["validate"] = 2
		case errors.Is(err, v1alpha1.ErrDurationWithManualValidationMode):
			out["validate"] = 3
		case errors.Is(err, v1alpha1.ErrNoRestartsDurationWithManualValidationMode):
			out["validate"] = 4
		default:
			out["validate"] = 50
		}
	}()

	return out, nil
}
