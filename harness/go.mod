module eds-verif-harness

go 1.26.8
