// Package harness is the implementation side of the correspondence check: a pure interpreter of
// JSON cases (one per line in $VERIF_CASES) that calls the real functions / Reconcile methods of
// /repo and prints one JSON result per line to $VERIF_OUT. Every random choice is made by the
// Python driver; nothing here is random except Go's map iteration order.
package harness

import (
	"bufio"
	"encoding/json"
	"fmt"
	"os"
	"runtime/debug"
	"strings"
	"testing"
)

// handler runs one case and returns its observable result.
type handler func(t *testing.T, raw json.RawMessage) (any, error)

var handlers = map[string]handler{}

func register(kind string, h handler) { handlers[kind] = h }

type caseHeader struct {
	ID   int    `json:"id"`
	Kind string `json:"kind"`
}

type result struct {
	ID    int    `json:"id"`
	Kind  string `json:"kind"`
	Panic string `json:"panic,omitempty"`
	Stack string `json:"stack,omitempty"`
	Err   string `json:"harness_error,omitempty"`
	Out   any    `json:"out,omitempty"`
}

func runOne(t *testing.T, line []byte) (res result) {
	var h caseHeader
	if err := json.Unmarshal(line, &h); err != nil {
		return result{Err: "bad case header: " + err.Error()}
	}
	res.ID, res.Kind = h.ID, h.Kind
	fn, ok := handlers[h.Kind]
	if !ok {
		res.Err = "no handler for kind " + h.Kind

		return res
	}
	defer func() {
		if r := recover(); r != nil {
			res.Panic = fmt.Sprint(r)
			st := string(debug.Stack())
			if len(st) > 4000 {
				st = st[:4000]
			}
			res.Stack = st
			res.Out = nil
		}
	}()
	out, err := fn(t, line)
	if err != nil {
		res.Err = err.Error()
	}
	res.Out = out

	return res
}

func TestCases(t *testing.T) {
	in, outp := os.Getenv("VERIF_CASES"), os.Getenv("VERIF_OUT")
	if in == "" || outp == "" {
		t.Skip("VERIF_CASES / VERIF_OUT not set")
	}
	f, err := os.Open(in)
	if err != nil {
		t.Fatal(err)
	}
	defer f.Close()
	of, err := os.Create(outp)
	if err != nil {
		t.Fatal(err)
	}
	defer of.Close()
	w := bufio.NewWriterSize(of, 1<<20)
	defer w.Flush()
	sc := bufio.NewScanner(f)
	sc.Buffer(make([]byte, 1<<20), 1<<28)
	enc := json.NewEncoder(w)
	n := 0
	for sc.Scan() {
		line := sc.Bytes()
		if len(strings.TrimSpace(string(line))) == 0 {
			continue
		}
		cp := append([]byte(nil), line...)
		res := runOne(t, cp)
		if err := enc.Encode(res); err != nil {
			t.Fatal(err)
		}
		n++
	}
	if err := sc.Err(); err != nil {
		t.Fatal(err)
	}
	fmt.Fprintf(os.Stderr, "harness: %d cases\n", n)
}
