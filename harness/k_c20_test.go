//go:build verif && (h_c20 || h_all)

package harness

import (
	"encoding/json"
	"math"
	"testing"

	metav1 "k8s.io/apimachinery/pkg/apis/meta/v1"
	generator "k8s.io/kube-state-metrics/v2/pkg/metric_generator"

	datadoghqv1alpha1 "github.com/DataDog/extendeddaemonset/api/v1alpha1"
	edsctrl "github.com/DataDog/extendeddaemonset/controllers/extendeddaemonset"
	ersctrl "github.com/DataDog/extendeddaemonset/controllers/extendeddaemonsetreplicaset"
	"github.com/DataDog/extendeddaemonset/pkg/controller/utils"
)

func init() {
	register("c20_labels", c20Labels)
	register("c20_eds_metrics", c20EdsMetrics)
	register("c20_ers_metrics", c20ErsMetrics)
}

// c20Labels: BuildInfoLabels on an arbitrary label map.
func c20Labels(_ *testing.T, raw json.RawMessage) (any, error) {
	var c struct {
		Labels map[string]string `json:"labels"`
		NilMap bool              `json:"nil_map"`
	}
	if err := json.Unmarshal(raw, &c); err != nil {
		return nil, err
	}
	om := &metav1.ObjectMeta{Labels: c.Labels}
	if c.NilMap {
		om.Labels = nil
	}
	keys, values := utils.BuildInfoLabels(om)
	if keys == nil {
		keys = []string{}
	}
	if values == nil {
		values = []string{}
	}

	return map[string]any{"keys": keys, "values": values}, nil
}

type famOut struct {
	Name   string   `json:"name"`
	Value  int64    `json:"value"`
	Exact  bool     `json:"exact"` // value was an integer
	Keys   []string `json:"keys"`
	Values []string `json:"values"`
}

func runFamilies(fams []generator.FamilyGenerator, obj any) []famOut {
	var out []famOut
	for _, f := range fams {
		fam := f.GenerateFunc(obj)
		for _, m := range fam.Metrics {
			out = append(out, famOut{Name: f.Name, Value: int64(m.Value), Exact: m.Value == math.Trunc(m.Value), Keys: append([]string{}, m.LabelKeys...), Values: append([]string{}, m.LabelValues...)})
		}
	}

	return out
}

func c20EdsMetrics(_ *testing.T, raw json.RawMessage) (any, error) {
	var c struct {
		// Before: earlier versions of the same object (same UID), exported first: what is exported for Obj must not depend on them
		Before []datadoghqv1alpha1.ExtendedDaemonSet `json:"before"`
		Obj    datadoghqv1alpha1.ExtendedDaemonSet   `json:"obj"`
	}
	if err := json.Unmarshal(raw, &c); err != nil {
		return nil, err
	}
	fams := edsctrl.VerifGenerateMetricFamilies()
	for i := range c.Before {
		runFamilies(fams, &c.Before[i])
	}

	return runFamilies(fams, &c.Obj), nil
}

func c20ErsMetrics(_ *testing.T, raw json.RawMessage) (any, error) {
	var c struct {
		Before []datadoghqv1alpha1.ExtendedDaemonSetReplicaSet `json:"before"`
		Obj    datadoghqv1alpha1.ExtendedDaemonSetReplicaSet   `json:"obj"`
	}
	if err := json.Unmarshal(raw, &c); err != nil {
		return nil, err
	}
	fams := ersctrl.VerifGenerateMetricFamilies()
	for i := range c.Before {
		runFamilies(fams, &c.Before[i])
	}

	return runFamilies(fams, &c.Obj), nil
}
