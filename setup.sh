#!/bin/sh
# Offline build of the framework: the Coq development (full .vo build) and a warm build of the
# harness binaries against /repo's working tree.  Run once after a fresh restore.
set -e
cd "$(dirname "$0")"
mkdir -p build evidence replays
(cd coq && coq_makefile -f _CoqProject -o Makefile >/dev/null && timeout 3000 make -j16)
python3 tools/warm.py
