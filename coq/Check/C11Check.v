(** * C11 correspondence cases and monitors: any failed API call or controller stop is recovered without
    breaking safety.  The monitors are those of C01, C03, C04, C05 and C12 (re-numbered) applied to EVERY
    step of a faulted run, plus the at-rest monitors of C02 on its final store and the comparison of that
    store with the failure-free run. *)
From EDS Require Import Model.Objects Check.World Check.C01Check Check.C03Check Check.C04Check Check.C05Check
     Check.C12Check Check.C02Check Proofs.Lists.

Inductive case :=
| W (c : World.case)
| Final (e : eds) (rss : list ers) (nodes : list node) (pods : list pod) (silent : bool) (same_as_baseline : bool).

(** re-number the codes of a property's check: its correspondence code 1 is dropped (judged once here) *)
Definition renum (base : N) (codes : list N) : list N :=
  flat_map (fun c => if N.eqb c 1 then [] else [(base + (c - 10))%N]) codes.

Definition chk (c : case) : list N :=
  match c with
  | W wc =>
      code_if (step_ok wc) 1 ++
      renum 30 (C01Check.chk wc) ++ renum 40 (C03Check.chk wc) ++ renum 50 (C04Check.chk wc) ++
      renum 60 (C05Check.chk wc) ++ renum 70 (C12Check.chk wc)
  | Final e rss nodes pods silent same =>
      renum 80 (C02Check.mon_final e rss nodes pods) ++ code_if silent 82 ++ code_if same 86
  end.
Definition run (cs : list case) : list (N * N) := run_cases chk 0%N cs.
