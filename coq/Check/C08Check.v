(** * C08 correspondence cases and monitors: pause and freeze annotations. *)
From EDS Require Import Model.Objects Model.PodSpec Model.Rolling Model.Canary Model.ErsReconcile
     Model.EdsLogic Model.EdsReconcile Check.World Proofs.Lists Proofs.RollingProofs.

Definition case := World.case.

Definition status_after (sn : ers_snapshot) (obs : ers_obs) : ers_status :=
  match ob_status obs with Some st => st | None => r_status (sn_rs sn) end.

Definition no_creates (obs : ers_obs) : bool := Nat.eqb (length (ob_creates obs)) 0.

Definition mon_ers (sn : ers_snapshot) (obs : ers_obs) : list N :=
  match ers_ctx sn with
  | None => []
  | Some cx =>
      let ann := e_annots (cx_eds cx) in
      match cx_role cx with
      | RoleActive =>
          match ers_rolling sn cx with
          | Some rp =>
              let upd := obs_update_nodes cx rp obs in
              code_if (negb (a3_true (an_rolling_paused ann)) || Nat.eqb (length upd) 0) 10 ++
              code_if (negb (a3_true (an_frozen ann)) || (Nat.eqb (length upd) 0 && no_creates obs)) 11
          | None => []
          end
      | RoleCanary =>
          let st := status_after sn obs in
          let paused := is_cond_true (rs_conds st) CT_CanaryPaused in
          let failed := is_cond_true (rs_conds st) CT_CanaryFailed in
          code_if (negb (paused || failed) || no_creates obs) 12 ++
          (* an unpause annotation lifts the pause unless failed; only judged when the sync got as far as
             writing a status (or had nothing to change) without an error *)
          code_if (negb (canary_unpaused ann) || failed || negb paused || ob_error obs) 13
      | RoleUnknown => []
      end
  end.

(** the replica set matching spec.template, as [Reconcile] finds it *)
Definition eds_uptodate (sn : eds_snapshot) (e : eds) : option ers := last_such (rs_up_to_date e) (rs_of_eds e (es_rss sn)).
Definition eds_active (sn : eds_snapshot) (e : eds) : option ers :=
  last_such (fun r => N.eqb (r_name r) (es_active (e_status e))) (rs_of_eds e (es_rss sn)).

Definition written_statuses (obs : eds_obs) : list eds_status :=
  flat_map (fun w => match w with OStatus st => [st] | _ => [] end) (eo_writes obs).

Definition mon_state_string (sn : eds_snapshot) (e : eds) (st' : eds_status) : bool :=
  match es_canary st' with
  | None => N.eqb (es_state st') (non_canary_state (e_annots e)) || N.eqb (es_state st') ST_CANARY_FAILED
  | Some c =>
      match find (fun r => N.eqb (r_name r) (cs_rs c)) (rs_of_eds e (es_rss sn)) with
      | Some u =>
          let '(paused, reason) := canary_paused (e_annots e) (Some (r_status u)) in
          N.eqb (es_state st') (if paused then ST_CANARY_PAUSED else ST_CANARY) &&
          N.eqb (es_reason st') (if paused then reason else 0%N)
      | None => false
      end
  end.

Definition mon_eds (sn : eds_snapshot) (obs : eds_obs) : list N :=
  match es_obj sn with
  | None => []
  | Some e =>
      if negb (Default.is_defaulted e) then [] else
      code_if (forallb (mon_state_string sn e) (written_statuses obs)) 14 ++
      match eds_active sn e, eds_uptodate sn e, st_canary (e_strategy e) with
      | Some a, Some u, Some _ =>
          if negb (N.eqb (r_name a) (r_name u)) && fst (canary_paused (e_annots e) (Some (r_status u))) &&
             negb (canary_valid (e_annots e) (r_name u))
          then code_if (forallb (fun st' => N.eqb (es_active st') (r_name a)) (written_statuses obs)) 15
          else []
      | _, _, _ => []
      end ++
      (* explicit validation resumes a paused canary: canary-valid names the new replica set, which is not failed =>
         every status written makes it the active one *)
      match eds_active sn e, eds_uptodate sn e, st_canary (e_strategy e) with
      | Some a, Some u, Some _ =>
          if negb (N.eqb (r_name a) (r_name u)) && canary_valid (e_annots e) (r_name u) &&
             negb (canary_failed_rs (r_status u))
          then code_if (forallb (fun st' => N.eqb (es_active st') (r_name u)) (written_statuses obs)) 16
          else []
      | _, _, _ => []
      end
  end.

Definition chk (c : case) : list N :=
  match c with
  | CErs sn obs => code_if (step_ok_ers sn obs) 1 ++ mon_ers sn obs
  | CEds sn obs => code_if (step_ok_eds sn obs) 1 ++ mon_eds sn obs
  end.
Definition run (cs : list case) : list (N * N) := run_cases chk 0%N cs.
