(** * C01 correspondence cases and monitors: at most one daemon pod per node, only on eligible nodes. *)
From EDS Require Import Model.Objects Model.Fitness Model.PodSpec Model.Filter Model.Rolling Model.ErsReconcile
     Check.World Proofs.Lists.

Definition case := World.case.

Definition pods_of_node (cx : sync_ctx) (nn : name) : list pod :=
  filter (fun p => match node_of_pod p with Some m => N.eqb m nn | None => false end) (cx_pods cx).
Definition is_live (p : pod) : bool := negb (phase_eqb (p_phase p) Failed) && negb (phase_eqb (p_phase p) PhUnknown).
Definition deleted (obs : ers_obs) (p : pod) : bool := memN (p_name p) (ob_pod_deletes obs).

(** every creation targets a listed, fit node on which every listed pod of the ExtendedDaemonSet is
    Failed or Unknown *)
Definition mon_create_only_if (sn : ers_snapshot) (cx : sync_ctx) (obs : ers_obs) : bool :=
  forallb (fun c =>
             let nn := fst c in
             existsb (fun n => N.eqb (n_name n) nn && fit (r_tmpl (sn_rs sn)) n) (map fst (cx_nodes cx)) &&
             forallb (fun p => negb (is_live p)) (pods_of_node cx nn)) (ob_creates obs).

Definition mon_create_nodup (cx : sync_ctx) (obs : ers_obs) : bool :=
  negb (nodupNb (cx_canary_nodes cx)) || nodupNb (map fst (ob_creates obs)).

Definition mon_unknown_role_inert (cx : sync_ctx) (obs : ers_obs) : bool :=
  match cx_role cx with
  | RoleUnknown => match ob_creates obs, ob_pod_deletes obs, ob_label_adds obs, ob_label_dels obs with
                   | [], [], [], [] => true | _, _, _, _ => false end
  | _ => true
  end.

(** no Unknown-phase pod of the replica set's namespace is ever deleted *)
Definition mon_unknown_phase_untouched (sn : ers_snapshot) (obs : ers_obs) : bool :=
  forallb (fun p => negb (N.eqb (p_ns p) (r_ns (sn_rs sn)) && phase_eqb (p_phase p) PhUnknown && deleted obs p))
          (sn_pods sn).

Definition cleanup_expected (sn : ers_snapshot) (cx : sync_ctx) (obs : ers_obs) : bool :=
  negb (ob_panic obs) &&
  match cx_role cx with
  | RoleActive => match ers_rolling sn cx with Some _ => true | None => false end
  | RoleCanary => match st_canary (e_strategy (cx_eds cx)) with Some _ => negb (ob_error obs && World.no_writes obs) | None => false end
  | RoleUnknown => false
  end.

Definition elig_of (sn : ers_snapshot) (cx : sync_ctx) : list name :=
  dedupN (eligible_nodes (sn_rs sn) (map fst (cx_nodes cx)) (cx_ignore cx)).

(** duplicates: at most one live, non-terminating pod per eligible node survives the sync; the
    survivor is a minimum of "scheduled, then oldest, then name" among the live pods (judged when no
    Failed pod shares the node - see DESIGN.md D11) *)
Definition mon_duplicates (sn : ers_snapshot) (cx : sync_ctx) (obs : ers_obs) : bool :=
  forallb (fun nn =>
             let ps := pods_of_node cx nn in
             let live := filter is_live ps in
             let surv := filter (fun p => negb (pod_terminating p) && negb (deleted obs p)) live in
             match surv with
             | [] => true
             | [k] => existsb (fun p => phase_eqb (p_phase p) Failed) ps ||
                      forallb (fun q => negb (pod_lt q k)) live
             | _ => false
             end) (elig_of sn cx).

(** pods on nodes that are not eligible (and not hidden from this role) are deleted *)
Definition mon_ineligible (sn : ers_snapshot) (cx : sync_ctx) (obs : ers_obs) : bool :=
  forallb (fun p =>
             match node_of_pod p with
             | Some nn =>
                 memN nn (elig_of sn cx) || memN nn (cx_ignore cx) || phase_eqb (p_phase p) PhUnknown ||
                 pod_terminating p || deleted obs p
             | None => true
             end) (cx_pods cx).

Definition chk (c : case) : list N :=
  match c with
  | CErs sn obs =>
      code_if (step_ok_ers sn obs) 1 ++ code_if (mon_unknown_phase_untouched sn obs) 13 ++
      match ers_ctx sn with
      | Some cx =>
          code_if (mon_create_only_if sn cx obs) 10 ++ code_if (mon_create_nodup cx obs) 11 ++
          code_if (mon_unknown_role_inert cx obs) 12 ++
          (if cleanup_expected sn cx obs
           then code_if (mon_duplicates sn cx obs) 14 ++ code_if (mon_ineligible sn cx obs) 15 else [])
      | None => code_if (Nat.eqb (length (ob_creates obs)) 0 && Nat.eqb (length (ob_pod_deletes obs)) 0) 16
      end
  | CEds _ _ => []
  end.
Definition run (cs : list case) : list (N * N) := run_cases chk 0%N cs.
