(** * C04 correspondence cases and monitors: canary blast radius. *)
From EDS Require Import Model.Objects Model.Fitness Model.PodSpec Model.Default Model.Filter Model.Rolling Model.Canary
     Model.ErsReconcile Model.EdsLogic Model.EdsReconcile Check.World Check.C01Check Check.C08Check Check.C15Check
     Proofs.Lists Proofs.C15Sync.

Definition case := World.case.

Definition pod_named (sn : ers_snapshot) (pn : name) : option pod :=
  find (fun p => N.eqb (p_name p) pn && N.eqb (p_ns p) (r_ns (sn_rs sn))) (sn_pods sn).
Definition on_canary_node (cx : sync_ctx) (p : pod) : bool :=
  match node_of_pod p with Some nn => memN nn (cx_canary_nodes cx) | None => false end.

Definition mon_ers (sn : ers_snapshot) (obs : ers_obs) : list N :=
  match ers_ctx sn with
  | None => []
  | Some cx =>
      let rs := sn_rs sn in
      let has_canary := match es_canary (e_status (cx_eds cx)) with Some _ => true | None => false end in
      (* 10: the canary replica set creates only on listed canary nodes *)
      code_if (match cx_role cx with
               | RoleCanary => forallb (fun c => memN (fst c) (cx_canary_nodes cx)) (ob_creates obs)
               | _ => true end) 10 ++
      (* 11: the active replica set neither creates nor deletes on canary nodes *)
      code_if (match cx_role cx with
               | RoleActive =>
                   negb has_canary ||
                   (forallb (fun c => negb (memN (fst c) (cx_canary_nodes cx))) (ob_creates obs) &&
                    forallb (fun pn => match pod_named sn pn with
                                       | Some p => negb (on_canary_node cx p)
                                       | None => true end) (ob_pod_deletes obs))
               | _ => true end) 11 ++
      (* 12: every created pod carries the syncing replica set's hash, labels and owner *)
      code_if (forallb (fun c => let np := snd c in
                                 N.eqb (np_hash np) (r_tmplgen rs) && N.eqb (np_rs_label np) (r_name rs) &&
                                 N.eqb (np_owner np) (r_name rs) && N.eqb (np_eds_label np) (r_eds_label rs) &&
                                 N.eqb (np_ns np) (r_ns rs)) (ob_creates obs)) 12 ++
      (* 13: canary label added only by the canary role, to its own pods on canary nodes *)
      code_if (forallb (fun pn => match cx_role cx, pod_named sn pn with
                                  | RoleCanary, Some p => N.eqb (p_rs_label p) (r_name rs) && on_canary_node cx p
                                  | _, _ => false end) (ob_label_adds obs)) 13 ++
      (* 14: canary label removed only by the active role, from its own pods *)
      code_if (forallb (fun pn => match cx_role cx, pod_named sn pn with
                                  | RoleActive, Some p => N.eqb (p_rs_label p) (r_name rs) && p_is_canary_labelled p
                                  | _, _ => false end) (ob_label_dels obs)) 14 ++
      (* 16: without a failing patch, a canary sync that got through labels all its kept pods on canary nodes *)
      code_if (match cx_role cx with
               | RoleCanary =>
                   ob_panic obs || ob_error obs || negb (Nat.eqb (length (f_patch (sn_faults sn))) 0) ||
                   subsetNb (canary_label_targets rs cx) (ob_label_adds obs)
               | _ => true end) 16 ++
      (* 17: pods lose the canary label once their replica set has become active: within the clean-up window that follows
         the activation, the active replica set's sync removes the label from every pod of its own that carries it -
         also while a NEWER canary is in progress *)
      code_if (match cx_role cx, ers_rolling sn cx with
               | RoleActive, Some rp =>
                   ob_panic obs || negb (tsub (sn_now sn) (rp_start rp) <? CLEAN_LABELS_THRESHOLD) ||
                   subsetNb (pod_names (filter (fun p => N.eqb (p_ns p) (r_ns rs) && p_is_canary_labelled p &&
                                                         N.eqb (p_rs_label p) (r_name rs)) (sn_pods sn)))
                            (ob_label_dels obs)
               | _, _ => true end) 17
  end.

(** 18: the ExtendedDaemonSet reconcile never adds nodes beyond the resolved replicas *)
Definition mon_eds (sn : eds_snapshot) (obs : eds_obs) : list N :=
  flat_map (fun code => if N.eqb code 13 then [18%N] else []) (C15Check.mon_eds sn obs).

Definition chk (c : case) : list N :=
  match c with
  | CErs sn obs => code_if (step_ok_ers sn obs) 1 ++ mon_ers sn obs
  | CEds sn obs => code_if (step_ok_eds sn obs) 1 ++ mon_eds sn obs
  end.
Definition run (cs : list case) : list (N * N) := run_cases chk 0%N cs.
