(** * C03 correspondence cases and monitors: the rolling update respects maxUnavailable. *)
From EDS Require Import Model.Objects Model.PodSpec Model.Rolling Model.ErsReconcile Check.World
     Proofs.Lists Proofs.RollingProofs.

Definition case := World.case.

(** every observed pod deletion is the update of a candidate node's pod or a clean-up *)
Definition mon_outside_budget (cx : sync_ctx) (rp : rolling_plan) (obs : ers_obs) : bool :=
  forallb (fun pn => memN pn (cx_cleanup cx) ||
                     existsb (fun nn => memN pn (pod_of_node (cx_items cx) nn))
                             (rp_del_unavailable rp ++ rp_del_available rp))
          (ob_pod_deletes obs).

Definition chk (c : case) : list N :=
  match c with
  | CErs sn obs =>
      code_if (step_ok_ers sn obs) 1 ++
      match ers_ctx sn with
      | Some cx =>
          match ers_rolling sn cx with
          | Some rp =>
              let chosen := obs_update_nodes cx rp obs in
              code_if (mon_budget rp chosen) 10 ++ code_if (mon_unavailable_first rp chosen) 11 ++
              code_if (mon_cap rp chosen) 12 ++ code_if (mon_outside_budget cx rp obs) 13
          | None => []
          end
      | None => []
      end
  | CEds _ _ => []
  end.
Definition run (cs : list case) : list (N * N) := run_cases chk 0%N cs.
