(** Correspondence only (no property monitor): used while developing the model and by the checks
    that tie the whole reconcile to the model. *)
From EDS Require Import Model.Objects Check.World.
Definition case := World.case.
Definition chk (c : case) : list N := code_if (step_ok c) 1.
Definition run (cs : list case) : list (N * N) := run_cases chk 0%N cs.
