(** * C02 correspondence cases and monitors: reconciliation converges to one Ready live-template pod per
    eligible node. *)
From EDS Require Import Model.Objects Model.Fitness Model.PodSpec Model.Default Model.Canary Model.ErsReconcile
     Model.EdsLogic Model.EdsReconcile Check.World Proofs.Lists.

(** The store after the fair tail of a history: the ExtendedDaemonSet, every replica set, node and pod;
    [silent] = the last two fair rounds issued no pod or replica-set creation/deletion; [rounds] = fair
    rounds until the first silent one, [bound] = the bound the theorems give for this configuration. *)
Inductive case :=
| W (c : World.case)
| Final (e : eds) (rss : list ers) (nodes : list node) (pods : list pod) (silent : bool) (rounds bound : Z).

Definition own_rss (e : eds) (rss : list ers) : list ers := rs_of_eds e rss.
Definition rs_named (e : eds) (rss : list ers) (n : name) : option ers :=
  find (fun r => N.eqb (r_name r) n) (own_rss e rss).

(** the replica set that serves a node at rest: the canary one on listed canary nodes, else the active one *)
Definition serving_rs (e : eds) (rss : list ers) (n : node) : option ers :=
  match es_canary (e_status e) with
  | Some c => if memN (n_name n) (cs_nodes c) then rs_named e rss (cs_rs c) else rs_named e rss (es_active (e_status e))
  | None => rs_named e rss (es_active (e_status e))
  end.

Definition eds_pod (e : eds) (p : pod) : bool := N.eqb (p_ns p) (e_ns e) && p_has_eds_label p (e_name e).
Definition pods_on_node (e : eds) (pods : list pod) (n : node) : list pod :=
  filter (fun p => eds_pod e p && match node_of_pod p with Some m => N.eqb m (n_name n) | None => false end) pods.

Definition eligible (e : eds) (rss : list ers) (n : node) : bool :=
  match serving_rs e rss n with Some r => fit (r_tmpl r) n | None => false end.

Definition mon_final (e : eds) (rss : list ers) (nodes : list node) (pods : list pod) : list N :=
  (* every eligible node runs exactly one daemon pod: Ready, not terminating, built from the live template *)
  code_if (forallb (fun n =>
             negb (eligible e rss n) ||
             match pods_on_node e pods n, serving_rs e rss n with
             | [p], Some r => p_ready p && negb (pod_terminating p) && option_eqb N.eqb (p_hash p) (Some (r_tmplgen r))
             | _, _ => false end) nodes) 10 ++
  (* no other daemon pod of the ExtendedDaemonSet remains *)
  code_if (forallb (fun p =>
             negb (eds_pod e p) ||
             match node_of_pod p with
             | Some m => existsb (fun n => N.eqb (n_name n) m && eligible e rss n) nodes
             | None => false end) pods) 11 ++
  (* the live template: spec.template unless a canary is in progress or has failed *)
  code_if (match rs_named e rss (es_active (e_status e)) with
           | Some a =>
               option_eqb N.eqb (r_hash_annot a) (Some (e_tmpl_hash e)) ||
               match es_canary (e_status e) with Some _ => true | None => false end ||
               N.eqb (es_state (e_status e)) ST_CANARY_FAILED
           | None => false end) 14 ++
  [].

(** C14's quiescence clause on the same final store (used by [C14Check]): desired = eligible nodes; current =
    ready = available = daemon pods; upToDate = daemon pods of the up-to-date template (the canary replica set's
    while a canary is in progress, else the active one's) *)
Definition mon_quiescent (e : eds) (rss : list ers) (nodes : list node) (pods : list pod) : list N :=
  let nel := count_if (eligible e rss) nodes in
  (* "daemon pods that exist": a pod stuck Terminating on a node that stopped answering is on its way out and is
     not counted (status.ignoredUnresponsiveNodes reports its node) *)
  let npods := count_if (fun p => eds_pod e p && negb (pod_terminating p)) pods in
  let st := e_status e in
  let live := match es_canary st with
              | Some c => rs_named e rss (cs_rs c)
              | None => rs_named e rss (es_active st) end in
  let nlive := match live with
               | Some r => count_if (fun p => eds_pod e p && negb (pod_terminating p) &&
                                            option_eqb N.eqb (p_hash p) (Some (r_tmplgen r))) pods
               | None => 0 end in
  (* known finding D9 seen from the status: a canary node that vanished or became ineligible stays on status.canary.nodes
     while the count matches, and the canary replica set goes on counting it as desired - code 118 instead of 18 *)
  let stale_canary_node :=
    match es_canary st with
    | Some c => existsb (fun nn => negb (existsb (fun n => N.eqb (n_name n) nn && eligible e rss n) nodes)) (cs_nodes c)
    | None => false end in
  (if (es_desired st =? nel) && (es_current st =? npods) && (es_ready st =? npods) && (es_available st =? npods) then []
   else if stale_canary_node then [118%N] else [18%N]) ++
  code_if (es_uptodate st =? nlive) 19.

Definition chk (c : case) : list N :=
  match c with
  | W wc => code_if (step_ok wc) 1
  | Final e rss nodes pods silent rounds bound =>
      mon_final e rss nodes pods ++ code_if silent 12 ++ code_if (rounds <=? bound) 15
  end.
Definition run (cs : list case) : list (N * N) := run_cases chk 0%N cs.
