(** * World: the shared correspondence cases - one implementation step (a real [Reconcile]) with the
    snapshot it read and what it did - and [step_ok]: the model predicts exactly that. *)
From EDS Require Import Model.Objects Model.Fitness Model.PodSpec Model.Backoff Model.Filter Model.Default
     Model.Limits Model.Rolling Model.Canary Model.ErsReconcile Model.EdsLogic Model.EdsReconcile Model.Eqb.

(** What one replica-set reconcile did, read off the API-call log and the return value. *)
Record ers_obs := MkErsObs {
  ob_creates : list (name * newpod);   (* target node (harness's own reading), object sent *)
  ob_pod_deletes : list name;          (* pods whose deletion was attempted *)
  ob_label_adds : list name;           (* pods patched so that they carry the canary label *)
  ob_label_dels : list name;           (* pods patched so that they no longer carry it *)
  ob_status : option ers_status;       (* status written *)
  ob_requeue : bool; ob_requeue_after : dur;
  ob_error : bool; ob_panic : bool
}.

Inductive obs_write :=
| OUpdate (e : eds)
| OStatus (st : eds_status)
| OCreateRs (r : new_rs)
| ODeleteRs (nm : name).
Record eds_obs := MkEdsObs {
  eo_writes : list obs_write;
  eo_requeue : bool; eo_requeue_after : dur;
  eo_error : bool; eo_panic : bool
}.

Inductive case :=
| CErs (sn : ers_snapshot) (obs : ers_obs)
| CEds (sn : eds_snapshot) (obs : eds_obs).

Definition choice_of (obs : ers_obs) : choice := MkChoice (map fst (ob_creates obs)) (ob_pod_deletes obs).

Definition no_writes (obs : ers_obs) : bool :=
  match ob_creates obs, ob_pod_deletes obs, ob_label_adds obs, ob_label_dels obs, ob_status obs with
  | [], [], [], [], None => true
  | _, _, _, _, _ => false
  end.

(** What is observed of a written status went through the API's JSON: time stamps have a resolution of one second.  The
    reconcile itself works with the instant it read from the clock (the model too); the comparison truncates. *)
Definition trunc_time (t : time) : time := (t / second) * second.
Definition trunc_cond (c : cond) : cond :=
  MkCond (c_type c) (c_status c) (trunc_time (c_trans c)) (trunc_time (c_update c)) (c_reason c) (c_message c).
Definition trunc_ers_status (st : ers_status) : ers_status := with_conds st (map trunc_cond (rs_conds st)).
Definition trunc_eds_status (st : eds_status) : eds_status := with_eds_conds st (map trunc_cond (es_conds st)).

Definition expected_status_write (sn : ers_snapshot) (pl : ers_plan) : option ers_status :=
  match pl_status pl with
  | Some st => if ers_status_eqb st (r_status (sn_rs sn)) then None else Some st
  | None => None
  end.

Definition nameset_eqb (a b : list name) : bool := multiset_eqb N.eqb a b.

Definition new_pods_match (pl : ers_plan) (obs : ers_obs) : bool :=
  forallb (fun o => match find (fun m => N.eqb (fst m) (fst o)) (pl_new_pods pl) with
                    | Some m => newpod_eqb (snd m) (snd o)
                    | None => false end) (ob_creates obs).

Definition ers_plan_matches (sn : ers_snapshot) (pl : ers_plan) (obs : ers_obs) : bool :=
  negb (ob_panic obs) &&
  nameset_eqb (pl_creates pl) (map fst (ob_creates obs)) && new_pods_match pl obs &&
  nameset_eqb (pl_deletes pl ++ pl_cleanup pl) (ob_pod_deletes obs) &&
  nameset_eqb (pl_label_add pl) (ob_label_adds obs) && nameset_eqb (pl_label_del pl) (ob_label_dels obs) &&
  option_eqb ers_status_eqb (option_map trunc_ers_status (expected_status_write sn pl)) (ob_status obs) &&
  Bool.eqb (pl_requeue pl) (ob_requeue obs) && (pl_requeue_after pl =? ob_requeue_after obs) &&
  Bool.eqb (pl_error pl) (ob_error obs).

Definition step_ok_ers (sn : ers_snapshot) (obs : ers_obs) : bool :=
  match ers_sync sn (choice_of obs) with
  | Panic _ => ob_panic obs
  | Error _ => negb (ob_panic obs) && ob_error obs && no_writes obs
  | Ok pl => ers_plan_matches sn pl obs
  end.

Definition write_matches (w : eds_write) (o : obs_write) : bool :=
  match w, o with
  | WDefault e, OUpdate e' => strategy_eqb (e_strategy e) (e_strategy e') && Bool.eqb (e_tmpl_name_set e) (e_tmpl_name_set e') &&
                              (N.eqb (e_tmpl_hash e) no_name || N.eqb (e_tmpl_hash e) (e_tmpl_hash e')) && annots_eqb (e_annots e) (e_annots e')
  | WCreateRs r, OCreateRs r' => new_rs_eqb r r'
  | WDeleteRs n, ODeleteRs n' => N.eqb n n'
  | WStatus st, OStatus st' => eds_status_eqb (trunc_eds_status st) st'
  | WSpec h ann, OUpdate e' => N.eqb h (e_tmpl_hash e') && annots_eqb ann (e_annots e')
  | _, _ => false
  end.

Fixpoint list_rel {A B} (r : A -> B -> bool) (l1 : list A) (l2 : list B) : bool :=
  match l1, l2 with
  | [], [] => true
  | x :: r1, y :: r2 => r x y && list_rel r r1 r2
  | _, _ => false
  end.

Definition step_ok_eds (sn : eds_snapshot) (obs : eds_obs) : bool :=
  match eds_sync sn with
  | Panic _ => eo_panic obs
  | Error _ => negb (eo_panic obs) && eo_error obs &&
               forallb (fun o => match o with ODeleteRs _ => true | _ => false end) (eo_writes obs)
  | Ok pl =>
      negb (eo_panic obs) && list_rel write_matches (ep_writes pl) (eo_writes obs) &&
      Bool.eqb (ep_error pl) (eo_error obs) &&
      (ep_error pl || (Bool.eqb (ep_requeue pl) (eo_requeue obs) && (ep_requeue_after pl =? eo_requeue_after obs)))
  end.

Definition step_ok (c : case) : bool :=
  match c with
  | CErs sn obs => step_ok_ers sn obs
  | CEds sn obs => step_ok_eds sn obs
  end.

(** Diagnosis of a mismatch (debug aid, not part of any verdict): which component differs.
    2 creates, 3 created objects, 4 deletions, 5 label adds, 6 label removals, 7 status, 8 requeue,
    9 requeue-after, 10 error flag, 11 outcome class, 12 back-off memory. *)
Definition diag_ers (sn : ers_snapshot) (obs : ers_obs) : list N :=
  match ers_sync sn (choice_of obs) with
  | Panic c => if ob_panic obs then [] else [11; 1000 + c]%N
  | Error c => if negb (ob_panic obs) && ob_error obs && no_writes obs then [] else [11; 2000 + c]%N
  | Ok pl =>
      code_if (negb (ob_panic obs)) 11 ++
      code_if (nameset_eqb (pl_creates pl) (map fst (ob_creates obs))) 2 ++
      code_if (new_pods_match pl obs) 3 ++
      code_if (nameset_eqb (pl_deletes pl ++ pl_cleanup pl) (ob_pod_deletes obs)) 4 ++
      code_if (nameset_eqb (pl_label_add pl) (ob_label_adds obs)) 5 ++
      code_if (nameset_eqb (pl_label_del pl) (ob_label_dels obs)) 6 ++
      code_if (option_eqb ers_status_eqb (option_map trunc_ers_status (expected_status_write sn pl)) (ob_status obs)) 7 ++
      code_if (Bool.eqb (pl_requeue pl) (ob_requeue obs)) 8 ++
      code_if (pl_requeue_after pl =? ob_requeue_after obs) 9 ++
      code_if (Bool.eqb (pl_error pl) (ob_error obs)) 10
  end.
Fixpoint first_bad_write (i : N) (ws : list eds_write) (os : list obs_write) : list N :=
  match ws, os with
  | [], [] => []
  | w :: r1, o :: r2 => if write_matches w o then first_bad_write (N.succ i) r1 r2 else [100 + i]%N
  | _, _ => [150 + i]%N
  end.
Definition diag_eds (sn : eds_snapshot) (obs : eds_obs) : list N :=
  match eds_sync sn with
  | Panic c => if eo_panic obs then [] else [21; 1000 + c]%N
  | Error c => [21; 2000 + c]%N
  | Ok pl =>
      code_if (negb (eo_panic obs)) 21 ++ first_bad_write 0 (ep_writes pl) (eo_writes obs) ++
      code_if (Bool.eqb (ep_error pl) (eo_error obs)) 23 ++
      code_if (Bool.eqb (ep_requeue pl) (eo_requeue obs)) 24 ++
      code_if (ep_requeue_after pl =? eo_requeue_after obs) 25
  end.
Definition diag (c : case) : list N :=
  match c with CErs sn obs => diag_ers sn obs | CEds sn obs => diag_eds sn obs end.

(** ** Context for the property monitors: what the sync derives from its lists (none when the sync
    returns early: no parent, parent not defaulted, gate closed, a list that cannot be built). *)
Definition ers_ctx (sn : ers_snapshot) : option sync_ctx :=
  if N.eqb (r_owner (sn_rs sn)) no_name then None else
  match sn_eds sn with
  | None => None
  | Some e =>
      if negb (is_defaulted e) then None else
      match st_freq (e_strategy e) with
      | None => None
      | Some freq =>
          match sync_gate sn freq with
          | Some _ => None
          | None => if f_list (sn_faults sn) then None
                    else match build_ctx sn e freq with Ok cx => Some cx | _ => None end
          end
      end
  end.

(** The Canary-Failed mark is the only durable record of a failure: whatever role a replica set has, short of being
    the active one, a reconcile of it never writes a status that lost the mark. *)
Definition mon_failed_sticky (sn : ers_snapshot) (obs : ers_obs) (code : N) : list N :=
  match ers_ctx sn with
  | None => []
  | Some cx =>
      match cx_role cx, ob_status obs with
      | RoleActive, _ | _, None => []
      | _, Some st => code_if (negb (canary_failed_rs (r_status (sn_rs sn))) || is_cond_true (rs_conds st) CT_CanaryFailed) code
      end
  end.

(** The rolling plan of the active role, recomputed for the monitors. *)
Definition ers_rolling (sn : ers_snapshot) (cx : sync_ctx) : option rolling_plan :=
  match cx_role cx with
  | RoleActive =>
      match rolling_plan_of (sn_rs sn) (e_annots (cx_eds cx)) (st_rolling (e_strategy (cx_eds cx))) (sn_now sn)
                            (planning_items cx) with
      | Ok rp => Some rp
      | _ => None
      end
  | _ => None
  end.

(** Nodes whose kept pod the implementation deleted, among the update candidates. *)
Definition obs_update_nodes (cx : sync_ctx) (rp : rolling_plan) (obs : ers_obs) : list name :=
  filter (fun nn => existsb (fun pn => memN pn (ob_pod_deletes obs)) (pod_of_node (cx_items cx) nn))
         (rp_del_unavailable rp ++ rp_del_available rp).
