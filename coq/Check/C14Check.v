(** * C14 correspondence cases and monitors: status tells the truth about replica sets and pods. *)
From EDS Require Import Model.Objects Model.Fitness Model.PodSpec Model.Default Model.Rolling Model.Canary Model.ErsReconcile
     Model.EdsLogic Model.EdsReconcile Model.Spec Check.World Check.C08Check Check.C02Check Proofs.Lists.

(** a reconcile step of a store or history, or the store at the end of a fair tail (see [C02Check]) *)
Definition case := C02Check.case.

Definition mon_status (sn : eds_snapshot) (e : eds) (u : ers) (st' : eds_status) : list N :=
  let rss := rs_of_eds e (es_rss sn) in
  match last_such (fun r => N.eqb (r_name r) (es_active st')) rss with
  | None => [17%N]     (* the status names an active replica set that was not listed *)
  | Some cur =>
      let f := facts_of (e_annots e) (st_canary (e_strategy e)) cur u in
      code_if ((es_current st' =? spec_current rss) && (es_ready st' =? spec_ready rss) &&
               (es_available st' =? spec_available rss)) 10 ++
      code_if ((es_desired st' =? spec_desired f cur u) && (es_uptodate st' =? spec_uptodate f cur u) &&
               (es_ignored st' =? spec_ignored f cur u)) 11 ++
      code_if (N.eqb (es_state st') (spec_state f (e_annots e)) &&
               N.eqb (es_reason st') (spec_reason f (es_reason (e_status e)))) 12 ++
      code_if (negb (sf_canary_strategy f) ||
               (Bool.eqb (is_cond_true (es_conds st') ECT_CanaryFailed) (spec_cond_failed f) &&
                Bool.eqb (is_cond_true (es_conds st') ECT_CanaryPaused) (spec_cond_paused f))) 13 ++
      code_if (negb (sf_canary_strategy f) || sf_canary_active f ||
               match es_canary st' with None => true | Some _ => false end) 14 ++
      (* while the canary is active, a Canary-Paused condition that is True names the reason the canary is paused for now
         (status.reason) *)
      code_if (negb (sf_canary_strategy f) || negb (spec_cond_paused f) || negb (sf_canary_active f) ||
               match get_cond (es_conds st') ECT_CanaryPaused with
               | Some c => N.eqb (c_reason c) (es_reason st')
               | None => false end) 16
  end.

Definition mon_eds (sn : eds_snapshot) (obs : eds_obs) : list N :=
  match es_obj sn with
  | None => []
  | Some e =>
      if negb (is_defaulted e) then [] else
      match eds_uptodate sn e with
      | Some u => flat_map (mon_status sn e u) (written_statuses obs)
      | None => []
      end
  end.

Definition orderedb (st : ers_status) : bool :=
  (0 <=? rs_available st) && (rs_available st <=? rs_ready st) && (rs_ready st <=? rs_current st) &&
  (rs_current st <=? rs_desired st).

Definition mon_ers (sn : ers_snapshot) (obs : ers_obs) : list N :=
  match ers_ctx sn, ob_status obs with
  | Some cx, Some st =>
      match cx_role cx with
      | RoleActive => match ers_rolling sn cx with Some _ => code_if (orderedb st) 15 | None => [] end
      | RoleCanary => if ob_panic obs || ob_error obs then [] else code_if (orderedb st) 15
      | RoleUnknown => []
      end
  | _, _ => []
  end.

Definition chk (c : case) : list N :=
  match c with
  | W (CErs sn obs) => code_if (step_ok_ers sn obs) 1 ++ mon_ers sn obs
  | W (CEds sn obs) => code_if (step_ok_eds sn obs) 1 ++ mon_eds sn obs
  | Final e rss nodes pods silent _ _ =>
      (* the quiescence clause is judged on a store the last two fair rounds left untouched *)
      if silent then mon_quiescent e rss nodes pods else []
  end.
Definition run (cs : list case) : list (N * N) := run_cases chk 0%N cs.
