(** * C10 correspondence cases and monitors: created pods are pinned, labelled and stable under the
    controller's comparison. *)
From EDS Require Import Model.Objects Model.Fitness Model.PodSpec Model.Rolling Model.Canary Model.ErsReconcile Model.Eqb
     Check.World Proofs.Lists.

Definition case := World.case.

(** the resources the property text demands for a container of the template on a node *)
Definition ref_resources (n : node) (os : option setting) (c : name * resources) : resources :=
  match find (fun ko => N.eqb (fst ko) (fst c)) (n_overrides n) with
  | Some (_, OvOk r) => r                                    (* node-annotation override *)
  | _ => match os with
         | Some s => match assoc_res (fst c) (s_containers s) with Some r => r | None => snd c end   (* the setting *)
         | None => snd c                                     (* the template *)
         end
  end.

Definition has_std_tolerations (tols : list toleration) : bool :=
  forallb (fun t => existsb (toleration_eqb t) tols) std_tolerations.

Definition mon_create (sn : ers_snapshot) (cx : sync_ctx) (c : name * newpod) : list N :=
  let nn := fst c in let np := snd c in
  match find (fun ns => N.eqb (n_name (fst ns)) nn) (cx_nodes cx) with
  | None => [10%N]
  | Some (n, os) =>
      let rs := sn_rs sn in
      (* bound to exactly the node it was created for *)
      code_if (if sn_affinity_mode sn
               then N.eqb (np_nodename np) no_name && N.eqb (affinity_node_name (np_affinity np)) nn &&
                    match np_affinity np with
                    | Some ts => forallb (fun t => existsb (fun f => freq_eqb f (name_field nn)) (nt_fields t)) ts
                    | None => false end
               else N.eqb (np_nodename np) nn) 10 ++
      (* owner, labels, hash, autoscaler annotation, default tolerations *)
      code_if (N.eqb (np_owner np) (r_name rs) && N.eqb (np_rs_label np) (r_name rs) &&
               N.eqb (np_eds_label np) (r_eds_label rs) && N.eqb (np_hash np) (r_tmplgen rs) &&
               np_autoscaler_annot np && has_std_tolerations (np_tolerations np) &&
               N.eqb (np_nodehash np) (n_nodehash n)) 11 ++
      (* container resources: override, else setting, else template *)
      code_if (list_eqb container_eqb (np_resources np)
                        (map (fun c => (fst c, ref_resources n os c)) (t_containers (r_tmpl rs)))) 12
  end.

(** a listed pod that is exactly what the sync would create now for its node *)
Definition as_created_now (sn : ers_snapshot) (i : nitem) (p : pod) : bool :=
  let rs := sn_rs sn in
  option_eqb N.eqb (p_hash p) (Some (r_tmplgen rs)) &&
  N.eqb (match p_nodehash p with Some h => h | None => no_name end) (n_nodehash (ni_node i)) &&
  list_eqb container_eqb (p_resources p)
           (map (fun c => (fst c, ref_resources (ni_node i) (ni_setting i) c)) (t_containers (r_tmpl rs))).

Definition mon_ers (sn : ers_snapshot) (obs : ers_obs) : list N :=
  match ers_ctx sn with
  | None => []
  | Some cx =>
      flat_map (mon_create sn cx) (ob_creates obs) ++
      (* round trip: a pod that is what would be created now is never deleted in order to update it *)
      code_if (forallb (fun i => match ni_pod i with
                                 | Some p => negb (as_created_now sn i p) || negb (memN (p_name p) (ob_pod_deletes obs)) ||
                                             memN (p_name p) (cx_cleanup cx)
                                 | None => true end) (cx_items cx)) 13
  end.

Definition chk (c : case) : list N :=
  match c with
  | CErs sn obs => code_if (step_ok_ers sn obs) 1 ++ mon_ers sn obs
  | CEds sn obs => code_if (step_ok_eds sn obs) 1
  end.
Definition run (cs : list case) : list (N * N) := run_cases chk 0%N cs.
