(** * C05 correspondence cases and monitors: the promotion rule. *)
From EDS Require Import Model.Objects Model.Fitness Model.PodSpec Model.Default Model.Canary Model.EdsLogic
     Model.EdsReconcile Check.World Check.C08Check Proofs.Lists.

Definition case := World.case.

(** reference reading of "ended by time", written from the property text *)
Definition ref_ended (c : canary_spec) (u : ers) (now : time) : bool :=
  match ca_duration c with
  | None => false
  | Some d =>
      (r_created u + d <? now) &&
      match ca_norestarts c, get_cond (rs_conds (r_status u)) CT_PodRestarting with
      | Some nrd, Some rc => is_zero_time (c_update rc) || (c_update rc + nrd <? now)
      | Some nrd, None => 0 <? d          (* no restart recorded: the code compares -duration with 0 *)
      | None, _ => 0 <? d
      end
  end.

Definition rule_allows (e : eds) (u : ers) (now : time) : bool :=
  match st_canary (e_strategy e) with
  | None => true
  | Some c =>
      negb (canary_failed_rs (r_status u)) &&
      (canary_valid (e_annots e) (r_name u) ||
       (negb (fst (canary_paused (e_annots e) (Some (r_status u)))) && ref_ended c u now))
  end.

Definition mon_status (sn : eds_snapshot) (e : eds) (st' : eds_status) : list N :=
  match eds_active sn e, eds_uptodate sn e with
  | Some a, Some u =>
      if N.eqb (r_name a) (r_name u) then code_if (N.eqb (es_active st') (r_name a)) 11
      else
        code_if (N.eqb (es_active st') (r_name a) || N.eqb (es_active st') (r_name u)) 11 ++
        code_if (negb (N.eqb (es_active st') (r_name u)) || rule_allows e u (es_now sn)) 10 ++
        code_if (negb (canary_failed_rs (r_status u)) || match st_canary (e_strategy e) with None => true | Some _ => N.eqb (es_active st') (r_name a) end) 12 ++
        code_if (match st_canary (e_strategy e) with
                 | Some c => negb (vmode_eqb (ca_mode c) VManual) || canary_valid (e_annots e) (r_name u) ||
                             N.eqb (es_active st') (r_name a)
                 | None => true end) 13
  | None, Some u => code_if (N.eqb (es_active st') (r_name u)) 14
  | _, None => []
  end.

Definition mon_eds (sn : eds_snapshot) (obs : eds_obs) : list N :=
  match es_obj sn with
  | None => []
  | Some e =>
      if negb (is_defaulted e) then [] else
      flat_map (mon_status sn e) (written_statuses obs) ++
      (* the wake-up: when only time is missing, the reconcile asks to be requeued exactly then *)
      match eds_active sn e, eds_uptodate sn e, st_canary (e_strategy e) with
      | Some a, Some u, Some c =>
          if negb (N.eqb (r_name a) (r_name u)) && negb (eo_error obs) && negb (eo_panic obs) &&
             match validate (e_strategy e) with Ok _ => true | _ => false end
          then let '(ended, rq) := canary_ended (Some c) u (es_now sn) in
               code_if (ended || (rq <=? 0) || (eo_requeue_after obs =? rq)) 15
          else []
      | _, _, _ => []
      end
  end.

Definition chk (c : case) : list N :=
  match c with
  | CErs sn obs => code_if (step_ok_ers sn obs) 1 ++ mon_failed_sticky sn obs 16
  | CEds sn obs => code_if (step_ok_eds sn obs) 1 ++ mon_eds sn obs
  end.
Definition run (cs : list case) : list (N * N) := run_cases chk 0%N cs.
