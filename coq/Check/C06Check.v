(** * C06 correspondence cases and monitors: auto-fail and auto-pause triggers. *)
From EDS Require Import Model.Objects Model.Fitness Model.PodSpec Model.Rolling Model.Canary Model.ErsReconcile
     Check.World Check.C08Check Proofs.Lists Proofs.CanaryProofs Proofs.C06Proofs.

Definition case := World.case.

Definition mon_ers (sn : ers_snapshot) (obs : ers_obs) : list N :=
  match ers_ctx sn with
  | None => []
  | Some cx =>
      match cx_role cx, st_canary (e_strategy (cx_eds cx)) with
      | RoleCanary, Some c =>
          match canary_cfg_of (Some c) with
          | None => []
          | Some cfg =>
              if ob_panic obs || f_status (sn_faults sn) then [] else
              let rs := sn_rs sn in
              let now := sn_now sn in
              let ann := e_annots (cx_eds cx) in
              let read := r_status rs in
              (* the Canary condition as [applyStrategy] leaves it before the evaluation *)
              let c0 := update_cond (rs_conds read) now CT_Canary CTrue no_name no_name false false in
              let c1 := update_cond c0 now CT_Active CFalse no_name no_name false false in
              let start_cond := get_cond c1 CT_Canary in
              let restart_cond := get_cond c1 CT_PodRestarting in
              let pods := cn_check (canary_scan_of rs (cx_listed cx) (cx_items cx) (cx_canary_nodes cx)) in
              let failed_ref := canary_failed_rs read || existsb (fail_trigger cfg now start_cond restart_cond) pods in
              let paused_ref := if canary_unpaused ann then false
                                else fst (canary_paused ann (Some read)) || existsb (pause_trigger cfg now) pods in
              let after := status_after sn obs in
              let failed_obs := is_cond_true (rs_conds after) CT_CanaryFailed in
              let paused_obs := is_cond_true (rs_conds after) CT_CanaryPaused in
              code_if (Bool.eqb failed_obs failed_ref) 10 ++
              code_if (failed_ref || Bool.eqb paused_obs paused_ref) 11 ++
              (* sticky: failed before => failed after, whatever the pods and annotations *)
              code_if (negb (canary_failed_rs read) || failed_obs) 12 ++
              (* no further canary pod while paused or failed *)
              code_if (negb (failed_obs || paused_obs) || no_creates obs) 13 ++
              (* "the span between the first and the latest observed restart" / "since the last canary pod restart": the
                 latest observed restart (lastUpdateTime of PodRestarting) never moves backwards, and the first one
                 (lastTransitionTime) is kept once recorded *)
              code_if (match get_cond (rs_conds read) CT_PodRestarting, get_cond (rs_conds after) CT_PodRestarting with
                       | Some before, Some aft => (c_update before <=? c_update aft) &&
                                                  (negb (cstatus_eqb (c_status before) CTrue) || (c_trans before =? c_trans aft))
                       | Some _, None => false
                       | None, _ => true end) 14
          end
      | _, _ => []
      end
  end.

Definition chk (c : case) : list N :=
  match c with
  | CErs sn obs => code_if (step_ok_ers sn obs) 1 ++ mon_ers sn obs
  | CEds sn obs => code_if (step_ok_eds sn obs) 1
  end.
Definition run (cs : list case) : list (N * N) := run_cases chk 0%N cs.
