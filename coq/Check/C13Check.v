(** * C13 correspondence cases and monitors: one replica set per template, faithful, never collected
    while in use; PodTemplate mirror. *)
From EDS Require Import Model.Objects Model.Fitness Model.PodSpec Model.Default Model.Canary Model.ErsReconcile
     Model.EdsLogic Model.EdsReconcile Model.PodTemplate Check.World Check.C08Check Proofs.Lists.

Inductive case :=
| W (c : World.case)
| Pt (oe : option eds) (opt : option podtemplate) (fail : bool) (obs : list pt_write) (err panic : bool).

Definition zero_status (r : ers) : bool :=
  rs_desired (r_status r) + rs_current (r_status r) + rs_ready (r_status r) + rs_available (r_status r) =? 0.

Definition mon_eds (sn : eds_snapshot) (obs : eds_obs) : list N :=
  match es_obj sn with
  | None => []
  | Some e =>
      let rss := rs_of_eds e (es_rss sn) in
      (* "the active replica set" = the one the promotion rule selects in this reconcile: the status written
         names it; when no status was written (a rejected deletion ends the reconcile) the rule itself *)
      let active_after :=
        match rev (written_statuses obs), eds_uptodate sn e with
        | st' :: _, _ => es_active st'
        | [], Some u => r_name (fst (select_current (e_annots e) (st_canary (e_strategy e)) (eds_active sn e) u (es_now sn)))
        | [], None => es_active (e_status e)
        end in
      flat_map (fun w =>
        match w with
        | OCreateRs nr =>
            (* created only when no listed replica set matches the template; faithful to it *)
            code_if (forallb (fun r => negb (option_eqb N.eqb (r_hash_annot r) (Some (e_tmpl_hash e)))) rss) 10 ++
            code_if (N.eqb (nr_hash_annot nr) (e_tmpl_hash e) && N.eqb (nr_tmplgen nr) (e_tmpl_hash e) &&
                     N.eqb (nr_tmpl_hash nr) (e_tmpl_hash e) && N.eqb (nr_ns nr) (e_ns e) &&
                     N.eqb (nr_eds_label nr) (e_name e) && N.eqb (nr_owner nr) (e_name e)) 12
        | ODeleteRs n =>
            match find (fun r => N.eqb (r_name r) n) rss with
            | None => [11%N]
            | Some r =>
                code_if (negb (N.eqb n active_after) &&
                         match eds_uptodate sn e with Some u => negb (N.eqb n (r_name u)) | None => true end &&
                         zero_status r &&
                         negb (is_cond_true (rs_conds (r_status r)) CT_CanaryFailed &&
                               match get_cond (rs_conds (r_status r)) CT_CanaryFailed with
                               | Some c => es_now sn <? c_trans c + 2 * minute | None => false end)) 11
            end
        | _ => []
        end) (eo_writes obs)
  end.

(** pods carry the hash of the replica set that creates them *)
Definition mon_ers (sn : ers_snapshot) (obs : ers_obs) : list N :=
  code_if (forallb (fun c => N.eqb (np_hash (snd c)) (r_tmplgen (sn_rs sn))) (ob_creates obs)) 13.

Definition chk (c : case) : list N :=
  match c with
  | W (CErs sn obs) => code_if (step_ok_ers sn obs) 1 ++ mon_ers sn obs
  | W (CEds sn obs) => code_if (step_ok_eds sn obs) 1 ++ mon_eds sn obs
  | Pt oe opt fail obs err panic =>
      match podtemplate_sync oe opt fail with
      | Ok (ws, e) => code_if (negb panic && list_eqb pt_write_eqb ws obs && Bool.eqb e err) 1
      | Error _ => code_if (negb panic && err && match obs with [] => true | _ => false end) 1
      | Panic _ => code_if panic 1
      end ++
      (* after the reconcile the PodTemplate mirrors spec.template and its hash *)
      match oe with
      | Some e =>
          if fail || panic || match opt with Some p => negb (pt_faithful p) | None => false end then [] else
          code_if (match pt_after opt obs with
                   | Some p => option_eqb N.eqb (pt_hash_annot p) (Some (e_tmpl_hash e)) && N.eqb (pt_tmpl_hash p) (e_tmpl_hash e) &&
                               N.eqb (pt_name p) (e_name e) && N.eqb (pt_ns p) (e_ns e)
                   | None => false end) 15
      | None => []
      end
  end.
Definition run (cs : list case) : list (N * N) := run_cases chk 0%N cs.
