(** * C09 correspondence cases and monitors: slow start and the spacing of syncs. *)
From EDS Require Import Model.Objects Model.PodSpec Model.Limits Model.Rolling Model.ErsReconcile Check.World
     Proofs.Lists Proofs.RollingProofs.

Definition case := World.case.

(** The reference formula of the property, written independently of [max_creation]:
    min(maxParallelPodCreation, (1 + floor(t / interval)) * increase), t = now - start of the ramp. *)
Definition ref_ramp (sn : ers_snapshot) (cx : sync_ctx) : option Z :=
  let ru := st_rolling (e_strategy (cx_eds cx)) in
  match ru_increase ru, ru_interval ru, ru_max_parallel ru with
  | Some inc, Some iv, Some mp =>
      match resolve_iop inc (zlen (planning_items cx)) with
      | Some sv =>
          let t := sn_now sn - rolling_start (r_status (sn_rs sn)) (sn_now sn) in
          Some (Z.min ((1 + (if iv >? 0 then t / iv else 0)) * sv) mp)
      | None => None
      end
  | _, _, _ => None
  end.

Definition touches_pods (obs : ers_obs) : bool :=
  negb (Nat.eqb (length (ob_creates obs)) 0) || negb (Nat.eqb (length (ob_pod_deletes obs)) 0).

(** the gate as the property states it: a sync younger than reconcileFrequency after the last full sync
    issues no pod creation or deletion *)
Definition mon_gate (sn : ers_snapshot) (obs : ers_obs) : bool :=
  match sn_eds sn with
  | Some e =>
      match st_freq (e_strategy e), get_cond (rs_conds (r_status (sn_rs sn))) CT_LastFullSync with
      | Some freq, Some c => if sn_now sn <? c_update c + freq then negb (touches_pods obs) else true
      | _, _ => true
      end
  | None => true
  end.

(** a sync that touched pods and wrote its status stamped LastFullSync with the instant of the sync *)
Definition mon_stamp (sn : ers_snapshot) (obs : ers_obs) : bool :=
  if touches_pods obs then
    match ob_status obs with
    | Some st => match get_cond (rs_conds st) CT_LastFullSync with
                 | Some c => c_update c =? trunc_time (sn_now sn)   (* as stored: one-second resolution *)
                 | None => false
                 end
    | None => true    (* the write failed or changed nothing: outside the statement's hypothesis *)
    end
  else true.

Definition chk (c : case) : list N :=
  match c with
  | CErs sn obs =>
      code_if (step_ok_ers sn obs) 1 ++ code_if (mon_gate sn obs) 12 ++ code_if (mon_stamp sn obs) 13 ++
      (* "t is the time since its Active condition last became true": a replica set synced in another role (superseded,
         or a canary) does not keep a True Active condition - else the ramp of a later re-activation starts in the past *)
      match ers_ctx sn, ob_status obs with
      | Some cx, Some st =>
          match cx_role cx with
          | RoleActive => []
          | _ => code_if (negb (is_cond_true (rs_conds st) CT_Active)) 14
          end
      | _, _ => []
      end ++
      match ers_ctx sn with
      | Some cx =>
          match ers_rolling sn cx with
          | Some rp =>
              code_if (match ref_ramp sn cx with
                       | Some m => (zlen (ob_creates obs) <=? Z.max 0 m) &&
                                   (zlen (ob_creates obs) <=? zlen (rp_create_candidates rp))
                       | None => Nat.eqb (length (ob_creates obs)) 0
                       end) 10 ++
              code_if (mon_cap rp (obs_update_nodes cx rp obs)) 11
          | None => []
          end
      | None => []
      end
  | CEds _ _ => []
  end.
Definition run (cs : list case) : list (N * N) := run_cases chk 0%N cs.
