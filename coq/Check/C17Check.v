(** * C17 correspondence cases and monitors: no error of a parallel pod operation is lost. *)
From EDS Require Import Model.Objects Model.PodSpec Model.Filter Model.Rolling Model.Canary Model.ErsReconcile Model.Fanin
     Check.World Check.C01Check Check.C08Check Proofs.Lists.

(** a replica-set step together with the number of leaf errors in the aggregate the sync returned *)
Inductive case :=
| W (c : World.case)
| EC (sn : ers_snapshot) (obs : ers_obs) (err_count : Z).

Definition faults_present (sn : ers_snapshot) : bool :=
  let f := sn_faults sn in
  negb (Nat.eqb (length (f_create f)) 0) || negb (Nat.eqb (length (f_delete f)) 0) || f_status f.

Definition chk (c : case) : list N :=
  match c with
  | W wc => code_if (step_ok wc) 1
  | EC sn obs n =>
      code_if (step_ok_ers sn obs) 1 ++
      let fl := sn_faults sn in
      let failed_creates := filter (fun cr => memN (fst cr) (f_create fl)) (ob_creates obs) in
      let failed_deletes := filter (fun pn => memN pn (f_delete fl)) (ob_pod_deletes obs) in
      let nfail := zlen failed_creates + zlen failed_deletes in
      (* every failed creation / deletion is one error of the returned aggregate (a rejected status write adds one) *)
      (* judged when the sync got as far as its batches (its lists and its strategy did not fail for another reason) *)
      let judged := match ers_ctx sn with
                    | Some cx => match cx_role cx with
                                 | RoleActive => match ers_rolling sn cx with Some _ => true | None => false end
                                 | RoleCanary => match st_canary (e_strategy (cx_eds cx)) with Some _ => true | None => false end
                                 | RoleUnknown => true end
                    | None => false end in
      code_if (ob_panic obs || negb judged || ((nfail <=? n) && (n <=? nfail + (if f_status fl then 1 else 0)))) 10 ++
      code_if (ob_panic obs || (nfail =? 0) || ob_error obs) 13 ++
      (* ... and is reflected in ReconcileError of the status written *)
      code_if (match ob_status obs with
               | Some st => Bool.eqb (is_cond_true (rs_conds st) CT_ReconcileError) (negb (nfail =? 0)) ||
                            (* a sync that only reports "parent not defaulted" sets the condition too *)
                            match ers_ctx sn with None => true | Some _ => false end
               | None => true end) 11 ++
      (* PodsCleanupDone: False iff a clean-up deletion failed *)
      match ers_ctx sn, ob_status obs with
      | Some cx, Some st =>
          if cleanup_expected sn cx obs && negb (Nat.eqb (length (fo_cleanup (cx_fo cx))) 0) then
            code_if (Bool.eqb (is_cond_true (rs_conds st) CT_PodsCleanupDone)
                              (Nat.eqb (length (failed_of (cx_cleanup cx) (f_delete fl))) 0)) 12
          else []
      | _, _ => []
      end
  end.
Definition run (cs : list case) : list (N * N) := run_cases chk 0%N cs.
