(** * C07 correspondence cases and monitors: a failed canary is rolled back to the active version. *)
From EDS Require Import Model.Objects Model.Fitness Model.PodSpec Model.Default Model.Canary Model.ErsReconcile
     Model.EdsLogic Model.EdsReconcile Check.World Check.C08Check Check.C02Check Proofs.Lists.

(** a reconcile step of a store or history, or the store at the end of a fair tail (see [C02Check]) *)
Definition case := C02Check.case.

Definition mon_eds (sn : eds_snapshot) (obs : eds_obs) : list N :=
  match es_obj sn with
  | None => []
  | Some e =>
      if negb (is_defaulted e) || match validate (e_strategy e) with Ok _ => false | _ => true end then [] else
      (* retention: a replica set marked failed is not deleted within two minutes, and never with pods *)
      flat_map (fun w => match w with
                         | ODeleteRs n =>
                             match find (fun r => N.eqb (r_name r) n) (rs_of_eds e (es_rss sn)) with
                             | Some r =>
                                 code_if (negb (is_cond_true (rs_conds (r_status r)) CT_CanaryFailed) ||
                                          match get_cond (rs_conds (r_status r)) CT_CanaryFailed with
                                          | Some c => c_trans c + 2 * minute <=? es_now sn | None => true end) 13 ++
                                 code_if (rs_desired (r_status r) + rs_current (r_status r) + rs_ready (r_status r) +
                                          rs_available (r_status r) =? 0) 14
                             | None => []
                             end
                         | _ => [] end) (eo_writes obs) ++
      match eds_active sn e, eds_uptodate sn e, st_canary (e_strategy e) with
      | Some a, Some u, Some _ =>
          if negb (N.eqb (r_name a) (r_name u)) && canary_failed_rs (r_status u) then
            (* the rollback: statuses clear the canary, keep the active replica set, report the failure *)
            code_if (forallb (fun st' => match es_canary st' with None => true | Some _ => false end &&
                                         N.eqb (es_active st') (r_name a) && N.eqb (es_state st') ST_CANARY_FAILED)
                             (written_statuses obs)) 10 ++
            (* object updates restore the active template and clear the canary pause annotations *)
            code_if (forallb (fun w => match w with
                                       | OUpdate e' => N.eqb (e_tmpl_hash e') (r_tmpl_hash a) &&
                                                       annots_eqb (e_annots e') (fst (clear_canary_annots (e_annots e)))
                                       | _ => true end) (eo_writes obs)) 11 ++
            (* completeness: while the template is still the failed one, the replica sets could be listed and no write is
               rejected, both writes happen *)
            code_if (N.eqb (e_tmpl_hash e) (r_tmpl_hash a) || es_fail_status sn || es_fail_update sn || es_fail_list_rs sn ||
                     negb (Nat.eqb (length (es_fail_rs_delete sn)) 0) || eo_panic obs ||
                     (existsb (fun w => match w with OStatus _ => true | _ => false end) (eo_writes obs) &&
                      existsb (fun w => match w with OUpdate _ => true | _ => false end) (eo_writes obs))) 12 ++
            (* the failed replica set is the only durable record of the failure while spec.template still names its
               template: the reconcile that rolls back never deletes it, however long ago it failed *)
            code_if (negb (existsb (fun w => match w with ODeleteRs n => N.eqb n (r_name u) | _ => false end)
                                   (eo_writes obs))) 15
          else []
      | _, _, _ => []
      end
  end.

Definition chk (c : case) : list N :=
  match c with
  | W (CErs sn obs) => code_if (step_ok_ers sn obs) 1 ++ mon_failed_sticky sn obs 16
  | W (CEds sn obs) => code_if (step_ok_eds sn obs) 1 ++ mon_eds sn obs
  | Final e rss nodes pods silent _ _ =>
      (* "subsequently replaces the canary pods by pods of the active template on the former canary nodes": at rest after
         a rollback (a later canary may be running elsewhere) every eligible node outside status.canary.nodes runs one
         Ready pod of the active template, and nothing else remains *)
      match mon_final e rss nodes pods with [] => [] | _ => [17%N] end
  end.
Definition run (cs : list case) : list (N * N) := run_cases chk 0%N cs.
