(** * C12 correspondence cases and monitors: an ExtendedDaemonSet only ever touches its own objects. *)
From EDS Require Import Model.Objects Model.Fitness Model.PodSpec Model.Default Model.Canary Model.ErsReconcile
     Model.EdsLogic Model.EdsReconcile Model.Spec Check.World Check.C08Check Proofs.Lists.

Definition case := World.case.

Definition own_podb (e : eds) (p : pod) : bool :=
  in_ns_with_eds_label e p ||
  (N.eqb (p_ns p) (e_ns e) &&
   match an_old_ds (e_annots e) with Some d => memN d (p_ds_owners p) | None => false end).

(** the pods of the replica set's namespace carrying a name (the API call names namespace and name) *)
Definition touched_ok (sn : ers_snapshot) (e : eds) (pn : name) : bool :=
  match find (fun p => N.eqb (p_name p) pn && N.eqb (p_ns p) (r_ns (sn_rs sn))) (sn_pods sn) with
  | Some p => own_podb e p
  | None => false
  end.

Definition mon_ers (sn : ers_snapshot) (obs : ers_obs) : list N :=
  match sn_eds sn with
  | None => code_if (World.no_writes obs) 14
  | Some e =>
      code_if (forallb (touched_ok sn e) (ob_pod_deletes obs)) 10 ++
      code_if (forallb (touched_ok sn e) (ob_label_adds obs ++ ob_label_dels obs)) 11 ++
      code_if (forallb (fun c => let np := snd c in
                                 N.eqb (np_ns np) (e_ns e) && N.eqb (np_eds_label np) (e_name e) &&
                                 N.eqb (np_owner np) (r_name (sn_rs sn))) (ob_creates obs)) 12 ++
      (* the replica set itself belongs to the ExtendedDaemonSet it obeys *)
      code_if (World.no_writes obs || (N.eqb (r_ns (sn_rs sn)) (e_ns e) && N.eqb (r_owner (sn_rs sn)) (e_name e))) 13
  end.

Definition mon_eds (sn : eds_snapshot) (obs : eds_obs) : list N :=
  match es_obj sn with
  | None => code_if (match eo_writes obs with [] => true | _ => false end) 14
  | Some e =>
      let own := rs_of_eds e (es_rss sn) in
      flat_map (fun w =>
        match w with
        | ODeleteRs n => code_if (existsb (fun r => N.eqb (r_name r) n) own) 15
        | OCreateRs nr => code_if (N.eqb (nr_ns nr) (e_ns e) && N.eqb (nr_eds_label nr) (e_name e) && N.eqb (nr_owner nr) (e_name e)) 16
        | OStatus st' =>
            (* counted: only its own replica sets; adopted: only one of its own *)
            code_if ((es_current st' =? spec_current own) && (es_ready st' =? spec_ready own) && (es_available st' =? spec_available own)) 17 ++
            code_if (existsb (fun r => N.eqb (r_name r) (es_active st')) own) 18
        | OUpdate e' => code_if (N.eqb (e_name e') (e_name e) && N.eqb (e_ns e') (e_ns e)) 19
        end) (eo_writes obs)
  end.

Definition chk (c : case) : list N :=
  match c with
  | CErs sn obs => code_if (step_ok_ers sn obs) 1 ++ mon_ers sn obs
  | CEds sn obs => code_if (step_ok_eds sn obs) 1 ++ mon_eds sn obs
  end.
Definition run (cs : list case) : list (N * N) := run_cases chk 0%N cs.
