(** * C20 correspondence cases and monitors. *)
From Coq Require Import String Ascii.
From EDS Require Import Model.Base Model.Metrics.
Open Scope string_scope.

Inductive case :=
| CLabels (m : list (string * string)) (obs_keys obs_values : list string)
| CEds (v : eds_metric_view) (labels : list (string * string)) (obs : list series)
| CErs (v : ers_metric_view) (labels : list (string * string)) (obs : list series).

(** The property's predicate on what the implementation returned for a label map. *)
Definition mon_pairs (m : list (string * string)) (ks vs : list string) : bool :=
  Nat.eqb (length ks) (length vs) &&
  multiset_eqb pair_eqb (combine ks vs) (map (fun kv => (sanitize (fst kv), snd kv)) m).
Definition mon_legal (ks : list string) : bool := forallb (all_chars legal_char) ks.

(** Gauges: each observed family reports the status field. *)
Definition fam_value_is (fam : string) (z : Z) (obs : list series) : bool :=
  match lookup_series fam obs with Some s => (s_value s =? z)%Z | None => false end.

Definition mon_eds_gauges (v : eds_metric_view) (obs : list series) : bool :=
  fam_value_is "eds_status_desired" (ev_desired v) obs &&
  fam_value_is "eds_status_current" (ev_current v) obs &&
  fam_value_is "eds_status_ready" (ev_ready v) obs &&
  fam_value_is "eds_status_available" (ev_available v) obs &&
  fam_value_is "eds_status_uptodate" (ev_uptodate v) obs &&
  fam_value_is "eds_status_ignored_unresponsive_nodes" (ev_ignored v) obs &&
  fam_value_is "eds_status_canary_activated" (match ev_canary v with Some _ => 1 | None => 0 end) obs &&
  fam_value_is "eds_status_canary_node_number" (match ev_canary v with Some (_, n) => n | None => 0 end) obs &&
  (* paused = a canary is recorded and the Canary-Paused condition is TRUE (a left-over False condition is not a pause);
     the series names the reason only then *)
  fam_value_is "eds_status_canary_paused" (match ev_canary v, ev_canary_paused v with Some _, Some _ => 1 | _, _ => 0 end) obs &&
  match lookup_series "eds_status_canary_paused" obs with
  | Some s => Bool.eqb (existsb (fun kv => String.eqb (fst kv) "paused_reason") (s_labels s))
                       (match ev_canary v, ev_canary_paused v with Some _, Some _ => true | _, _ => false end)
  | None => false end &&
  fam_value_is "eds_created" (ev_created v) obs &&
  fam_value_is "eds_status_rolling_update_paused" (b2z (ev_state_paused v)) obs &&
  fam_value_is "eds_status_rollout_frozen" (b2z (ev_state_frozen v)) obs.

Definition mon_ers_gauges (v : ers_metric_view) (obs : list series) : bool :=
  fam_value_is "ers_status_desired" (rv_desired v) obs &&
  fam_value_is "ers_status_current" (rv_current v) obs &&
  fam_value_is "ers_status_ready" (rv_ready v) obs &&
  fam_value_is "ers_status_available" (rv_available v) obs &&
  fam_value_is "ers_status_ignored_unresponsive_nodes" (rv_ignored v) obs &&
  fam_value_is "ers_status_canary_failed" (b2z (rv_canary_failed v)) obs &&
  fam_value_is "ers_created" (rv_created v) obs.

(** Every observed series carries the object's namespace and name. *)
Definition mon_identity (ns nm : string) (obs : list series) : bool :=
  forallb (fun s => existsb (pair_eqb ("namespace", ns)) (s_labels s) &&
                    existsb (pair_eqb ("name", nm)) (s_labels s)) obs.

(** The label-info series of an object pairs sanitised keys with their own values. *)
Definition mon_label_series (fam : string) (ns nm : string) (labels : list (string * string))
           (obs : list series) : bool :=
  match lookup_series fam obs with
  | Some s => multiset_eqb pair_eqb (s_labels s)
                (base_labels ns nm ++ map (fun kv => (sanitize (fst kv), snd kv)) labels)
  | None => false
  end.

Definition chk (c : case) : list N :=
  match c with
  | CLabels m ks vs =>
      let (mk, mv) := build_info_labels m in
      code_if (Nat.eqb (length ks) (length vs) &&
               multiset_eqb pair_eqb (combine ks vs) (combine mk mv)) 1 ++
      code_if (mon_pairs m ks vs) 10 ++ code_if (mon_legal ks) 11
  | CEds v labels obs =>
      code_if (multiset_eqb series_eqb obs (eds_families v labels)) 1 ++
      code_if (mon_eds_gauges v obs) 12 ++ code_if (mon_identity (ev_ns v) (ev_name v) obs) 13 ++
      code_if (mon_label_series "eds_labels" (ev_ns v) (ev_name v) labels obs) 10
  | CErs v labels obs =>
      code_if (multiset_eqb series_eqb obs (ers_families v labels)) 1 ++
      code_if (mon_ers_gauges v obs) 12 ++ code_if (mon_identity (rv_ns v) (rv_name v) obs) 13 ++
      code_if (mon_label_series "ers_labels" (rv_ns v) (rv_name v) labels obs) 10
  end.

Definition run (cs : list case) : list (N * N) := run_cases chk 0%N cs.
