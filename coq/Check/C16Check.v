(** * C16 correspondence cases and monitors: defaulting is a fixed point; no accepted spec crashes. *)
From EDS Require Import Model.Objects Model.PodSpec Model.Default Model.ErsReconcile Model.EdsReconcile Model.Eqb Check.World.

(** Function-mode cases: the real Default / IsDefaulted / Validate on a spec. *)
Inductive case :=
| W (accepted : bool) (c : World.case)   (* accepted = the implementation's own IsDefaulted && Validate = nil on the parent spec *)
| Dflt (mode : vmode) (s : strategy) (name_set : bool)
       (obs_defaulted : strategy) (obs_name_set : bool)       (* Default(s) *)
       (obs_twice : strategy)                                  (* Default(Default(s)) *)
       (obs_is_defaulted_before obs_is_defaulted_after : bool) (* IsDefaulted(s), IsDefaulted(Default(s)) *)
       (obs_validate : N)                                      (* Validate(Default(s)): 0 ok, 1..4 error class, 99 panic *)
       (obs_panic : bool).

Definition dummy_tmpl : tmpl := MkTmpl [] None [] [] [].
Definition dummy_status : eds_status := MkEdsStatus 0 0 0 0 0 0 0%N 0%N None 0%N [].
Definition eds_of (s : strategy) (name_set : bool) : eds :=
  MkEds 1%N 1%N (MkAnnots AAbsent AAbsent AAbsent None AAbsent None None) dummy_tmpl 1%N name_set None s dummy_status.

Definition validate_code (s : strategy) : N :=
  match validate s with Ok _ => 0%N | Error c => c | Panic _ => 99%N end.

(** "defaulting changes no value the user set": every field present in the input has the same value in the output
    (the boolean reading of [C16_preserves]) *)
Definition kept {A} (eqb : A -> A -> bool) (a b : option A) : bool :=
  match a with Some x => match b with Some y => eqb x y | None => false end | None => true end.
Definition preserved_b (s s' : strategy) : bool :=
  kept intorpct_eqb (ru_max_unavailable (st_rolling s)) (ru_max_unavailable (st_rolling s')) &&
  kept intorpct_eqb (ru_max_sched_failure (st_rolling s)) (ru_max_sched_failure (st_rolling s')) &&
  kept Z.eqb (ru_max_parallel (st_rolling s)) (ru_max_parallel (st_rolling s')) &&
  kept Z.eqb (ru_interval (st_rolling s)) (ru_interval (st_rolling s')) &&
  kept intorpct_eqb (ru_increase (st_rolling s)) (ru_increase (st_rolling s')) &&
  kept Z.eqb (st_freq s) (st_freq s') &&
  match st_canary s, st_canary s' with
  | None, None => true
  | Some c, Some c' =>
      kept intorpct_eqb (ca_replicas c) (ca_replicas c') && kept Z.eqb (ca_duration c) (ca_duration c') &&
      kept selector_eqb (ca_nodesel c) (ca_nodesel c') && kept Z.eqb (ca_norestarts c) (ca_norestarts c') &&
      (vmode_eqb (ca_mode c) VUnset || vmode_eqb (ca_mode c') (ca_mode c)) &&
      match ca_autopause c, ca_autopause c' with
      | Some a, Some a' => kept Bool.eqb (ap_enabled a) (ap_enabled a') && kept Z.eqb (ap_max_restarts a) (ap_max_restarts a') &&
                           option_eqb Z.eqb (ap_max_slow_start a') (ap_max_slow_start a)
      | None, _ => true | Some _, None => false end &&
      match ca_autofail c, ca_autofail c' with
      | Some a, Some a' => kept Bool.eqb (af_enabled a) (af_enabled a') && kept Z.eqb (af_max_restarts a) (af_max_restarts a') &&
                           option_eqb Z.eqb (af_max_restarts_dur a') (af_max_restarts_dur a) && option_eqb Z.eqb (af_timeout a') (af_timeout a)
      | None, _ => true | Some _, None => false end
  | _, _ => false
  end.

Definition chk (c : case) : list N :=
  match c with
  | W accepted (CErs sn obs) =>
      code_if (step_ok_ers sn obs) 1 ++
      (* no spec the implementation accepts (recognises as defaulted, validates) crashes the replica-set sync *)
      code_if (negb (ob_panic obs) || negb (forallb pod_shape_ok (sn_pods sn)) ||
               match sn_eds sn with
               | Some e => negb accepted
               | None => false end) 15 ++
      (* ... and what the implementation accepts is what the model calls defaulted and valid (the fields the
         reconcilers dereference are all set) *)
      code_if (negb accepted ||
               match sn_eds sn with
               | Some e => is_defaulted e && match validate (e_strategy e) with Ok _ => true | _ => false end
               | None => true end) 17
  | W _ (CEds sn obs) => code_if (step_ok_eds sn obs) 1 ++ code_if (negb (eo_panic obs)) 16
  | Dflt mode s name_set od on ot b4 after v panic =>
      let e := eds_of s name_set in
      let d := default_eds mode e in
      code_if (negb panic && strategy_eqb (e_strategy d) od && Bool.eqb (e_tmpl_name_set d) on &&
               strategy_eqb (e_strategy (default_eds mode d)) ot &&
               Bool.eqb (is_defaulted e) b4 && Bool.eqb (is_defaulted d) after &&
               N.eqb (validate_code (e_strategy d)) v) 1 ++
      code_if (negb panic) 10 ++
      code_if (strategy_eqb ot od) 11 ++                        (* idempotent *)
      code_if (vmode_eqb mode VUnset || after) 12 ++            (* recognised as defaulted *)
      (* defaulting fills every field the reconcilers dereference: the model's list of them, on the implementation's output *)
      code_if (vmode_eqb mode VUnset || panic || is_defaulted (MkEds 1%N 1%N (MkAnnots AAbsent AAbsent AAbsent None AAbsent None None)
                                                                dummy_tmpl 1%N on None od dummy_status)) 14 ++
      code_if (panic || preserved_b s od) 18 ++                 (* no value the user set is changed *)
      code_if (negb (N.eqb v 99)) 13                            (* validation does not crash *)
  end.
Definition run (cs : list case) : list (N * N) := run_cases chk 0%N cs.
