(** * C15 correspondence cases and monitors: canary nodes valid, distinct, stable, as many as requested. *)
From EDS Require Import Model.Objects Model.Fitness Model.PodSpec Model.Default Model.Canary Model.EdsLogic
     Model.EdsReconcile Check.World Check.C08Check Proofs.Lists Proofs.EdsInv Proofs.C15Sync Proofs.C15Spread.

Definition case := World.case.

Definition valid_nodeb (sn : eds_snapshot) (cspec : canary_spec) (u : ers) (nn : name) : bool :=
  existsb (fun n => N.eqb (n_name n) nn && fit (r_tmpl u) n) (canary_candidate_nodes sn cspec).

(** monitors on one written status carrying a canary block; [prev] = the list read *)
Definition mon_status (sn : eds_snapshot) (e : eds) (cspec : canary_spec) (u : ers) (reported_error : bool) (st' : eds_status) : list N :=
  match es_canary st' with
  | None => []
  | Some c' =>
      let prev := status_canary_nodes (e_status e) in
      let nodes' := cs_nodes c' in
      let changed := negb (list_eqb N.eqb nodes' prev) in
      let all_valid := forallb (valid_nodeb sn cspec u) nodes' in
      match ca_replicas cspec with
      | Some rep =>
          match resolve_iop rep (es_desired (e_status e)) with
          | Some nb =>
              code_if (negb (nodupNb prev) || nodupNb nodes') 10 ++
              (* validity: a violation when the list was (re)selected in this reconcile; the listed known
                 finding D9 when the count matched and no selection ran *)
              (if all_valid then [] else if changed then [11%N] else [111%N]) ++
              code_if (negb changed || forallb (fun nn => negb (valid_nodeb sn cspec u nn) || memN nn nodes') prev) 12 ++
              code_if (negb changed || subsetNb nodes' prev || (zlen nodes' <=? nb)) 13 ++
              (* fewer nodes than requested: only together with a reported error, and only when no valid candidate
                 was left out (without anti-affinity keys, which may legitimately reject candidates; and unless the selection
                 could not read its lists) *)
              code_if ((nb <=? zlen nodes') || reported_error) 14 ++
              code_if ((nb <=? zlen nodes') || negb (Nat.eqb (length (ca_antiaffinity cspec)) 0) || es_fail_list_cluster sn ||
                       forallb (fun n => negb (fit (r_tmpl u) n) || memN (n_name n) nodes') (canary_candidate_nodes sn cspec)) 18 ++
              (* no blind selection: when the pods (restart counts) or the nodes could not be listed, nothing is added *)
              code_if (negb (es_fail_list_cluster sn) || subsetNb nodes' prev) 19 ++
              (* least restarts, without anti-affinity keys: an added node has no more restarts than any
                 valid candidate left out *)
              code_if (negb changed || negb (Nat.eqb (length (ca_antiaffinity cspec)) 0) ||
                       forallb (fun a => memN a prev ||
                                  forallb (fun n => memN (n_name n) nodes' || negb (fit (r_tmpl u) n) ||
                                                    (node_restarts (eds_pods sn e) a <=? node_restarts (eds_pods sn e) (n_name n)))
                                          (canary_candidate_nodes sn cspec)) nodes') 17 ++
              (* spreading, with anti-affinity keys ([C15_spreading]): after a selection no value of the keys is carried by more
                 canary nodes than the quota - replicas over the number of distinct values among the candidates, rounded up -
                 unless the nodes kept from before already exceeded it *)
              (let keys := ca_antiaffinity cspec in
               let cands := canary_candidate_nodes sn cspec in
               let still := filter (valid_nodeb sn cspec u) prev in
               let values := zlen (aa_init keys cands still) in
               code_if (negb changed || Nat.eqb (length keys) 0 || negb (nodupNb (map n_name cands)) || es_fail_list_cluster sn ||
                        forallb (fun n => let v := aa_value keys n in
                                          cnt keys cands nodes' v <=? Z.max (cnt keys cands still v) (Z.quot (nb + values - 1) values)) cands) 21)
          | None => [16%N]
          end
      | None => [16%N]
      end
  end.

Definition mon_eds (sn : eds_snapshot) (obs : eds_obs) : list N :=
  match es_obj sn with
  | None => []
  | Some e =>
      if negb (is_defaulted e) then [] else
      match st_canary (e_strategy e), eds_uptodate sn e with
      | Some cspec, Some u => flat_map (mon_status sn e cspec u (eo_error obs)) (written_statuses obs)
      | _, _ => []
      end
  end.

Definition chk (c : case) : list N :=
  match c with
  | CErs sn obs => code_if (step_ok_ers sn obs) 1
  | CEds sn obs => code_if (step_ok_eds sn obs) 1 ++ mon_eds sn obs
  end.
Definition run (cs : list case) : list (N * N) := run_cases chk 0%N cs.
