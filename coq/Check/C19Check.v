(** * C19 correspondence cases and monitors: kubectl-eds commands. *)
From EDS Require Import Model.Objects Model.Default Model.Canary Model.ErsReconcile Model.EdsLogic Model.EdsReconcile
     Model.Plugin Model.Eqb Check.World Check.C08Check Check.C05Check Check.C07Check Proofs.Lists.

(** One command run by the real plug-in body against the store: the ExtendedDaemonSet and the replica sets
    of its namespace before; what changed. *)
Inductive cmd_obs :=
| ObsRefused                                   (* an error was returned and nothing was written *)
| ObsPatched (ann' : eds_annots) (rest_same : bool)        (* one patch of the ExtendedDaemonSet; [rest_same] = nothing but the
                                                              documented annotation keys differs in the stored object *)
| ObsFailed (rs : name) (conds' : list cond) (rest_same : bool)   (* one status update of a replica set *)
| ObsOther.                                     (* anything else: more than one write, another object ... *)

Inductive case :=
| W (c : World.case)
| Cmd (c : cmd) (oe : option eds) (rs_names : list name) (rs_conds : list (name * list cond)) (now : time) (obs : cmd_obs).

Definition conds_of (rs_conds : list (name * list cond)) (n : name) : list cond :=
  match find (fun p => N.eqb (fst p) n) rs_conds with Some p => snd p | None => [] end.

(** documented keys only *)
Definition frame_ok (c : cmd) (a b : eds_annots) : bool :=
  let a3e x y := match x, y with AAbsent, AAbsent | ATrue, ATrue | AFalse, AFalse | AOtherVal, AOtherVal => true | _, _ => false end in
  let keep_ru := a3e (an_rolling_paused a) (an_rolling_paused b) in
  let keep_fr := a3e (an_frozen a) (an_frozen b) in
  let keep_cp := a3e (an_canary_paused a) (an_canary_paused b) && a3e (an_canary_unpaused a) (an_canary_unpaused b) in
  let keep_valid := option_eqb N.eqb (an_canary_valid a) (an_canary_valid b) in
  let keep_rest := option_eqb N.eqb (an_canary_paused_reason a) (an_canary_paused_reason b) && option_eqb N.eqb (an_old_ds a) (an_old_ds b) in
  keep_rest &&
  match c with
  | CanaryPause | CanaryUnpause => keep_ru && keep_fr && keep_valid
  | CanaryValidate => keep_ru && keep_fr && keep_cp
  | RuPause | RuUnpause => keep_fr && keep_cp && keep_valid
  | Freeze | Unfreeze => keep_ru && keep_cp && keep_valid
  | CanaryFail => false
  end.

Definition chk (c : case) : list N :=
  match c with
  (* the reconciles that follow the commands obey them: the monitors of C08 (codes +20), C05 (+30) and C07 (+50) *)
  | W (CErs sn obs) => code_if (step_ok_ers sn obs) 1 ++ map (N.add 20) (C08Check.mon_ers sn obs)
  | W (CEds sn obs) => code_if (step_ok_eds sn obs) 1 ++ map (N.add 20) (C08Check.mon_eds sn obs) ++
                       map (N.add 30) (C05Check.mon_eds sn obs) ++ map (N.add 50) (C07Check.mon_eds sn obs)
  | Cmd c oe rs_names rs_conds now obs =>
      let m := run_cmd c oe (fun n => memN n rs_names) in
      (* the model predicts the command *)
      code_if (match m, obs with
               | Refused, ObsRefused => true
               | PatchAnn a, ObsPatched a' _ => annots_eqb a a'
               | FailRs n, ObsFailed n' cs' _ =>
                   N.eqb n n' && list_eqb cond_eqb cs' (fail_conds (conds_of rs_conds n) now)
               | _, _ => false end) 1 ++
      (* frame: only the documented annotation / condition changed *)
      code_if (match obs, oe with
               | ObsPatched a' rest, Some e => rest && frame_ok c (e_annots e) a'
               | ObsFailed n cs' rest, _ =>
                   (* the conditions of every other type are what they were, in the same order *)
                   rest && list_eqb cond_eqb (filter (fun c => negb (N.eqb (c_type c) CT_CanaryFailed)) cs')
                                             (filter (fun c => negb (N.eqb (c_type c) CT_CanaryFailed)) (conds_of rs_conds n))
               | ObsOther, _ => false
               | _, _ => true end) 10 ++
      (* the effect: the annotations after the command say what the command means, in the controllers' own reading of them
         (pause: paused and not unpaused - an earlier canary-unpaused=true would make the replica-set controller lift the
         pause; unpause: the reverse; validate: names the canary replica set; rolling-update pause / freeze: true;
         their reverse: not true) *)
      code_if (match obs, oe with
               | ObsPatched a' _, Some e =>
                   match c with
                   | CanaryPause => a3_true (an_canary_paused a') && negb (a3_true (an_canary_unpaused a'))
                   | CanaryUnpause => negb (a3_true (an_canary_paused a')) && a3_true (an_canary_unpaused a')
                   | CanaryValidate => match es_canary (e_status e) with
                                       | Some cs => option_eqb N.eqb (an_canary_valid a') (Some (cs_rs cs))
                                       | None => true end
                   | RuPause => a3_true (an_rolling_paused a')
                   | RuUnpause => negb (a3_true (an_rolling_paused a'))
                   | Freeze => a3_true (an_frozen a')
                   | Unfreeze => negb (a3_true (an_frozen a'))
                   | CanaryFail => false
                   end
               | _, _ => true end) 12 ++
      (* fail: the conditions written mark the replica set failed in the controllers' own reading (the first condition of
         the type) - that is what leads to the rollback *)
      code_if (match obs with
               | ObsFailed _ cs' _ => is_cond_true cs' CT_CanaryFailed
               | _ => true end) 13 ++
      (* a command refuses only when its precondition does not hold or what it asks for is already in place (paused
         already, nothing to unpause, validated already, ...): a refusal in any other state leaves the user without the command *)
      code_if (match obs, oe with
               | ObsRefused, Some e =>
                   let ann := e_annots e in
                   let has_canary := match es_canary (e_status e) with Some _ => true | None => false end in
                   let has_strategy := match st_canary (e_strategy e) with Some _ => true | None => false end in
                   match c with
                   | CanaryPause => negb has_canary || negb has_strategy || a3_true (an_canary_paused ann)
                   | CanaryUnpause => negb has_canary || negb has_strategy || negb (a3_true (an_canary_paused ann))
                   | CanaryValidate => match es_canary (e_status e) with
                                       | Some cs => option_eqb N.eqb (an_canary_valid ann) (Some (cs_rs cs))
                                       | None => true end
                   | CanaryFail => match es_canary (e_status e) with
                                   | Some cs => negb has_strategy || negb (memN (cs_rs cs) rs_names)
                                   | None => true end
                   | RuPause => has_canary || a3_true (an_rolling_paused ann)
                   | RuUnpause => has_canary || negb (a3_true (an_rolling_paused ann))
                   | Freeze => has_canary || a3_true (an_frozen ann)
                   | Unfreeze => has_canary || negb (a3_true (an_frozen ann))
                   end
               | _, _ => true end) 14 ++
      (* preconditions: an active canary for the canary commands (plus a canary strategy for pause/unpause/fail);
         none for rolling-update pause and freeze *)
      code_if (match oe with
               | None => match obs with ObsRefused => true | _ => false end
               | Some e =>
                   let has_canary := match es_canary (e_status e) with Some _ => true | None => false end in
                   let has_strategy := match st_canary (e_strategy e) with Some _ => true | None => false end in
                   let acted := match obs with ObsRefused => false | _ => true end in
                   match c with
                   | CanaryPause | CanaryUnpause | CanaryFail => negb acted || (has_canary && has_strategy)
                   | CanaryValidate => negb acted || has_canary
                   | RuPause | RuUnpause | Freeze | Unfreeze => negb acted || negb has_canary
                   end
               end) 11
  end.
Definition run (cs : list case) : list (N * N) := run_cases chk 0%N cs.
