(** * C18 correspondence cases and monitors: at most one valid ExtendedDaemonsetSetting per node. *)
From EDS Require Import Model.Objects Model.Fitness Model.PodSpec Model.Setting Model.ErsReconcile Check.World Proofs.Lists.

Inductive case :=
| W (c : World.case)
| St (inst : option setting) (all : list setting) (nodes : list node) (fail_settings fail_nodes : bool)
     (post_status : name) (post_error_set : bool) (err panic : bool)   (* one reconcile of [inst] *)
| Fin (all : list setting) (nodes : list node).                          (* after every setting was reconciled *)

Definition valid_now (s : setting) : bool := N.eqb (s_status s) SET_VALID.

Definition chk (c : case) : list N :=
  match c with
  | W (CErs sn obs) =>
      code_if (step_ok_ers sn obs) 1 ++
      (* only valid settings influence pods; every created pod names at most the one attached to its node *)
      code_if (forallb (fun cr => match np_setting_labels (snd cr) with
                                  | None => true
                                  | Some (nm, ns) => existsb (fun s => N.eqb (s_name s) nm && N.eqb (s_ns s) ns && valid_now s &&
                                                                       existsb (fun n => N.eqb (n_name n) (fst cr) &&
                                                                                         strict_selector_matches (s_selector s) (n_labels n)) (sn_nodes sn))
                                                             (sn_settings sn)
                                  end) (ob_creates obs)) 15
  | W (CEds sn obs) => code_if (step_ok_eds sn obs) 1
  | St None _ _ _ _ _ _ err panic => code_if (negb panic && negb err) 1
  | St (Some inst) all nodes fs fn st es err panic =>
      let '(mst, mes) := setting_sync inst all nodes fs fn in
      code_if (negb panic && N.eqb mst st && Bool.eqb mes es) 1 ++
      code_if (has_reference inst || N.eqb st SET_ERROR) 11 ++
      code_if (fs || strict_selector_ok (s_selector inst) || N.eqb st SET_ERROR) 12 ++
      (* a reconcile that could not compare the setting with the others never turns it valid: a setting that was not
         valid before is valid afterwards only if the lists were read and it is valid by the rule *)
      code_if (valid_now inst || negb (N.eqb st SET_VALID) ||
               (negb fs && negb fn && setting_valid inst (settings_of_ns (s_ns inst) all) nodes)) 14
  | Fin all nodes =>
      (* after each was reconciled against the same cluster state: overlapping settings are not both valid *)
      code_if (forallb (fun s1 => forallb (fun s2 =>
                 N.eqb (s_name s1) (s_name s2) || negb (N.eqb (s_ns s1) (s_ns s2)) ||
                 negb (existsb (fun n => setting_matches s1 n && setting_matches s2 n) nodes) ||
                 negb (valid_now s1 && valid_now s2)) all) all) 10 ++
      (* a well-formed setting overlapping no other is valid *)
      code_if (forallb (fun s =>
                 negb (has_reference s && strict_selector_ok (s_selector s)) ||
                 existsb (fun o => negb (N.eqb (s_name o) (s_name s)) && N.eqb (s_ns o) (s_ns s) &&
                                   existsb (fun n => setting_matches o n && setting_matches s n) nodes) all ||
                 valid_now s) all) 13
  end.
Definition run (cs : list case) : list (N * N) := run_cases chk 0%N cs.
