(** * C04Proofs: canary blast radius at the level of a replica-set sync. *)
From Coq Require Import List ZArith NArith Bool Lia.
From EDS Require Import Model.Objects Model.Fitness Model.PodSpec Model.Backoff Model.Filter Model.Default
     Model.Limits Model.Rolling Model.Canary Model.ErsReconcile
     Proofs.Lists Proofs.RollingProofs Proofs.SyncInv Proofs.FilterProofs Proofs.CanaryProofs Proofs.C08Proofs
     Proofs.C01Proofs.
Import ListNotations.
Open Scope Z_scope.

Definition canary_nodes_of (e : eds) : list name :=
  match es_canary (e_status e) with Some c => cs_nodes c | None => [] end.

Lemma ctx_canary_nodes : forall sn e freq cx, build_ctx sn e freq = Ok cx -> cx_canary_nodes cx = canary_nodes_of e.
Proof. intros sn e freq cx H. apply build_ctx_fields in H. tauto. Qed.

(** the canary replica set creates pods only on the nodes listed in status.canary.nodes (as read);
    the active replica set never creates a pod on one of them *)
Theorem creates_confined : forall sn ch pl e nn,
  ers_sync sn ch = Ok pl -> sn_eds sn = Some e -> In nn (pl_creates pl) ->
  (pl_role pl = RoleCanary -> In nn (canary_nodes_of e)) /\
  (pl_role pl = RoleActive -> ~ In nn (canary_nodes_of e)) /\
  pl_role pl <> RoleUnknown.
Proof.
  intros sn ch pl e nn H He Hin.
  destruct (creates_have_empty_item _ _ _ _ H Hin) as [e' [freq [cx [i [He' [Hc [Hr [_ [_ [_ [Hcan [Hact Hunk]]]]]]]]]]]].
  rewrite He in He'. inversion He'; subst e'. rewrite <- (ctx_canary_nodes _ _ _ _ Hc). rewrite Hr.
  repeat split; auto. intros Hrc. apply Hcan; assumption.
Qed.

(** every pod object the sync sends carries the syncing replica set's own template hash, name labels
    and owner: the new template is rolled out by the replica set created from it and by no other *)
Theorem created_pods_identity : forall sn ch pl nn np,
  ers_sync sn ch = Ok pl -> In (nn, np) (pl_new_pods pl) ->
  np_hash np = r_tmplgen (sn_rs sn) /\ np_rs_label np = r_name (sn_rs sn) /\ np_owner np = r_name (sn_rs sn) /\
  np_eds_label np = r_eds_label (sn_rs sn) /\ np_ns np = r_ns (sn_rs sn) /\ In nn (pl_creates pl).
Proof.
  intros sn ch pl nn np H Hin. apply ers_sync_inv in H.
  destruct H as [rl st after err Hp | e freq cx so He Hd Hf Hg Hc Hs Hfin].
  - subst pl. contradiction.
  - unfold finish_sync in Hfin.
    match type of Hfin with (if ?c then _ else _) = _ => destruct c; [|discriminate] end.
    inversion Hfin; subst pl; clear Hfin. cbn [pl_new_pods pl_creates] in *.
    apply in_flat_map in Hin. destruct Hin as [k [Hk Hin]].
    destruct (find _ (cx_nodes cx)) as [[n os]|]; [|contradiction].
    destruct Hin as [Hin|[]]. inversion Hin; subst. cbn. repeat split; auto.
Qed.

(** the active replica set deletes no pod on a canary node - neither to update it nor to clean up *)
Theorem active_spares_canary_nodes : forall sn ch pl e pn,
  ers_sync sn ch = Ok pl -> sn_eds sn = Some e -> pl_role pl = RoleActive ->
  es_canary (e_status e) <> None ->
  In pn (pl_deletes pl ++ pl_cleanup pl) ->
  exists p nn, In p (sn_pods sn) /\ p_name p = pn /\ node_of_pod p = Some nn /\ ~ In nn (canary_nodes_of e).
Proof.
  intros sn ch pl e pn H He Hrole Hcan Hin. apply ers_sync_inv in H.
  destruct H as [rl st after err Hp | e' freq cx so He' Hd Hf Hg Hc Hs Hfin].
  - subst pl. contradiction.
  - rewrite He in He'. inversion He'; subst e'.
    pose proof (finish_sync_fields _ _ _ _ Hfin) as F.
    destruct F as [Frole [Froll [Fcl [_ [_ [Fupd [Fdel [_ Fadm]]]]]]]].
    pose proof (build_ctx_fields _ _ _ _ Hc) as [_ [_ [Hcr [_ [Hpods [Hcn [Hign [Hfo Hit]]]]]]]].
    pose proof (listed_pods_sub _ _ _ _ Hpods) as Hsub.
    rewrite Frole in Hrole. rewrite Hcr in Hrole.
    assert (Hignore : cx_ignore cx = canary_nodes_of e).
    { rewrite Hign, Hrole. unfold canary_nodes_of in *. rewrite Hcn. destruct (es_canary (e_status e)); [reflexivity|contradiction]. }
    rewrite <- Hcr in Hrole. unfold strategy_of in Hs. rewrite Hrole in Hs.
    apply in_app_or in Hin. destruct Hin as [Hin|Hin].
    + rewrite Fdel in Hin. apply in_flat_map in Hin. destruct Hin as [nn [Hnn Hin]].
      apply pod_of_node_spec in Hin. destruct Hin as [i [p [Hi [Hname [Hpod Hpn]]]]].
      rewrite Hit in Hi. apply items_of_names in Hi. destruct Hi as [Hentry _]. rewrite Hname, Hpod, Hfo in Hentry.
      destruct (kept_never_unknown _ _ _ _ _ _ _ _ Hentry) as [_ [Hl Hnode]].
      pose proof (by_node_entry _ _ _ _ _ _ _ _ Hentry) as [Helig _].
      apply eligible_spec in Helig. destruct Helig as [n [_ [_ [Hi _]]]].
      exists p, nn. repeat split; auto. rewrite <- Hignore. apply memN_false; assumption.
    + rewrite Fcl in Hin.
      destruct (strategy_active_shape _ _ _ _ Hs) as [[Hn _] | [rp [Hrp _]]].
      * unfold strategy_active in Hs. destruct (rolling_plan_of _ _ _ _ _) eqn:Ep; try discriminate.
        -- destruct (rolling_status_counts a) as [[[[d cur] rdy] av] ign]. inversion Hs; subst. cbn in Hn. discriminate.
        -- inversion Hs; subst. cbn in Hin. contradiction.
      * assert (Hs' : strategy_of sn ch cx = Ok so) by (unfold strategy_of; rewrite Hrole; exact Hs).
        destruct (strategy_rolling _ _ _ _ _ Hs' Hrp) as [_ [_ [_ Hcl]]]. rewrite Hcl in Hin.
        unfold cx_cleanup, cleanup_targets, pod_names in Hin. apply in_map_iff in Hin. destruct Hin as [p [Hpn Hp]].
        apply filter_In in Hp. destruct Hp as [Hp _]. rewrite Hfo in Hp.
        destruct (cleanup_never_unknown _ _ _ _ _ _ _ Hp) as [_ Hl].
        destruct (cleanup_avoids_ignored _ _ _ _ _ _ _ Hp) as [nn [Hnode Hni]].
        exists p, nn. repeat split; auto. rewrite <- Hignore. assumption.
Qed.

(** canary labels: added only by the canary role, only to pods of the syncing replica set that sit on
    a listed canary node; removed only by the active role, only from the syncing replica set's pods *)
Lemma patch_upto_incl : forall fails l, incl (fst (patch_upto fails l)) l.
Proof.
  intros fails l; induction l as [|x r IH]; simpl; [apply incl_refl|].
  destruct (memN x fails); cbn; [intros y [->|[]]; left; reflexivity|].
  destruct (patch_upto fails r) as [t b]. cbn in *. intros y [->|Hy]; [left; reflexivity | right; apply IH; assumption].
Qed.

Theorem label_add_only_canary : forall sn ch pl e pn,
  ers_sync sn ch = Ok pl -> sn_eds sn = Some e -> In pn (pl_label_add pl) ->
  pl_role pl = RoleCanary /\
  exists p nn, In p (sn_pods sn) /\ p_name p = pn /\ p_rs_label p = r_name (sn_rs sn) /\
               node_of_pod p = Some nn /\ In nn (canary_nodes_of e) /\ own_pod e p.
Proof.
  intros sn ch pl e pn H He Hin. apply ers_sync_inv in H.
  destruct H as [rl st after err Hp | e' freq cx so He' Hd Hf Hg Hc Hs Hfin].
  - subst pl. contradiction.
  - rewrite He in He'. inversion He'; subst e'.
    pose proof (finish_sync_fields _ _ _ _ Hfin) as F. destruct F as [Frole [_ [_ [Fla _]]]].
    pose proof (build_ctx_fields _ _ _ _ Hc) as [_ [_ [_ [_ [Hpods [Hcn [_ [Hfo Hit]]]]]]]].
    pose proof (listed_pods_sub _ _ _ _ Hpods) as Hsub.
    rewrite Fla in Hin. unfold strategy_of in Hs. destruct (cx_role cx) eqn:Er.
    + destruct (strategy_active_shape _ _ _ _ Hs) as [[Hn _] | [rp [Hrp _]]];
      unfold strategy_active in Hs; destruct (rolling_plan_of _ _ _ _ _) eqn:Ep; try discriminate;
      try (destruct (rolling_status_counts a) as [[[[d cur] rdy] av] ign]); inversion Hs; subst; cbn in Hin; contradiction.
    + split; [rewrite Frole; reflexivity|].
      destruct (strategy_canary_shape _ _ _ Hs) as [cp [st0 [_ [_ [_ [_ [_ [Hla _]]]]]]]].
      rewrite Hla in Hin. apply patch_upto_incl in Hin. unfold canary_label_targets in Hin.
      apply in_flat_map in Hin. destruct Hin as [nn [Hnn Hin]].
      destruct (find_item (cx_items cx) nn) as [i|] eqn:Ei; [|contradiction].
      destruct (ni_pod i) as [p|] eqn:Epod; [|contradiction].
      destruct (N.eqb (p_rs_label p) (r_name (sn_rs sn)) && negb (p_is_canary_labelled p)) eqn:Ec; [|contradiction].
      destruct Hin as [<-|[]]. apply andb_true_iff in Ec. destruct Ec as [Ec _]. apply N.eqb_eq in Ec.
      apply find_item_some in Ei. destruct Ei as [Hi Hname].
      rewrite Hit in Hi. apply items_of_names in Hi. destruct Hi as [Hentry _]. rewrite Hname, Epod, Hfo in Hentry.
      destruct (kept_never_unknown _ _ _ _ _ _ _ _ Hentry) as [_ [Hl Hnode]].
      exists p, nn. repeat split; auto; [unfold canary_nodes_of; rewrite <- Hcn; assumption|].
      eapply listed_pods_spec; eassumption.
    + destruct (strategy_unknown_shape _ _ _ Hs) as [_ [_ [_ [Hla _]]]]. rewrite Hla in Hin. contradiction.
Qed.

Lemma strategy_active_label_del : forall sn ch cx so pn,
  strategy_active sn ch cx = Ok so -> In pn (so_label_del so) ->
  exists p, In p (sn_pods sn) /\ p_name p = pn /\ p_rs_label p = r_name (sn_rs sn) /\ p_ns p = r_ns (sn_rs sn) /\
            p_is_canary_labelled p = true.
Proof.
  intros sn ch cx so pn H. unfold strategy_active in H.
  destruct (rolling_plan_of _ _ _ _ _) as [rp|c|c]; try discriminate.
  - destruct (rolling_status_counts rp) as [[[[d cur] rdy] av] ign].
    injection H as <-. cbn [so_label_del].
    match goal with |- In _ (if ?c then _ else _) -> _ => destruct c; [|intros []] end.
    intros Hin. unfold pod_names in Hin. apply in_map_iff in Hin. destruct Hin as [p [Hpn Hp]].
    apply filter_In in Hp. destruct Hp as [Hp Hc']. rewrite !andb_true_iff in Hc'. destruct Hc' as [[A B] C].
    apply N.eqb_eq in A, C. exists p. repeat split; auto.
  - injection H as <-. cbn [so_label_del]. intros [].
Qed.

Theorem label_del_only_active : forall sn ch pl pn,
  ers_sync sn ch = Ok pl -> In pn (pl_label_del pl) ->
  pl_role pl = RoleActive /\
  exists p, In p (sn_pods sn) /\ p_name p = pn /\ p_rs_label p = r_name (sn_rs sn) /\ p_ns p = r_ns (sn_rs sn) /\
            p_is_canary_labelled p = true.
Proof.
  intros sn ch pl pn H Hin. apply ers_sync_inv in H.
  destruct H as [rl st after err Hp | e freq cx so He Hd Hf Hg Hc Hs Hfin].
  - subst pl. contradiction.
  - pose proof (finish_sync_fields _ _ _ _ Hfin) as F. destruct F as [Frole [_ [_ [_ [Fld _]]]]].
    rewrite Fld in Hin. unfold strategy_of in Hs. destruct (cx_role cx) eqn:Er.
    + split; [rewrite Frole; reflexivity|]. eapply strategy_active_label_del; eassumption.
    + destruct (strategy_canary_shape _ _ _ Hs) as [cp [st0 [_ [_ [_ [_ [_ [_ Hld]]]]]]]]. rewrite Hld in Hin. contradiction.
    + destruct (strategy_unknown_shape _ _ _ Hs) as [_ [_ [_ [_ [Hld _]]]]]. rewrite Hld in Hin. contradiction.
Qed.

Lemma patch_upto_no_faults : forall l, patch_upto [] l = (l, false).
Proof. induction l as [|x r IH]; simpl; [reflexivity|]. rewrite IH. reflexivity. Qed.

(** with no failing patch, a canary sync labels every kept pod of its own on a listed canary node *)
Theorem label_added : forall sn ch pl e freq cx,
  ers_sync sn ch = Ok pl -> sn_eds sn = Some e -> is_defaulted e = true ->
  st_freq (e_strategy e) = Some freq -> sync_gate sn freq = None -> build_ctx sn e freq = Ok cx ->
  pl_role pl = RoleCanary -> f_patch (sn_faults sn) = [] ->
  pl_label_add pl = canary_label_targets (sn_rs sn) cx.
Proof.
  intros sn ch pl e freq cx H He Hd Hf Hg Hc Hrole Hnf.
  destruct (ers_sync_full _ _ _ _ _ _ H He Hd Hf Hg Hc) as [so [Hs Hfin]].
  pose proof (finish_sync_fields _ _ _ _ Hfin) as F. destruct F as [Frole [_ [_ [Fla _]]]].
  rewrite Frole in Hrole. unfold strategy_of in Hs. rewrite Hrole in Hs.
  destruct (strategy_canary_shape _ _ _ Hs) as [cp [st0 [_ [_ [_ [_ [_ [Hla _]]]]]]]].
  rewrite Fla, Hla, Hnf, patch_upto_no_faults. reflexivity.
Qed.
