(** * C12Proofs: an ExtendedDaemonSet only ever touches its own objects. *)
From Coq Require Import List ZArith NArith Bool Lia.
From EDS Require Import Model.Objects Model.Fitness Model.PodSpec Model.Default Model.Canary Model.EdsLogic
     Model.EdsReconcile Proofs.Lists Proofs.EdsInv Proofs.C05Proofs Proofs.EdsWrites.
Import ListNotations.
Open Scope Z_scope.

Lemma rs_of_eds_own : forall e rss r, In r (rs_of_eds e rss) -> In r rss /\ r_ns r = e_ns e /\ r_eds_label r = e_name e.
Proof.
  intros e rss r H. unfold rs_of_eds in H. apply filter_In in H. destruct H as [Hin Hc].
  apply andb_true_iff in Hc. destruct Hc as [A B]. apply N.eqb_eq in A, B. auto.
Qed.

(** every replica set the reconcile deletes is one of its own: same namespace, its name label *)
Theorem deleted_rs_own : forall sn pl n,
  eds_sync sn = Ok pl -> In n (deletes_of (ep_writes pl)) ->
  exists e r, es_obj sn = Some e /\ In r (es_rss sn) /\ r_name r = n /\ r_ns r = e_ns e /\ r_eds_label r = e_name e.
Proof.
  intros sn pl n H Hin. destruct (cleanup_safe _ _ _ H Hin) as [e [u [cur [r [Ho [_ [_ [Hr [Hn _]]]]]]]]].
  apply rs_of_eds_own in Hr. destruct Hr as [A [B C]]. exists e, r. auto.
Qed.

(** the replica set a written status names as active is one of its own: no foreign replica set is adopted *)
Theorem active_rs_own : forall sn pl st',
  eds_sync sn = Ok pl -> In st' (statuses_of (ep_writes pl)) ->
  exists e r, es_obj sn = Some e /\ In r (es_rss sn) /\ r_name r = es_active st' /\ r_ns r = e_ns e /\ r_eds_label r = e_name e.
Proof.
  intros sn pl st' H Hin. destruct (sync_active_is_rule _ _ _ H Hin) as [e [u [Ho [Hu Hact]]]].
  cbv zeta in *. apply last_such_some in Hu. destruct Hu as [Hu _].
  set (act := last_such (fun r => N.eqb (r_name r) (es_active (e_status e))) (rs_of_eds e (es_rss sn))) in *.
  assert (Hc : In (fst (select_current (e_annots e) (st_canary (e_strategy e)) act u (es_now sn))) (rs_of_eds e (es_rss sn))).
  { destruct act as [a|] eqn:Ea.
    - destruct (select_current_cases (e_annots e) (st_canary (e_strategy e)) a u (es_now sn)) as [-> | ->]; [assumption|].
      unfold act in Ea. apply last_such_some in Ea. tauto.
    - cbn. assumption. }
  apply rs_of_eds_own in Hc. destruct Hc as [A [B C]]. eexists e, _. repeat split; eauto.
Qed.
