(** * C15Proofs: canary node selection ([selectNodes]). *)
From Coq Require Import List ZArith NArith Bool Lia Permutation Sorting.Sorted RelationClasses.
From EDS Require Import Model.Objects Model.Fitness Model.PodSpec Model.Canary Model.EdsLogic Proofs.Lists.
Import ListNotations.
Open Scope Z_scope.

(** ** the stable insertion sort *)
Lemma insert_by_perm : forall {A} (key : A -> Z) x l, Permutation (x :: l) (insert_by key x l).
Proof.
  intros A key x l; induction l as [|y r IH]; simpl; [apply Permutation_refl|].
  destruct (key x <=? key y); [apply Permutation_refl|].
  eapply Permutation_trans; [apply perm_swap|]. apply perm_skip. exact IH.
Qed.
Lemma sort_by_perm : forall {A} (key : A -> Z) l, Permutation l (sort_by key l).
Proof.
  intros A key l; induction l as [|x r IH]; simpl; [apply Permutation_refl|].
  eapply Permutation_trans; [apply perm_skip; exact IH | apply insert_by_perm].
Qed.
Lemma sort_by_In : forall {A} (key : A -> Z) l x, In x (sort_by key l) <-> In x l.
Proof.
  intros A key l x. split; intros H.
  - eapply Permutation_in; [apply Permutation_sym, sort_by_perm | exact H].
  - eapply Permutation_in; [apply sort_by_perm | exact H].
Qed.

Definition le_key {A} (key : A -> Z) (a b : A) : Prop := key a <= key b.
Lemma insert_by_sorted : forall {A} (key : A -> Z) x l,
  Sorted (le_key key) l -> Sorted (le_key key) (insert_by key x l).
Proof.
  intros A key x l; induction l as [|y r IH]; intros Hs; simpl.
  - constructor; constructor.
  - destruct (key x <=? key y) eqn:E.
    + constructor; [assumption|]. constructor. unfold le_key. apply Z.leb_le; assumption.
    + inversion Hs; subst. constructor; [apply IH; assumption|].
      apply Z.leb_gt in E. destruct r as [|z r']; simpl.
      * constructor. unfold le_key; lia.
      * destruct (key x <=? key z); constructor; unfold le_key; try lia.
        inversion H2; subst. assumption.
Qed.
Lemma sort_by_sorted : forall {A} (key : A -> Z) l, Sorted (le_key key) (sort_by key l).
Proof.
  intros A key l; induction l as [|x r IH]; simpl; [constructor|]. apply insert_by_sorted; assumption.
Qed.

Ltac nlia := unfold name in *; lia.

(** ** one selection step *)
Section Step.
Variables (t : tmpl) (keys : list name) (nb : Z).

Record sel_inv (valid : name -> Prop) (s : sel_state) : Prop := {
  si_nodup : NoDup (ss_current s);
  si_valid : forall nn, In nn (ss_current s) -> valid nn;
  si_bound : zlen (ss_current s) <= nb;
  si_open : ss_done s = false -> zlen (ss_current s) < nb
}.

Lemma select_step_grows : forall s n, incl (ss_current s) (ss_current (select_step t keys nb s n)).
Proof.
  intros s n. unfold select_step.
  destruct (ss_done s); [apply incl_refl|].
  destruct (memN (n_name n) (ss_current s)); [apply incl_refl|].
  destruct (negb (Nat.eqb (length keys) 0) && _); [apply incl_refl|].
  cbn. destruct (fit t n); [apply incl_appl|]; apply incl_refl.
Qed.

Lemma select_step_inv : forall (valid : name -> Prop) s n,
  (fit t n = true -> valid (n_name n)) -> sel_inv valid s -> sel_inv valid (select_step t keys nb s n).
Proof.
  intros valid s n Hv [Hnd Hval Hb Ho]. unfold select_step.
  case_eq (ss_done s); intros Ed; [constructor; assumption|].
  destruct (memN (n_name n) (ss_current s)) eqn:Em; [constructor; assumption|].
  destruct (negb (Nat.eqb (length keys) 0) && _); [constructor; assumption|].
  specialize (Ho Ed). apply memN_false in Em.
  destruct (fit t n) eqn:Ef; cbn.
  - assert (Hl : zlen (ss_current s ++ [n_name n]) = zlen (ss_current s) + 1) by (rewrite zlen_app; reflexivity).
    constructor; cbn.
    + apply NoDup_Add with (a := n_name n) (l := ss_current s).
      * rewrite <- (app_nil_r (ss_current s)) at 1. apply Add_app.
      * split; assumption.
    + intros nn Hin. apply in_app_or in Hin. destruct Hin as [Hin|[<-|[]]]; [apply Hval; assumption | apply Hv; reflexivity].
    + rewrite Hl. lia.
    + intros Hd. apply Z.eqb_neq in Hd. rewrite Hl in *. lia.
  - constructor; cbn; try assumption. intros _. assumption.
Qed.

Lemma select_fold_inv : forall (valid : name -> Prop) ns s,
  (forall n, In n ns -> fit t n = true -> valid (n_name n)) -> sel_inv valid s ->
  sel_inv valid (fold_left (select_step t keys nb) ns s) /\
  incl (ss_current s) (ss_current (fold_left (select_step t keys nb) ns s)).
Proof.
  intros valid ns; induction ns as [|n r IH]; intros s Hv Hi; simpl; [split; [assumption | apply incl_refl]|].
  destruct (IH (select_step t keys nb s n)) as [A B].
  - intros m Hm; apply Hv; right; assumption.
  - apply select_step_inv; [apply Hv; left; reflexivity | assumption].
  - split; [assumption|]. eapply incl_tran; [apply select_step_grows | exact B].
Qed.
End Step.

(** ** [select_nodes] *)
Section Select.
Variables (t : tmpl) (keys : list name) (nb : Z) (nodes : list node) (pods : list pod) (previous : list name).

(** a valid canary node: a listed node (the caller lists the nodes matching the canary node selector)
    that is fit for the pod *)
Definition valid_node (nn : name) : Prop := exists n, In n nodes /\ n_name n = nn /\ fit t n = true.

Let sorted := sort_by (fun n => node_restarts pods (n_name n)) nodes.
Let still_valid := filter (fun nn => match find (fun n => N.eqb (n_name n) nn) sorted with
                                     | Some n => fit t n | None => false end) previous.
Let final := fst (select_nodes t keys nb nodes pods previous).

Lemma still_valid_valid : forall nn, In nn still_valid -> valid_node nn.
Proof.
  intros nn H. unfold still_valid in H. apply filter_In in H. destruct H as [_ H].
  destruct (find _ sorted) as [n|] eqn:E; [|discriminate]. apply find_some in E. destruct E as [Hin He].
  apply N.eqb_eq in He. exists n. split; [apply (proj1 (sort_by_In (fun n => node_restarts pods (n_name n)) nodes n)); exact Hin | split; assumption].
Qed.

Lemma final_cases :
  (zlen still_valid <? nb = true /\
   final = ss_current (fold_left (select_step t keys nb) sorted
                         (MkSel still_valid (if Nat.eqb (length keys) 0 then [] else aa_init keys sorted still_valid) false))) \/
  (zlen still_valid <? nb = false /\ final = still_valid).
Proof.
  unfold final, select_nodes. fold sorted. fold still_valid.
  destruct (zlen still_valid <? nb) eqn:E; [left | right]; split; reflexivity.
Qed.

Lemma start_inv : NoDup previous -> zlen still_valid <? nb = true ->
  sel_inv nb valid_node (MkSel still_valid (if Nat.eqb (length keys) 0 then [] else aa_init keys sorted still_valid) false).
Proof.
  intros Hnd Hlt. apply Z.ltb_lt in Hlt. constructor; cbn.
  - apply NoDup_filter; assumption.
  - apply still_valid_valid.
  - nlia.
  - intros _; assumption.
Qed.

Lemma fold_facts : NoDup previous -> zlen still_valid <? nb = true ->
  sel_inv nb valid_node (fold_left (select_step t keys nb) sorted
     (MkSel still_valid (if Nat.eqb (length keys) 0 then [] else aa_init keys sorted still_valid) false)) /\
  incl still_valid (ss_current (fold_left (select_step t keys nb) sorted
     (MkSel still_valid (if Nat.eqb (length keys) 0 then [] else aa_init keys sorted still_valid) false))).
Proof.
  intros Hnd Hlt. apply select_fold_inv; [|apply start_inv; assumption].
  intros n Hn Hf. exists n. split; [apply (proj1 (sort_by_In (fun n => node_restarts pods (n_name n)) nodes n)); exact Hn | split; [reflexivity | assumption]].
Qed.

Theorem select_nodup : NoDup previous -> NoDup final.
Proof.
  intros Hnd. destruct final_cases as [[Hlt ->]|[_ ->]].
  - destruct (fold_facts Hnd Hlt) as [[A _ _ _] _]. exact A.
  - apply NoDup_filter; assumption.
Qed.

Theorem select_all_valid : NoDup previous -> forall nn, In nn final -> valid_node nn.
Proof.
  intros Hnd nn. destruct final_cases as [[Hlt ->]|[_ ->]].
  - destruct (fold_facts Hnd Hlt) as [[_ B _ _] _]. apply B.
  - apply still_valid_valid.
Qed.

(** previously selected nodes that are still valid are kept *)
Theorem select_keeps_valid : NoDup previous -> forall nn, In nn previous -> valid_node nn ->
  (forall n m, In n nodes -> In m nodes -> n_name n = n_name m -> n = m) ->   (* node names are unique *)
  In nn final.
Proof.
  intros Hnd nn Hp [n [Hn [Hname Hfit]]] Huniq.
  assert (Hsv : In nn still_valid).
  { unfold still_valid. apply filter_In. split; [assumption|].
    destruct (find (fun m => N.eqb (n_name m) nn) sorted) as [m|] eqn:E.
    - apply find_some in E. destruct E as [Hm He]. apply N.eqb_eq in He.
      assert (m = n). { apply Huniq; [apply (proj1 (sort_by_In (fun n => node_restarts pods (n_name n)) nodes m)); exact Hm | assumption | congruence]. }
      subst m. assumption.
    - exfalso. assert (Hs : In n sorted) by (apply (proj2 (sort_by_In (fun n => node_restarts pods (n_name n)) nodes n)); exact Hn).
      pose proof (find_none _ _ E n Hs) as Hf. cbn in Hf. rewrite Hname, N.eqb_refl in Hf. discriminate. }
  destruct final_cases as [[Hlt ->]|[_ ->]]; [|assumption].
  destruct (fold_facts Hnd Hlt) as [_ Hincl]. apply Hincl; assumption.
Qed.

(** never more than the resolved replicas through the controller's own choice *)
Theorem select_no_overshoot : NoDup previous -> zlen final <= Z.max nb (zlen still_valid) /\
  (zlen still_valid < nb -> zlen final <= nb) /\ incl still_valid previous.
Proof.
  intros Hnd. split; [|split].
  - destruct final_cases as [[Hlt ->]|[_ ->]]; [|nlia].
    destruct (fold_facts Hnd Hlt) as [[_ _ B _] _]. nlia.
  - intros Hlt. destruct final_cases as [[Hlt' ->]|[Hge _]]; [|apply Z.ltb_ge in Hge; nlia].
    destruct (fold_facts Hnd Hlt') as [[_ _ B _] _]. nlia.
  - intros x Hx. unfold still_valid in Hx. apply filter_In in Hx. tauto.
Qed.

(** fewer valid nodes than requested is reported ([snd] = false is the error path) *)
Theorem select_short_iff : snd (select_nodes t keys nb nodes pods previous) = false <-> zlen final < nb.
Proof.
  unfold final, select_nodes. fold sorted. fold still_valid. cbn [fst snd].
  rewrite negb_false_iff, Z.ltb_lt. reflexivity.
Qed.

Theorem select_count : NoDup previous -> snd (select_nodes t keys nb nodes pods previous) = true ->
  zlen still_valid <= nb -> zlen final = nb.
Proof.
  intros Hnd Hs Hle. assert (Hge : ~ zlen final < nb) by (intros H; apply select_short_iff in H; congruence).
  destruct (select_no_overshoot Hnd) as [H1 _]. nlia.
Qed.
End Select.

(** candidates are visited in order of non-decreasing restart count of their daemon pods *)
Theorem candidates_by_restarts : forall pods nodes,
  Sorted (le_key (fun n => node_restarts pods (n_name n))) (sort_by (fun n => node_restarts pods (n_name n)) nodes).
Proof. intros; apply sort_by_sorted. Qed.

(** nothing is added once the still-valid part of the previous list reaches the resolved replicas *)
Theorem select_adds_only_below : forall t keys nb nodes pods previous,
  zlen (filter (fun nn => match find (fun n => N.eqb (n_name n) nn)
                                     (sort_by (fun n => node_restarts pods (n_name n)) nodes) with
                          | Some n => fit t n | None => false end) previous) >= nb ->
  incl (fst (select_nodes t keys nb nodes pods previous)) previous.
Proof.
  intros t keys nb nodes pods previous H. unfold select_nodes.
  match goal with |- context [if ?c then _ else _] => destruct c eqn:E end.
  - apply Z.ltb_lt in E. unfold name in *. lia.
  - cbn. intros x Hx. apply filter_In in Hx. tauto.
Qed.

(** ** least restarts first (without anti-affinity keys) *)
Section Least.
Variables (t : tmpl) (nb : Z) (pods : list pod).
Let k (nn : name) : Z := node_restarts pods nn.
Let key (n : node) : Z := k (n_name n).

(** [base] = the names the selection started from; added = current minus base *)
Record least_inv (base : list name) (s : sel_state) (seen rest : list node) : Prop := {
  li_rest : forall a m, In a (ss_current s) -> ~ In a base -> In m rest -> k a <= key m;
  li_seen : forall m, In m seen -> fit t m = true -> ~ In (n_name m) (ss_current s) ->
              ss_done s = true /\ forall a, In a (ss_current s) -> ~ In a base -> k a <= key m;
  li_open : ss_done s = false -> zlen (ss_current s) < nb
}.

Lemma least_step : forall base s seen n rest,
  StronglySorted (le_key key) (n :: rest) ->
  least_inv base s seen (n :: rest) ->
  least_inv base (select_step t [] nb s n) (seen ++ [n]) rest.
Proof.
  intros base s seen n rest Hss [Hr Hs Ho].
  assert (Hhd : forall m, In m rest -> key n <= key m).
  { inversion Hss as [|x l Hl Hall]; subst. rewrite Forall_forall in Hall. exact Hall. }
  unfold select_step. cbn [length Nat.eqb negb andb].
  destruct (ss_done s) eqn:Ed.
  - (* done: nothing changes *)
    constructor.
    + intros a m Ha Hb Hm. apply Hr; [assumption | assumption | right; assumption].
    + intros m Hm Hf Hn. apply in_app_or in Hm. destruct Hm as [Hm|[<-|[]]].
      * destruct (Hs m Hm Hf Hn) as [_ Hx]. split; [exact Ed | exact Hx].
      * split; [exact Ed|]. intros a Ha Hb. apply Hr; [assumption | assumption | left; reflexivity].
    + intros F. congruence.
  - destruct (memN (n_name n) (ss_current s)) eqn:Em.
    + constructor.
      * intros a m Ha Hb Hm. apply Hr; [assumption | assumption | right; assumption].
      * intros m Hm Hf Hn. apply in_app_or in Hm. destruct Hm as [Hm|[<-|[]]].
        -- destruct (Hs m Hm Hf Hn) as [F _]. congruence.
        -- exfalso. apply Hn. apply memN_In. assumption.
      * intros _. apply Ho. reflexivity.
    + destruct (fit t n) eqn:Ef; cbn [ss_current ss_done].
      * constructor; cbn [ss_current ss_done].
        -- intros a m Ha Hb Hm. apply in_app_or in Ha. destruct Ha as [Ha|[<-|[]]].
           ++ apply Hr; [assumption | assumption | right; assumption].
           ++ apply Hhd. assumption.
        -- intros m Hm Hf Hn. apply in_app_or in Hm. destruct Hm as [Hm|[<-|[]]].
           ++ assert (Hn' : ~ In (n_name m) (ss_current s)) by (intros F; apply Hn; apply in_or_app; left; assumption).
              destruct (Hs m Hm Hf Hn') as [F _]. congruence.
           ++ exfalso. apply Hn. apply in_or_app. right. left. reflexivity.
        -- intros Hd. apply Z.eqb_neq in Hd. specialize (Ho eq_refl). rewrite zlen_app in *. cbn in *. unfold zlen in *. cbn [length] in *. lia.
      * constructor; cbn [ss_current ss_done].
        -- intros a m Ha Hb Hm. apply Hr; [assumption | assumption | right; assumption].
        -- intros m Hm Hf Hn. apply in_app_or in Hm. destruct Hm as [Hm|[<-|[]]].
           ++ destruct (Hs m Hm Hf Hn) as [F _]. congruence.
           ++ congruence.
        -- intros _. apply Ho. reflexivity.
Qed.

Lemma least_fold : forall base rest s seen,
  StronglySorted (le_key key) rest -> least_inv base s seen rest ->
  least_inv base (fold_left (select_step t [] nb) rest s) (seen ++ rest) [].
Proof.
  intros base rest; induction rest as [|n r IH]; intros s seen Hss Hi; cbn [fold_left].
  - rewrite app_nil_r. exact Hi.
  - replace (seen ++ n :: r) with ((seen ++ [n]) ++ r) by (rewrite <- app_assoc; reflexivity).
    apply IH; [inversion Hss; assumption | apply least_step; assumption].
Qed.
End Least.

#[local] Instance le_key_trans {A} (key : A -> Z) : Transitive (le_key key).
Proof. intros a b c H1 H2. unfold le_key in *. lia. Qed.

(** Without anti-affinity keys the nodes ADDED by a selection are taken in order of increasing restarts of their
    daemon pods: every added node has no more restarts than any valid (listed, fit) candidate that was left out. *)
Theorem select_least_restarts : forall t nb nodes pods previous a m,
  let final := fst (select_nodes t [] nb nodes pods previous) in
  let still_valid := filter (fun nn => match find (fun n => N.eqb (n_name n) nn)
                                                  (sort_by (fun n => node_restarts pods (n_name n)) nodes) with
                                       | Some n => fit t n | None => false end) previous in
  In a final -> ~ In a still_valid ->
  In m nodes -> fit t m = true -> ~ In (n_name m) final ->
  node_restarts pods a <= node_restarts pods (n_name m).
Proof.
  intros t nb nodes pods previous a m final still_valid Ha Hna Hm Hf Hnm.
  unfold final, select_nodes in *. cbn [fst] in *. fold still_valid in Ha, Hnm.
  set (sorted := sort_by (fun n => node_restarts pods (n_name n)) nodes) in *.
  destruct (zlen still_valid <? nb) eqn:Elt; [|contradiction].
  cbn [length Nat.eqb] in *.
  assert (Hss : StronglySorted (le_key (fun n => node_restarts pods (n_name n))) sorted).
  { apply Sorted_StronglySorted; [apply le_key_trans | apply sort_by_sorted]. }
  assert (H0 : least_inv t nb pods still_valid (MkSel still_valid [] false) [] sorted).
  { constructor; cbn [ss_current ss_done].
    - intros x y Hx Hb. contradiction.
    - intros y [].
    - intros _. apply Z.ltb_lt. assumption. }
  pose proof (least_fold t nb pods still_valid sorted _ [] Hss H0) as [_ Hs _]. cbn [app] in Hs.
  assert (Hms : In m sorted) by (apply (proj2 (sort_by_In _ nodes m)); exact Hm).
  destruct (Hs m Hms Hf Hnm) as [_ Hle]. apply Hle; assumption.
Qed.
