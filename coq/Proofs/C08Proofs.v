(** * C08Proofs: pause and freeze annotations, paused canaries. *)
From Coq Require Import List ZArith NArith Bool Lia.
From EDS Require Import Model.Objects Model.Fitness Model.PodSpec Model.Backoff Model.Filter Model.Default
     Model.Limits Model.Rolling Model.Canary Model.ErsReconcile Model.EdsLogic
     Proofs.Lists Proofs.RollingProofs Proofs.SyncInv Proofs.CanaryProofs.
Import ListNotations.
Open Scope Z_scope.

Ltac break_match_hyp H :=
  match type of H with
  | context [match ?x with _ => _ end] => destruct x eqn:?; try discriminate
  | context [if ?x then _ else _] => destruct x eqn:?; try discriminate
  end.

Lemma plan_flags : forall rs ann ru now items rp,
  rolling_plan_of rs ann ru now items = Ok rp ->
  rp_paused rp = a3_true (an_rolling_paused ann) /\ rp_frozen rp = a3_true (an_frozen ann).
Proof.
  intros rs ann ru now items rp H. unfold rolling_plan_of in H.
  repeat break_match_hyp H; inversion H; subst; cbn; split; reflexivity.
Qed.

(** the plan depends on the annotations only through "is it exactly true" of the two switches *)
Lemma plan_depends_on_switches : forall rs ann ann' ru now items,
  a3_true (an_rolling_paused ann) = a3_true (an_rolling_paused ann') ->
  a3_true (an_frozen ann) = a3_true (an_frozen ann') ->
  rolling_plan_of rs ann ru now items = rolling_plan_of rs ann' ru now items.
Proof. intros rs ann ann' ru now items H1 H2. unfold rolling_plan_of. rewrite H1, H2. reflexivity. Qed.

(** pausing changes nothing but the number of update-deletions *)
Lemma paused_creates_unchanged : forall rs ann ann' ru now items rp rp',
  a3_true (an_frozen ann) = a3_true (an_frozen ann') ->
  rolling_plan_of rs ann ru now items = Ok rp -> rolling_plan_of rs ann' ru now items = Ok rp' ->
  rp_nb_create rp = rp_nb_create rp' /\ rp_create_candidates rp = rp_create_candidates rp' /\
  rp_counts rp = rp_counts rp' /\ rp_max_creation rp = rp_max_creation rp'.
Proof.
  intros rs ann ann' ru now items rp rp' Hf H H'. unfold rolling_plan_of in *. rewrite <- Hf in H'.
  repeat break_match_hyp H; inversion H; inversion H'; subst; cbn; repeat split; reflexivity.
Qed.

Lemma strategy_active_shape : forall sn ch cx so, strategy_active sn ch cx = Ok so ->
  (so_rolling so = None /\ so_delete_nodes so = [] /\ so_create_nodes so = []) \/
  (exists rp, so_rolling so = Some rp /\
     rolling_plan_of (sn_rs sn) (e_annots (cx_eds cx)) (st_rolling (e_strategy (cx_eds cx))) (sn_now sn)
                     (planning_items cx) = Ok rp).
Proof.
  intros sn ch cx so H. unfold strategy_active in H.
  destruct (rolling_plan_of _ _ _ _ _) as [pl|c|c] eqn:Ep; try discriminate.
  - right. destruct (rolling_status_counts pl) as [[[[d cur] rdy] av] ign].
    inversion H; subst; clear H. cbn. eauto.
  - left. inversion H; subst; cbn. auto.
Qed.

Lemma update_nodes_nil_deletes_nil : forall sn ch pl,
  ers_sync sn ch = Ok pl -> pl_update_nodes pl = [] -> pl_deletes pl = [].
Proof.
  intros sn ch pl H Hn. apply ers_sync_inv in H.
  destruct H as [rl st after err Hp | e freq cx so He Hd Hf Hg Hc Hs Hfin].
  - subst pl; reflexivity.
  - apply finish_sync_fields in Hfin. destruct Hfin as [_ [_ [_ [_ [_ [_ [Hdel _]]]]]]].
    rewrite Hdel, Hn. reflexivity.
Qed.

(** While rolling-update-paused (or rollout-frozen) is true the active replica set deletes no pod in
    order to update it; while rollout-frozen is true it creates no pod either. *)
Theorem active_paused_frozen : forall sn ch pl e,
  ers_sync sn ch = Ok pl -> sn_eds sn = Some e -> pl_role pl = RoleActive ->
  (a3_true (an_rolling_paused (e_annots e)) || a3_true (an_frozen (e_annots e)) = true ->
     pl_update_nodes pl = [] /\ pl_deletes pl = []) /\
  (a3_true (an_frozen (e_annots e)) = true -> pl_creates pl = []).
Proof.
  intros sn ch pl e H He Hrole. pose proof H as H0. apply ers_sync_inv in H.
  destruct H as [rl st after err Hp | e' freq cx so He' Hd Hf Hg Hc Hs Hfin].
  - subst pl; cbn. split; intros; auto.
  - rewrite He in He'. inversion He'; subst e'.
    pose proof (finish_sync_fields _ _ _ _ Hfin) as F.
    destruct F as [Frole [Froll [_ [_ [_ [Fupd [Fdel [Fcre Fadm]]]]]]]].
    pose proof (build_ctx_fields _ _ _ _ Hc) as [Hce _].
    rewrite Frole in Hrole. unfold strategy_of in Hs. rewrite Hrole in Hs.
    destruct (strategy_active_shape _ _ _ _ Hs) as [[Hn [Hdn Hcn]] | [rp [Hrp Hplan]]].
    + split; intros _.
      * assert (pl_update_nodes pl = []) by (rewrite Fupd, Hdn; destruct (del_delayed_of sn cx so); reflexivity).
        split; [assumption | eapply update_nodes_nil_deletes_nil; eassumption].
      * destruct Fcre as [F|F]; [assumption | rewrite F; assumption].
    + rewrite Hce in Hplan. destruct (plan_flags _ _ _ _ _ _ Hplan) as [Hp Hfz].
      assert (WF : plan_wf rp).
      { eapply rolling_plan_wf; [|exact Hplan]. apply planning_items_NoDup. eapply ctx_items_NoDup; eassumption. }
      destruct (Fadm rp Hrp) as [Fd Fc]. split; intros Hflag.
      * assert (pl_update_nodes pl = []).
        { destruct Fd as [F|F]; [assumption|]. eapply paused_frozen_no_delete; eauto; rewrite Hp, Hfz; assumption. }
        split; [assumption | eapply update_nodes_nil_deletes_nil; eassumption].
      * destruct Fc as [F|F]; [assumption|]. eapply frozen_no_create; eauto; rewrite Hfz; assumption.
Qed.

(** ** Paused canary *)
Lemma canary_paused_no_create : forall rs ann oc now cn listed items st0 cp,
  manage_canary_status rs ann oc now cn listed items st0 = Ok cp ->
  cp_paused cp || cp_failed cp = true -> cp_creates cp = [].
Proof.
  intros rs ann oc now cn listed items st0 cp H Hp. apply manage_canary_inv in H. cbv zeta in H.
  destruct H as [l [conds4 [_ [Hc [_ [Hf [Hpa _]]]]]]]. rewrite Hc. rewrite Hf, Hpa in Hp.
  destruct (cl_paused l), (cl_failed l); simpl in *; try discriminate; rewrite ?andb_false_r; reflexivity.
Qed.

(** the loop keeps "not failed => not paused" when the unpause annotation is set *)
Definition unpaused_inv (st : cloop) : Prop := cl_failed st = false -> cl_paused st = false.

Lemma step_unpaused_inv : forall cfg now sc rc st p st',
  canary_pod_step cfg true now sc rc st p = Ok st' -> unpaused_inv st -> unpaused_inv st'.
Proof.
  intros cfg now sc rc st p st' H Hinv. unfold canary_pod_step in H.
  apply bind_ok in H. destruct H as [[rcount hreason] [_ H]].
  apply bind_ok in H. destruct H as [nr [_ H]].
  destruct (cannot_start p) as [cs0 csr0].
  apply bind_ok in H. destruct H as [[[cannot creason] cspod] [_ H]].
  unfold unpaused_inv in *.
  repeat break_match_hyp H; inversion H; subst; cbn in *; intros; try congruence; auto.
Qed.

Lemma loop_unpaused_inv : forall cfg now sc rc ps st st',
  canary_pod_loop cfg true now sc rc st ps = Ok st' -> unpaused_inv st -> unpaused_inv st'.
Proof.
  intros cfg now sc rc ps; induction ps as [|p r IH]; intros st st' H Hinv; simpl in H.
  - inversion H; subst; assumption.
  - apply bind_ok in H. destruct H as [st1 [H1 H]]. eapply IH; [exact H|]. eapply step_unpaused_inv; eassumption.
Qed.

(** A manual unpause lifts the pause unless the canary is failed - also when no canary pod can be
    evaluated (the repaired defect D6). *)
Theorem canary_unpause_lifts : forall rs ann oc now cn listed items st0 cp,
  manage_canary_status rs ann oc now cn listed items st0 = Ok cp -> oc <> None ->
  canary_unpaused ann = true -> cp_failed cp = false -> cp_paused cp = false.
Proof.
  intros rs ann oc now cn listed items st0 cp H Hoc Hu Hf. apply manage_canary_inv in H. cbv zeta in H.
  destruct H as [l [conds4 [He [_ [_ [Hfl [Hpa _]]]]]]]. rewrite Hpa. rewrite Hfl in Hf.
  apply canary_evaluate_inv in He. destruct He as [[Hn _] | [_ [cfg [_ Hl]]]]; [contradiction|].
  rewrite Hu in Hl. pose proof (loop_unpaused_inv _ _ _ _ _ _ _ Hl) as Hinv.
  assert (Hi : unpaused_inv l).
  { apply Hinv. unfold unpaused_inv; cbn. intros Hf0. rewrite Hf0. reflexivity. }
  apply Hi; assumption.
Qed.

(** a failed canary stays failed: Canary-Failed true in the status read => failed in the plan *)
Lemma step_failed_inv : forall cfg u now sc rc st p st',
  canary_pod_step cfg u now sc rc st p = Ok st' -> cl_failed st = true -> cl_failed st' = true.
Proof.
  intros cfg u now sc rc st p st' H Hinv. unfold canary_pod_step in H.
  apply bind_ok in H. destruct H as [[rcount hreason] [_ H]].
  apply bind_ok in H. destruct H as [nr [_ H]].
  destruct (cannot_start p) as [cs0 csr0].
  apply bind_ok in H. destruct H as [[[cannot creason] cspod] [_ H]].
  rewrite Hinv in H. inversion H; subst; cbn. auto.
Qed.
Lemma loop_failed_inv : forall cfg u now sc rc ps st st',
  canary_pod_loop cfg u now sc rc st ps = Ok st' -> cl_failed st = true -> cl_failed st' = true.
Proof.
  intros cfg u now sc rc ps; induction ps as [|p r IH]; intros st st' H Hinv; simpl in H.
  - inversion H; subst; assumption.
  - apply bind_ok in H. destruct H as [st1 [H1 H]]. eapply IH; [exact H|]. eapply step_failed_inv; eassumption.
Qed.
Theorem canary_failed_sticky : forall rs ann oc now cn listed items st0 cp,
  manage_canary_status rs ann oc now cn listed items st0 = Ok cp ->
  canary_failed_rs (r_status rs) = true -> cp_failed cp = true.
Proof.
  intros rs ann oc now cn listed items st0 cp H Hf. apply manage_canary_inv in H. cbv zeta in H.
  destruct H as [l [conds4 [He [_ [_ [Hfl _]]]]]]. rewrite Hfl.
  apply canary_evaluate_inv in He. destruct He as [[_ [-> _]] | [_ [cfg [_ Hl]]]]; [exact Hf|].
  eapply loop_failed_inv; [exact Hl | exact Hf].
Qed.

(** ** The ExtendedDaemonSet side *)
(** a paused canary (annotation or the replica set's Canary-Paused condition) is never promoted by
    elapsed time: only the canary-valid annotation promotes it *)
Theorem paused_not_time_promoted : forall ann oc a u now,
  oc <> None -> fst (canary_paused ann (Some (r_status u))) = true -> canary_valid ann (r_name u) = false ->
  fst (select_current ann oc (Some a) u now) = a.
Proof.
  intros ann oc a u now Hoc Hp Hv. unfold select_current.
  destruct oc as [c|]; [|congruence].
  destruct (canary_ended (Some c) u now) as [ended rq]. rewrite Hp, Hv. cbn.
  rewrite andb_false_r. reflexivity.
Qed.

(** ... and explicit validation does promote it, paused or not, as long as it is not failed *)
Theorem validated_promotes : forall ann oc a u now,
  canary_valid ann (r_name u) = true -> canary_failed_rs (r_status u) = false ->
  fst (select_current ann oc (Some a) u now) = u.
Proof.
  intros ann oc a u now Hv Hf. unfold select_current. destruct oc as [c|]; [|reflexivity].
  destruct (canary_ended (Some c) u now) as [ended rq]. rewrite Hv, Hf. reflexivity.
Qed.

Theorem state_string_no_canary : forall ann,
  non_canary_state ann =
  if a3_true (an_frozen ann) then ST_FROZEN else if a3_true (an_rolling_paused ann) then ST_RU_PAUSED else ST_RUNNING.
Proof. reflexivity. Qed.

Theorem state_string_canary : forall st ann u paused reason,
  es_state (manage_status st ann u true false paused reason) = (if paused then ST_CANARY_PAUSED else ST_CANARY) /\
  es_reason (manage_status st ann u true false paused reason) = (if paused then reason else R_EMPTY).
Proof. intros; unfold manage_status; cbn. split; reflexivity. Qed.
