(** * C02: a fair round of the sync model under an explicit environment model projects to the abstract round;
    convergence of the sync model follows. *)
From Coq Require Import List ZArith NArith Bool Lia.
From EDS Require Import Model.Base Model.Objects Model.Fitness Model.PodSpec Model.Limits Model.Rolling Model.Abstract
     Proofs.Lists Proofs.RollingProofs Proofs.C02Proofs.
Import ListNotations.
Open Scope Z_scope.



Theorem settle_projects : forall rs now now' items items',
  settled rs now now' items items' -> count_if (is_class c_unresp rs now) items = 0 ->
  abs_of rs now' items' = a_settle (abs_of rs now items) /\ count_if (is_class c_unresp rs now') items' = 0.
Proof.
  intros rs now now' items items' H. unfold settled in H.
  induction H as [|i i' r r' Hi Hr IH]; intro Hu.
  - split; reflexivity.
  - rewrite count_if_cons in Hu. pose proof (count_if_nonneg (is_class c_unresp rs now) r) as Hnn.
    assert (Hboth : is_class c_unresp rs now i = false /\ count_if (is_class c_unresp rs now) r = 0).
    { destruct (is_class c_unresp rs now i) eqn:E; [exfalso; lia | split; [reflexivity | lia]]. }
    destruct Hboth as [Hi0 Hu'].
    destruct (IH Hu') as [IHa IHu]. clear IH.
    unfold abs_of, a_settle in *. cbn [a_missing a_up_ready a_up_notready a_old_ready a_old_notready a_terminating] in *.
    injection IHa as E1 E2 E3 E4 E5 E6.
    rewrite !count_if_cons. unfold is_class in *. rewrite Hi.
    split.
    + rewrite E1, E2, E3, E4, E5, E6.
      destruct (classify rs now i) as [| |[|]| | |]; cbn [cls_settle c_nopod c_ready c_up_notready c_oldavail c_oldunavail c_oldterm c_unresp] in Hi0 |- *; try discriminate; f_equal; lia.
    + rewrite IHu. destruct (classify rs now i) as [| |[|]| | |]; cbn [cls_settle c_nopod c_ready c_up_notready c_oldavail c_oldunavail c_oldterm c_unresp] in Hi0 |- *; try discriminate; reflexivity.
Qed.



Lemma synced_no_unresp : forall rs now creates deletes items items',
  synced rs now creates deletes items items' -> count_if (is_class c_unresp rs now) items = 0 ->
  count_if (is_class c_unresp rs now) items' = 0.
Proof.
  intros rs now creates deletes items items' H. unfold synced in H.
  induction H as [|i i' r r' Hi Hr IH]; intro Hu; [reflexivity|].
  rewrite count_if_cons in Hu. pose proof (count_if_nonneg (is_class c_unresp rs now) r) as Hnn.
  assert (Hboth : is_class c_unresp rs now i = false /\ count_if (is_class c_unresp rs now) r = 0).
  { destruct (is_class c_unresp rs now i) eqn:E; [exfalso; lia | split; [reflexivity | lia]]. }
  destruct Hboth as [Hi0 Hu'].
  rewrite count_if_cons, (IH Hu'). unfold is_class in *. rewrite Hi. unfold cls_after.
  destruct (memN (ni_name i) creates); [reflexivity|]. destruct (memN (ni_name i) deletes); [reflexivity|].
  rewrite Hi0. reflexivity.
Qed.

Theorem round_projects : forall rs ann ru st st'',
  fair_round rs ann ru st st'' -> count_if (is_class c_unresp rs (fst st)) (snd st) = 0 ->
  exists maxc mu, 1 <= maxc /\ 1 <= mu /\
    abs_of rs (fst st'') (snd st'') = a_round maxc mu (abs_of rs (fst st) (snd st)) /\
    count_if (is_class c_unresp rs (fst st'')) (snd st'') = 0.
Proof.
  intros rs ann ru st st'' R Hu.
  destruct R as [now items now' items' rp creates deletes items'' Hs Hnd Hp Hpa Hfr Hc Hm Hsf Hac Had Hsy].
  cbn [fst snd] in *.
  destruct (settle_projects _ _ _ _ _ Hs Hu) as [Ha Hu'].
  exists (rp_max_creation rp), (rp_max_unavailable rp). split; [exact Hc|]. split; [exact Hm|].
  split.
  - unfold a_round. rewrite <- Ha.
    exact (sync_projects rs ann ru now' items' items'' rp creates deletes Hnd Hp Hpa Hfr Hu' Hsf Hac Had Hsy).
  - exact (synced_no_unresp _ _ _ _ _ _ Hsy Hu').
Qed.



Lemma chain_converges : forall n s s', a_wf s -> a_chain s n s' -> a_measure s <= Z.of_nat n -> a_converged s'.
Proof.
  induction n as [|k IH]; intros s s' Hwf Hc Hm; inversion Hc; subst.
  - apply measure_zero_converged; [assumption|]. pose proof (measure_nonneg s' Hwf). lia.
  - destruct (round_wf maxc mu s Hwf) as [Hwf' _].
    apply (IH (a_round maxc mu s)); [assumption | assumption |].
    destruct (Z.eq_dec (a_measure s) 0) as [E|E].
    + pose proof (measure_zero_converged s Hwf E) as Hcv.
      rewrite (converged_fixpoint maxc mu s Hwf ltac:(lia) Hcv). lia.
    + pose proof (measure_nonneg s Hwf). pose proof (measure_decreases maxc mu s Hwf ltac:(assumption) ltac:(assumption) ltac:(lia)). lia.
Qed.



Lemma abs_wf : forall rs now items, a_wf (abs_of rs now items).
Proof. intros. unfold a_wf, abs_of; cbn. repeat split; apply count_if_nonneg. Qed.

Lemma c_chain_abs : forall rs ann ru n st st',
  c_chain rs ann ru st n st' -> count_if (is_class c_unresp rs (fst st)) (snd st) = 0 ->
  a_chain (abs_of rs (fst st) (snd st)) n (abs_of rs (fst st') (snd st')) /\
  count_if (is_class c_unresp rs (fst st')) (snd st') = 0.
Proof.
  intros rs ann ru n; induction n as [|k IH]; intros st st' H Hu; inversion H; subst.
  - split; [constructor | exact Hu].
  - match goal with R : fair_round _ _ _ _ _ |- _ => destruct (round_projects _ _ _ _ _ R Hu) as [maxc [mu [Hc [Hm [Ha Hu1]]]]] end.
    match goal with C : c_chain _ _ _ _ _ _ |- _ => destruct (IH _ _ C Hu1) as [Hch Hu'] end.
    split; [|exact Hu']. econstructor; [exact Hc | exact Hm |]. rewrite <- Ha. exact Hch.
Qed.

(** all class counts but "up to date and Ready" are zero: every item is in that class *)
Lemma converged_all_ready : forall rs now items,
  a_converged (abs_of rs now items) -> count_if (is_class c_unresp rs now) items = 0 ->
  forall i, In i items -> classify rs now i = UpToDate true.
Proof.
  intros rs now items [H1 [H2 [H3 [H4 H5]]]] Hu. unfold abs_of in *.
  cbn [a_missing a_up_notready a_old_ready a_old_notready a_terminating] in *.
  induction items as [|x r IH]; intros i Hin; [destruct Hin|].
  rewrite count_if_cons in *.
  pose proof (count_if_nonneg (is_class c_nopod rs now) r). pose proof (count_if_nonneg (is_class c_up_notready rs now) r).
  pose proof (count_if_nonneg (is_class c_oldavail rs now) r). pose proof (count_if_nonneg (is_class c_oldunavail rs now) r).
  pose proof (count_if_nonneg (is_class c_oldterm rs now) r). pose proof (count_if_nonneg (is_class c_unresp rs now) r).
  destruct Hin as [<-|Hin].
  - unfold is_class in *. destruct (classify rs now x) as [| |[|]| | |]; cbn [c_nopod c_ready c_up_notready c_oldavail c_oldunavail c_oldterm c_unresp] in *; try lia. reflexivity.
  - apply IH; try assumption; unfold is_class in *;
      destruct (classify rs now x) as [| |[|]| | |]; cbn [c_nopod c_ready c_up_notready c_oldavail c_oldunavail c_oldterm c_unresp] in *; lia.
Qed.

(** ** Convergence of the sync model under the environment model.
    From ANY planning items (no stuck pod among them), after a chain of fair rounds at least as long as the measure of
    the start (3 per outdated pod, 2 per node without a live pod, 1 per pod not Ready yet: at most 3 per node) - whatever
    the runtime chooses among the admissible calls in each round, whatever the ramp allows beyond one creation and one
    unavailable pod - every planning item holds a Ready pod of the live template. *)
Theorem rollout_converges : forall rs ann ru n st st',
  c_chain rs ann ru st n st' ->
  count_if (is_class c_unresp rs (fst st)) (snd st) = 0 ->
  a_measure (abs_of rs (fst st) (snd st)) <= Z.of_nat n ->
  forall i, In i (snd st') -> classify rs (fst st') i = UpToDate true.
Proof.
  intros rs ann ru n st st' Hc Hu Hm. destruct (c_chain_abs _ _ _ _ _ _ Hc Hu) as [Hch Hu'].
  apply converged_all_ready; [|exact Hu'].
  eapply chain_converges; [apply abs_wf | exact Hch | exact Hm].
Qed.

(** non-vacuity of [fair_round] / [c_chain]: a concrete replica set and node; two fair rounds take the node from
    "no pod" to "a Ready pod of the live template" (the first creates the pod, the environment of the second makes it
    Ready), and the premises of [rollout_converges] hold for that chain (measure 2, two rounds) *)
Definition ex_tmpl := MkTmpl [] None [] [(1%N, MkRes [] [])] [].
Definition ex_rs := MkErs 10%N 20%N 30%N 30%N None 5%N ex_tmpl 5%N None 1000 false (MkErsStatus 1%N 0 0 0 0 0 []).
Definition ex_node := MkNode 40%N [] [] [] 0%N.
Definition ex_ann := MkAnnots AAbsent AAbsent AAbsent None AAbsent None None.
Definition ex_ru := MkRolling (Some (IntV 1)) (Some (IntV 0)) (Some 250) (Some (60 * second)) (Some (IntV 5)).
Definition ex_item (op : option pod) := MkNItem ex_node None op.

Definition ex_t0 : time := 10000 * second.
Definition ex_t1 : time := 10100 * second.
Definition ex_t2 : time := 10200 * second.
Definition ex_podat (ready : bool) : pod :=
  let p := pod_of_newpod (create_pod ex_rs (Some ex_node) None false) 50%N ex_t1 in
  MkPod (p_name p) (p_ns p) (p_labels p) (p_ds_owners p) (p_hash p) (p_nodehash p) (p_nodename p) (p_affname p)
        Running ready false (p_created p) None (Some ex_t1) [] 0 (p_resources p).


Ltac plan_ok := match goal with |- rolling_plan_of ?a ?b ?c ?d ?e = Ok _ =>
  let v := eval vm_compute in (rolling_plan_of a b c d e) in
  match v with Ok ?rp => instantiate (1 := rp); vm_compute; reflexivity end end.

Example fair_rounds_somewhere :
  c_chain ex_rs ex_ann ex_ru (ex_t0, [ex_item None]) 2 (ex_t2, [ex_item (Some (ex_podat true))]) /\
  count_if (is_class c_unresp ex_rs ex_t0) [ex_item None] = 0 /\
  a_measure (abs_of ex_rs ex_t0 [ex_item None]) = 2.
Proof.
  split; [|split; vm_compute; reflexivity].
  eapply cchS with (st1 := (ex_t1, [ex_item (Some (ex_podat false))])).
  - (* round 1: nothing to settle; the sync creates the pod *)
    eapply FairRound with (items' := [ex_item None]) (creates := [40%N]) (deletes := []).
    + repeat constructor.
    + repeat constructor. intros [].
    + plan_ok.
    + reflexivity.
    + reflexivity.
    + vm_compute; discriminate.
    + vm_compute; discriminate.
    + vm_compute; discriminate.
    + vm_compute; reflexivity.
    + vm_compute; reflexivity.
    + repeat constructor.
  - eapply cchS; [|apply cch0].
    (* round 2: the kubelet makes the pod Ready; the sync has nothing to do *)
    eapply FairRound with (items' := [ex_item (Some (ex_podat true))]) (creates := []) (deletes := []).
    + repeat constructor.
    + repeat constructor. intros [].
    + plan_ok.
    + reflexivity.
    + reflexivity.
    + vm_compute; discriminate.
    + vm_compute; discriminate.
    + vm_compute; discriminate.
    + vm_compute; reflexivity.
    + vm_compute; reflexivity.
    + repeat constructor.
Qed.

(** ** the availability budget over whole rounds *)
(** nodes without a Ready pod *)
Definition a_unavailable (s : astate) : Z := a_missing s + a_up_notready s + a_old_notready s + a_terminating s.

(** The availability budget over whole rounds: a fair round never leaves more nodes without a Ready pod than there were
    before it or than maxUnavailable allows - whatever the creation limit: the controller's own deletions of available
    pods stop at the budget, and everything else a round does (creations, pods becoming Ready, terminating pods going
    away) only moves nodes between the unavailable classes or out of them. *)
Theorem round_keeps_availability : forall maxc mu s,
  a_wf s -> 0 <= mu -> a_unavailable (a_round maxc mu s) <= Z.max (a_unavailable s) mu.
Proof.
  intros maxc mu [m ur un orr onr t] [H1 [H2 [H3 [H4 [H5 H6]]]]] Hmu.
  unfold a_unavailable, a_round, a_sync, a_settle, a_limits, calc_create, calc_delete, a_nodes in *.
  cbn [a_missing a_up_ready a_up_notready a_old_ready a_old_notready a_terminating lp_nodes lp_pods lp_available
       lp_old_available lp_created lp_unresponsive lp_old_unavailable lp_max_creation lp_max_unavailable lp_max_unschedulable] in *.
  lia.
Qed.

(** ... hence along any chain of fair rounds whose maxUnavailable stays below [mu] *)
Inductive a_chain_mu (mu : Z) : astate -> nat -> astate -> Prop :=
| acm0 : forall s, a_chain_mu mu s 0 s
| acmS : forall s maxc mu' n s', 0 <= mu' <= mu -> a_chain_mu mu (a_round maxc mu' s) n s' -> a_chain_mu mu s (S n) s'.

Theorem chain_keeps_availability : forall mu n s s',
  a_wf s -> a_chain_mu mu s n s' -> a_unavailable s' <= Z.max (a_unavailable s) mu.
Proof.
  intros mu n; induction n as [|k IH]; intros s s' Hwf Hc; inversion Hc as [|s0 maxc mu' n0 s1 Hmu Hrest]; subst; [lia|].
  destruct (round_wf maxc mu' s Hwf) as [Hwf' _].
  pose proof (IH _ _ Hwf' Hrest) as A. pose proof (round_keeps_availability maxc mu' s Hwf ltac:(lia)) as B. lia.
Qed.
