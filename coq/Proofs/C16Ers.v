(** * C16Ers: the replica-set sync never crashes on a defaulted parent and kubelet-shaped pod statuses. *)
From Coq Require Import List ZArith NArith Bool Lia.
From EDS Require Import Model.Base Model.Objects Model.Fitness Model.PodSpec Model.Backoff Model.Filter Model.Default
     Model.Limits Model.Rolling Model.Canary Model.ErsReconcile Proofs.Lists Proofs.SyncInv Proofs.CanaryProofs
     Proofs.C01Proofs Proofs.FilterProofs.
Import ListNotations.
Open Scope Z_scope.

Definition no_panic {A} (o : outcome A) : Prop := forall k, o <> Panic k.

Lemma no_panic_ok : forall {A} (a : A), no_panic (Ok a).
Proof. intros A a k H. discriminate. Qed.
Lemma no_panic_error : forall {A} c, no_panic (@Error A c).
Proof. intros A c k H. discriminate. Qed.
Lemma bind_no_panic : forall {A B} (o : outcome A) (f : A -> outcome B),
  no_panic o -> (forall a, o = Ok a -> no_panic (f a)) -> no_panic (bind o f).
Proof.
  intros A B o f Ho Hf k H. destruct o as [a|c|c]; cbn in H.
  - exact (Hf a eq_refl k H).
  - discriminate.
  - exact (Ho c eq_refl).
Qed.

(** ** the lists *)
Lemma setting_for_no_panic : forall ss n, no_panic (setting_for ss n).
Proof.
  induction ss as [|s r IH]; intros n; cbn [setting_for]; [apply no_panic_ok|].
  destruct (negb (N.eqb (s_status s) SET_VALID)); [apply IH|].
  destruct (negb (strict_selector_ok (s_selector s))); [apply no_panic_error|].
  destruct (strict_selector_matches _ _); [apply no_panic_ok | apply IH].
Qed.
Lemma attach_settings_no_panic : forall ss ns, no_panic (attach_settings ss ns).
Proof.
  induction ns as [|n r IH]; cbn [attach_settings]; [apply no_panic_ok|].
  apply bind_no_panic; [apply setting_for_no_panic|]. intros os _.
  apply bind_no_panic; [exact IH|]. intros t _. apply no_panic_ok.
Qed.
Lemma listed_nodes_no_panic : forall rs e nodes ss, no_panic (listed_nodes rs e nodes ss).
Proof.
  intros. unfold listed_nodes. destruct (r_selector rs) as [sel|]; [|apply attach_settings_no_panic].
  destruct (lenient_selector_ok sel); [apply attach_settings_no_panic | apply no_panic_error].
Qed.
Lemma listed_pods_no_panic : forall e pods ods, no_panic (listed_pods e pods ods).
Proof.
  intros. unfold listed_pods. destruct (an_old_ds (e_annots e)); [|apply no_panic_ok].
  destruct ods as [ds|]; [|apply no_panic_ok]. destruct (d_selector ds) as [sel|]; [|apply no_panic_ok].
  destruct (lenient_selector_ok sel); [apply no_panic_ok | apply no_panic_error].
Qed.
Lemma build_ctx_no_panic : forall sn e freq, no_panic (build_ctx sn e freq).
Proof.
  intros. unfold build_ctx. apply bind_no_panic; [apply listed_nodes_no_panic|]. intros nodes _.
  apply bind_no_panic; [apply listed_pods_no_panic|]. intros pods _. apply no_panic_ok.
Qed.

(** ** the active role: a defaulted rolling-update strategy has no nil pointer *)
Lemma rolling_plan_no_panic : forall rs ann ru now items,
  is_defaulted_rolling ru = true -> no_panic (rolling_plan_of rs ann ru now items).
Proof.
  intros rs ann ru now items Hd. unfold is_defaulted_rolling in Hd. rewrite !andb_true_iff in Hd.
  destruct Hd as [[[[_ Hp] _] Hi] _].
  unfold rolling_plan_of.
  destruct (ru_max_sched_failure ru); [|apply no_panic_error]. destruct (resolve_iop _ _); [|apply no_panic_error].
  destruct (ru_max_unavailable ru); [|apply no_panic_error]. destruct (resolve_iop _ _); [|apply no_panic_error].
  destruct (ru_increase ru); [|apply no_panic_error]. destruct (resolve_iop _ _); [|apply no_panic_error].
  destruct (ru_interval ru); [|discriminate Hi]. destruct (ru_max_parallel ru); [|discriminate Hp].
  destruct (max_creation _ _ _ _ _ _); [apply no_panic_ok | apply no_panic_error].
Qed.

(** ** the canary role *)
Lemma highest_restart_aux_no_panic : forall cs best reason,
  forallb (fun c => match cs_last c with LTNoTerm => false | _ => true end) cs = true ->
  no_panic (highest_restart_aux cs best reason).
Proof.
  induction cs as [|c r IH]; intros best reason H; cbn [highest_restart_aux]; [apply no_panic_ok|].
  cbn [forallb] in H. apply andb_true_iff in H. destruct H as [Hc Hr].
  destruct (cs_restarts c >? best); [|apply IH; assumption].
  destruct (cs_last c); cbn in Hc; try discriminate Hc; apply IH; assumption.
Qed.
Lemma most_recent_restart_aux_no_panic : forall cs t reason,
  forallb (fun c => match cs_last c with LTNoTerm => false | _ => true end) cs = true ->
  no_panic (most_recent_restart_aux cs t reason).
Proof.
  induction cs as [|c r IH]; intros t reason H; cbn [most_recent_restart_aux]; [apply no_panic_ok|].
  cbn [forallb] in H. apply andb_true_iff in H. destruct H as [Hc Hr].
  destruct (negb (cs_restarts c =? 0)); [|apply IH; assumption].
  destruct (cs_last c); cbn in Hc; try discriminate Hc; [apply IH; assumption|].
  destruct (tafter _ _); apply IH; assumption.
Qed.

Lemma cannot_start_has_status : forall p r, cannot_start p = (true, r) -> p_cstats p <> [].
Proof.
  intros p r H. unfold cannot_start in H. destruct (p_cstats p); [cbn in H; discriminate | discriminate].
Qed.
Lemma pending_create_has_status : forall p, pending_create p = true -> p_cstats p <> [].
Proof. intros p H. unfold pending_create in H. destruct (p_cstats p); [cbn in H; discriminate | discriminate]. Qed.
Lemma shape_start : forall p, pod_shape_ok p = true -> p_cstats p <> [] -> exists t, p_start p = Some t.
Proof.
  intros p H Hne. unfold pod_shape_ok in H. apply andb_true_iff in H. destruct H as [_ H].
  destruct (p_cstats p); [contradiction|]. destruct (p_start p) as [t|]; [eauto | discriminate].
Qed.

Lemma canary_pod_step_no_panic : forall cfg unpaused now sc rc st p,
  pod_shape_ok p = true -> no_panic (canary_pod_step cfg unpaused now sc rc st p).
Proof.
  intros cfg unpaused now sc rc st p Hs.
  assert (Hl : forallb (fun c => match cs_last c with LTNoTerm => false | _ => true end) (p_cstats p) = true).
  { unfold pod_shape_ok in Hs. apply andb_true_iff in Hs. tauto. }
  unfold canary_pod_step.
  apply bind_no_panic; [apply highest_restart_aux_no_panic; assumption|]. intros [restart_count high_reason] _.
  apply bind_no_panic.
  { destruct (restart_count =? 0); [apply no_panic_ok|].
    apply bind_no_panic; [apply most_recent_restart_aux_no_panic; assumption|]. intros mr _. apply no_panic_ok. }
  intros new_restart _.
  destruct (cannot_start p) as [cs0 cs_reason0] eqn:Ecs.
  apply bind_no_panic.
  - destruct cs0, (cc_ap_slow cfg) as [slow|]; try apply no_panic_ok.
    + destruct (shape_start p Hs (cannot_start_has_status p _ Ecs)) as [t ->].
      destruct (negb (tafter now (tadd t slow))); apply no_panic_ok.
    + destruct (cc_ap_enabled cfg && pending_create p) eqn:Epc; [|apply no_panic_ok].
      apply andb_true_iff in Epc. destruct Epc as [_ Epc].
      destruct (shape_start p Hs (pending_create_has_status p Epc)) as [t ->].
      destruct (tafter now (tadd t slow)); apply no_panic_ok.
  - intros [[cannot cannot_reason] cs_pod_reason] _.
    repeat match goal with |- no_panic (if ?b then _ else _) => destruct b end; apply no_panic_ok.
Qed.

Lemma canary_pod_loop_no_panic : forall cfg unpaused now sc rc ps st,
  forallb pod_shape_ok ps = true -> no_panic (canary_pod_loop cfg unpaused now sc rc st ps).
Proof.
  induction ps as [|p r IH]; intros st H; cbn [canary_pod_loop]; [apply no_panic_ok|].
  cbn [forallb] in H. apply andb_true_iff in H. destruct H as [Hp Hr].
  apply bind_no_panic; [apply canary_pod_step_no_panic; assumption|]. intros st' _. apply IH. assumption.
Qed.

Lemma canary_cfg_defaulted : forall c, is_defaulted_canary c = true -> exists cfg, canary_cfg_of (Some c) = Some cfg.
Proof.
  intros c H. unfold is_defaulted_canary in H. rewrite !andb_true_iff in H. destruct H as [[_ Hap] Haf].
  unfold canary_cfg_of.
  destruct (ca_autopause c) as [ap|]; [|discriminate]. destruct (ca_autofail c) as [af|]; [|discriminate].
  apply andb_true_iff in Hap, Haf. destruct Hap as [H1 H2], Haf as [H3 H4].
  destruct (ap_enabled ap); [|discriminate]. destruct (ap_max_restarts ap); [|discriminate].
  destruct (af_enabled af); [|discriminate]. destruct (af_max_restarts af); [|discriminate]. eauto.
Qed.

Lemma canary_evaluate_no_panic : forall oc unpaused now st0 f0 p0 r0 check,
  match oc with Some c => is_defaulted_canary c = true | None => True end ->
  forallb pod_shape_ok check = true ->
  no_panic (canary_evaluate oc unpaused now st0 f0 p0 r0 check).
Proof.
  intros oc unpaused now st0 f0 p0 r0 check Hd Hs. unfold canary_evaluate.
  destruct oc as [c|]; [|apply no_panic_ok].
  destruct (canary_cfg_defaulted c Hd) as [cfg ->].
  destruct (unpaused && negb f0).
  - apply bind_no_panic; [apply canary_pod_loop_no_panic; assumption|]. intros l _. apply no_panic_ok.
  - apply bind_no_panic; [apply canary_pod_loop_no_panic; assumption|]. intros l _. apply no_panic_ok.
Qed.

(** the pods the canary scan hands to the evaluation are pods of the planning items *)
Lemma scan_node_check : forall rs listed items s nn p,
  In p (cn_check (canary_scan_node rs listed items s nn)) ->
  In p (cn_check s) \/ exists i, In i items /\ ni_pod i = Some p.
Proof.
  intros rs listed items s nn p H. unfold canary_scan_node in H.
  destruct (negb (memN nn listed)); [left; exact H|].
  destruct (find_item items nn) as [i|] eqn:Ef; [|left; exact H].
  destruct (ni_pod i) as [q|] eqn:Eq; [|left; exact H].
  destruct (pod_terminating q); [left; exact H|].
  destruct (negb (pod_up_to_date rs (ni_node i) (ni_setting i) q)); [left; exact H|].
  cbn [cn_check] in H. apply in_app_or in H. destruct H as [H|[<-|[]]]; [left; exact H|].
  right. exists i. split; [|assumption]. apply find_item_some in Ef. tauto.
Qed.
Lemma scan_fold_check : forall rs listed items cn s p,
  In p (cn_check (fold_left (canary_scan_node rs listed items) cn s)) ->
  In p (cn_check s) \/ exists i, In i items /\ ni_pod i = Some p.
Proof.
  induction cn as [|nn r IH]; intros s p H; cbn [fold_left] in H; [left; exact H|].
  apply IH in H. destruct H as [H|H]; [|right; exact H]. apply scan_node_check in H. exact H.
Qed.

Lemma manage_canary_no_panic : forall rs ann oc now cn listed items st0,
  match oc with Some c => is_defaulted_canary c = true | None => True end ->
  (forall i p, In i items -> ni_pod i = Some p -> pod_shape_ok p = true) ->
  no_panic (manage_canary_status rs ann oc now cn listed items st0).
Proof.
  intros rs ann oc now cn listed items st0 Hd Hs. unfold manage_canary_status.
  destruct (canary_paused ann (Some (r_status rs))) as [paused0 reason0].
  apply bind_no_panic.
  - apply canary_evaluate_no_panic; [assumption|]. apply forallb_forall. intros p Hp.
    apply scan_fold_check in Hp. destruct Hp as [[]|[i [Hi Hip]]]. eapply Hs; eassumption.
  - intros [l conds4] _. apply no_panic_ok.
Qed.

(** the pods of the planning items are listed pods *)
Lemma items_pod_listed : forall sn e freq cx i p,
  build_ctx sn e freq = Ok cx -> In i (cx_items cx) -> ni_pod i = Some p -> In p (sn_pods sn).
Proof.
  intros sn e freq cx i p Hb Hi Hp. unfold build_ctx in Hb.
  destruct (listed_nodes _ _ _ _) as [nodes|c|c] eqn:Hn; try discriminate. cbn [bind] in Hb.
  destruct (listed_pods _ _ _) as [pods|c|c] eqn:Hpods; try discriminate. cbn [bind] in Hb.
  inversion Hb; subst cx; clear Hb. cbn [cx_items] in Hi.
  unfold items_of in Hi. apply in_flat_map in Hi. destruct Hi as [[nn op] [Hin Hi]]. cbn [fst snd] in Hi.
  destruct (find _ nodes) as [[n os]|]; [|contradiction]. destruct Hi as [<-|[]]. cbn [ni_pod] in Hp. subst op.
  apply listed_pods_sub in Hpods. apply Hpods.
  destruct (kept_never_unknown _ _ _ _ _ _ _ _ Hin) as [_ [Hk _]]. exact Hk.
Qed.

Theorem ers_sync_no_panic : forall sn ch,
  forallb pod_shape_ok (sn_pods sn) = true -> no_panic (ers_sync sn ch).
Proof.
  intros sn ch Hs. unfold ers_sync.
  destruct (N.eqb (r_owner (sn_rs sn)) no_name); [apply no_panic_error|].
  destruct (sn_eds sn) as [e|]; [|apply no_panic_error].
  destruct (is_defaulted e) eqn:Hd; cbn [negb]; [|apply no_panic_ok].
  unfold is_defaulted, is_defaulted_strategy in Hd. rewrite !andb_true_iff in Hd.
  destruct Hd as [[[Hru Hca] Hfr] _].
  unfold sync_body. destruct (st_freq (e_strategy e)) as [freq|]; [|discriminate].
  destruct (sync_gate sn freq); [apply no_panic_ok|].
  destruct (f_list (sn_faults sn)); [apply no_panic_error|].
  apply bind_no_panic; [apply build_ctx_no_panic|]. intros cx Hb.
  apply bind_no_panic.
  - unfold strategy_of. destruct (cx_role cx).
    + unfold strategy_active.
      pose proof (build_ctx_fields _ _ _ _ Hb) as Hf. destruct Hf as [He _]. rewrite He.
      pose proof (rolling_plan_no_panic (sn_rs sn) (e_annots e) (st_rolling (e_strategy e)) (sn_now sn) (planning_items cx) Hru) as Hnp.
      destruct (rolling_plan_of _ _ _ _ _) as [pl|c|c]; [|apply no_panic_ok | exfalso; exact (Hnp c eq_refl)].
      destruct (rolling_status_counts pl) as [[[[d cur] rdy] av] ign]. apply no_panic_ok.
    + unfold strategy_canary.
      pose proof (build_ctx_fields _ _ _ _ Hb) as Hf. destruct Hf as [He _]. rewrite He.
      apply bind_no_panic.
      * apply manage_canary_no_panic; [destruct (st_canary (e_strategy e)); [exact Hca | exact I]|]. intros i p Hi Hp.
        rewrite forallb_forall in Hs. apply Hs. eapply items_pod_listed; eassumption.
      * intros cp _. destruct (patch_upto _ _) as [adds add_failed]. apply no_panic_ok.
    + unfold strategy_unknown. apply no_panic_ok.
  - intros so _. unfold finish_sync.
    match goal with |- no_panic (if ?b then _ else _) => destruct b end; [apply no_panic_ok | apply no_panic_error].
Qed.
