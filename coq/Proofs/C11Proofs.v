(** * C11Proofs: failed API calls and controller stops - safety for any subset of the planned writes. *)
From Coq Require Import List ZArith NArith Bool Lia Permutation.
From EDS Require Import Model.Objects Model.PodSpec Model.Backoff Model.Rolling Proofs.Lists Proofs.RollingProofs.
Import ListNotations.
Open Scope Z_scope.

(** A rejected call, a call applied whose answer is lost, a process stop before or after any write and a
    parallel batch cut short all leave the store with SOME SUBSET of the planned writes applied.  The per-sync
    safety theorems (C01, C03, C04, C05, C12) quantify over every snapshot, so they hold again at whatever
    store results; what remains is that applying a subset does not itself break an invariant. *)

(** ** one live pod per node: any subset of the planned creations keeps it *)
(** [live] = the nodes of the live (neither Failed nor Unknown) daemon pods, with multiplicity *)
Definition at_most_one (live : list name) : Prop := forall nn, (count_occ N.eq_dec live nn <= 1)%nat.

Inductive sublist {A} : list A -> list A -> Prop :=
| sub_nil : forall l, sublist [] l
| sub_skip : forall x s l, sublist s l -> sublist s (x :: l)
| sub_take : forall x s l, sublist s l -> sublist (x :: s) (x :: l).

Lemma sublist_in : forall {A} (s l : list A) x, sublist s l -> In x s -> In x l.
Proof. intros A s l x H; induction H; intros Hx; [contradiction | right; auto | destruct Hx as [->|Hx]; [left; reflexivity | right; auto]]. Qed.

Lemma sublist_nodup : forall {A} (s l : list A), sublist s l -> NoDup l -> NoDup s.
Proof.
  intros A s l H; induction H; intros Hn; [constructor | inversion Hn; auto |].
  inversion Hn; subst. constructor; [|auto]. intros Hx. apply H2. eapply sublist_in; eassumption.
Qed.

Theorem subset_of_creates_safe : forall live creates applied,
  at_most_one live -> NoDup creates -> (forall nn, In nn creates -> ~ In nn live) ->
  sublist applied creates -> at_most_one (live ++ applied).
Proof.
  unfold at_most_one, name. intros live creates applied Hl Hnd Hfree Hsub nn. rewrite count_occ_app.
  pose proof (sublist_nodup _ _ Hsub Hnd) as Hna.
  assert (Ha : (count_occ N.eq_dec applied nn <= 1)%nat) by (apply (proj1 (NoDup_count_occ N.eq_dec applied) Hna)).
  destruct (in_dec N.eq_dec nn applied) as [Hin|Hout].
  - assert (Hz : count_occ N.eq_dec live nn = 0%nat).
    { apply count_occ_not_In. apply Hfree. eapply sublist_in; eassumption. }
    rewrite Hz. simpl. exact Ha.
  - assert (Hz : count_occ N.eq_dec applied nn = 0%nat) by (apply count_occ_not_In; assumption).
    rewrite Hz, Nat.add_0_r. apply Hl.
Qed.

(** ** availability budget: any subset of an admissible deletion set stays within the budget *)
Lemma count_if_sublist : forall {A} (f : A -> bool) s l, sublist s l -> count_if f s <= count_if f l.
Proof.
  intros A f s l H; induction H.
  - unfold count_if at 1; simpl. apply count_if_nonneg.
  - rewrite count_if_cons. destruct (f x); lia.
  - rewrite !count_if_cons. lia.
Qed.

Theorem subset_of_deletes_within_budget : forall rp chosen applied,
  plan_wf rp -> admissible_deletes rp chosen = true -> sublist applied chosen ->
  mon_budget rp applied = true /\ mon_cap rp applied = true.
Proof.
  intros rp chosen applied WF Ha Hs.
  pose proof (budget rp chosen WF Ha) as Hb. pose proof (cap rp chosen WF Ha) as Hc.
  unfold mon_budget, mon_cap, avail_chosen in *. apply Z.leb_le in Hb, Hc.
  pose proof (count_if_sublist (fun x => memN x (rp_del_available rp)) _ _ Hs).
  pose proof (count_if_sublist (fun _ : name => true) _ _ Hs) as Hl.
  assert (Hz : forall l : list name, count_if (fun _ => true) l = zlen l).
  { intros l. unfold count_if, zlen. f_equal. f_equal. induction l; simpl; [reflexivity | f_equal; assumption]. }
  rewrite !Hz in Hl. split; apply Z.leb_le; lia.
Qed.

(** ** no decision state outside the API objects *)
(** the only controller-local state is the failed-pod back-off; a fresh instance (empty memory) never holds
    a Failed pod back - it deletes it, which is what an instance past its back-off does too *)
Theorem fresh_instance_deletes_failed : forall k now, fst (should_delete_failed k now []) = true.
Proof. intros k now. reflexivity. Qed.

Theorem backoff_only_delays : forall k now m, fst (should_delete_failed k now m) = false -> bo_in_backoff k now m = true.
Proof. intros k now m H. unfold should_delete_failed in H. destruct (bo_in_backoff k now m); [reflexivity | discriminate]. Qed.
