(** * Lists: general lemmas about the boolean list helpers of [Model/Base.v]. *)
From Coq Require Import List ZArith NArith Bool Lia Permutation.
From EDS Require Import Model.Base.
Import ListNotations.
Open Scope Z_scope.

Lemma memN_In : forall x l, memN x l = true <-> In x l.
Proof.
  intros x l; unfold memN; rewrite existsb_exists; split.
  - intros [y [Hy He]]. apply N.eqb_eq in He. subst; assumption.
  - intros H; exists x; split; [assumption | apply N.eqb_refl].
Qed.

Lemma memN_false : forall x l, memN x l = false <-> ~ In x l.
Proof.
  intros x l; split; intros H.
  - intros Hi. apply memN_In in Hi. congruence.
  - destruct (memN x l) eqn:E; [apply memN_In in E; contradiction | reflexivity].
Qed.

Lemma nodupNb_NoDup : forall l, nodupNb l = true <-> NoDup l.
Proof.
  induction l as [|x r IH]; simpl.
  - split; [constructor | reflexivity].
  - rewrite andb_true_iff, negb_true_iff, memN_false, IH. split.
    + intros [Hx Hr]; constructor; assumption.
    + intros H; inversion H; subst; split; assumption.
Qed.

Definition subsetNb (a b : list N) : bool := forallb (fun x => memN x b) a.

Lemma subsetNb_incl : forall a b, subsetNb a b = true <-> incl a b.
Proof.
  intros a b; unfold subsetNb; rewrite forallb_forall; split; intros H x Hx.
  - apply memN_In, H, Hx.
  - apply memN_In, H, Hx.
Qed.

Lemma zlen_nonneg : forall {A} (l : list A), 0 <= zlen l.
Proof. intros; unfold zlen; lia. Qed.

Lemma zlen_app : forall {A} (a b : list A), zlen (a ++ b) = zlen a + zlen b.
Proof. intros; unfold zlen; rewrite app_length; lia. Qed.

Lemma count_if_nonneg : forall {A} (f : A -> bool) l, 0 <= count_if f l.
Proof. intros; unfold count_if; lia. Qed.

Lemma count_if_le : forall {A} (f : A -> bool) l, count_if f l <= zlen l.
Proof.
  intros A f l; unfold count_if, zlen.
  induction l as [|x r IH]; simpl; [lia|]. destruct (f x); simpl length; lia.
Qed.

Lemma count_if_cons : forall {A} (f : A -> bool) x l,
  count_if f (x :: l) = (if f x then 1 else 0) + count_if f l.
Proof. intros; unfold count_if; simpl; destruct (f x); simpl length; lia. Qed.

(** A partition of a list by two predicates that exclude each other and cover it. *)
Lemma count_if_partition : forall {A} (f g : A -> bool) l,
  (forall x, In x l -> f x = negb (g x)) ->
  count_if f l + count_if g l = zlen l.
Proof.
  intros A f g l; induction l as [|x r IH]; intros H.
  - reflexivity.
  - rewrite !count_if_cons. unfold zlen in *; simpl length.
    rewrite (H x (or_introl eq_refl)).
    assert (Hr : forall y, In y r -> f y = negb (g y)) by (intros; apply H; right; assumption).
    specialize (IH Hr). rewrite Nat2Z.inj_succ. destruct (g x); cbn [negb]; lia.
Qed.

Lemma count_if_zero : forall {A} (f : A -> bool) l,
  (forall x, In x l -> f x = false) -> count_if f l = 0.
Proof.
  intros A f l; induction l as [|x r IH]; intros H; [reflexivity|].
  rewrite count_if_cons, (H x (or_introl eq_refl)), IH; [reflexivity|].
  intros; apply H; right; assumption.
Qed.

(** If [a] is duplicate free and included in the duplicate-free [l], exactly [length a] elements
    of [l] are members of [a]. *)
Lemma count_members : forall a l, NoDup a -> NoDup l -> incl a l ->
  count_if (fun x => memN x a) l = zlen a.
Proof.
  intros a l Ha Hl Hincl. unfold count_if, zlen. f_equal.
  apply Permutation_length, NoDup_Permutation.
  - apply NoDup_filter; assumption.
  - assumption.
  - intros x; rewrite filter_In, memN_In; split.
    + intros [_ H]; exact H.
    + intros H; split; [apply Hincl|]; assumption.
Qed.

Lemma NoDup_app_disjoint : forall {A} (a b : list A), NoDup (a ++ b) -> forall x, In x a -> ~ In x b.
Proof.
  intros A a; induction a as [|y r IH]; intros b H x Hx; [contradiction|].
  simpl in H; inversion H; subst. destruct Hx as [->|Hx].
  - intros Hb; apply H2, in_or_app; right; assumption.
  - apply IH; assumption.
Qed.

Lemma NoDup_app_l : forall {A} (a b : list A), NoDup (a ++ b) -> NoDup a.
Proof.
  intros A a; induction a as [|x r IH]; intros b H; [constructor|].
  simpl in H; inversion H; subst. constructor; [|eapply IH; eassumption].
  intros Hin; apply H2, in_or_app; left; assumption.
Qed.

Lemma NoDup_app_r : forall {A} (a b : list A), NoDup (a ++ b) -> NoDup b.
Proof.
  intros A a; induction a as [|x r IH]; intros b H; [exact H|].
  simpl in H; inversion H; subst. apply IH; assumption.
Qed.

Lemma firstn_z_length_le : forall {A} n (l : list A), zlen (firstn_z n l) <= Z.max 0 n.
Proof.
  intros A n l; unfold zlen, firstn_z. rewrite firstn_length. lia.
Qed.

Lemma NoDup_map_filter : forall {A B} (f : A -> B) (p : A -> bool) l,
  NoDup (map f l) -> NoDup (map f (filter p l)).
Proof.
  intros A B f p l; induction l as [|x r IH]; simpl; intros H; [constructor|].
  inversion H; subst. destruct (p x); simpl; [constructor|]; auto.
  intros Hin; apply H2. apply in_map_iff in Hin. destruct Hin as [y [Hy Hin]].
  apply filter_In in Hin. rewrite <- Hy. apply in_map. tauto.
Qed.

(** Two filters of one duplicate-free list by predicates that exclude each other: their
    concatenation is duplicate free. *)
Lemma NoDup_map_filter_app : forall {A B} (f : A -> B) (p q : A -> bool) l,
  NoDup (map f l) -> (forall x, In x l -> p x = true -> q x = false) ->
  NoDup (map f (filter p l) ++ map f (filter q l)).
Proof.
  intros A B f p q l; induction l as [|x r IH]; simpl; intros H Hex; [constructor|].
  inversion H; subst.
  assert (Hr : forall y, In y r -> p y = true -> q y = false) by (intros; apply Hex; [right|]; assumption).
  specialize (IH H3 Hr).
  assert (Hnot : forall s : A -> bool, ~ In (f x) (map f (filter s r))).
  { intros s Hin; apply H2. apply in_map_iff in Hin. destruct Hin as [y [Hy Hin]].
    apply filter_In in Hin. rewrite <- Hy. apply in_map; tauto. }
  destruct (p x) eqn:Ep.
  - rewrite (Hex x (or_introl eq_refl) Ep). simpl. constructor; [|assumption].
    intros Hin; apply in_app_or in Hin; destruct Hin as [Hin|Hin]; eapply Hnot; eassumption.
  - destruct (q x); simpl; [|assumption].
    apply (NoDup_Add (Add_app (f x) (map f (filter p r)) (map f (filter q r)))).
    split; [assumption|].
      intros Hin; apply in_app_or in Hin; destruct Hin as [Hin|Hin]; eapply Hnot; eassumption.
Qed.

Lemma dedupN_NoDup : forall l, NoDup (dedupN l).
Proof.
  induction l as [|x r IH]; simpl; [constructor|].
  destruct (memN x r) eqn:E; [assumption|]. constructor; [|assumption].
  intros Hin. apply memN_false in E. apply E. clear -Hin.
  induction r as [|y r IH]; simpl in *; [contradiction|].
  destruct (memN y r) eqn:E; [right; apply IH; assumption|].
  destruct Hin as [->|Hin]; [left; reflexivity | right; apply IH; assumption].
Qed.

Lemma dedupN_In : forall x l, In x (dedupN l) <-> In x l.
Proof.
  intros x l; induction l as [|y r IH]; simpl; [tauto|].
  destruct (memN y r) eqn:E.
  - rewrite IH. split; [tauto|]. intros [->|H]; [apply memN_In; assumption | assumption].
  - simpl. rewrite IH. tauto.
Qed.

