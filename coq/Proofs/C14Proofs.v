(** * C14Proofs: the status written refines [Spec.v]; counter ordering of replica-set statuses. *)
From Coq Require Import List ZArith NArith Bool Lia.
From EDS Require Import Model.Objects Model.Fitness Model.PodSpec Model.Backoff Model.Filter Model.Default Model.Limits
     Model.Rolling Model.Canary Model.ErsReconcile Model.EdsLogic Model.EdsReconcile Model.Spec
     Proofs.Lists Proofs.CondProofs Proofs.RollingProofs Proofs.SyncInv Proofs.CanaryProofs Proofs.C08Proofs
     Proofs.C01Proofs Proofs.EdsInv Proofs.C05Proofs.
Import ListNotations.
Open Scope Z_scope.

(** the fields [with_canary_nodes] leaves alone *)
Definition same_but_nodes (a b : eds_status) : Prop :=
  es_desired a = es_desired b /\ es_current a = es_current b /\ es_ready a = es_ready b /\
  es_available a = es_available b /\ es_uptodate a = es_uptodate b /\ es_ignored a = es_ignored b /\
  es_state a = es_state b /\ es_active a = es_active b /\ es_reason a = es_reason b /\ es_conds a = es_conds b.
Lemma with_canary_nodes_same : forall st sel, same_but_nodes (with_canary_nodes st sel) st.
Proof. intros; unfold same_but_nodes, with_canary_nodes; cbn; repeat split. Qed.
Lemma same_refl : forall st, same_but_nodes st st.
Proof. intros; unfold same_but_nodes; repeat split. Qed.

Lemma canary_conditions_spec : forall cs now failed paused reason,
  is_cond_true (canary_conditions cs now failed paused reason) ECT_CanaryFailed = failed /\
  is_cond_true (canary_conditions cs now failed paused reason) ECT_CanaryPaused = paused && negb failed.
Proof.
  intros cs now failed paused reason. unfold canary_conditions.
  assert (Hne : ECT_CanaryFailed <> ECT_CanaryPaused) by discriminate.
  destruct failed; cbn [negb andb]; rewrite ?andb_false_r, ?andb_true_r.
  - split; [rewrite is_cond_true_update_other by assumption; apply is_cond_true_update_same
           | apply is_cond_true_update_same].
  - destruct paused; cbn [andb]; (split; [rewrite is_cond_true_update_other by assumption; apply is_cond_true_update_same
                                        | apply is_cond_true_update_same]).
Qed.

(** C14, first clause: every status an ExtendedDaemonSet reconcile writes is the documented function
    of the replica sets it listed. *)
Theorem status_refines_spec : forall sn pl st',
  eds_sync sn = Ok pl -> In st' (statuses_of (ep_writes pl)) ->
  exists e uptodate current,
    es_obj sn = Some e /\
    let rss := rs_of_eds e (es_rss sn) in
    last_such (rs_up_to_date e) rss = Some uptodate /\
    current = fst (select_current (e_annots e) (st_canary (e_strategy e))
                     (last_such (fun r => N.eqb (r_name r) (es_active (e_status e))) rss) uptodate (es_now sn)) /\
    let f := facts_of (e_annots e) (st_canary (e_strategy e)) current uptodate in
    es_current st' = spec_current rss /\ es_ready st' = spec_ready rss /\ es_available st' = spec_available rss /\
    es_desired st' = spec_desired f current uptodate /\ es_uptodate st' = spec_uptodate f current uptodate /\
    es_ignored st' = spec_ignored f current uptodate /\
    es_state st' = spec_state f (e_annots e) /\ es_reason st' = spec_reason f (es_reason (e_status e)) /\
    es_active st' = r_name current /\
    (sf_canary_strategy f = true ->
       is_cond_true (es_conds st') ECT_CanaryFailed = spec_cond_failed f /\
       is_cond_true (es_conds st') ECT_CanaryPaused = spec_cond_paused f) /\
    (sf_canary_active f = false -> sf_canary_strategy f = true -> es_canary st' = None).
Proof.
  intros sn pl st' H Hin.
  destruct (written_status_is_result _ _ _ H Hin) as [e [uptodate [current [rq [Ho [Hd [Hu [Hs [h [ann' [ws Hres]]]]]]]]]]].
  exists e, uptodate, current. split; [assumption|]. split; [assumption|]. split; [rewrite Hs; reflexivity|].
  inversion Hres as [Hnc | cspec st'' ann'' ws' Hcs pr failed active st1 st2 st3 Hact Hinact]; subst.
  - (* no canary strategy *)
    unfold facts_of. rewrite Hnc. unfold base_status, spec_current, spec_ready, spec_available, spec_desired,
      spec_uptodate, spec_ignored, spec_state, spec_reason, sum_over. cbn. repeat split; try reflexivity; discriminate.
  - unfold facts_of. rewrite Hcs. fold pr failed active.
    assert (Dactive : active = negb (failed || N.eqb (r_name current) (r_name uptodate))) by reflexivity.
    assert (Dst3 : st3 = manage_status st2 (e_annots e) uptodate active failed (fst pr) (snd pr)) by reflexivity.
    assert (Dst2 : st2 = with_eds_conds st1 (canary_conditions (es_conds st1) (es_now sn) failed (fst pr) (snd pr))) by reflexivity.
    assert (Dst1 : st1 = base_status e current (sum_over rs_current (rs_of_eds e (es_rss sn)))
                                     (sum_over rs_ready (rs_of_eds e (es_rss sn))) (sum_over rs_available (rs_of_eds e (es_rss sn)))) by reflexivity.
    clearbody st3 st2 st1 active failed pr.
    assert (Hsame : same_but_nodes st' st3).
    { destruct active.
      - destruct (Hact eq_refl) as [_ [_ [rep [nb [_ [_ [[_ ->] | [_ [sel [en [_ ->]]]]]]]]]]]; [apply same_refl | apply with_canary_nodes_same].
      - destruct (Hinact eq_refl) as [-> _]. apply same_refl. }
    destruct Hsame as [S1 [S2 [S3 [S4 [S5 [S6 [S7 [S8 [S9 S10]]]]]]]]].
    rewrite S1, S2, S3, S4, S5, S6, S7, S8, S9, S10.
    unfold spec_current, spec_ready, spec_available, spec_desired, spec_uptodate, spec_ignored, spec_state,
      spec_reason, spec_cond_failed, spec_cond_paused.
    cbn [sf_canary_strategy sf_failed sf_paused sf_reason sf_canary_active].
    destruct (canary_conditions_spec (es_conds st1) (es_now sn) failed (fst pr) (snd pr)) as [C1 C2].
    assert (Hcan : es_canary st' = es_canary st3 \/ active = true).
    { destruct active; [right; reflexivity|]. left. destruct (Hinact eq_refl) as [-> _]. reflexivity. }
    subst st3 st2 st1. unfold manage_status, with_eds_conds, base_status in *. cbn in *.
    assert (Hpr : forall (b : bool) (x y : name), (if b then x else y) = (if b then x else y)) by reflexivity.
    destruct failed.
    + cbn in Dactive. subst active. cbn.
      repeat split; try reflexivity; try assumption.
      intros _ _. destruct Hcan as [Hc | F]; [rewrite Hc; reflexivity | discriminate].
    + destruct active; cbn.
      * repeat split; try reflexivity; try assumption; try (destruct (fst pr); reflexivity).
        intros F; discriminate.
      * repeat split; try reflexivity; try assumption.
        intros _ _. destruct Hcan as [Hc | F]; [rewrite Hc; reflexivity | discriminate].
Qed.

(** C14, the conditions clause: a Canary-Paused condition that is True names the reason the canary is paused for *)
Lemma update_cond_true_reason : forall cs now t r m w s,
  exists c, get_cond (update_cond cs now t CTrue r m w s) t = Some c /\ c_status c = CTrue /\ c_reason c = r.
Proof.
  intros cs now t r m w s. unfold update_cond. destruct (get_cond cs t) as [c0|] eqn:E.
  - eexists. split; [apply get_update_first; [exact E|reflexivity]|]. cbn. split; reflexivity.
  - cbn [cstatus_eqb orb]. eexists. split; [apply get_cond_app_none; [exact E|reflexivity]|]. split; reflexivity.
Qed.

Theorem paused_condition_reason : forall sn pl st',
  eds_sync sn = Ok pl -> In st' (statuses_of (ep_writes pl)) ->
  exists e uptodate current,
    es_obj sn = Some e /\
    let rss := rs_of_eds e (es_rss sn) in
    last_such (rs_up_to_date e) rss = Some uptodate /\
    current = fst (select_current (e_annots e) (st_canary (e_strategy e))
                     (last_such (fun r => N.eqb (r_name r) (es_active (e_status e))) rss) uptodate (es_now sn)) /\
    let f := facts_of (e_annots e) (st_canary (e_strategy e)) current uptodate in
    (sf_canary_strategy f = true -> spec_cond_paused f = true ->
     exists c, get_cond (es_conds st') ECT_CanaryPaused = Some c /\ c_status c = CTrue /\ c_reason c = sf_reason f).
Proof.
  intros sn pl st' H Hin.
  destruct (written_status_is_result _ _ _ H Hin) as [e [uptodate [current [rq [Ho [Hd [Hu [Hs [h [ann' [ws Hres]]]]]]]]]]].
  exists e, uptodate, current. split; [assumption|]. split; [assumption|]. split; [rewrite Hs; reflexivity|].
  inversion Hres as [Hnc | cspec st'' ann'' ws' Hcs pr failed active st1 st2 st3 Hact Hinact]; subst.
  - unfold facts_of. rewrite Hnc. cbn. discriminate.
  - unfold facts_of. rewrite Hcs. fold pr failed active. cbn [sf_canary_strategy sf_reason].
    unfold spec_cond_paused. cbn [sf_paused sf_failed]. intros _ Hp.
    assert (Hsame : same_but_nodes st' st3).
    { destruct active eqn:Ea.
      - destruct (Hact eq_refl) as [_ [_ [rep [nb [_ [_ [[_ ->] | [_ [sel [en [_ ->]]]]]]]]]]]; [apply same_refl | apply with_canary_nodes_same].
      - destruct (Hinact eq_refl) as [-> _]. apply same_refl. }
    destruct Hsame as [S1 [S2 [S3 [S4 [S5 [S6 [S7 [S8 [S9 S10]]]]]]]]].
    rewrite S10.
    assert (E3 : es_conds st3 = es_conds st2).
    { unfold st3, manage_status. destruct failed; [reflexivity|]. destruct active; reflexivity. }
    rewrite E3. unfold st2, with_eds_conds. cbn [es_conds]. unfold canary_conditions.
    rewrite Hp. apply update_cond_true_reason.
Qed.

(** ** replica-set counters *)
Definition counters_ordered (st : ers_status) : Prop :=
  0 <= rs_available st /\ rs_available st <= rs_ready st /\ rs_ready st <= rs_current st /\ rs_current st <= rs_desired st.

Lemma count_if_mono : forall {A} (f g : A -> bool) l,
  (forall x, f x = true -> g x = true) -> count_if f l <= count_if g l.
Proof.
  intros A f g l H; induction l as [|x r IH]; [unfold count_if; simpl; lia|].
  rewrite !count_if_cons. specialize (H x). destruct (f x); [rewrite H by reflexivity; lia | destruct (g x); lia].
Qed.

Lemma rolling_counts_ordered : forall rs now items,
  let k := count_items rs now items in
  0 <= k_available k /\ k_available k <= k_ready k /\ k_ready k <= k_created k /\ k_created k <= k_nodes k.
Proof.
  intros rs now items. unfold count_items; cbn.
  split; [apply count_if_nonneg|]. split; [lia|]. split.
  - apply count_if_mono. intros i. unfold is_class. destruct (classify rs now i) as [| |[]| | |]; simpl; congruence.
  - apply count_if_le.
Qed.

Lemma plan_counts : forall rs ann ru now items rp,
  rolling_plan_of rs ann ru now items = Ok rp -> rp_counts rp = count_items rs now items.
Proof.
  intros rs ann ru now items rp H. unfold rolling_plan_of in H.
  repeat break_match_hyp H; inversion H; subst; reflexivity.
Qed.

Lemma canary_scan_ordered : forall rs listed items cn s,
  (0 <= cn_available s /\ cn_available s <= cn_ready s /\ cn_ready s <= cn_current s /\ cn_current s <= cn_desired s) ->
  let s' := fold_left (canary_scan_node rs listed items) cn s in
  0 <= cn_available s' /\ cn_available s' <= cn_ready s' /\ cn_ready s' <= cn_current s' /\ cn_current s' <= cn_desired s'.
Proof.
  intros rs listed items cn; induction cn as [|nn r IH]; intros s Hs; simpl; [assumption|].
  apply IH. unfold canary_scan_node.
  destruct (negb (memN nn listed)); [cbn; lia|].
  destruct (find_item items nn) as [i|]; [|cbn; lia].
  destruct (ni_pod i) as [p|]; [|cbn; lia].
  destruct (pod_terminating p); [cbn; lia|].
  destruct (negb (pod_up_to_date rs (ni_node i) (ni_setting i) p)); [cbn; lia|].
  cbn. unfold pod_available, pod_ready. destruct (p_ready p); lia.
Qed.

Lemma canary_status_ordered : forall rs ann oc now cn listed items st0 cp,
  manage_canary_status rs ann oc now cn listed items st0 = Ok cp -> counters_ordered (cp_status cp).
Proof.
  intros rs ann oc now cn listed items st0 cp H. apply manage_canary_inv in H. cbv zeta in H.
  destruct H as [l [conds4 [_ [_ [_ [_ [_ Hs]]]]]]].
  pose proof (canary_scan_ordered rs listed items cn (MkCScan 0 0 0 0 false [] [] []) ltac:(cbn; lia)) as Ho.
  cbv zeta in Ho. unfold canary_scan_of in Hs. rewrite Hs. unfold counters_ordered.
  cbn [rs_available rs_ready rs_current rs_desired]. lia.
Qed.

Lemma finish_sync_counters : forall sn cx so pl, finish_sync sn cx so = Ok pl ->
  exists st cs, pl_status pl = Some st /\
    st = with_conds (match so_status so with Some s => s | None => r_status (sn_rs sn) end) cs.
Proof.
  intros sn cx so pl H. unfold finish_sync in H.
  match type of H with (if ?c then _ else _) = _ => destruct c; [|discriminate] end.
  injection H as <-. cbn [pl_status]. eexists; eexists. split; reflexivity.
Qed.

(** C14, second clause: an active or canary replica set's written status satisfies
    0 <= available <= ready <= current <= desired. *)
Theorem ers_status_ordered : forall sn ch pl st e,
  ers_sync sn ch = Ok pl -> sn_eds sn = Some e -> is_defaulted e = true -> pl_status pl = Some st ->
  (pl_role pl = RoleCanary \/ pl_rolling pl <> None) -> counters_ordered st.
Proof.
  intros sn ch pl st e H He Hd Hst Hrole.
  destruct (ers_sync_inv_defaulted _ _ _ _ H He Hd) as [Hn | [freq [cx [so [Hf [Hg [Hc [Hs Hfin]]]]]]]]; [congruence|].
  - pose proof (finish_sync_fields _ _ _ _ Hfin) as F. destruct F as [Frole [Froll _]].
    destruct (finish_sync_counters _ _ _ _ Hfin) as [st1 [cs [Hs1 Heq]]].
    rewrite Hs1 in Hst. injection Hst as <-. subst st1.
    unfold counters_ordered, with_conds; cbn [rs_available rs_ready rs_current rs_desired].
    pose proof Hs as Hs'. unfold strategy_of in Hs. destruct (cx_role cx) eqn:Er.
    + destruct Hrole as [Hr|Hr]; [rewrite Frole in Hr; discriminate|]. rewrite Froll in Hr.
      unfold strategy_active in Hs. destruct (rolling_plan_of _ _ _ _ _) as [rp|c|c] eqn:Ep; try discriminate.
      * pose proof (plan_counts _ _ _ _ _ _ Ep) as Hk.
        pose proof (rolling_counts_ordered (sn_rs sn) (sn_now sn) (planning_items cx)) as Ho. cbv zeta in Ho. rewrite <- Hk in Ho.
        unfold rolling_status_counts in Hs. injection Hs as <-. cbn [so_status rs_available rs_ready rs_current rs_desired]. lia.
      * injection Hs as <-. cbn in Hr. contradiction.
    + unfold strategy_canary in Hs. apply bind_ok in Hs. destruct Hs as [cp [Hcp Hs]].
      destruct (patch_upto _ _) as [adds add_failed]. injection Hs as <-.
      pose proof (canary_status_ordered _ _ _ _ _ _ _ _ _ Hcp) as Ho. unfold counters_ordered in Ho.
      cbn [so_status with_conds rs_available rs_ready rs_current rs_desired]. exact Ho.
    + destruct Hrole as [Hr|Hr]; [rewrite Frole in Hr; discriminate|]. rewrite Froll in Hr.
      destruct (strategy_unknown_shape _ _ _ Hs) as [_ [_ [_ [_ [_ Hn]]]]]. contradiction.
Qed.

(** ** at rest *)
Lemma count_if_all : forall {A} (f : A -> bool) l, (forall x, In x l -> f x = true) -> count_if f l = zlen l.
Proof.
  intros A f l; induction l as [|x r IH]; intro H; [reflexivity|].
  rewrite count_if_cons, (H x (or_introl eq_refl)), IH by (intros y Hy; apply H; right; exact Hy).
  unfold zlen; cbn [length]. lia.
Qed.

(** at rest - every planning item holds a Ready pod of the live template - the counters of the active role are the
    number of targeted nodes, four times, and no node is ignored *)
Theorem counters_at_rest : forall rs ann ru now items rp,
  rolling_plan_of rs ann ru now items = Ok rp ->
  (forall i, In i items -> classify rs now i = UpToDate true) ->
  rolling_status_counts rp = (zlen items, zlen items, zlen items, zlen items, 0).
Proof.
  intros rs ann ru now items rp H Hall. unfold rolling_status_counts. rewrite (plan_counts _ _ _ _ _ _ H).
  unfold count_items. cbn [k_nodes k_created k_ready k_available k_unresponsive].
  rewrite (count_if_all (is_class c_uptodate rs now)), (count_if_all (is_class c_ready rs now)),
          (count_if_zero (is_class c_unresp rs now));
    try (intros i Hi; unfold is_class; rewrite (Hall i Hi); reflexivity).
  reflexivity.
Qed.

(** ... and so is the status the sync writes (when the strategy resolves, i.e. there is a rolling plan): desired = current = ready = available = the targeted nodes *)
Theorem active_status_at_rest : forall sn ch pl st e freq cx,
  ers_sync sn ch = Ok pl -> sn_eds sn = Some e -> is_defaulted e = true ->
  st_freq (e_strategy e) = Some freq -> sync_gate sn freq = None -> build_ctx sn e freq = Ok cx ->
  cx_role cx = RoleActive -> pl_rolling pl <> None -> pl_status pl = Some st ->
  (forall i, In i (planning_items cx) -> classify (sn_rs sn) (sn_now sn) i = UpToDate true) ->
  rs_desired st = zlen (planning_items cx) /\ rs_current st = zlen (planning_items cx) /\
  rs_ready st = zlen (planning_items cx) /\ rs_available st = zlen (planning_items cx) /\ rs_ignored st = 0.
Proof.
  intros sn ch pl st e freq cx H He Hd Hf Hg Hc Hr Hroll Hst Hall.
  destruct (ers_sync_full _ _ _ _ _ _ H He Hd Hf Hg Hc) as [so [Hs Hfin]].
  destruct (finish_sync_counters _ _ _ _ Hfin) as [st1 [cs [Hs1 Heq]]].
  rewrite Hs1 in Hst. injection Hst as <-. subst st1.
  unfold strategy_of in Hs. rewrite Hr in Hs. unfold strategy_active in Hs.
  destruct (rolling_plan_of _ _ _ _ _) as [rp|c|c] eqn:Ep; try discriminate.
  - pose proof (counters_at_rest _ _ _ _ _ _ Ep Hall) as Hk. rewrite Hk in Hs.
    injection Hs as <-. cbn [so_status with_conds rs_desired rs_current rs_ready rs_available rs_ignored]. auto.
  - injection Hs as <-. destruct (finish_sync_fields _ _ _ _ Hfin) as [_ [Fr _]]. cbn [so_rolling] in Fr. contradiction.
Qed.
