(** * C15: what nodeAntiAffinityKeys guarantees (the per-value quota of the canary node selection). *)
From Coq Require Import List ZArith NArith Bool Lia Permutation.
From EDS Require Import Model.Base Model.Objects Model.Fitness Model.PodSpec Model.EdsLogic Proofs.Lists Proofs.C15Proofs.
Import ListNotations.
Open Scope Z_scope.

Ltac nlia := unfold name in *; lia.

Lemma list_eqb_N_eq : forall a b : list N, list_eqb N.eqb a b = true <-> a = b.
Proof.
  induction a as [|x a IH]; destruct b as [|y b]; cbn; split; intro H; try reflexivity; try discriminate.
  - apply andb_true_iff in H. destruct H as [H1 H2]. apply N.eqb_eq in H1. apply IH in H2. congruence.
  - inversion H; subst. rewrite N.eqb_refl. cbn. apply IH. reflexivity.
Qed.
Lemma aa_eqb_eq : forall a b, aa_eqb a b = true <-> a = b.
Proof. intros; unfold aa_eqb; apply list_eqb_N_eq. Qed.
Lemma aa_eqb_refl : forall a, aa_eqb a a = true. Proof. intro; apply aa_eqb_eq; reflexivity. Qed.
Lemma aa_eqb_neq : forall a b, a <> b -> aa_eqb a b = false.
Proof. intros a b H. apply not_true_iff_false. intro E. apply aa_eqb_eq in E. contradiction. Qed.

Lemma aa_get_set_same : forall v c m, aa_get v (aa_set v c m) = Some c.
Proof.
  intros v c m; induction m as [|[v' c'] r IH]; cbn.
  - rewrite aa_eqb_refl. reflexivity.
  - destruct (aa_eqb v v') eqn:E; cbn; [rewrite aa_eqb_refl; reflexivity | rewrite E; exact IH].
Qed.
Lemma aa_get_set_other : forall v v' c m, v <> v' -> aa_get v' (aa_set v c m) = aa_get v' m.
Proof.
  intros v v' c m Hne; induction m as [|[w cw] r IH]; cbn.
  - rewrite (aa_eqb_neq v' v) by congruence. reflexivity.
  - destruct (aa_eqb v w) eqn:E; cbn.
    + apply aa_eqb_eq in E. subst w. rewrite (aa_eqb_neq v' v) by congruence. reflexivity.
    + destruct (aa_eqb v' w); [reflexivity | exact IH].
Qed.
Lemma aa_set_length_present : forall v c m, aa_get v m <> None -> length (aa_set v c m) = length m.
Proof.
  intros v c m; induction m as [|[w cw] r IH]; cbn; intro H; [congruence|].
  destruct (aa_eqb v w); cbn; [reflexivity|]. f_equal. apply IH. exact H.
Qed.
Lemma aa_count_set_same : forall v c m, aa_count v (aa_set v c m) = c.
Proof. intros; unfold aa_count; rewrite aa_get_set_same; reflexivity. Qed.
Lemma aa_count_set_other : forall v v' c m, v <> v' -> aa_count v' (aa_set v c m) = aa_count v' m.
Proof. intros; unfold aa_count; rewrite aa_get_set_other; auto. Qed.
Lemma aa_get_set_present : forall v v' c m, aa_get v' m <> None -> aa_get v' (aa_set v c m) <> None.
Proof.
  intros v v' c m H. destruct (list_eq_dec N.eq_dec v v') as [->|Hne].
  - rewrite aa_get_set_same. discriminate.
  - rewrite aa_get_set_other; assumption.
Qed.

Lemma filter_length_perm : forall {A} (f : A -> bool) l l', Permutation l l' -> length (filter f l) = length (filter f l').
Proof.
  intros A f l l' H; induction H; cbn; try reflexivity.
  - destruct (f x); cbn; congruence.
  - destruct (f x), (f y); reflexivity.
  - congruence.
Qed.

Section Spread.
Variables (t : tmpl) (keys : list name) (nb : Z).
Hypothesis Hkeys : Nat.eqb (length keys) 0 = false.

Definition val (n : node) : list name := aa_value keys n.
(** the nodes of [ns] carrying the anti-affinity value [v] whose name is on the list [cur] *)
Definition cnt (ns : list node) (cur : list name) (v : list name) : Z :=
  count_if (fun n => aa_eqb (val n) v && memN (n_name n) cur) ns.

Lemma cnt_nonneg : forall ns cur v, 0 <= cnt ns cur v. Proof. intros; apply count_if_nonneg. Qed.

(** *** the initial map *)
Definition init_step (current : list name) (m : list (list name * Z)) (n : node) :=
  let v := aa_value keys n in
  let m1 := match aa_get v m with Some _ => m | None => aa_set v 0 m end in
  if memN (n_name n) current then aa_set v (aa_count v m1 + 1) m1 else m1.

Lemma init_step_count : forall cur m n v,
  aa_count v (init_step cur m n) = aa_count v m + (if aa_eqb (val n) v && memN (n_name n) cur then 1 else 0).
Proof.
  intros cur m n v. unfold init_step. fold (val n).
  assert (H1 : forall w, aa_count w (match aa_get (val n) m with Some _ => m | None => aa_set (val n) 0 m end) = aa_count w m).
  { intro w. destruct (aa_get (val n) m) eqn:E; [reflexivity|].
    destruct (list_eq_dec N.eq_dec (val n) w) as [<-|Hne].
    - rewrite aa_count_set_same. unfold aa_count. rewrite E. reflexivity.
    - apply aa_count_set_other; assumption. }
  destruct (memN (n_name n) cur).
  - destruct (list_eq_dec N.eq_dec (val n) v) as [<-|Hne].
    + rewrite aa_count_set_same, H1, aa_eqb_refl. cbn. reflexivity.
    + rewrite aa_count_set_other by assumption. rewrite H1, (aa_eqb_neq _ _ Hne). cbn. lia.
  - rewrite H1, andb_false_r. lia.
Qed.
Lemma init_step_present : forall cur m n w,
  (aa_get w m <> None \/ w = val n) -> aa_get w (init_step cur m n) <> None.
Proof.
  intros cur m n w H. unfold init_step. fold (val n).
  assert (H1 : aa_get w (match aa_get (val n) m with Some _ => m | None => aa_set (val n) 0 m end) <> None).
  { destruct (aa_get (val n) m) eqn:E.
    - destruct H as [H| ->]; [exact H | rewrite E; discriminate].
    - destruct H as [H| ->]; [apply aa_get_set_present; exact H | rewrite aa_get_set_same; discriminate]. }
  destruct (memN (n_name n) cur); [apply aa_get_set_present|]; exact H1.
Qed.

Lemma aa_init_fold : forall cur ns m,
  let m' := fold_left (init_step cur) ns m in
  (forall v, aa_count v m' = aa_count v m + cnt ns cur v) /\
  (forall w, aa_get w m <> None \/ (exists n, In n ns /\ w = val n) -> aa_get w m' <> None).
Proof.
  intros cur ns; induction ns as [|n r IH]; intros m; cbn [fold_left]; cbv zeta.
  - split; [intro v; unfold cnt, count_if; cbn; lia|]. intros w H. destruct H as [H|[n [Hn _]]]; [exact H | destruct Hn].
  - destruct (IH (init_step cur m n)) as [A B]. split.
    + intro v. rewrite A, init_step_count. unfold cnt. rewrite count_if_cons. lia.
    + intros w H. apply B. destruct H as [H|[n' [[<-|Hin] ->]]].
      * left. apply init_step_present. left; exact H.
      * left. apply init_step_present. right; reflexivity.
      * right. exists n'. split; [exact Hin | reflexivity].
Qed.

Lemma aa_init_is_fold : forall ns cur, aa_init keys ns cur = fold_left (init_step cur) ns [].
Proof. reflexivity. Qed.

Lemma aa_init_count : forall ns cur v, aa_count v (aa_init keys ns cur) = cnt ns cur v.
Proof. intros ns cur v. rewrite aa_init_is_fold. destruct (aa_init_fold cur ns []) as [A _]. rewrite A. unfold aa_count. cbn. lia. Qed.
Lemma aa_init_present : forall ns cur n, In n ns -> aa_get (val n) (aa_init keys ns cur) <> None.
Proof. intros ns cur n Hin. rewrite aa_init_is_fold. destruct (aa_init_fold cur ns []) as [_ B]. apply B. right. exists n. auto. Qed.

(** *** the selection loop *)
Variable all : list node.
Hypothesis Hnd : NoDup (map n_name all).

Lemma cnt_add : forall cur n v, In n all -> memN (n_name n) cur = false ->
  cnt all (cur ++ [n_name n]) v = cnt all cur v + (if aa_eqb (val n) v then 1 else 0).
Proof.
  intros cur n v Hin Hnot. unfold cnt. revert Hin Hnd. generalize all as l.
  induction l as [|x r IH]; intros Hin Hnd'; [destruct Hin|].
  rewrite !count_if_cons. cbn [map] in Hnd'. inversion Hnd' as [|? ? Hx Hr]; subst.
  assert (Hm : forall y, memN y (cur ++ [n_name n]) = memN y cur || N.eqb y (n_name n)).
  { intro y. unfold memN. rewrite existsb_app. cbn. rewrite orb_false_r. reflexivity. }
  destruct Hin as [->|Hin].
  - rewrite Hm, Hnot, N.eqb_refl. cbn [orb]. rewrite !andb_true_r, andb_false_r.
    assert (E : count_if (fun n0 => aa_eqb (val n0) v && memN (n_name n0) (cur ++ [n_name n])) r =
                count_if (fun n0 => aa_eqb (val n0) v && memN (n_name n0) cur) r).
    { unfold count_if. f_equal. f_equal. apply filter_ext_in. intros y Hy. rewrite Hm.
      assert (N.eqb (n_name y) (n_name n) = false) as ->.
      { apply N.eqb_neq. intro E. apply Hx. rewrite <- E. apply in_map. exact Hy. }
      rewrite orb_false_r. reflexivity. }
    rewrite E. lia.
  - rewrite (IH Hin Hr). rewrite Hm.
    assert (N.eqb (n_name x) (n_name n) = false) as ->.
    { apply N.eqb_neq. intro E. apply Hx. rewrite E. apply in_map. exact Hin. }
    rewrite orb_false_r. lia.
Qed.

Variable m0 : list (list name * Z).
Let L := zlen m0.
Let quota := Z.quot (nb + L - 1) L.

Record spread_inv (s : sel_state) : Prop := {
  sp_present : forall n, In n all -> aa_get (val n) (ss_aa s) <> None;
  sp_len : zlen (ss_aa s) = L;
  sp_bound : forall v, aa_count v (ss_aa s) <= Z.max (aa_count v m0) quota;
  sp_cnt : forall v, cnt all (ss_current s) v <= aa_count v (ss_aa s)
}.

Lemma spread_step : forall s n, In n all -> spread_inv s -> spread_inv (select_step t keys nb s n).
Proof.
  intros s n Hin I. unfold select_step.
  destruct (ss_done s); [exact I|].
  destruct (memN (n_name n) (ss_current s)) eqn:Hm; [exact I|].
  rewrite Hkeys. cbn [negb andb]. fold (val n). rewrite (sp_len _ I). fold quota.
  destruct (aa_count (val n) (ss_aa s) >=? quota) eqn:Eq; [exact I|].
  assert (Hq : aa_count (val n) (ss_aa s) < quota) by lia.
  constructor; cbn [ss_aa ss_current].
  - intros n' Hn'. apply aa_get_set_present. apply (sp_present _ I). exact Hn'.
  - unfold zlen. rewrite aa_set_length_present; [exact (sp_len _ I) | apply (sp_present _ I); exact Hin].
  - intro v. destruct (list_eq_dec N.eq_dec (val n) v) as [<-|Hne].
    + rewrite aa_count_set_same. lia.
    + rewrite aa_count_set_other by assumption. apply (sp_bound _ I).
  - intro v. pose proof (sp_cnt _ I v) as Hc.
    assert (Hle : cnt all (if fit t n then ss_current s ++ [n_name n] else ss_current s) v <=
                  cnt all (ss_current s) v + (if aa_eqb (val n) v then 1 else 0)).
    { destruct (fit t n); [rewrite cnt_add by assumption; lia | destruct (aa_eqb (val n) v); lia]. }
    destruct (list_eq_dec N.eq_dec (val n) v) as [<-|Hne].
    + rewrite aa_count_set_same. rewrite aa_eqb_refl in Hle. lia.
    + rewrite aa_count_set_other by assumption. rewrite (aa_eqb_neq _ _ Hne) in Hle. lia.
Qed.

Lemma spread_fold : forall ns s, incl ns all -> spread_inv s -> spread_inv (fold_left (select_step t keys nb) ns s).
Proof.
  induction ns as [|n r IH]; intros s Hi I; cbn [fold_left]; [exact I|].
  apply IH; [intros x Hx; apply Hi; right; exact Hx|]. apply spread_step; [apply Hi; left; reflexivity | exact I].
Qed.
End Spread.

(** ** Spreading: what nodeAntiAffinityKeys guarantees.
    With anti-affinity keys, one selection pass never brings the number of canary nodes carrying one value [v] of the keys
    above the quota - the canary size divided by the number of distinct values among the candidate nodes, rounded up -
    unless the nodes kept from the previous selection already exceeded it (they are never dropped for balance). *)
Theorem select_spreads : forall t keys nb nodes pods previous v,
  keys <> [] -> NoDup (map n_name nodes) ->
  let sorted := sort_by (fun n => node_restarts pods (n_name n)) nodes in
  let still_valid := filter (fun nn => match find (fun n => N.eqb (n_name n) nn) sorted with
                                       | Some n => fit t n | None => false end) previous in
  let final := fst (select_nodes t keys nb nodes pods previous) in
  let values := zlen (aa_init keys sorted still_valid) in
  cnt keys nodes final v <= Z.max (cnt keys nodes still_valid v) (Z.quot (nb + values - 1) values).
Proof.
  intros t keys nb nodes pods previous v Hk Hnd sorted still_valid final values.
  assert (Hkeys : Nat.eqb (length keys) 0 = false) by (destruct keys; [congruence | reflexivity]).
  assert (Hperm : Permutation nodes sorted) by apply sort_by_perm.
  assert (Hcnt : forall cur w, cnt keys nodes cur w = cnt keys sorted cur w).
  { intros cur w. unfold cnt, count_if. f_equal. apply filter_length_perm. exact Hperm. }
  assert (Hnd' : NoDup (map n_name sorted)).
  { eapply Permutation_NoDup; [apply Permutation_map; exact Hperm | exact Hnd]. }
  unfold final, select_nodes. fold sorted. fold still_valid. cbn [fst].
  destruct (zlen still_valid <? nb) eqn:E; [|lia].
  rewrite Hkeys. rewrite !Hcnt.
  set (m0 := aa_init keys sorted still_valid).
  assert (I0 : spread_inv keys nb sorted m0 (MkSel still_valid m0 false)).
  { constructor; cbn [ss_aa ss_current].
    - intros n Hn. apply aa_init_present. exact Hn.
    - reflexivity.
    - intro w. lia.
    - intro w. unfold m0. rewrite aa_init_count. lia. }
  pose proof (spread_fold t keys nb Hkeys sorted Hnd' m0 sorted _ (incl_refl _) I0) as I.
  pose proof (sp_cnt _ _ _ _ _ I v) as Hc. pose proof (sp_bound _ _ _ _ _ I v) as Hb.
  unfold m0 in Hb at 2. rewrite aa_init_count in Hb. fold values in Hb |- *. unfold values, m0 in *. lia.
Qed.

(** non-vacuity: four nodes in two zones, a canary of two: one node per zone, although the two zone-1 nodes come first *)
Example spreads_somewhere :
  let t := MkTmpl [] None [] [] [] in
  let nd (i z : N) := MkNode i [(7%N, z)] [] [] 0%N in
  let nodes := [nd 1 1; nd 2 1; nd 3 2; nd 4 2]%N in
  fst (select_nodes t [7%N] 2 nodes [] []) = [1; 3]%N /\
  fst (select_nodes t [] 2 nodes [] []) = [1; 2]%N.
Proof. vm_compute. split; reflexivity. Qed.
