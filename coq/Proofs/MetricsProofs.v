(** Proofs about [Model/Metrics.v] (C20). *)
From Coq Require Import String Ascii Permutation.
From EDS Require Import Model.Base Model.Metrics Check.C20Check.
Open Scope string_scope.

Lemma legal_underscore : legal_char "_"%char = true.
Proof. reflexivity. Qed.

Lemma sanitize_legal : forall s, all_chars legal_char (sanitize s) = true.
Proof.
  induction s as [|c r IH]; cbn [sanitize all_chars]; [reflexivity|].
  destruct (legal_char c) eqn:E; rewrite ?E, ?legal_underscore, IH; reflexivity.
Qed.

Lemma sanitize_length : forall s, String.length (sanitize s) = String.length s.
Proof. induction s as [|c r IH]; cbn; congruence. Qed.

Lemma sanitize_idem : forall s, sanitize (sanitize s) = sanitize s.
Proof.
  induction s as [|c r IH]; cbn [sanitize]; [reflexivity|].
  destruct (legal_char c) eqn:E; rewrite ?E, ?legal_underscore, IH; reflexivity.
Qed.

Lemma sanitize_fixes_legal : forall s, all_chars legal_char s = true -> sanitize s = s.
Proof.
  induction s as [|c r IH]; cbn [sanitize all_chars]; [reflexivity|].
  intros H. apply andb_prop in H. destruct H as [Hc Hr]. rewrite Hc, (IH Hr). reflexivity.
Qed.

Lemma combine_map_fst_snd {A B C} (f : A * B -> C) (l : list (A * B)) :
  combine (map f l) (map snd l) = map (fun kv => (f kv, snd kv)) l.
Proof. induction l as [|x r IH]; cbn; [reflexivity|]. now rewrite IH. Qed.

Lemma pairs_exact : forall m,
  combine (fst (build_info_labels m)) (snd (build_info_labels m)) =
  map (fun kv => (sanitize (fst kv), snd kv)) m.
Proof. intros m. unfold build_info_labels. cbn [fst snd]. apply combine_map_fst_snd. Qed.

Lemma pairs_lengths : forall m,
  length (fst (build_info_labels m)) = length m /\ length (snd (build_info_labels m)) = length m.
Proof. intros m. unfold build_info_labels. cbn [fst snd]. now rewrite !map_length. Qed.

Lemma keys_legal : forall m, forallb (all_chars legal_char) (fst (build_info_labels m)) = true.
Proof.
  intros m. unfold build_info_labels. cbn [fst]. apply forallb_forall. intros k Hk.
  apply in_map_iff in Hk. destruct Hk as [kv [<- _]]. apply sanitize_legal.
Qed.

(** The behaviour before the repair (values looked up by the SANITISED key), kept as a model of
    the defect so that the finding stays machine-checked. *)
Fixpoint lookup_str (k : string) (m : list (string * string)) : string :=
  match m with
  | [] => ""
  | (k', v) :: r => if String.eqb k k' then v else lookup_str k r
  end.
Definition build_info_labels_before_fix (m : list (string * string)) : list string * list string :=
  let ks := map (fun kv => sanitize (fst kv)) m in (ks, map (fun k => lookup_str k m) ks).

Lemma pairs_refuted_before_fix :
  exists m, combine (fst (build_info_labels_before_fix m)) (snd (build_info_labels_before_fix m))
            <> map (fun kv => (sanitize (fst kv), snd kv)) m.
Proof.
  exists [("extendeddaemonset.datadoghq.com/name", "foo")]. vm_compute. discriminate.
Qed.

(** Gauges: every family of the model reports the corresponding status field. *)
Lemma eds_gauges : forall v labels, mon_eds_gauges v (eds_families v labels) = true.
Proof.
  intros v labels. unfold eds_families. destruct (build_info_labels labels) as [ks vs].
  unfold mon_eds_gauges, fam_value_is, lookup_series, base_labels.
  destruct (ev_canary v) as [[rs n]|]; destruct (ev_canary_paused v) as [r|];
    cbn [find s_family String.eqb Ascii.eqb Bool.eqb s_value s_labels existsb app fst snd orb andb];
    rewrite !Z.eqb_refl; reflexivity.
Qed.

Lemma ers_gauges : forall v labels, mon_ers_gauges v (ers_families v labels) = true.
Proof.
  intros v labels. unfold ers_families. destruct (build_info_labels labels) as [ks vs].
  unfold mon_ers_gauges, fam_value_is, lookup_series. cbn [find s_family String.eqb Ascii.eqb Bool.eqb s_value].
  rewrite !Z.eqb_refl. reflexivity.
Qed.

Lemma pair_eqb_refl : forall p, pair_eqb p p = true.
Proof. intros [a b]. unfold pair_eqb. cbn. now rewrite !String.eqb_refl. Qed.

Lemma eds_identity : forall v labels, mon_identity (ev_ns v) (ev_name v) (eds_families v labels) = true.
Proof.
  intros v labels. unfold eds_families. destruct (build_info_labels labels) as [ks vs].
  unfold mon_identity, base_labels.
  repeat (cbn [forallb s_labels existsb app]; rewrite ?pair_eqb_refl, ?orb_true_r, ?orb_true_l, ?andb_true_l).
  reflexivity.
Qed.
