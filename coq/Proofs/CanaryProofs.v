(** * CanaryProofs: the scan of the canary node list in [manageCanaryStatus]. *)
From Coq Require Import List ZArith NArith Bool Lia.
From EDS Require Import Model.Objects Model.Fitness Model.PodSpec Model.Rolling Model.Canary Proofs.Lists.
Import ListNotations.
Open Scope Z_scope.

Lemma bind_ok' : forall {A B} (o : outcome A) (f : A -> outcome B) b,
  bind o f = Ok b -> exists a, o = Ok a /\ f a = Ok b.
Proof. intros A B o f b H; destruct o; simpl in H; try discriminate. eauto. Qed.

Section Scan.
Variables (rs : ers) (listed : list name) (items : list nitem).

Definition creates_here (nn : name) : bool :=
  memN nn listed &&
  match find_item items nn with
  | Some i => match ni_pod i with None => true | Some _ => false end
  | None => false
  end.
Definition deletes_here (nn : name) : bool :=
  memN nn listed &&
  match find_item items nn with
  | Some i => match ni_pod i with
              | Some p => negb (pod_terminating p) && negb (pod_up_to_date rs (ni_node i) (ni_setting i) p)
              | None => false end
  | None => false
  end.

Lemma scan_node_lists : forall s nn,
  cn_create (canary_scan_node rs listed items s nn) = cn_create s ++ (if creates_here nn then [nn] else []) /\
  cn_delete (canary_scan_node rs listed items s nn) = cn_delete s ++ (if deletes_here nn then [nn] else []) /\
  cn_desired (canary_scan_node rs listed items s nn) = cn_desired s + 1.
Proof.
  intros s nn. unfold canary_scan_node, creates_here, deletes_here.
  destruct (memN nn listed); cbn [negb andb]; [|cbn; rewrite !app_nil_r; auto].
  destruct (find_item items nn) as [i|]; [|cbn; rewrite !app_nil_r; auto].
  destruct (ni_pod i) as [p|]; [|cbn; rewrite !app_nil_r; auto].
  destruct (pod_terminating p); cbn [negb andb]; [cbn; rewrite !app_nil_r; auto|].
  destruct (pod_up_to_date rs (ni_node i) (ni_setting i) p); cbn; rewrite !app_nil_r; auto.
Qed.

Lemma scan_fold_lists : forall cn s,
  cn_create (fold_left (canary_scan_node rs listed items) cn s) = cn_create s ++ filter creates_here cn /\
  cn_delete (fold_left (canary_scan_node rs listed items) cn s) = cn_delete s ++ filter deletes_here cn /\
  cn_desired (fold_left (canary_scan_node rs listed items) cn s) = cn_desired s + zlen cn.
Proof.
  induction cn as [|nn r IH]; intros s; simpl.
  - rewrite !app_nil_r. unfold zlen; simpl. repeat split; lia.
  - destruct (IH (canary_scan_node rs listed items s nn)) as [A [B C]].
    destruct (scan_node_lists s nn) as [A' [B' C']].
    rewrite A, B, C, A', B', C'. rewrite <- !app_assoc.
    destruct (creates_here nn), (deletes_here nn); cbn; unfold zlen; simpl length; repeat split; try reflexivity; lia.
Qed.
End Scan.

(** ** inversion of [manage_canary_status] and [canary_evaluate] *)
Definition canary_scan_of (rs : ers) (listed : list name) (items : list nitem) (cn : list name) : cscan :=
  fold_left (canary_scan_node rs listed items) cn (MkCScan 0 0 0 0 false [] [] []).

Lemma manage_canary_inv : forall rs ann oc now cn listed items st0 cp,
  manage_canary_status rs ann oc now cn listed items st0 = Ok cp ->
  let s := canary_scan_of rs listed items cn in
  exists l conds4,
    canary_evaluate oc (canary_unpaused ann) now st0 (canary_failed_rs (r_status rs))
                    (fst (canary_paused ann (Some (r_status rs)))) (snd (canary_paused ann (Some (r_status rs))))
                    (cn_check s) = Ok (l, conds4) /\
    let do_create := negb (Nat.eqb (length (cn_create s)) 0) && negb (cl_paused l) && negb (cl_failed l) in
    cp_creates cp = (if do_create then cn_create s else []) /\ cp_deletes cp = cn_delete s /\
    cp_failed cp = cl_failed l /\ cp_paused cp = cl_paused l /\
    cp_status cp = MkErsStatus (if cl_failed l && match oc with Some _ => true | None => false end
                                then RS_CANARY_FAILED else RS_CANARY) (cn_desired s) (cn_current s)
                               (cn_ready s) (cn_available s) (rs_ignored st0) conds4.
Proof.
  intros rs ann oc now cn listed items st0 cp H. unfold manage_canary_status in H.
  destruct (canary_paused ann (Some (r_status rs))) as [paused0 reason0]. cbn [fst snd].
  apply bind_ok' in H. destruct H as [[l conds4] [He H]]. injection H as <-.
  exists l, conds4. split; [exact He|]. cbn. repeat split; reflexivity.
Qed.

Lemma canary_evaluate_inv : forall oc unpaused now st0 failed0 paused0 reason0 check l conds,
  canary_evaluate oc unpaused now st0 failed0 paused0 reason0 check = Ok (l, conds) ->
  (oc = None /\ l = MkCLoop failed0 R_EMPTY paused0 reason0 zero_time false R_EMPTY /\ conds = rs_conds st0) \/
  (oc <> None /\ exists cfg, canary_cfg_of oc = Some cfg /\
     canary_pod_loop cfg unpaused now (get_cond (rs_conds st0) CT_Canary) (get_cond (rs_conds st0) CT_PodRestarting)
       (MkCLoop failed0 R_EMPTY (if unpaused && negb failed0 then false else paused0)
                (if unpaused && negb failed0 then R_EMPTY else reason0) zero_time false R_EMPTY) check = Ok l).
Proof.
  intros oc unpaused now st0 failed0 paused0 reason0 check l conds H. unfold canary_evaluate in H.
  destruct oc as [c|]; [|injection H as <- <-; left; auto].
  right. split; [discriminate|]. destruct (canary_cfg_of (Some c)) as [cfg|]; [|discriminate].
  exists cfg. split; [reflexivity|].
  destruct (unpaused && negb failed0); apply bind_ok' in H; destruct H as [l' [Hl H]]; injection H as <- _; exact Hl.
Qed.

(** What the canary role creates and deletes: a subsequence of the canary node list. *)
Theorem canary_plan_lists : forall rs ann oc now cn listed items st0 cp,
  manage_canary_status rs ann oc now cn listed items st0 = Ok cp ->
  (cp_creates cp = [] \/ cp_creates cp = filter (creates_here listed items) cn) /\
  cp_deletes cp = filter (deletes_here rs listed items) cn /\
  rs_desired (cp_status cp) = zlen cn.
Proof.
  intros rs ann oc now cn listed items st0 cp H. apply manage_canary_inv in H. cbv zeta in H.
  destruct H as [l [conds4 [_ [Hc [Hd [_ [_ Hs]]]]]]].
  destruct (scan_fold_lists rs listed items cn (MkCScan 0 0 0 0 false [] [] [])) as [A [B C]].
  unfold canary_scan_of in *. rewrite Hc, Hd, Hs, A, B. cbn [rs_desired]. rewrite C. cbn [cn_create cn_delete cn_desired app].
  split; [|split; [reflexivity | lia]].
  match goal with |- context [if ?c then _ else []] => destruct c; auto end.
Qed.

Lemma find_item_some : forall items nn i, find_item items nn = Some i -> In i items /\ ni_name i = nn.
Proof.
  intros items nn i H. unfold find_item in H. apply find_some in H. destruct H as [Hin He].
  apply N.eqb_eq in He. split; assumption.
Qed.

Lemma creates_here_spec : forall listed items nn, creates_here listed items nn = true ->
  In nn listed /\ exists i, In i items /\ ni_name i = nn /\ ni_pod i = None.
Proof.
  intros listed items nn H. unfold creates_here in H. apply andb_true_iff in H. destruct H as [Hl H].
  apply memN_In in Hl. split; [assumption|].
  destruct (find_item items nn) as [i|] eqn:E; [|discriminate].
  destruct (ni_pod i) eqn:Ep; [discriminate|]. apply find_item_some in E. destruct E. eauto.
Qed.

Lemma deletes_here_spec : forall rs listed items nn, deletes_here rs listed items nn = true ->
  In nn listed /\ exists i p, find_item items nn = Some i /\ ni_pod i = Some p /\ pod_terminating p = false /\
                              pod_up_to_date rs (ni_node i) (ni_setting i) p = false.
Proof.
  intros rs listed items nn H. unfold deletes_here in H. apply andb_true_iff in H. destruct H as [Hl H].
  apply memN_In in Hl. split; [assumption|].
  destruct (find_item items nn) as [i|] eqn:E; [|discriminate].
  destruct (ni_pod i) as [p|] eqn:Ep; [|discriminate].
  apply andb_true_iff in H. destruct H as [H1 H2]. apply negb_true_iff in H1, H2. eauto 8.
Qed.
