(** * RollingProofs: the budget arithmetic of the rolling update ([Limits.v], [Rolling.v]). *)
From Coq Require Import List ZArith NArith Bool Lia Permutation.
From EDS Require Import Model.Objects Model.Fitness Model.PodSpec Model.Limits Model.Rolling Proofs.Lists.
Import ListNotations.
Open Scope Z_scope.

(** ** The property's quantities, read off a rolling plan *)

(** Targeted nodes without an available daemon pod, stuck/unresponsive ones tolerated up to
    maxPodSchedulerFailure: U. *)
Definition unavailable_before (rp : rolling_plan) : Z :=
  let k := rp_counts rp in
  k_nodes k - Z.min (k_unresponsive k) (rp_max_sched_failure rp) - k_available k - k_old_available k.

(** Number of AVAILABLE pods among the update-deletions [chosen] (node names). *)
Definition avail_chosen (rp : rolling_plan) (chosen : list name) : Z :=
  count_if (fun x => memN x (rp_del_available rp)) chosen.

Definition mon_budget (rp : rolling_plan) (chosen : list name) : bool :=
  avail_chosen rp chosen <=? Z.max 0 (rp_max_unavailable rp - unavailable_before rp).
Definition mon_unavailable_first (rp : rolling_plan) (chosen : list name) : bool :=
  (avail_chosen rp chosen =? 0) || subsetNb (rp_del_unavailable rp) chosen.
Definition mon_cap (rp : rolling_plan) (chosen : list name) : bool :=
  zlen chosen <=? Z.max 0 (rp_max_unavailable rp).
Definition mon_paused_frozen (rp : rolling_plan) (chosen creates : list name) : bool :=
  (if rp_paused rp || rp_frozen rp then Nat.eqb (length chosen) 0 else true) &&
  (if rp_frozen rp then Nat.eqb (length creates) 0 else true).
Definition mon_create_cap (rp : rolling_plan) (creates : list name) : bool :=
  (zlen creates <=? Z.max 0 (rp_max_creation rp)) && (zlen creates <=? zlen (rp_create_candidates rp)).

(** Well-formedness of a plan: what [rolling_plan_of] guarantees on duplicate-free items. *)
Record plan_wf (rp : rolling_plan) : Prop := {
  wf_nodup : NoDup (rp_del_unavailable rp ++ rp_del_available rp);
  wf_unav : zlen (rp_del_unavailable rp) = k_old_unavailable (rp_counts rp);
  wf_av : zlen (rp_del_available rp) = k_old_available (rp_counts rp);
  wf_nb_delete : rp_nb_delete rp <=
                 Z.max 0 (Z.min (rp_max_unavailable rp - unavailable_before rp + k_old_unavailable (rp_counts rp))
                                (rp_max_unavailable rp));
  wf_nb_delete_pf : (rp_paused rp || rp_frozen rp = true) -> rp_nb_delete rp = 0;
  wf_nb_create : rp_nb_create rp <= Z.max 0 (rp_max_creation rp) /\
                 rp_nb_create rp <= zlen (rp_create_candidates rp);
  wf_nb_create_f : rp_frozen rp = true -> rp_nb_create rp = 0
}.

Lemma filter_map_names : forall f rs now (items : list nitem),
  map ni_name (filter (is_class f rs now) items) = map ni_name (filter (is_class f rs now) items).
Proof. reflexivity. Qed.

Lemma classes_exclusive : forall rs now i,
  is_class c_oldunavail rs now i = true -> is_class c_oldavail rs now i = false.
Proof. intros rs now i; unfold is_class; destruct (classify rs now i); simpl; congruence. Qed.

Theorem rolling_plan_wf : forall rs ann ru now items rp,
  NoDup (map ni_name items) ->
  rolling_plan_of rs ann ru now items = Ok rp -> plan_wf rp.
Proof.
  intros rs ann ru now items rp Hnd H. unfold rolling_plan_of in H.
  destruct (ru_max_sched_failure ru) as [msf|]; [|discriminate].
  destruct (resolve_iop msf (zlen items)) as [max_fail|]; [|discriminate].
  destruct (ru_max_unavailable ru) as [mu|]; [|discriminate].
  destruct (resolve_iop mu (zlen items)) as [max_unav|]; [|discriminate].
  destruct (ru_increase ru) as [inc|]; [|discriminate].
  destruct (resolve_iop inc (zlen items)); [|discriminate].
  destruct (ru_interval ru) as [interval|]; [|discriminate].
  destruct (ru_max_parallel ru) as [maxpar|]; [|discriminate].
  destruct (max_creation inc interval maxpar (zlen items) _ now) as [maxc|]; [|discriminate].
  inversion H; subst rp; clear H.
  set (du := filter (is_class c_oldunavail rs now) items).
  set (da := filter (is_class c_oldavail rs now) items).
  constructor; cbn [rp_del_unavailable rp_del_available rp_counts rp_nb_delete rp_nb_create rp_paused
                    rp_frozen rp_max_unavailable rp_max_sched_failure rp_max_creation rp_create_candidates].
  - apply NoDup_map_filter_app; [assumption|]. intros x _; apply classes_exclusive.
  - unfold count_items; cbn [k_old_unavailable]. unfold zlen, count_if. rewrite map_length. reflexivity.
  - unfold count_items; cbn [k_old_available]. unfold zlen, count_if. rewrite map_length. reflexivity.
  - unfold unavailable_before, calc_delete, count_items.
    cbn [rp_counts rp_max_sched_failure rp_max_unavailable k_nodes k_unresponsive k_available k_old_available
         k_old_unavailable lp_unresponsive lp_max_unschedulable lp_max_unavailable lp_nodes lp_available
         lp_old_available lp_old_unavailable].
    destruct (a3_true (an_rolling_paused ann) || a3_true (an_frozen ann)); lia.
  - intros Hp; rewrite Hp; reflexivity.
  - unfold calc_create; cbn [lp_nodes lp_pods lp_max_creation].
    destruct (a3_true (an_frozen ann)); split; try lia.
    pose proof (zlen_nonneg (map ni_name (filter (is_class c_nopod rs now) items))); lia.
  - intros Hf; rewrite Hf; reflexivity.
Qed.

(** ** The budget theorems: for every admissible choice of the runtime (every map order) *)

Section Budget.
Variable rp : rolling_plan.
Variable chosen : list name.
Hypothesis WF : plan_wf rp.
Hypothesis ADM : admissible_deletes rp chosen = true.

Let du := rp_del_unavailable rp.
Let da := rp_del_available rp.

Lemma adm_facts :
  NoDup chosen /\ incl chosen (du ++ da) /\ zlen chosen = rp_nb_delete rp /\
  (if rp_nb_delete rp <=? zlen du then incl chosen du else incl du chosen).
Proof.
  unfold admissible_deletes in ADM. rewrite !andb_true_iff in ADM.
  destruct ADM as [[[Hnd Hsub] Hlen] Hif].
  apply nodupNb_NoDup in Hnd. apply Z.eqb_eq in Hlen.
  repeat split; try assumption.
  - intros x Hx. unfold subsetN in Hsub. rewrite forallb_forall in Hsub. apply memN_In, Hsub, Hx.
  - fold du in Hif. destruct (rp_nb_delete rp <=? zlen du); unfold subsetN in Hif; rewrite forallb_forall in Hif;
      intros x Hx; apply memN_In, Hif, Hx.
Qed.

Lemma chosen_split : avail_chosen rp chosen + count_if (fun x => memN x du) chosen = zlen chosen.
Proof.
  destruct adm_facts as [_ [Hincl _]].
  unfold avail_chosen; fold da. apply count_if_partition.
  intros x Hx. apply Hincl in Hx. apply in_app_or in Hx.
  pose proof (NoDup_app_disjoint _ _ (wf_nodup rp WF)) as Hdis. fold du da in Hdis.
  destruct Hx as [Hx|Hx].
  - assert (E1 : memN x du = true) by (apply memN_In; assumption).
    assert (E2 : memN x da = false) by (apply memN_false, Hdis; assumption).
    rewrite E1, E2; reflexivity.
  - assert (E2 : memN x da = true) by (apply memN_In; assumption).
    assert (E1 : memN x du = false).
    { apply memN_false; intros Hd; exact (Hdis x Hd Hx). }
    rewrite E1, E2; reflexivity.
Qed.

Lemma avail_chosen_value :
  avail_chosen rp chosen = if rp_nb_delete rp <=? zlen du then 0 else rp_nb_delete rp - zlen du.
Proof.
  destruct adm_facts as [Hnd [Hincl [Hlen Hif]]].
  pose proof (NoDup_app_disjoint _ _ (wf_nodup rp WF)) as Hdis. fold du da in Hdis.
  destruct (rp_nb_delete rp <=? zlen du) eqn:E.
  - unfold avail_chosen; fold da. apply count_if_zero. intros x Hx.
    apply memN_false. intros Ha. exact (Hdis x (Hif x Hx) Ha).
  - pose proof chosen_split as Hs.
    rewrite (count_members du chosen) in Hs; try assumption; [unfold du, da, name in *; lia|].
    exact (NoDup_app_l _ _ (wf_nodup rp WF)).
Qed.

Theorem budget : mon_budget rp chosen = true.
Proof.
  unfold mon_budget. apply Z.leb_le. rewrite avail_chosen_value.
  pose proof (wf_nb_delete rp WF) as Hnb. rewrite <- (wf_unav rp WF) in Hnb. fold du in Hnb.
  pose proof (zlen_nonneg du).
  destruct (rp_nb_delete rp <=? zlen du) eqn:E; [lia|]. apply Z.leb_gt in E. lia.
Qed.

Theorem unavailable_first : mon_unavailable_first rp chosen = true.
Proof.
  unfold mon_unavailable_first. rewrite avail_chosen_value.
  destruct adm_facts as [_ [_ [_ Hif]]].
  destruct (rp_nb_delete rp <=? zlen du) eqn:E; [reflexivity|].
  apply orb_true_iff; right. apply subsetNb_incl. exact Hif.
Qed.

Theorem cap : mon_cap rp chosen = true.
Proof.
  unfold mon_cap. apply Z.leb_le. destruct adm_facts as [_ [_ [Hlen _]]]. rewrite Hlen.
  pose proof (wf_nb_delete rp WF). lia.
Qed.

Theorem paused_frozen_no_delete : rp_paused rp || rp_frozen rp = true -> chosen = [].
Proof.
  intros Hp. destruct adm_facts as [_ [_ [Hlen _]]]. rewrite (wf_nb_delete_pf rp WF Hp) in Hlen.
  destruct chosen; [reflexivity|]. unfold zlen in Hlen; simpl in Hlen; lia.
Qed.
End Budget.

Section Create.
Variable rp : rolling_plan.
Variable creates : list name.
Hypothesis WF : plan_wf rp.
Hypothesis ADM : admissible_creates rp creates = true.

Lemma adm_create_facts :
  NoDup creates /\ incl creates (rp_create_candidates rp) /\ zlen creates = rp_nb_create rp.
Proof.
  unfold admissible_creates in ADM. rewrite !andb_true_iff in ADM. destruct ADM as [[Hnd Hsub] Hlen].
  apply nodupNb_NoDup in Hnd. apply Z.eqb_eq in Hlen. repeat split; try assumption.
  intros x Hx. unfold subsetN in Hsub. rewrite forallb_forall in Hsub. apply memN_In, Hsub, Hx.
Qed.

Theorem create_cap : mon_create_cap rp creates = true.
Proof.
  unfold mon_create_cap. destruct adm_create_facts as [_ [_ Hlen]]. rewrite Hlen.
  destruct (wf_nb_create rp WF) as [H1 H2].
  apply andb_true_iff; split; apply Z.leb_le; assumption.
Qed.

Theorem frozen_no_create : rp_frozen rp = true -> creates = [].
Proof.
  intros Hf. destruct adm_create_facts as [_ [_ Hlen]]. rewrite (wf_nb_create_f rp WF Hf) in Hlen.
  destruct creates; [reflexivity|]. unfold zlen in Hlen; simpl in Hlen; lia.
Qed.
End Create.

(** ** The defect of the pinned tree (D3): with the map-order prefix any [nb_delete] candidates
    could be deleted, available ones ahead of unavailable ones. *)
Definition d3_plan : rolling_plan :=
  MkRollingPlan false false [] [1%N; 2%N] [3%N; 4%N; 5%N; 6%N; 7%N; 8%N; 9%N; 10%N] 0 2
    (MkCounts 10 10 0 0 0 8 2 0 0) 2 0 250 0.
Lemma budget_refuted_before_fix :
  exists rp chosen, plan_wf rp /\ admissible_deletes_before_fix rp chosen = true /\ mon_budget rp chosen = false.
Proof.
  exists d3_plan, [3%N; 4%N]. split; [|split; vm_compute; reflexivity].
  constructor; vm_compute; try reflexivity; try discriminate; try lia.
  - repeat constructor; simpl; intuition discriminate.
  - split; discriminate.
Qed.

(** ** The ramp ([calculateMaxCreation]) *)
Theorem ramp_formula : forall inc interval maxpar nb start now sv,
  resolve_iop inc nb = Some sv -> 0 < interval -> start <= now -> now - start <= max_dur ->
  max_creation inc interval maxpar nb start now = Some (Z.min ((1 + (now - start) / interval) * sv) maxpar).
Proof.
  intros inc interval maxpar nb start now sv Hr Hi Hs Hm. unfold max_creation. rewrite Hr.
  assert (E : interval >? 0 = true) by (apply Z.gtb_lt; lia). rewrite E.
  unfold tsub. assert (E1 : now - start >? max_dur = false) by (rewrite Z.gtb_ltb; apply Z.ltb_ge; lia).
  rewrite E1. assert (E2 : now - start <? min_dur = false) by (apply Z.ltb_ge; unfold min_dur; lia).
  rewrite E2. rewrite Z.quot_div_nonneg by lia. reflexivity.
Qed.

Theorem ramp_nonpositive_interval : forall inc interval maxpar nb start now sv,
  resolve_iop inc nb = Some sv -> interval <= 0 ->
  max_creation inc interval maxpar nb start now = Some (Z.min sv maxpar).
Proof.
  intros inc interval maxpar nb start now sv Hr Hi. unfold max_creation. rewrite Hr.
  assert (E : interval >? 0 = false) by (rewrite Z.gtb_ltb; apply Z.ltb_ge; lia). rewrite E.
  f_equal. f_equal. lia.
Qed.

(** percentages resolve rounding up *)
Theorem percent_rounds_up : forall v total r, resolve_iop (PctV v) total = Some r ->
  100 * r >= v * total /\ 100 * (r - 1) < v * total.
Proof.
  intros v total r H. simpl in H. inversion H; subst; clear H. unfold ceil_div100.
  pose proof (Z.div_mod (- (v * total)) 100 ltac:(lia)).
  pose proof (Z.mod_pos_bound (- (v * total)) 100 ltac:(lia)). lia.
Qed.
