(** * C03Proofs: lemmas closing the C03 property theorems. *)
From Coq Require Import List ZArith NArith Bool Lia.
From EDS Require Import Model.Objects Model.Limits Model.Rolling Model.Canary Model.ErsReconcile
     Proofs.Lists Proofs.RollingProofs Proofs.SyncInv.
Import ListNotations.
Open Scope Z_scope.

Lemma budget_of_items : forall rs ann ru now items rp chosen,
  NoDup (map ni_name items) -> rolling_plan_of rs ann ru now items = Ok rp ->
  admissible_deletes rp chosen = true -> mon_budget rp chosen = true.
Proof. intros; eapply budget; [eapply rolling_plan_wf|]; eassumption. Qed.

Lemma unavailable_first_of_items : forall rs ann ru now items rp chosen,
  NoDup (map ni_name items) -> rolling_plan_of rs ann ru now items = Ok rp ->
  admissible_deletes rp chosen = true -> mon_unavailable_first rp chosen = true.
Proof. intros; eapply unavailable_first; [eapply rolling_plan_wf|]; eassumption. Qed.

Lemma cap_of_items : forall rs ann ru now items rp chosen,
  NoDup (map ni_name items) -> rolling_plan_of rs ann ru now items = Ok rp ->
  admissible_deletes rp chosen = true -> mon_cap rp chosen = true.
Proof. intros; eapply cap; [eapply rolling_plan_wf|]; eassumption. Qed.

Lemma sync_budget : forall sn ch pl rp,
  ers_sync sn ch = Ok pl -> pl_rolling pl = Some rp ->
  mon_budget rp (pl_update_nodes pl) = true /\
  mon_unavailable_first rp (pl_update_nodes pl) = true /\
  mon_cap rp (pl_update_nodes pl) = true.
Proof.
  intros sn ch pl rp H Hr. destruct (sync_rolling _ _ _ _ H Hr) as [_ [WF [[Hn|Ha] _]]].
  - rewrite Hn. auto using mon_budget_nil, mon_unavailable_first_nil, mon_cap_nil.
  - auto using budget, unavailable_first, cap.
Qed.

Lemma pod_of_node_le1 : forall items nn, (length (pod_of_node items nn) <= 1)%nat.
Proof.
  intros; unfold pod_of_node. destruct (find_item items nn) as [i|]; simpl; [|lia].
  destruct (ni_pod i); simpl; lia.
Qed.

Lemma flat_map_le1 : forall {A B} (f : A -> list B) l,
  (forall x, (length (f x) <= 1)%nat) -> (length (flat_map f l) <= length l)%nat.
Proof.
  intros A B f l H; induction l as [|x r IH]; simpl; [lia|].
  rewrite app_length. specialize (H x). lia.
Qed.

Lemma sync_deletes_bounded : forall sn ch pl,
  ers_sync sn ch = Ok pl -> (length (pl_deletes pl) <= length (pl_update_nodes pl))%nat.
Proof.
  intros sn ch pl H. apply ers_sync_inv in H.
  destruct H as [rl st after err Hp | e freq cx so He Hd Hf Hg Hc Hs Hfin].
  - subst pl; simpl; lia.
  - apply finish_sync_fields in Hfin. destruct Hfin as [_ [_ [_ [_ [_ [_ [Hdel _]]]]]]].
    rewrite Hdel. apply flat_map_le1. apply pod_of_node_le1.
Qed.

Lemma calc_delete_bounds : forall p,
  calc_delete p <= Z.max 0 (lp_max_unavailable p) /\
  calc_delete p <= Z.max 0 (lp_max_unavailable p
                            - (lp_nodes p - Z.min (lp_unresponsive p) (lp_max_unschedulable p)
                               - lp_available p - lp_old_available p) + lp_old_unavailable p).
Proof. intros p; unfold calc_delete; lia. Qed.

Lemma example_admissible :
  plan_wf d3_plan /\ admissible_deletes d3_plan [2%N; 1%N] = true /\ mon_budget d3_plan [2%N; 1%N] = true.
Proof.
  split; [|split; vm_compute; reflexivity].
  constructor; vm_compute; try reflexivity; try discriminate; try lia.
  - repeat constructor; simpl; intuition discriminate.
  - split; discriminate.
Qed.
