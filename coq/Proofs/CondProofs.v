(** * CondProofs: the condition-list update rule of both [conditions/update.go] files. *)
From Coq Require Import List ZArith NArith Bool Lia.
From EDS Require Import Model.Base.
Import ListNotations.
Open Scope Z_scope.

Lemma get_update_first : forall t f (cs : list cond) c,
  get_cond cs t = Some c -> (forall x, c_type (f x) = c_type x) ->
  get_cond (update_first (cond_has_type t) f cs) t = Some (f c).
Proof.
  intros t f cs; induction cs as [|x r IH]; intros c H Hty; [discriminate|].
  unfold get_cond in *. simpl in *. destruct (cond_has_type t x) eqn:E.
  - inversion H; subst. simpl. unfold cond_has_type in *. rewrite Hty, E. reflexivity.
  - simpl. rewrite E. apply IH; assumption.
Qed.

Lemma get_cond_app_none : forall cs t c, get_cond cs t = None -> c_type c = t -> get_cond (cs ++ [c]) t = Some c.
Proof.
  intros cs t c; unfold get_cond; induction cs as [|x r IH]; simpl; intros H Ht.
  - unfold cond_has_type. rewrite Ht, N.eqb_refl. reflexivity.
  - destruct (cond_has_type t x); [discriminate|]. apply IH; assumption.
Qed.

(** a condition written with "write even if false" and "refresh lastUpdateTime" is present afterwards
    and carries the instant of the write *)
Lemma update_cond_stamps : forall cs now t st r m,
  exists c, get_cond (update_cond cs now t st r m true true) t = Some c /\ c_update c = now /\ c_status c = st.
Proof.
  intros cs now t st r m. unfold update_cond. destruct (get_cond cs t) as [c0|] eqn:E.
  - eexists. split; [apply get_update_first; [exact E|reflexivity]|]. cbn. rewrite orb_true_r. split; reflexivity.
  - rewrite orb_true_r. eexists. split; [apply get_cond_app_none; [exact E|reflexivity]|]. split; reflexivity.
Qed.


Lemma is_cond_true_update_same : forall cs now t st r m w s,
  is_cond_true (update_cond cs now t st r m w s) t = cstatus_eqb st CTrue.
Proof.
  intros cs now t st r m w s. unfold is_cond_true, update_cond.
  destruct (get_cond cs t) as [c0|] eqn:E.
  - erewrite get_update_first; [reflexivity | exact E | reflexivity].
  - destruct (cstatus_eqb st CTrue || w) eqn:Ew.
    + erewrite get_cond_app_none; [reflexivity | exact E | reflexivity].
    + rewrite E. apply orb_false_iff in Ew. destruct Ew as [-> _]. reflexivity.
Qed.

Lemma get_update_first_other : forall t t' f (cs : list cond),
  t <> t' -> (forall x, c_type (f x) = c_type x) ->
  get_cond (update_first (cond_has_type t') f cs) t = get_cond cs t.
Proof.
  intros t t' f cs Hne Hty. unfold get_cond. induction cs as [|x r IH]; simpl; [reflexivity|].
  destruct (cond_has_type t' x) eqn:E'.
  - simpl. unfold cond_has_type in *. rewrite Hty. apply N.eqb_eq in E'.
    assert (E : N.eqb (c_type x) t = false) by (apply N.eqb_neq; congruence). rewrite E. reflexivity.
  - simpl. destruct (cond_has_type t x); [reflexivity | exact IH].
Qed.

Lemma get_cond_app_other : forall cs t c, c_type c <> t -> get_cond (cs ++ [c]) t = get_cond cs t.
Proof.
  intros cs t c Hne. unfold get_cond. induction cs as [|x r IH]; simpl.
  - unfold cond_has_type. assert (E : N.eqb (c_type c) t = false) by (apply N.eqb_neq; assumption). rewrite E. reflexivity.
  - destruct (cond_has_type t x); [reflexivity | exact IH].
Qed.

(** updating one condition type leaves every other type as it was *)
Lemma get_cond_update_other : forall cs now t t' st r m w s,
  t <> t' -> get_cond (update_cond cs now t' st r m w s) t = get_cond cs t.
Proof.
  intros cs now t t' st r m w s Hne. unfold update_cond. destruct (get_cond cs t') as [c0|].
  - apply get_update_first_other; [assumption | reflexivity].
  - destruct (cstatus_eqb st CTrue || w); [|reflexivity]. apply get_cond_app_other. cbn. congruence.
Qed.

Lemma is_cond_true_update_other : forall cs now t t' st r m w s,
  t <> t' -> is_cond_true (update_cond cs now t' st r m w s) t = is_cond_true cs t.
Proof. intros. unfold is_cond_true. rewrite get_cond_update_other; auto. Qed.
