(** * SyncInv: the shape of a successful replica-set sync ([ers_sync]) - inversion lemmas the
    property proofs share. *)
From Coq Require Import List ZArith NArith Bool Lia Permutation.
From EDS Require Import Model.Objects Model.Fitness Model.PodSpec Model.Backoff Model.Filter Model.Default
     Model.Limits Model.Rolling Model.Canary Model.ErsReconcile Proofs.Lists Proofs.RollingProofs.
Import ListNotations.
Open Scope Z_scope.

Lemma bind_ok : forall {A B} (o : outcome A) (f : A -> outcome B) b,
  bind o f = Ok b -> exists a, o = Ok a /\ f a = Ok b.
Proof. intros A B o f b H; destruct o; simpl in H; try discriminate. eauto. Qed.

(** A sync either returns early (gate closed, parent not defaulted) without touching any pod, or runs
    the three stages. *)
Inductive sync_shape (sn : ers_snapshot) (ch : choice) (pl : ers_plan) : Prop :=
| ShapeIdle (rl : role) (st : option ers_status) (after : dur) (err : bool) :
    pl = idle_plan sn rl st after err -> sync_shape sn ch pl
| ShapeFull (e : eds) (freq : dur) (cx : sync_ctx) (so : strat_out) :
    sn_eds sn = Some e -> is_defaulted e = true -> st_freq (e_strategy e) = Some freq ->
    sync_gate sn freq = None ->
    build_ctx sn e freq = Ok cx -> strategy_of sn ch cx = Ok so -> finish_sync sn cx so = Ok pl ->
    sync_shape sn ch pl.

Theorem ers_sync_inv : forall sn ch pl, ers_sync sn ch = Ok pl -> sync_shape sn ch pl.
Proof.
  intros sn ch pl H. unfold ers_sync in H.
  destruct (N.eqb (r_owner (sn_rs sn)) no_name); [discriminate|].
  destruct (sn_eds sn) as [e|] eqn:Ee; [|discriminate].
  destruct (is_defaulted e) eqn:Ed; cbn [negb] in H.
  - unfold sync_body in H. destruct (st_freq (e_strategy e)) as [freq|] eqn:Ef; [|discriminate].
    destruct (sync_gate sn freq) as [d|] eqn:Eg.
    + inversion H; subst. eapply ShapeIdle; reflexivity.
    + destruct (f_list (sn_faults sn)); [discriminate|].
      apply bind_ok in H. destruct H as [cx [Hc H]]. apply bind_ok in H. destruct H as [so [Hs H]].
      eapply ShapeFull; eauto.
  - inversion H; subst. eapply ShapeIdle; reflexivity.
Qed.

(** the same, when the caller already knows the sync is not idle *)
Theorem ers_sync_full : forall sn ch pl e freq cx,
  ers_sync sn ch = Ok pl -> sn_eds sn = Some e -> is_defaulted e = true ->
  st_freq (e_strategy e) = Some freq -> sync_gate sn freq = None -> build_ctx sn e freq = Ok cx ->
  exists so, strategy_of sn ch cx = Ok so /\ finish_sync sn cx so = Ok pl.
Proof.
  intros sn ch pl e freq cx H He Hd Hf Hg Hc. unfold ers_sync in H.
  destruct (N.eqb (r_owner (sn_rs sn)) no_name); [discriminate|].
  rewrite He, Hd in H. cbn [negb] in H. unfold sync_body in H. rewrite Hf, Hg in H.
  destruct (f_list (sn_faults sn)); [discriminate|]. rewrite Hc in H. cbn [bind] in H.
  apply bind_ok in H. destruct H as [so [Hs H]]. eauto.
Qed.

Theorem ers_sync_inv_defaulted : forall sn ch pl e,
  ers_sync sn ch = Ok pl -> sn_eds sn = Some e -> is_defaulted e = true ->
  pl_status pl = None \/
  exists freq cx so, st_freq (e_strategy e) = Some freq /\ sync_gate sn freq = None /\
    build_ctx sn e freq = Ok cx /\ strategy_of sn ch cx = Ok so /\ finish_sync sn cx so = Ok pl.
Proof.
  intros sn ch pl e H He Hd. unfold ers_sync in H.
  destruct (N.eqb (r_owner (sn_rs sn)) no_name); [discriminate|].
  rewrite He, Hd in H. cbn [negb] in H. unfold sync_body in H.
  destruct (st_freq (e_strategy e)) as [freq|] eqn:Ef; [|discriminate].
  destruct (sync_gate sn freq) as [d|] eqn:Eg.
  - injection H as <-. left; reflexivity.
  - destruct (f_list (sn_faults sn)); [discriminate|].
    apply bind_ok in H. destruct H as [cx [Hc H]]. apply bind_ok in H. destruct H as [so [Hs H]].
    right. exists freq, cx, so. auto.
Qed.

(** ** The context *)
Lemma build_ctx_fields : forall sn e freq cx, build_ctx sn e freq = Ok cx ->
  cx_eds cx = e /\ cx_freq cx = freq /\ cx_role cx = role_of e (r_name (sn_rs sn)) /\
  listed_nodes (sn_rs sn) e (sn_nodes sn) (sn_settings sn) = Ok (cx_nodes cx) /\
  listed_pods e (sn_pods sn) (sn_old_ds sn) = Ok (cx_pods cx) /\
  cx_canary_nodes cx = match es_canary (e_status e) with Some c => cs_nodes c | None => [] end /\
  cx_ignore cx = match role_of e (r_name (sn_rs sn)), es_canary (e_status e) with
                 | RoleActive, Some _ => cx_canary_nodes cx | _, _ => [] end /\
  cx_fo cx = filter_and_map (sn_rs sn) (map fst (cx_nodes cx)) (cx_pods cx) (cx_ignore cx) (sn_now sn) (sn_backoff sn) /\
  cx_items cx = items_of (cx_nodes cx) (fo_by_node (cx_fo cx)).
Proof.
  intros sn e freq cx H. unfold build_ctx in H.
  apply bind_ok in H. destruct H as [nodes [Hn H]]. apply bind_ok in H. destruct H as [pods [Hp H]].
  inversion H; subst; clear H. cbn. repeat split; assumption.
Qed.

Lemma find_some_name : forall (nodes : list (node * option setting)) k n os,
  find (fun ns => N.eqb (n_name (fst ns)) k) nodes = Some (n, os) -> n_name n = k /\ In (n, os) nodes.
Proof.
  intros nodes k n os H. apply find_some in H. destruct H as [Hin He]. simpl in He.
  apply N.eqb_eq in He. split; assumption.
Qed.

Lemma items_of_names : forall nodes by_node i,
  In i (items_of nodes by_node) ->
  In (ni_name i, ni_pod i) by_node /\ In (ni_node i, ni_setting i) nodes.
Proof.
  intros nodes by_node i H. unfold items_of in H. apply in_flat_map in H.
  destruct H as [[k op] [Hk H]]. cbn [fst snd] in H.
  destruct (find (fun ns => N.eqb (n_name (fst ns)) k) nodes) as [[n os]|] eqn:E; [|contradiction].
  destruct H as [<-|[]]. apply find_some_name in E. destruct E as [En Ein].
  unfold ni_name; cbn. rewrite En. split; assumption.
Qed.

Lemma items_of_NoDup : forall nodes by_node,
  NoDup (map fst by_node) -> NoDup (map ni_name (items_of nodes by_node)).
Proof.
  intros nodes by_node; induction by_node as [|[k op] r IH]; intros H; [constructor|].
  simpl in H. inversion H; subst. unfold items_of; simpl. fold (items_of nodes r).
  destruct (find (fun ns => N.eqb (n_name (fst ns)) k) nodes) as [[n os]|] eqn:E; simpl; [|auto].
  apply find_some_name in E. destruct E as [En _].
  constructor; [|auto]. unfold ni_name at 1; cbn. rewrite En.
  intros Hin. apply in_map_iff in Hin. destruct Hin as [i [Hi Hin]].
  apply items_of_names in Hin. destruct Hin as [Hin _].
  apply H2. rewrite <- Hi. change (ni_name i) with (fst (ni_name i, ni_pod i)). apply in_map. assumption.
Qed.

Lemma filter_and_map_keys : forall rs nodes pods ignore now bo,
  map fst (fo_by_node (filter_and_map rs nodes pods ignore now bo)) = dedupN (eligible_nodes rs nodes ignore).
Proof.
  intros. unfold filter_and_map; cbn [fo_by_node]. rewrite map_map. cbn [fst]. apply map_id.
Qed.

Theorem ctx_items_NoDup : forall sn e freq cx, build_ctx sn e freq = Ok cx ->
  NoDup (map ni_name (cx_items cx)).
Proof.
  intros sn e freq cx H. apply build_ctx_fields in H.
  destruct H as [_ [_ [_ [_ [_ [_ [_ [Hfo Hit]]]]]]]]. rewrite Hit. apply items_of_NoDup.
  rewrite Hfo, filter_and_map_keys. apply dedupN_NoDup.
Qed.

Lemma planning_items_NoDup : forall cx, NoDup (map ni_name (cx_items cx)) ->
  NoDup (map ni_name (planning_items cx)).
Proof. intros cx H. unfold planning_items, remove_names. apply NoDup_map_filter. assumption. Qed.

(** ** The strategy: only the active role yields a rolling plan *)
Lemma strategy_rolling : forall sn ch cx so rp,
  strategy_of sn ch cx = Ok so -> so_rolling so = Some rp ->
  cx_role cx = RoleActive /\
  rolling_plan_of (sn_rs sn) (e_annots (cx_eds cx)) (st_rolling (e_strategy (cx_eds cx))) (sn_now sn)
                  (planning_items cx) = Ok rp /\
  so_create_nodes so = ch_creates ch /\ so_cleanup so = cx_cleanup cx.
Proof.
  intros sn ch cx so rp H Hr. unfold strategy_of in H. destruct (cx_role cx) eqn:Er.
  - unfold strategy_active in H.
    destruct (rolling_plan_of _ _ _ _ _) as [pl|c|c] eqn:Ep; try discriminate.
    + destruct (rolling_status_counts pl) as [[[[d cur] rdy] av] ign].
      inversion H; subst; clear H. cbn in Hr. inversion Hr; subst. repeat split; auto.
    + inversion H; subst. discriminate.
  - unfold strategy_canary in H. apply bind_ok in H. destruct H as [cp [_ H]].
    destruct (patch_upto _ _) as [adds add_failed]. inversion H; subst. discriminate.
  - unfold strategy_unknown in H. inversion H; subst. discriminate.
Qed.

(** ** The tail *)
Definition del_delayed_of (sn : ers_snapshot) (cx : sync_ctx) (so : strat_out) : bool :=
  let st0 := match so_status so with Some s => s | None => r_status (sn_rs sn) end in
  let c_uns := update_cond (rs_conds st0) (sn_now sn) CT_Unschedule
                 (match so_unscheduled so with [] => CFalse | _ => CTrue end) no_name
                 (match so_unscheduled so with [] => M_EMPTY | _ => M_OTHER end) false false in
  match get_cond c_uns CT_PodDeletion with
  | Some c => tsub (sn_now sn) (c_update c) <? cx_freq cx
  | None => false
  end.

Lemma finish_sync_fields : forall sn cx so pl, finish_sync sn cx so = Ok pl ->
  pl_role pl = cx_role cx /\ pl_rolling pl = so_rolling so /\ pl_cleanup pl = so_cleanup so /\
  pl_label_add pl = so_label_add so /\ pl_label_del pl = so_label_del so /\
  pl_update_nodes pl = (if del_delayed_of sn cx so then [] else so_delete_nodes so) /\
  pl_deletes pl = flat_map (pod_of_node (cx_items cx)) (pl_update_nodes pl) /\
  (pl_creates pl = [] \/ pl_creates pl = so_create_nodes so) /\
  (forall rp, so_rolling so = Some rp ->
     (pl_update_nodes pl = [] \/ admissible_deletes rp (pl_update_nodes pl) = true) /\
     (pl_creates pl = [] \/ admissible_creates rp (pl_creates pl) = true)).
Proof.
  intros sn cx so pl H. unfold finish_sync in H. fold (del_delayed_of sn cx so) in H.
  set (dd := del_delayed_of sn cx so) in *.
  match type of H with (if ?c then _ else _) = _ => destruct c eqn:Eadm; [|discriminate] end.
  inversion H; subst pl; clear H. cbn.
  repeat split; auto.
  - match goal with |- context [if ?c then [] else so_create_nodes so] => destruct c; auto end.
  - rewrite H in Eadm. apply andb_true_iff in Eadm. destruct Eadm as [E _].
    destruct dd; [left; reflexivity|]. right. exact E.
  - rewrite H in Eadm. apply andb_true_iff in Eadm. destruct Eadm as [_ E].
    match goal with |- context [if ?c then [] else so_create_nodes so] => destruct c; [left; reflexivity|] end.
    right. exact E.
Qed.

(** ** Empty choices satisfy every budget monitor *)
Lemma mon_budget_nil : forall rp, mon_budget rp [] = true.
Proof. intros; unfold mon_budget, avail_chosen, count_if; simpl. apply Z.leb_le. lia. Qed.
Lemma mon_unavailable_first_nil : forall rp, mon_unavailable_first rp [] = true.
Proof. intros; unfold mon_unavailable_first, avail_chosen, count_if; simpl. reflexivity. Qed.
Lemma mon_cap_nil : forall rp, mon_cap rp [] = true.
Proof. intros; unfold mon_cap, zlen; simpl. apply Z.leb_le. lia. Qed.
Lemma mon_create_cap_nil : forall rp, mon_create_cap rp [] = true.
Proof.
  intros; unfold mon_create_cap, zlen; simpl. apply andb_true_iff; split; apply Z.leb_le; lia.
Qed.

(** ** A successful sync of the active role: the rolling plan is well formed and the choices made
    by the runtime are admissible (or empty). *)
Theorem sync_rolling : forall sn ch pl rp,
  ers_sync sn ch = Ok pl -> pl_rolling pl = Some rp ->
  pl_role pl = RoleActive /\ plan_wf rp /\
  (pl_update_nodes pl = [] \/ admissible_deletes rp (pl_update_nodes pl) = true) /\
  (pl_creates pl = [] \/ admissible_creates rp (pl_creates pl) = true).
Proof.
  intros sn ch pl rp H Hr. apply ers_sync_inv in H. destruct H as [rl st after err Hp | e freq cx so He Hd Hf Hg Hc Hs Hfin].
  - subst pl. discriminate.
  - pose proof (finish_sync_fields _ _ _ _ Hfin) as F.
    destruct F as [Frole [Froll [_ [_ [_ [_ [_ [_ Fadm]]]]]]]].
    rewrite Froll in Hr. destruct (strategy_rolling _ _ _ _ _ Hs Hr) as [Hact [Hplan _]].
    split; [congruence|]. split.
    + eapply rolling_plan_wf; [|exact Hplan]. apply planning_items_NoDup. eapply ctx_items_NoDup; eassumption.
    + apply Fadm; assumption.
Qed.
