(** * C17Proofs: no error of a parallel pod operation is lost. *)
From Coq Require Import List Arith Bool Lia Permutation ZArith NArith.
From EDS Require Import Model.Fanin.
Import ListNotations.

Lemma mem_In : forall i l, mem i l = true <-> In i l.
Proof.
  intros i l; unfold mem; rewrite existsb_exists; split.
  - intros [j [Hj He]]. apply Nat.eqb_eq in He. subst; assumption.
  - intros H; exists i; split; [assumption | apply Nat.eqb_refl].
Qed.

(** ** atomic collection: for EVERY number of workers, failure vector and schedule *)
Record ainv (fails : list nat) (s : fstate) : Prop := {
  ai_nodup : NoDup (f_done s);
  ai_perm : Permutation (f_shared s) (f_done s);
  ai_incl : incl (f_done s) fails
}.

Lemma astep_inv : forall fails s i, ainv fails s -> ainv fails (fstep Atomic fails s i) /\
  incl (f_done s) (f_done (fstep Atomic fails s i)) /\
  (In i fails -> In i (f_done (fstep Atomic fails s i))).
Proof.
  intros fails s i [Hn Hp Hi]. unfold fstep.
  destruct (mem i fails) eqn:Ef; cbn [negb orb].
  - destruct (mem i (f_done s)) eqn:Ed.
    + split; [constructor; assumption|]. split; [apply incl_refl|]. intros _. apply mem_In; assumption.
    + cbn. split; [|split; [apply incl_tl, incl_refl | intros _; left; reflexivity]].
      constructor; cbn.
      * constructor; [|assumption]. intros Hin. apply mem_In in Hin. congruence.
      * apply Permutation_trans with (i :: f_shared s); [apply Permutation_sym, Permutation_cons_append|].
        apply perm_skip. assumption.
      * intros x [<-|Hx]; [apply mem_In; assumption | apply Hi; assumption].
  - split; [constructor; assumption|]. split; [apply incl_refl|]. intros Hin. apply mem_In in Hin. congruence.
Qed.

Lemma arun_inv : forall fails sched s, ainv fails s ->
  ainv fails (frun Atomic fails sched s) /\ incl (f_done s) (f_done (frun Atomic fails sched s)) /\
  (forall i, In i sched -> In i fails -> In i (f_done (frun Atomic fails sched s))).
Proof.
  intros fails sched; induction sched as [|i r IH]; intros s Hs; simpl.
  - split; [assumption|]. split; [apply incl_refl|]. intros i [].
  - destruct (astep_inv fails s i Hs) as [H1 [H2 H3]]. destruct (IH _ H1) as [A [B C]].
    split; [assumption|]. split; [eapply incl_tran; eassumption|].
    intros j [<-|Hj] Hf; [apply B, H3; assumption | apply C; assumption].
Qed.

Theorem atomic_no_loss : forall fails sched,
  NoDup fails -> (forall i, In i fails -> In i sched) ->
  Permutation (f_shared (frun Atomic fails sched f_init)) fails.
Proof.
  intros fails sched Hnd Hall.
  assert (Hi : ainv fails f_init) by (constructor; cbn; [constructor | constructor | intros x []]).
  destruct (arun_inv fails sched f_init Hi) as [[Hn Hp Hincl] [_ Hc]].
  apply Permutation_trans with (f_done (frun Atomic fails sched f_init)); [assumption|].
  apply NoDup_Permutation; try assumption.
  intros x; split; [apply Hincl | intros Hx; apply Hc; [apply Hall|]; assumption].
Qed.

Corollary atomic_count : forall fails sched,
  NoDup fails -> (forall i, In i fails -> In i sched) ->
  length (f_shared (frun Atomic fails sched f_init)) = length fails.
Proof. intros. apply Permutation_length, atomic_no_loss; assumption. Qed.

(** ** unsynchronised append: some complete schedule loses an error (the lost update the race detector
    reports on [deletePodSlice] of the pinned tree) *)
Theorem unsync_loses :
  exists fails sched, NoDup fails /\ complete Unsync fails sched = true /\
    length (f_shared (frun Unsync fails sched f_init)) < length fails.
Proof.
  exists [1; 2], [1; 2; 1; 2]. split; [repeat constructor; simpl; intuition discriminate|].
  split; [reflexivity | vm_compute; lia].
Qed.

(** and a sequential schedule (no interleaving between a load and its store) loses nothing *)
Example unsync_sequential_ok : f_shared (frun Unsync [1; 2; 3] [1; 1; 2; 2; 3; 3] f_init) = [1; 2; 3].
Proof. reflexivity. Qed.

(** ** the sync reflects every failed parallel operation *)
From EDS Require Import Model.Objects Model.Fitness Model.PodSpec Model.Backoff Model.Filter Model.Default
     Model.Limits Model.Rolling Model.Canary Model.ErsReconcile Proofs.Lists Proofs.CondProofs Proofs.SyncInv.
Open Scope Z_scope.

Lemma failed_of_nonempty : forall targets fails x, In x targets -> In x fails -> failed_of targets fails <> [].
Proof.
  intros targets fails x Ht Hf H. unfold failed_of in H.
  assert (In x (filter (fun y => memN y fails) targets)) by (apply filter_In; split; [assumption | apply memN_In; assumption]).
  rewrite H in H0. contradiction.
Qed.

(** Every rejected pod creation or update-deletion of the sync is reflected in the error the sync returns
    and in the ReconcileError condition of the status it writes. *)
Theorem failed_operation_reflected : forall sn cx so pl st,
  finish_sync sn cx so = Ok pl -> pl_status pl = Some st ->
  ((exists nn, In nn (pl_creates pl) /\ In nn (f_create (sn_faults sn))) \/
   (exists pn, In pn (pl_deletes pl) /\ In pn (f_delete (sn_faults sn))) \/ so_err so = true) ->
  pl_error pl = true /\ is_cond_true (rs_conds st) CT_ReconcileError = true.
Proof.
  intros sn cx so pl st H Hst Hfail. unfold finish_sync in H.
  match type of H with (if ?c then _ else _) = _ => destruct c; [|discriminate] end.
  injection H as <-. cbn [pl_error pl_status pl_creates pl_deletes] in *. injection Hst as <-.
  match goal with |- (?e || _ = true) /\ _ => assert (He : e = true) end.
  { destruct Hfail as [[nn [Hc Hf]] | [[pn [Hd Hf]] | Hs]].
    - apply orb_true_iff; right. apply negb_true_iff. apply Nat.eqb_neq. intros Hl.
      apply (failed_of_nonempty _ _ _ Hc Hf). apply length_zero_iff_nil. exact Hl.
    - apply orb_true_iff; left. apply orb_true_iff; right. apply negb_true_iff. apply Nat.eqb_neq. intros Hl.
      apply (failed_of_nonempty _ _ _ Hd Hf). apply length_zero_iff_nil. exact Hl.
    - rewrite Hs. reflexivity. }
  split; [rewrite He; reflexivity|].
  cbn [with_conds rs_conds]. rewrite is_cond_true_update_other by discriminate.
  rewrite is_cond_true_update_same. rewrite He. reflexivity.
Qed.

(** a failed clean-up deletion leaves PodsCleanupDone not true (False when the condition exists), and the
    strategies return an error for it ([so_err], hence reflected as above) *)
Theorem cleanup_failure_reflected : forall cs now ps fl pn,
  In pn (cleanup_targets ps) -> In pn (f_delete fl) ->
  is_cond_true (cleanup_conds cs now ps fl) CT_PodsCleanupDone = false.
Proof.
  intros cs now ps fl pn Ht Hf. unfold cleanup_conds. destruct ps as [|p r]; [contradiction|].
  pose proof (failed_of_nonempty _ _ _ Ht Hf) as Hne.
  destruct (failed_of (cleanup_targets (p :: r)) (f_delete fl)) eqn:E; [contradiction|].
  rewrite is_cond_true_update_same. reflexivity.
Qed.

Theorem cleanup_success_reflected : forall cs now ps fl,
  ps <> [] -> failed_of (cleanup_targets ps) (f_delete fl) = [] ->
  is_cond_true (cleanup_conds cs now ps fl) CT_PodsCleanupDone = true.
Proof.
  intros cs now ps fl Hne Hf. unfold cleanup_conds. destruct ps as [|p r]; [contradiction|].
  rewrite Hf. rewrite is_cond_true_update_same. reflexivity.
Qed.
