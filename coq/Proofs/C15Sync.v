(** * C15Sync: status.canary.nodes as written by a whole ExtendedDaemonSet reconcile. *)
From Coq Require Import List ZArith NArith Bool Lia.
From EDS Require Import Model.Objects Model.Fitness Model.PodSpec Model.Default Model.Canary Model.EdsLogic
     Model.EdsReconcile Proofs.Lists Proofs.EdsInv Proofs.C15Proofs.
Import ListNotations.
Open Scope Z_scope.

Definition status_canary_nodes (st : eds_status) : list name :=
  match es_canary st with Some c => cs_nodes c | None => [] end.

Lemma manage_status_canary : forall st ann u active failed paused reason,
  es_canary (manage_status st ann u active failed paused reason) =
  if failed then None
  else if active then Some (MkCanaryStatus (r_name u) (status_canary_nodes st))
  else None.
Proof. intros. unfold manage_status, status_canary_nodes. destruct failed, active; reflexivity. Qed.

(** Where the written list comes from: either the list read, unchanged, or a fresh [select_nodes]
    over the nodes matching the canary node selector, for the resolved number of replicas. *)
Theorem sync_canary_nodes : forall sn pl st' c',
  eds_sync sn = Ok pl -> In st' (statuses_of (ep_writes pl)) -> es_canary st' = Some c' ->
  exists e, es_obj sn = Some e /\
  ((st_canary (e_strategy e) = None /\ es_canary (e_status e) = Some c') \/
   exists uptodate cspec,
    st_canary (e_strategy e) = Some cspec /\ cs_rs c' = r_name uptodate /\
    last_such (rs_up_to_date e) (rs_of_eds e (es_rss sn)) = Some uptodate /\
    canary_failed_rs (r_status uptodate) = false /\
    let prev := status_canary_nodes (e_status e) in
    exists rep nb, ca_replicas cspec = Some rep /\ resolve_iop rep (es_desired (e_status e)) = Some nb /\
      ((nb = zlen prev /\ cs_nodes c' = prev) \/
       (nb <> zlen prev /\
        select_nodes (r_tmpl uptodate) (ca_antiaffinity cspec) nb (canary_candidate_nodes sn cspec)
                     (eds_pods sn e) prev = (cs_nodes c', true)))).
Proof.
  intros sn pl st' c' H Hin Hc.
  destruct (written_status_is_result _ _ _ H Hin) as [e [uptodate [current [rq [Ho [Hd [Hu [Hs [h [ann' [ws Hres]]]]]]]]]]].
  inversion Hres as [Hnc | cspec st'' ann'' ws' Hcs pr failed active st1 st2 st3 Hact Hinact]; subst.
  - (* no canary strategy: the base status carries the canary block of the status read, unchanged *)
    exists e. split; [assumption|]. left. split; [assumption|]. unfold base_status in Hc. cbn in Hc. exact Hc.
  - exists e. split; [assumption|]. right. exists uptodate, cspec.
    case_eq active; intros Ea.
    + destruct (Hact Ea) as [_ [_ [rep [nb [Hr [Hn Hcases]]]]]].
      assert (Hf : failed = false).
      { unfold active in Ea. destruct failed; [discriminate | reflexivity]. }
      assert (Hst3 : es_canary st3 = Some (MkCanaryStatus (r_name uptodate) (status_canary_nodes (e_status e)))).
      { unfold st3. rewrite manage_status_canary. rewrite Hf, Ea. reflexivity. }
      assert (Hprev : match es_canary st3 with Some cs => cs_nodes cs | None => [] end = status_canary_nodes (e_status e)).
      { rewrite Hst3. reflexivity. }
      rewrite Hprev in Hcases.
      repeat split; auto.
      * destruct Hcases as [[_ ->] | [_ [sel [_ ->]]]]; [rewrite Hst3 in Hc | unfold with_canary_nodes in Hc; cbn in Hc; rewrite Hst3 in Hc];
          inversion Hc; reflexivity.
      * exists rep, nb. repeat split; auto.
        destruct Hcases as [[Hnb ->] | [Hnb [sel [Hsel ->]]]].
        -- left. split; [assumption|]. rewrite Hst3 in Hc. inversion Hc; reflexivity.
        -- right. split; [assumption|]. unfold with_canary_nodes in Hc; cbn in Hc; rewrite Hst3 in Hc.
           inversion Hc; subst; cbn. exact Hsel.
    + exfalso. destruct (Hinact Ea) as [-> _]. unfold st3 in Hc. rewrite manage_status_canary in Hc.
      rewrite Ea in Hc. destruct failed; discriminate.
Qed.

(** ** corollaries: the list written by a reconcile *)
Definition valid_canary_node (sn : eds_snapshot) (cspec : canary_spec) (u : ers) (nn : name) : Prop :=
  valid_node (r_tmpl u) (canary_candidate_nodes sn cspec) nn.

Theorem sync_nodes_nodup : forall sn pl st' c',
  eds_sync sn = Ok pl -> In st' (statuses_of (ep_writes pl)) -> es_canary st' = Some c' ->
  (forall e, es_obj sn = Some e -> NoDup (status_canary_nodes (e_status e))) ->
  NoDup (cs_nodes c').
Proof.
  intros sn pl st' c' H Hin Hc Hnd.
  destruct (sync_canary_nodes _ _ _ _ H Hin Hc) as [e [Ho [[_ Hsame] | [u [cspec [_ [_ [_ [_ [rep [nb [_ [_ Hcases]]]]]]]]]]]]].
  - specialize (Hnd e Ho). unfold status_canary_nodes in Hnd. rewrite Hsame in Hnd. exact Hnd.
  - destruct Hcases as [[_ ->] | [_ Hsel]]; [apply Hnd; assumption|].
    replace (cs_nodes c') with (fst (select_nodes (r_tmpl u) (ca_antiaffinity cspec) nb (canary_candidate_nodes sn cspec)
                                                  (eds_pods sn e) (status_canary_nodes (e_status e)))) by (rewrite Hsel; reflexivity).
    apply select_nodup. apply Hnd; assumption.
Qed.

(** whenever the reconcile changes the list, every name on the new list is a node that exists, matches
    the canary node selector and is fit for the pod; and the new list is as long as requested *)
Theorem sync_nodes_valid_at_selection : forall sn pl st' c',
  eds_sync sn = Ok pl -> In st' (statuses_of (ep_writes pl)) -> es_canary st' = Some c' ->
  (forall e, es_obj sn = Some e -> NoDup (status_canary_nodes (e_status e))) ->
  forall e, es_obj sn = Some e -> cs_nodes c' <> status_canary_nodes (e_status e) ->
  exists u cspec rep nb,
    st_canary (e_strategy e) = Some cspec /\ cs_rs c' = r_name u /\
    ca_replicas cspec = Some rep /\ resolve_iop rep (es_desired (e_status e)) = Some nb /\
    (forall nn, In nn (cs_nodes c') -> valid_canary_node sn cspec u nn) /\
    nb <= zlen (cs_nodes c') /\
    (zlen (cs_nodes c') <= nb \/ incl (cs_nodes c') (status_canary_nodes (e_status e))).
Proof.
  intros sn pl st' c' H Hin Hc Hnd e Ho Hchg.
  destruct (sync_canary_nodes _ _ _ _ H Hin Hc) as [e' [Ho' [[_ Hsame] | [u [cspec [Hcs [Hrs [_ [_ [rep [nb [Hr [Hn Hcases]]]]]]]]]]]]];
    rewrite Ho in Ho'; inversion Ho'; subst e'.
  - exfalso. apply Hchg. unfold status_canary_nodes. rewrite Hsame. reflexivity.
  - destruct Hcases as [[_ Heq] | [_ Hsel]]; [contradiction|].
    specialize (Hnd e Ho).
    set (prev := status_canary_nodes (e_status e)) in *.
    assert (Hf : cs_nodes c' = fst (select_nodes (r_tmpl u) (ca_antiaffinity cspec) nb (canary_candidate_nodes sn cspec)
                                                 (eds_pods sn e) prev)) by (rewrite Hsel; reflexivity).
    exists u, cspec, rep, nb. repeat split; auto.
    + intros nn Hnn. rewrite Hf in Hnn. eapply select_all_valid; eassumption.
    + assert (Hs : snd (select_nodes (r_tmpl u) (ca_antiaffinity cspec) nb (canary_candidate_nodes sn cspec) (eds_pods sn e) prev) = true)
        by (rewrite Hsel; reflexivity).
      destruct (Z_lt_le_dec (zlen (cs_nodes c')) nb) as [Hlt|Hge]; [|assumption].
      exfalso. rewrite Hf in Hlt. apply select_short_iff in Hlt. congruence.
    + rewrite Hf.
      match goal with |- context [select_nodes ?t ?k ?n ?ns ?ps ?pv] =>
        destruct (select_no_overshoot t k n ns ps pv Hnd) as [_ [Hlt _]];
        pose proof (select_adds_only_below t k n ns ps pv) as Hge end.
      match type of Hge with ?z >= nb -> _ => destruct (Z_lt_le_dec z nb) as [Hl|Hl] end.
      * left. apply Hlt. exact Hl.
      * right. apply Hge. lia.
Qed.
