(** * C15Sync: status.canary.nodes as written by a whole ExtendedDaemonSet reconcile. *)
From Coq Require Import List ZArith NArith Bool Lia.
From EDS Require Import Model.Objects Model.Fitness Model.PodSpec Model.Default Model.Canary Model.EdsLogic
     Model.EdsReconcile Proofs.Lists Proofs.EdsInv Proofs.C15Proofs.
Import ListNotations.
Open Scope Z_scope.

Definition status_canary_nodes (st : eds_status) : list name :=
  match es_canary st with Some c => cs_nodes c | None => [] end.

Lemma manage_status_canary : forall st ann u active failed paused reason,
  es_canary (manage_status st ann u active failed paused reason) =
  if failed then None
  else if active then Some (MkCanaryStatus (r_name u) (status_canary_nodes st))
  else None.
Proof. intros. unfold manage_status, status_canary_nodes. destruct failed, active; reflexivity. Qed.

(** a selection that comes up short is reported: the reconcile plans its writes AND returns an error *)
Lemma short_selection_error : forall sn pl e uptodate current rq cspec rep nb,
  eds_sync sn = Ok pl -> es_obj sn = Some e -> is_defaulted e = true ->
  last_such (rs_up_to_date e) (rs_of_eds e (es_rss sn)) = Some uptodate ->
  select_current (e_annots e) (st_canary (e_strategy e))
                 (last_such (fun r => N.eqb (r_name r) (es_active (e_status e))) (rs_of_eds e (es_rss sn)))
                 uptodate (es_now sn) = (current, rq) ->
  st_canary (e_strategy e) = Some cspec ->
  canary_failed_rs (r_status uptodate) = false -> N.eqb (r_name current) (r_name uptodate) = false ->
  ca_replicas cspec = Some rep -> resolve_iop rep (es_desired (e_status e)) = Some nb ->
  nb <> zlen (status_canary_nodes (e_status e)) ->
  snd (select_or_fail sn (r_tmpl uptodate) (ca_antiaffinity cspec) nb (canary_candidate_nodes sn cspec)
                      (eds_pods sn e) (status_canary_nodes (e_status e))) = false ->
  ep_error pl = true.
Proof.
  intros sn pl e uptodate current rq cspec rep nb H Ho Hd Hu Hs Hcs Hf Hne Hr Hn Hnb Hshort.
  unfold eds_sync in H. rewrite Ho, Hd in H. cbn [negb] in H.
  destruct (validate (e_strategy e)) as [[]|k|k]; try discriminate.
  destruct (es_fail_list_rs sn); [discriminate|].
  rewrite Hu, Hs in H.
  match type of H with (if ?b then _ else _) = _ => destruct b end; [inversion H; reflexivity|].
  match type of H with match ?u with _ => _ end = _ => destruct u as [upl|k|k] eqn:Eui end; try discriminate.
  inversion H; subst pl; cbn [ep_error]. clear H.
  unfold update_instance in Eui. rewrite Hcs in Eui.
  destruct (canary_paused (e_annots e) (Some (r_status uptodate))) as [paused reason].
  rewrite Hf, Hne in Eui. cbn [orb negb] in Eui. rewrite Hr, Hn in Eui.
  rewrite manage_status_canary in Eui. cbn [es_canary cs_nodes] in Eui.
  assert (Eprev : status_canary_nodes (with_eds_conds (base_status e current
             (fold_left (fun acc r => acc + rs_current (r_status r)) (rs_of_eds e (es_rss sn)) 0)
             (fold_left (fun acc r => acc + rs_ready (r_status r)) (rs_of_eds e (es_rss sn)) 0)
             (fold_left (fun acc r => acc + rs_available (r_status r)) (rs_of_eds e (es_rss sn)) 0))
             (canary_conditions (es_conds (base_status e current
             (fold_left (fun acc r => acc + rs_current (r_status r)) (rs_of_eds e (es_rss sn)) 0)
             (fold_left (fun acc r => acc + rs_ready (r_status r)) (rs_of_eds e (es_rss sn)) 0)
             (fold_left (fun acc r => acc + rs_available (r_status r)) (rs_of_eds e (es_rss sn)) 0))) (es_now sn) false paused reason))
           = status_canary_nodes (e_status e)) by reflexivity.
  rewrite Eprev in Eui.
  apply Z.eqb_neq in Hnb. rewrite Hnb in Eui.
  destruct (select_or_fail _ _ _ _ _ _ _) as [sel enough]. cbn [snd] in Hshort. subst enough.
  unfold with_error in Eui.
  match type of Eui with match ?f with _ => _ end = _ => destruct f end; try discriminate.
  inversion Eui. reflexivity.
Qed.

(** Where the written list comes from: either the list read, unchanged, or a fresh [select_nodes]
    over the nodes matching the canary node selector, for the resolved number of replicas. *)
Theorem sync_canary_nodes : forall sn pl st' c',
  eds_sync sn = Ok pl -> In st' (statuses_of (ep_writes pl)) -> es_canary st' = Some c' ->
  exists e, es_obj sn = Some e /\
  ((st_canary (e_strategy e) = None /\ es_canary (e_status e) = Some c') \/
   exists uptodate cspec,
    st_canary (e_strategy e) = Some cspec /\ cs_rs c' = r_name uptodate /\
    last_such (rs_up_to_date e) (rs_of_eds e (es_rss sn)) = Some uptodate /\
    canary_failed_rs (r_status uptodate) = false /\
    let prev := status_canary_nodes (e_status e) in
    exists rep nb, ca_replicas cspec = Some rep /\ resolve_iop rep (es_desired (e_status e)) = Some nb /\
      ((nb = zlen prev /\ cs_nodes c' = prev) \/
       (nb <> zlen prev /\
        exists enough,
        select_or_fail sn (r_tmpl uptodate) (ca_antiaffinity cspec) nb (canary_candidate_nodes sn cspec)
                       (eds_pods sn e) prev = (cs_nodes c', enough) /\ (enough = false -> ep_error pl = true)))).
Proof.
  intros sn pl st' c' H Hin Hc.
  destruct (written_status_is_result _ _ _ H Hin) as [e [uptodate [current [rq [Ho [Hd [Hu [Hs [h [ann' [ws Hres]]]]]]]]]]].
  inversion Hres as [Hnc | cspec st'' ann'' ws' Hcs pr failed active st1 st2 st3 Hact Hinact]; subst.
  - (* no canary strategy: the base status carries the canary block of the status read, unchanged *)
    exists e. split; [assumption|]. left. split; [assumption|]. unfold base_status in Hc. cbn in Hc. exact Hc.
  - exists e. split; [assumption|]. right. exists uptodate, cspec.
    case_eq active; intros Ea.
    + destruct (Hact Ea) as [_ [_ [rep [nb [Hr [Hn Hcases]]]]]].
      assert (Hf : failed = false).
      { unfold active in Ea. destruct failed; [discriminate | reflexivity]. }
      assert (Hst3 : es_canary st3 = Some (MkCanaryStatus (r_name uptodate) (status_canary_nodes (e_status e)))).
      { unfold st3. rewrite manage_status_canary. rewrite Hf, Ea. reflexivity. }
      assert (Hprev : match es_canary st3 with Some cs => cs_nodes cs | None => [] end = status_canary_nodes (e_status e)).
      { rewrite Hst3. reflexivity. }
      rewrite Hprev in Hcases.
      repeat split; auto.
      * destruct Hcases as [[_ ->] | [_ [sel [en [_ ->]]]]]; [rewrite Hst3 in Hc | unfold with_canary_nodes in Hc; cbn in Hc; rewrite Hst3 in Hc];
          inversion Hc; reflexivity.
      * exists rep, nb. repeat split; auto.
        destruct Hcases as [[Hnb ->] | [Hnb [sel [en [Hsel ->]]]]].
        -- left. split; [assumption|]. rewrite Hst3 in Hc. inversion Hc; reflexivity.
        -- right. split; [assumption|]. unfold with_canary_nodes in Hc; cbn in Hc; rewrite Hst3 in Hc.
           inversion Hc; subst; cbn. exists en. split; [exact Hsel|]. intros ->.
           assert (Hne : N.eqb (r_name current) (r_name uptodate) = false).
           { unfold active in Ea. rewrite Hf in Ea. cbn [orb] in Ea. apply negb_true_iff in Ea. exact Ea. }
           eapply short_selection_error with (e := e) (uptodate := uptodate) (current := current); try eassumption.
           rewrite Hsel. reflexivity.
    + exfalso. destruct (Hinact Ea) as [-> _]. unfold st3 in Hc. rewrite manage_status_canary in Hc.
      rewrite Ea in Hc. destruct failed; discriminate.
Qed.

(** ** corollaries: the list written by a reconcile *)
Definition valid_canary_node (sn : eds_snapshot) (cspec : canary_spec) (u : ers) (nn : name) : Prop :=
  valid_node (r_tmpl u) (canary_candidate_nodes sn cspec) nn.

Theorem sync_nodes_nodup : forall sn pl st' c',
  eds_sync sn = Ok pl -> In st' (statuses_of (ep_writes pl)) -> es_canary st' = Some c' ->
  (forall e, es_obj sn = Some e -> NoDup (status_canary_nodes (e_status e))) ->
  NoDup (cs_nodes c').
Proof.
  intros sn pl st' c' H Hin Hc Hnd.
  destruct (sync_canary_nodes _ _ _ _ H Hin Hc) as [e [Ho [[_ Hsame] | [u [cspec [_ [_ [_ [_ [rep [nb [_ [_ Hcases]]]]]]]]]]]]].
  - specialize (Hnd e Ho). unfold status_canary_nodes in Hnd. rewrite Hsame in Hnd. exact Hnd.
  - destruct Hcases as [[_ ->] | [_ [en [Hsel _]]]]; [apply Hnd; assumption|].
    unfold select_or_fail in Hsel. destruct (es_fail_list_cluster sn).
    + injection Hsel as <- _. apply Hnd; assumption.
    + replace (cs_nodes c') with (fst (select_nodes (r_tmpl u) (ca_antiaffinity cspec) nb (canary_candidate_nodes sn cspec)
                                                    (eds_pods sn e) (status_canary_nodes (e_status e)))) by (rewrite Hsel; reflexivity).
      apply select_nodup. apply Hnd; assumption.
Qed.

(** whenever the reconcile changes the list, every name on the new list is a node that exists, matches
    the canary node selector and is fit for the pod; and the new list is as long as requested *)
Theorem sync_nodes_valid_at_selection : forall sn pl st' c',
  eds_sync sn = Ok pl -> In st' (statuses_of (ep_writes pl)) -> es_canary st' = Some c' ->
  (forall e, es_obj sn = Some e -> NoDup (status_canary_nodes (e_status e))) ->
  forall e, es_obj sn = Some e -> cs_nodes c' <> status_canary_nodes (e_status e) ->
  exists u cspec rep nb,
    st_canary (e_strategy e) = Some cspec /\ cs_rs c' = r_name u /\
    ca_replicas cspec = Some rep /\ resolve_iop rep (es_desired (e_status e)) = Some nb /\
    (forall nn, In nn (cs_nodes c') -> valid_canary_node sn cspec u nn) /\
    (nb <= zlen (cs_nodes c') \/ ep_error pl = true) /\
    (zlen (cs_nodes c') <= nb \/ incl (cs_nodes c') (status_canary_nodes (e_status e))).
Proof.
  intros sn pl st' c' H Hin Hc Hnd e Ho Hchg.
  destruct (sync_canary_nodes _ _ _ _ H Hin Hc) as [e' [Ho' [[_ Hsame] | [u [cspec [Hcs [Hrs [_ [_ [rep [nb [Hr [Hn Hcases]]]]]]]]]]]]];
    rewrite Ho in Ho'; inversion Ho'; subst e'.
  - exfalso. apply Hchg. unfold status_canary_nodes. rewrite Hsame. reflexivity.
  - destruct Hcases as [[_ Heq] | [_ [en [Hsel Herr]]]]; [contradiction|].
    unfold select_or_fail in Hsel.
    destruct (es_fail_list_cluster sn); [injection Hsel as Hp _; exfalso; apply Hchg; symmetry; exact Hp|].
    specialize (Hnd e Ho).
    set (prev := status_canary_nodes (e_status e)) in *.
    assert (Hf : cs_nodes c' = fst (select_nodes (r_tmpl u) (ca_antiaffinity cspec) nb (canary_candidate_nodes sn cspec)
                                                 (eds_pods sn e) prev)) by (rewrite Hsel; reflexivity).
    exists u, cspec, rep, nb. repeat split; auto.
    + intros nn Hnn. rewrite Hf in Hnn. eapply select_all_valid; eassumption.
    + destruct en; [left | right; apply Herr; reflexivity].
      assert (Hs : snd (select_nodes (r_tmpl u) (ca_antiaffinity cspec) nb (canary_candidate_nodes sn cspec) (eds_pods sn e) prev) = true)
        by (rewrite Hsel; reflexivity).
      destruct (Z_lt_le_dec (zlen (cs_nodes c')) nb) as [Hlt|Hge]; [|assumption].
      exfalso. rewrite Hf in Hlt. apply select_short_iff in Hlt. congruence.
    + rewrite Hf.
      match goal with |- context [select_nodes ?t ?k ?n ?ns ?ps ?pv] =>
        destruct (select_no_overshoot t k n ns ps pv Hnd) as [_ [Hlt _]];
        pose proof (select_adds_only_below t k n ns ps pv) as Hge end.
      match type of Hge with ?z >= nb -> _ => destruct (Z_lt_le_dec z nb) as [Hl|Hl] end.
      * left. apply Hlt. exact Hl.
      * right. apply Hge. lia.
Qed.
