(** * C10Proofs: created pods are pinned, labelled and stable under the controller's comparison. *)
From Coq Require Import List ZArith NArith Bool Lia.
From EDS Require Import Model.Objects Model.Fitness Model.PodSpec Proofs.Lists.
Import ListNotations.
Open Scope Z_scope.

(** ** pinning *)
Theorem pinned_by_name : forall rs n os,
  np_nodename (create_pod rs (Some n) os false) = n_name n /\
  np_affinity (create_pod rs (Some n) os false) = t_affinity (r_tmpl rs).
Proof. intros; split; reflexivity. Qed.

Lemma pin_term_fields : forall nn t,
  In (name_field nn) (nt_fields (pin_term nn t)) /\
  (forall f, In f (nt_fields (pin_term nn t)) -> fq_is_name f = true -> f = name_field nn) /\
  nt_exprs (pin_term nn t) = nt_exprs t.
Proof.
  intros nn [es fs]. unfold pin_term; cbn [nt_fields nt_exprs]. destruct fs as [|f0 fr].
  - cbn. repeat split; auto. intros f [<-|[]] _; reflexivity.
  - destruct (existsb fq_is_name (f0 :: fr)) eqn:E; cbn [nt_fields nt_exprs].
    + repeat split; auto.
      * apply existsb_exists in E. destruct E as [f [Hf Hn]]. apply in_map_iff. exists f. rewrite Hn. auto.
      * intros f Hf Hn. apply in_map_iff in Hf. destruct Hf as [g [Hg _]]. destruct (fq_is_name g) eqn:Eg; [congruence|].
        subst f. congruence.
    + repeat split; auto.
      * apply in_or_app; right; left; reflexivity.
      * intros f Hf Hn. apply in_app_or in Hf. destruct Hf as [Hf|[<-|[]]]; [|reflexivity].
        exfalso. assert (existsb fq_is_name (f0 :: fr) = true) by (apply existsb_exists; eauto). congruence.
Qed.

(** affinity mode: every required term carries the name field of the node (replacing any earlier name
    field, keeping every expression), and reading the affinity back gives the node - provided the
    template's required affinity, if present, has at least one term (API validation) *)
Theorem pinned_by_affinity : forall rs n os,
  let np := create_pod rs (Some n) os true in
  np_nodename np = no_name /\
  exists ts, np_affinity np = Some ts /\
    (forall t, In t ts -> In (name_field (n_name n)) (nt_fields t) /\
                          forall f, In f (nt_fields t) -> fq_is_name f = true -> f = name_field (n_name n)) /\
    (t_affinity (r_tmpl rs) <> Some [] -> affinity_node_name (Some ts) = n_name n).
Proof.
  intros rs n os. cbn. split; [reflexivity|]. eexists. split; [reflexivity|]. split.
  - intros t Ht. unfold pin_affinity in Ht. destruct (t_affinity (r_tmpl rs)) as [ts0|].
    + apply in_map_iff in Ht. destruct Ht as [t0 [<- _]]. destruct (pin_term_fields (n_name n) t0) as [A [B _]]. auto.
    + destruct Ht as [<-|[]]. cbn. split; [left; reflexivity|]. intros f [<-|[]] _; reflexivity.
  - intros Hne. unfold affinity_node_name.
    set (ts := pin_affinity (t_affinity (r_tmpl rs)) (n_name n)).
    assert (Hall : forall f, In f (flat_map nt_fields ts) -> fq_is_name f = true -> f = name_field (n_name n)).
    { intros f Hf Hn. apply in_flat_map in Hf. destruct Hf as [t [Ht Hf]]. unfold ts, pin_affinity in Ht.
      destruct (t_affinity (r_tmpl rs)) as [ts0|].
      - apply in_map_iff in Ht. destruct Ht as [t0 [<- _]]. destruct (pin_term_fields (n_name n) t0) as [_ [B _]]. auto.
      - destruct Ht as [<-|[]]. destruct Hf as [<-|[]]. reflexivity. }
    assert (Hex : In (name_field (n_name n)) (flat_map nt_fields ts)).
    { unfold ts, pin_affinity. destruct (t_affinity (r_tmpl rs)) as [[|t0 tr]|]; [congruence| |].
      - cbn. apply in_or_app; left. destruct (pin_term_fields (n_name n) t0) as [A _]. exact A.
      - left; reflexivity. }
    destruct (find (fun f => fq_is_name f && negb (Nat.eqb (length (fq_values f)) 0)) (flat_map nt_fields ts)) as [f|] eqn:E.
    + apply find_some in E. destruct E as [Hin Hc]. apply andb_true_iff in Hc. destruct Hc as [Hn _].
      rewrite (Hall f Hin Hn). reflexivity.
    + exfalso. pose proof (find_none _ _ E _ Hex) as Hc. cbn in Hc. discriminate.
Qed.

(** ** identity, tolerations *)
Theorem created_pod_identity : forall rs on os mode,
  let np := create_pod rs on os mode in
  np_owner np = r_name rs /\ np_rs_label np = r_name rs /\ np_eds_label np = r_eds_label rs /\ np_ns np = r_ns rs /\
  np_hash np = r_tmplgen rs /\ np_autoscaler_annot np = true /\
  np_tolerations np = t_tolerations (r_tmpl rs) ++ std_tolerations /\
  np_setting_labels np = match os with Some s => Some (s_name s, s_ns s) | None => None end.
Proof. intros; cbn; repeat split. Qed.

(** ** resources: node-annotation override, else the attached setting, else the template *)
Theorem resources_resolution : forall n os c,
  container_resources (Some n) os c =
  match find (fun ko => N.eqb (fst ko) (fst c)) (n_overrides n) with
  | Some (_, OvOk r) => r
  | _ => match os with
         | Some s => match assoc_res (fst c) (s_containers s) with Some r => r | None => snd c end
         | None => snd c
         end
  end.
Proof.
  intros n os c. unfold container_resources.
  destruct (find (fun ko => N.eqb (fst ko) (fst c)) (n_overrides n)) as [[k [r|]]|]; reflexivity.
Qed.

(** ** round trip: a pod just created for given inputs is up to date for the same inputs *)
Lemma assocZ_self : forall l k v, NoDup (map fst l) -> In (k, v) l -> assocZ k l = Some v.
Proof.
  induction l as [|[k' v'] r IH]; intros k v Hnd Hin; [contradiction|]. simpl in *. inversion Hnd; subst.
  destruct Hin as [Heq|Hin].
  - inversion Heq; subst. rewrite N.eqb_refl. reflexivity.
  - destruct (N.eqb_spec k k') as [->|Hne]; [|apply IH; assumption].
    exfalso. apply H1. change k' with (fst (k', v)). apply in_map. assumption.
Qed.

Lemma demands_met_self : forall m, NoDup (map fst m) -> resmap_demands_met m m = true.
Proof.
  intros m Hnd. unfold resmap_demands_met. apply forallb_forall. intros [k v] Hin. cbn.
  rewrite (assocZ_self m k v Hnd Hin). apply Z.eqb_refl.
Qed.

Lemma assoc_res_filter : forall (p : name -> bool) k l, p k = true ->
  assoc_res k (filter (fun cr => p (fst cr)) l) = assoc_res k l.
Proof.
  intros p k l Hp; induction l as [|[k' v'] r IH]; [reflexivity|]. simpl.
  destruct (p k') eqn:E; simpl.
  - destruct (N.eqb k k'); [reflexivity | exact IH].
  - destruct (N.eqb_spec k k') as [->|Hne]; [congruence | exact IH].
Qed.

Definition setting_maps_wf (os : option setting) : Prop :=
  match os with
  | Some s => forall c r, In (c, r) (s_containers s) -> NoDup (map fst (res_limits r)) /\ NoDup (map fst (res_requests r))
  | None => True
  end.

Lemma assoc_res_in : forall k l r, assoc_res k l = Some r -> In (k, r) l.
Proof.
  intros k l; induction l as [|[k' v'] t IH]; intros r H; [discriminate|]. simpl in H.
  destruct (N.eqb_spec k k') as [->|Hne]; [inversion H; left; reflexivity | right; apply IH; assumption].
Qed.

Theorem roundtrip : forall rs n os mode nm created,
  setting_maps_wf os ->
  pod_up_to_date rs n os (pod_of_newpod (create_pod rs (Some n) os mode) nm created) = true.
Proof.
  intros rs n os mode nm created Hwf. unfold pod_up_to_date. rewrite !andb_true_iff. split; [split|].
  - unfold hash_matches, pod_of_newpod, create_pod; cbn. apply N.eqb_refl.
  - unfold setting_satisfied. destruct os as [s|]; [|reflexivity].
    apply forallb_forall. intros [cn cres] Hin.
    unfold pod_of_newpod, create_pod in Hin; cbn [p_resources np_resources] in Hin. apply in_map_iff in Hin. destruct Hin as [c [Hc Hin]].
    inversion Hc; subst cn cres; clear Hc. cbn [fst snd].
    unfold effective_setting_containers.
    destruct (has_override n (fst c)) eqn:Eo.
    + (* overridden by the node: no demand from the setting *)
      assert (Hnone : assoc_res (fst c) (filter (fun cr => negb (has_override n (fst cr))) (s_containers s)) = None).
      { clear -Eo. induction (s_containers s) as [|[k v] r IH]; [reflexivity|]. simpl.
        destruct (has_override n k) eqn:E; simpl; [exact IH|].
        destruct (N.eqb_spec (fst c) k) as [Heq|Hne]; [rewrite Heq in Eo; congruence | exact IH]. }
      rewrite Hnone. reflexivity.
    + rewrite (assoc_res_filter (fun k => negb (has_override n k)) (fst c) (s_containers s)) by (rewrite Eo; reflexivity).
      destruct (assoc_res (fst c) (s_containers s)) as [want|] eqn:Ea; [|reflexivity].
      (* no override: the pod got exactly the setting's entry *)
      assert (Hf : find (fun ko : N * override => N.eqb (fst ko) (fst c)) (n_overrides n) = None).
      { unfold has_override in Eo.
        destruct (find (fun ko : N * override => N.eqb (fst ko) (fst c)) (n_overrides n)) as [[k o]|] eqn:Ef; [|reflexivity].
        exfalso. apply find_some in Ef. destruct Ef as [Hin' He]. cbn in He.
        assert (existsb (fun ko : N * override => N.eqb (fst ko) (fst c)) (n_overrides n) = true) by (apply existsb_exists; eauto).
        congruence. }
      unfold container_resources; rewrite ?Ea; rewrite Hf. apply assoc_res_in in Ea. destruct (Hwf _ _ Ea) as [Hl Hr].
      rewrite !demands_met_self by assumption. reflexivity.
  - unfold nodehash_matches, pod_of_newpod, create_pod; cbn.
    destruct (N.eqb (n_nodehash n) no_name) eqn:E; cbn; [rewrite ?E; reflexivity | apply N.eqb_refl].
Qed.

(** ** sensitivity *)
Theorem outdated_on_template_change : forall rs n os p,
  p_hash p <> Some (r_tmplgen rs) -> pod_up_to_date rs n os p = false.
Proof.
  intros rs n os p H. unfold pod_up_to_date, hash_matches. destruct (p_hash p) as [h|]; [|reflexivity].
  destruct (N.eqb_spec h (r_tmplgen rs)) as [->|Hne]; [congruence | reflexivity].
Qed.

Theorem outdated_on_annotation_change : forall rs n os p,
  (match p_nodehash p with Some h => h | None => no_name end) <> n_nodehash n -> pod_up_to_date rs n os p = false.
Proof.
  intros rs n os p H. unfold pod_up_to_date, nodehash_matches.
  destruct (p_nodehash p) as [h|].
  - destruct (N.eqb_spec h (n_nodehash n)) as [->|Hne]; [congruence|]. rewrite !andb_false_r. reflexivity.
  - destruct (N.eqb_spec (n_nodehash n) no_name) as [He|Hne]; [congruence|]. rewrite !andb_false_r. reflexivity.
Qed.

Theorem outdated_on_setting_value : forall rs n s p c want k v have,
  In (c, have) (p_resources p) -> (forall c' r', In (c', r') (p_resources p) -> c' = c -> r' = have) ->
  has_override n c = false -> assoc_res c (s_containers s) = Some want ->
  In (k, v) (res_limits want) -> assocZ k (res_limits have) <> Some v ->
  pod_up_to_date rs n (Some s) p = false.
Proof.
  intros rs n s p c want k v have Hin Huniq Hno Hw Hk Hdiff. unfold pod_up_to_date.
  assert (Hs : setting_satisfied p n (Some s) = false).
  { unfold setting_satisfied. apply not_true_is_false. intros Hall. rewrite forallb_forall in Hall.
    specialize (Hall (c, have) Hin). cbn [fst snd] in Hall. unfold effective_setting_containers in Hall.
    rewrite (assoc_res_filter (fun k0 => negb (has_override n k0)) c (s_containers s)) in Hall by (rewrite Hno; reflexivity).
    rewrite Hw in Hall. apply andb_true_iff in Hall. destruct Hall as [Hl _].
    unfold resmap_demands_met in Hl. rewrite forallb_forall in Hl. specialize (Hl (k, v) Hk). cbn in Hl.
    destruct (assocZ k (res_limits have)) as [v'|]; [|discriminate]. apply Z.eqb_eq in Hl. subst. congruence. }
  rewrite Hs, andb_false_r. reflexivity.
Qed.
