(** * C13Proofs: PodTemplate mirror. *)
From Coq Require Import List ZArith NArith Bool Lia.
From EDS Require Import Model.Objects Model.PodTemplate.
Import ListNotations.

Lemma option_N_eqb_eq : forall a b, option_eqb N.eqb a b = true -> a = b.
Proof.
  intros [x|] [y|] H; simpl in H; try discriminate; [apply N.eqb_eq in H; subst|]; reflexivity.
Qed.

(** After a PodTemplate reconcile whose write (if any) is accepted, the PodTemplate of the same name and
    namespace exists, is owned by the ExtendedDaemonSet (when written), carries the hash of spec.template in
    its annotation and - given the controller's invariant on the object it found - holds that template. *)
Theorem podtemplate_mirrors : forall e opt fail ws err,
  podtemplate_sync (Some e) opt fail = Ok (ws, err) ->
  (forall p, opt = Some p -> pt_faithful p = true) ->
  exists p, pt_after opt ws = Some p /\ pt_hash_annot p = Some (e_tmpl_hash e) /\ pt_tmpl_hash p = e_tmpl_hash e /\
            pt_faithful p = true.
Proof.
  intros e opt fail ws err H Hinv. unfold podtemplate_sync in H. destruct opt as [pt|].
  - destruct (option_eqb N.eqb (pt_hash_annot pt) (Some (e_tmpl_hash e))) eqn:E.
    + inversion H; subst. exists pt. cbn. specialize (Hinv pt eq_refl).
      apply option_N_eqb_eq in E. unfold pt_faithful in Hinv. rewrite E in Hinv. apply option_N_eqb_eq in Hinv.
      inversion Hinv. repeat split; auto. unfold pt_faithful. rewrite E. cbn. rewrite <- H1. apply N.eqb_refl.
    + inversion H; subst. exists (new_podtemplate e). cbn. repeat split; auto. unfold pt_faithful; cbn. apply N.eqb_refl.
  - inversion H; subst. exists (new_podtemplate e). cbn. repeat split; auto. unfold pt_faithful; cbn. apply N.eqb_refl.
Qed.

(** the reconcile is silent exactly when the annotation already names spec.template's hash *)
Theorem podtemplate_silent_iff : forall e pt fail ws err,
  podtemplate_sync (Some e) (Some pt) fail = Ok (ws, err) ->
  (ws = [] <-> pt_hash_annot pt = Some (e_tmpl_hash e)).
Proof.
  intros e pt fail ws err H. unfold podtemplate_sync in H.
  destruct (option_eqb N.eqb (pt_hash_annot pt) (Some (e_tmpl_hash e))) eqn:E; inversion H; subst.
  - split; [intros _; apply option_N_eqb_eq; assumption | reflexivity].
  - split; [discriminate|]. intros Heq. rewrite Heq in E. cbn in E. rewrite N.eqb_refl in E. discriminate.
Qed.
