(** * C15Restarts: the restart tally of a node is the sum over every listed pod of that node, whatever the list order
    (ninth round of seeded changes: "the pod listed last wins"). *)
From Coq Require Import List ZArith NArith Bool Lia Permutation.
From EDS Require Import Model.Objects Model.EdsLogic.
Import ListNotations.
Open Scope Z_scope.

Lemma node_restarts_acc : forall pods nn a,
  fold_left (fun acc p => if N.eqb (p_nodename p) nn then acc + p_restart_sum p else acc) pods a =
  a + node_restarts pods nn.
Proof.
  intros pods nn. unfold node_restarts. induction pods as [|p l IH]; intros a; cbn [fold_left]; [lia|].
  rewrite IH. rewrite (IH (if N.eqb (p_nodename p) nn then 0 + p_restart_sum p else 0)).
  destruct (N.eqb (p_nodename p) nn); lia.
Qed.

Lemma node_restarts_cons : forall p pods nn,
  node_restarts (p :: pods) nn = (if N.eqb (p_nodename p) nn then p_restart_sum p else 0) + node_restarts pods nn.
Proof.
  intros p pods nn. unfold node_restarts at 1. cbn [fold_left]. rewrite node_restarts_acc.
  destruct (N.eqb (p_nodename p) nn); lia.
Qed.

Theorem node_restarts_order_irrelevant : forall pods pods' nn,
  Permutation pods pods' -> node_restarts pods nn = node_restarts pods' nn.
Proof.
  intros pods pods' nn H. induction H as [|x l l' _ IH|x y l|l l' l'' _ IH1 _ IH2].
  - reflexivity.
  - rewrite !node_restarts_cons, IH. reflexivity.
  - rewrite !node_restarts_cons. lia.
  - rewrite IH1. exact IH2.
Qed.

Theorem node_restarts_counts_every_pod : forall l1 p l2 nn, p_nodename p = nn ->
  node_restarts (l1 ++ p :: l2) nn = p_restart_sum p + node_restarts (l1 ++ l2) nn.
Proof.
  intros l1 p l2 nn Hn. rewrite <- (node_restarts_order_irrelevant (p :: l1 ++ l2) (l1 ++ p :: l2) nn (Permutation_middle _ _ _)).
  rewrite node_restarts_cons, Hn, N.eqb_refl. reflexivity.
Qed.
