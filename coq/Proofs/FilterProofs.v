(** * FilterProofs: [FilterAndMapPodsByNode] - which pods are counted, kept, cleaned. *)
From Coq Require Import List ZArith NArith Bool Lia.
From EDS Require Import Model.Objects Model.Fitness Model.PodSpec Model.Backoff Model.Filter Proofs.Lists.
Import ListNotations.
Open Scope Z_scope.

(** ** The duplicate order is a strict total order on pods with distinct names *)
Definition sched_rank (p : pod) : Z := if pod_scheduled p then 0 else 1.

Lemma pod_lt_spec : forall a b,
  pod_lt a b = true <->
  (sched_rank a < sched_rank b \/
   (sched_rank a = sched_rank b /\
    (p_created a < p_created b \/ (p_created a = p_created b /\ (p_name a < p_name b)%N)))).
Proof.
  intros a b. unfold pod_lt, sched_rank.
  destruct (pod_scheduled a), (pod_scheduled b); cbn [andb negb];
  try (split; [intros _; lia | reflexivity]);
  try (split; [discriminate | intros H; lia]).
  - destruct (Z.eqb_spec (p_created a) (p_created b)) as [E|E].
    + rewrite N.ltb_lt. lia.
    + rewrite Z.ltb_lt. lia.
  - destruct (Z.eqb_spec (p_created a) (p_created b)) as [E|E].
    + rewrite N.ltb_lt. lia.
    + rewrite Z.ltb_lt. lia.
Qed.

Lemma pod_lt_trans : forall a b c, pod_lt a b = true -> pod_lt b c = true -> pod_lt a c = true.
Proof. intros a b c; rewrite !pod_lt_spec; lia. Qed.
Lemma pod_lt_asym : forall a b, pod_lt a b = true -> pod_lt b a = false.
Proof.
  intros a b H. destruct (pod_lt b a) eqn:E; [|reflexivity]. exfalso.
  rewrite pod_lt_spec in H, E. lia.
Qed.
Lemma pod_lt_irrefl : forall a, pod_lt a a = false.
Proof. intros a. destruct (pod_lt a a) eqn:E; [|reflexivity]. rewrite pod_lt_spec in E. lia. Qed.
Lemma pod_lt_total : forall a b, p_name a <> p_name b -> pod_lt a b = true \/ pod_lt b a = true.
Proof.
  intros a b Hn. rewrite !pod_lt_spec.
  assert (p_name a < p_name b \/ p_name b < p_name a)%N by lia. lia.
Qed.

(** [best_pod] returns a minimum of the list for that order. *)
Lemma best_pod_in : forall l best, best_pod best l = best \/ In (best_pod best l) l.
Proof.
  induction l as [|x r IH]; intros best; simpl; [left; reflexivity|].
  destruct (pod_lt x best).
  - destruct (IH x) as [->|H]; [right; left; reflexivity | right; right; assumption].
  - destruct (IH best) as [->|H]; [left; reflexivity | right; right; assumption].
Qed.

Lemma best_pod_min : forall l best q,
  (q = best \/ In q l) -> pod_lt q (best_pod best l) = false.
Proof.
  induction l as [|x r IH]; intros best q Hq; simpl.
  - destruct Hq as [->|[]]. apply pod_lt_irrefl.
  - destruct (pod_lt x best) eqn:E.
    + (* x becomes the running minimum *)
      destruct Hq as [->|[->|Hq]].
      * (* q = old best: not below the final minimum, by transitivity through x *)
        destruct (pod_lt best (best_pod x r)) eqn:E2; [|reflexivity]. exfalso.
        assert (pod_lt x (best_pod x r) = true) by (eapply pod_lt_trans; eassumption).
        rewrite (IH x x (or_introl eq_refl)) in H. discriminate.
      * apply IH. left; reflexivity.
      * apply IH. right; assumption.
    + destruct Hq as [->|[->|Hq]].
      * apply IH. left; reflexivity.
      * destruct (pod_lt q (best_pod best r)) eqn:E2; [|reflexivity]. exfalso.
        (* q < final <= best would give q < best *)
        destruct (best_pod_in r best) as [Hb|Hb].
        -- rewrite Hb in E2. congruence.
        -- pose proof (IH best best (or_introl eq_refl)) as Hm.
           (* final is not above best: best is not below final; q < final; if final = best contradiction;
              otherwise use totality-free argument: q < final and not (best < final) *)
           destruct (pod_lt (best_pod best r) best) eqn:E3.
           ++ assert (pod_lt q best = true) by (eapply pod_lt_trans; eassumption). congruence.
           ++ (* neither best < final nor final < best: by the spec they have equal keys, so q < best *)
              rewrite pod_lt_spec in E2. assert (Hnb : ~ (pod_lt best (best_pod best r) = true)) by congruence.
              assert (Hnf : ~ (pod_lt (best_pod best r) best = true)) by congruence.
              rewrite pod_lt_spec in Hnb, Hnf.
              assert (pod_lt q best = true) by (rewrite pod_lt_spec; lia). congruence.
      * apply IH. right; assumption.
Qed.

(** ** The scan of the pod list *)
Section Scan.
Variables (rs : ers) (elig ignore : list name) (now : time).
Variable universe : list pod.   (* the listed pods: everything the scan puts anywhere comes from here *)

Definition counted_ok (s : scan) : Prop :=
  forall nn p, In (nn, p) (sc_counted s) ->
    node_of_pod p = Some nn /\ phase_eqb (p_phase p) PhUnknown = false /\ memN nn elig = true /\ In p universe.
Definition cleanup_ok (s : scan) : Prop :=
  forall p, In p (sc_cleanup s) ->
    phase_eqb (p_phase p) PhUnknown = false /\ In p universe /\
    exists nn, node_of_pod p = Some nn /\ (memN nn elig = true \/ memN nn ignore = false).

Lemma scan_pod_mono : forall s p,
  incl (sc_counted s) (sc_counted (scan_pod rs elig ignore now s p)) /\
  incl (sc_cleanup s) (sc_cleanup (scan_pod rs elig ignore now s p)).
Proof.
  intros s p. unfold scan_pod.
  destruct (node_of_pod p) as [nn|]; [|split; apply incl_refl].
  destruct (phase_eqb (p_phase p) PhUnknown); [split; apply incl_refl|].
  destruct (memN nn elig).
  - destruct (if phase_eqb (p_phase p) Failed then _ else _) as [del bo'].
    destruct del; cbn; split; try apply incl_refl; apply incl_appl, incl_refl.
  - destruct (memN nn ignore); [split; apply incl_refl|].
    destruct (pod_terminating p); [split; apply incl_refl|].
    cbn; split; [apply incl_refl | apply incl_appl, incl_refl].
Qed.

Lemma scan_fold_mono : forall pods s,
  incl (sc_counted s) (sc_counted (fold_left (scan_pod rs elig ignore now) pods s)) /\
  incl (sc_cleanup s) (sc_cleanup (fold_left (scan_pod rs elig ignore now) pods s)).
Proof.
  induction pods as [|p r IH]; intros s; simpl; [split; apply incl_refl|].
  destruct (scan_pod_mono s p) as [A B]. destruct (IH (scan_pod rs elig ignore now s p)) as [C D].
  split; eapply incl_tran; eassumption.
Qed.

Lemma scan_pod_inv : forall s p, In p universe -> counted_ok s -> cleanup_ok s ->
  counted_ok (scan_pod rs elig ignore now s p) /\ cleanup_ok (scan_pod rs elig ignore now s p).
Proof.
  intros s p Hpu Hc Hk. unfold scan_pod.
  destruct (node_of_pod p) as [nn|] eqn:En; [|split; assumption].
  destruct (phase_eqb (p_phase p) PhUnknown) eqn:Eu; [split; assumption|].
  destruct (memN nn elig) eqn:Ee.
  - destruct (if phase_eqb (p_phase p) Failed then _ else _) as [del bo'].
    destruct del; cbn.
    + split; [exact Hc|].
      intros q Hq. cbn in Hq. apply in_app_or in Hq. destruct Hq as [Hq|[<-|[]]]; [apply Hk; assumption |].
      split; [assumption|]. split; [assumption|]. exists nn. split; [assumption | left; assumption].
    + split; [|exact Hk].
      intros nn' q Hq. cbn in Hq. apply in_app_or in Hq. destruct Hq as [Hq|[Hq|[]]]; [apply Hc; assumption|].
      inversion Hq; subst. repeat split; assumption.
  - destruct (memN nn ignore) eqn:Ei; [split; assumption|].
    destruct (pod_terminating p); [split; assumption|].
    cbn; split; [assumption|].
    intros q Hq. apply in_app_or in Hq. destruct Hq as [Hq|[<-|[]]]; [apply Hk; assumption |].
    split; [assumption|]. split; [assumption|]. exists nn. split; [assumption | right; assumption].
Qed.

Lemma scan_fold_inv : forall pods s, incl pods universe -> counted_ok s -> cleanup_ok s ->
  counted_ok (fold_left (scan_pod rs elig ignore now) pods s) /\
  cleanup_ok (fold_left (scan_pod rs elig ignore now) pods s).
Proof.
  induction pods as [|p r IH]; intros s Hu Hc Hk; simpl; [split; assumption|].
  destruct (scan_pod_inv s p (Hu p (or_introl eq_refl)) Hc Hk) as [A B]. apply IH; try assumption.
  intros x Hx; apply Hu; right; assumption.
Qed.

(** a pod on an eligible node that is neither Unknown nor Failed is counted *)
Lemma scan_counts_live : forall pods s p nn,
  In p pods -> node_of_pod p = Some nn -> memN nn elig = true ->
  phase_eqb (p_phase p) PhUnknown = false -> phase_eqb (p_phase p) Failed = false ->
  In (nn, p) (sc_counted (fold_left (scan_pod rs elig ignore now) pods s)).
Proof.
  induction pods as [|x r IH]; intros s p nn Hin Hn He Hu Hf; [contradiction|].
  simpl. destruct Hin as [->|Hin]; [|eapply IH; eassumption].
  destruct (scan_fold_mono r (scan_pod rs elig ignore now s p)) as [Hm _]. apply Hm.
  unfold scan_pod. rewrite Hn, Hu, He, Hf. cbn. apply in_or_app; right; left; reflexivity.
Qed.

(** a pod (not Unknown, not terminating) on a node that is neither eligible nor ignored is cleaned *)
Lemma scan_cleans_ineligible : forall pods s p nn,
  In p pods -> node_of_pod p = Some nn -> memN nn elig = false -> memN nn ignore = false ->
  phase_eqb (p_phase p) PhUnknown = false -> pod_terminating p = false ->
  In p (sc_cleanup (fold_left (scan_pod rs elig ignore now) pods s)).
Proof.
  induction pods as [|x r IH]; intros s p nn Hin Hn He Hi Hu Ht; [contradiction|].
  simpl. destruct Hin as [->|Hin]; [|eapply IH; eassumption].
  destruct (scan_fold_mono r (scan_pod rs elig ignore now s p)) as [_ Hm]. apply Hm.
  unfold scan_pod. rewrite Hn, Hu, He, Hi, Ht. cbn. apply in_or_app; right; left; reflexivity.
Qed.
End Scan.

(** ** [filter_and_map] *)
Section FilterAndMap.
Variables (rs : ers) (nodes : list node) (pods : list pod) (ignore : list name) (now : time) (bo : backoff).
Let fo := filter_and_map rs nodes pods ignore now bo.
Let elig := eligible_nodes rs nodes ignore.
Let s := fold_left (scan_pod rs elig ignore now) pods (MkScan [] [] [] bo).

Lemma scan_final_ok : counted_ok elig pods s /\ cleanup_ok elig ignore pods s.
Proof. apply scan_fold_inv; [apply incl_refl | |]; intros x; intros; contradiction. Qed.

Lemma eligible_spec : forall nn, In nn elig <->
  exists n, In n nodes /\ n_name n = nn /\ memN nn ignore = false /\ fit (r_tmpl rs) n = true.
Proof.
  intros nn. unfold elig, eligible_nodes. rewrite in_map_iff. split.
  - intros [n [Hn Hin]]. apply filter_In in Hin. destruct Hin as [Hin Hc].
    apply andb_true_iff in Hc. destruct Hc as [Hi Hf]. apply negb_true_iff in Hi.
    exists n. subst nn. auto.
  - intros [n [Hin [Hn [Hi Hf]]]]. exists n. split; [assumption|]. apply filter_In. split; [assumption|].
    subst nn. rewrite Hi, Hf. reflexivity.
Qed.

Lemma by_node_entry : forall nn op, In (nn, op) (fo_by_node fo) ->
  In nn elig /\ op = kept_pod (pods_on nn (sc_counted s)).
Proof.
  intros nn op H. unfold fo, filter_and_map in H. cbn [fo_by_node] in H.
  apply in_map_iff in H. destruct H as [k [Hk Hin]]. inversion Hk; subst.
  split; [|reflexivity]. apply dedupN_In. assumption.
Qed.

Lemma pods_on_spec : forall nn counted p, In p (pods_on nn counted) <-> In (nn, p) counted.
Proof.
  intros nn counted p. unfold pods_on. rewrite in_map_iff. split.
  - intros [[k q] [Hq Hin]]. cbn in Hq. subst q. apply filter_In in Hin. destruct Hin as [Hin He].
    cbn in He. apply N.eqb_eq in He. subst k. assumption.
  - intros Hin. exists (nn, p). split; [reflexivity|]. apply filter_In. split; [assumption|]. cbn. apply N.eqb_refl.
Qed.

Lemma kept_pod_none : forall ps, kept_pod ps = None -> ps = [].
Proof. intros [|x r]; [reflexivity | discriminate]. Qed.

(** the entry of an eligible node is empty only if every listed pod of that node is Failed or Unknown *)
Theorem empty_entry_means_no_live_pod : forall nn,
  In (nn, None) (fo_by_node fo) ->
  forall p, In p pods -> node_of_pod p = Some nn ->
    phase_eqb (p_phase p) Failed = true \/ phase_eqb (p_phase p) PhUnknown = true.
Proof.
  intros nn H p Hp Hn. apply by_node_entry in H. destruct H as [He Hk].
  symmetry in Hk. apply kept_pod_none in Hk.
  destruct (phase_eqb (p_phase p) PhUnknown) eqn:Eu; [right; reflexivity|].
  destruct (phase_eqb (p_phase p) Failed) eqn:Ef; [left; reflexivity|]. exfalso.
  assert (Hc : In (nn, p) (sc_counted s)).
  { unfold s. apply scan_counts_live; try assumption. apply memN_In; assumption. }
  apply pods_on_spec in Hc. rewrite Hk in Hc. contradiction.
Qed.

(** the pod kept for a node is one of its counted pods and a minimum of the duplicate order:
    scheduled before unscheduled, then oldest, then by name *)
Theorem kept_is_minimum : forall nn k,
  In (nn, Some k) (fo_by_node fo) ->
  In (nn, k) (sc_counted s) /\ forall q, In (nn, q) (sc_counted s) -> pod_lt q k = false.
Proof.
  intros nn k H. apply by_node_entry in H. destruct H as [_ Hk].
  destruct (pods_on nn (sc_counted s)) as [|x r] eqn:E; [discriminate|].
  cbn in Hk. inversion Hk; subst k; clear Hk. split.
  - apply pods_on_spec. rewrite E. destruct (best_pod_in r x) as [->|Hb]; [left; reflexivity | right; assumption].
  - intros q Hq. apply pods_on_spec in Hq. rewrite E in Hq. apply best_pod_min.
    destruct Hq as [->|Hq]; [left; reflexivity | right; assumption].
Qed.

Lemma remove_first_keeps_others : forall k l q, In q l -> p_name q <> p_name k -> In q (remove_first_pod k l).
Proof.
  intros k l; induction l as [|x r IH]; intros q Hq Hn; [contradiction|]. simpl.
  destruct (pod_name_eqb x k) eqn:E.
  - destruct Hq as [->|Hq]; [|assumption]. unfold pod_name_eqb in E. apply N.eqb_eq in E. contradiction.
  - destruct Hq as [->|Hq]; [left; reflexivity | right; apply IH; assumption].
Qed.

(** every other counted pod of that node is in the clean-up list *)
Theorem duplicates_cleaned : forall nn k q,
  In (nn, Some k) (fo_by_node fo) -> In (nn, q) (sc_counted s) -> p_name q <> p_name k ->
  In q (fo_cleanup fo).
Proof.
  intros nn k q H Hq Hn. pose proof (by_node_entry _ _ H) as [He Hk].
  unfold fo, filter_and_map. cbn [fo_cleanup]. apply in_or_app; right.
  apply in_flat_map. exists nn. split; [apply dedupN_In; assumption|].
  unfold duplicates_of. fold elig s. rewrite <- Hk.
  apply remove_first_keeps_others; [apply pods_on_spec; assumption | assumption].
Qed.

Lemma remove_first_incl : forall k l, incl (remove_first_pod k l) l.
Proof.
  intros k l; induction l as [|x r IH]; simpl; [apply incl_refl|].
  destruct (pod_name_eqb x k); [apply incl_tl, incl_refl|].
  intros y [->|Hy]; [left; reflexivity | right; apply IH; assumption].
Qed.

(** nothing in the clean-up list or in the per-node map is an Unknown-phase pod, and all of it is listed *)
Theorem cleanup_never_unknown : forall p, In p (fo_cleanup fo) ->
  phase_eqb (p_phase p) PhUnknown = false /\ In p pods.
Proof.
  intros p H. destruct scan_final_ok as [Hc Hk].
  unfold fo, filter_and_map in H. cbn [fo_cleanup] in H. fold elig s in H.
  apply in_app_or in H. destruct H as [H|H]; [destruct (Hk _ H) as [A [B _]]; split; assumption|].
  apply in_flat_map in H. destruct H as [nn [_ H]]. unfold duplicates_of in H.
  destruct (kept_pod (pods_on nn (sc_counted s))) as [k|]; [|contradiction].
  apply remove_first_incl in H. apply pods_on_spec in H. destruct (Hc _ _ H) as [_ [Hu [_ Hin]]]. split; assumption.
Qed.

(** nothing the filter hands to the clean-up sits on an ignored node (canary nodes for the active role) *)
Theorem cleanup_avoids_ignored : forall p, In p (fo_cleanup fo) ->
  exists nn, node_of_pod p = Some nn /\ ~ In nn ignore.
Proof.
  intros p H. destruct scan_final_ok as [Hc Hk].
  assert (Helig : forall nn, memN nn elig = true -> ~ In nn ignore).
  { intros nn Hm. apply memN_In in Hm. apply eligible_spec in Hm. destruct Hm as [n [_ [_ [Hi _]]]].
    apply memN_false; assumption. }
  unfold fo, filter_and_map in H. cbn [fo_cleanup] in H. fold elig s in H.
  apply in_app_or in H. destruct H as [H|H].
  - destruct (Hk _ H) as [_ [_ [nn [Hn [He|Hi]]]]]; exists nn; split; auto. apply memN_false; assumption.
  - apply in_flat_map in H. destruct H as [nn [_ H]]. unfold duplicates_of in H.
    destruct (kept_pod (pods_on nn (sc_counted s))) as [k|]; [|contradiction].
    apply remove_first_incl in H. apply pods_on_spec in H. destruct (Hc _ _ H) as [Hn [_ [He _]]].
    exists nn. split; auto.
Qed.

Theorem kept_never_unknown : forall nn k, In (nn, Some k) (fo_by_node fo) ->
  phase_eqb (p_phase k) PhUnknown = false /\ In k pods /\ node_of_pod k = Some nn.
Proof.
  intros nn k H. destruct (kept_is_minimum _ _ H) as [Hin _]. destruct scan_final_ok as [Hc _].
  destruct (Hc _ _ Hin) as [Hn [Hu [_ Hp]]]. repeat split; assumption.
Qed.

(** pods on nodes that are not (or no longer) eligible - and not hidden from this role - are cleaned *)
Theorem ineligible_cleaned : forall p nn,
  In p pods -> node_of_pod p = Some nn -> ~ In nn elig -> ~ In nn ignore ->
  phase_eqb (p_phase p) PhUnknown = false -> pod_terminating p = false ->
  In p (fo_cleanup fo).
Proof.
  intros p nn Hp Hn He Hi Hu Ht. unfold fo, filter_and_map. cbn [fo_cleanup]. apply in_or_app; left.
  fold elig. apply scan_cleans_ineligible with (nn := nn); try assumption; apply memN_false; assumption.
Qed.
End FilterAndMap.
