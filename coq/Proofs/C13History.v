(** * C13History: "one replica set per template" as an invariant of every history.
    [C13_one_per_hash] speaks about one reconcile.  Here the replica sets of the store evolve under any
    interleaving of ExtendedDaemonSet reconciles (whose writes take effect or are rejected, one by one),
    user edits of the ExtendedDaemonSet (any template, any strategy, any annotation - only name and namespace
    stay), status and other non-identity updates of the replica sets by anybody, deletions by anybody
    (clean-up, garbage collection) and creations of replica sets that belong to somebody else.  Over all such
    histories no two replica sets of the ExtendedDaemonSet ever carry the same template hash: re-applying or
    reverting to a template finds the one replica set of that template and creates none. *)
From Coq Require Import List ZArith NArith Bool Lia Relations Permutation.
From EDS Require Import Model.Objects Model.EdsReconcile Proofs.EdsWrites.
Import ListNotations.

Definition hash_of (r : ers) : list name := match r_hash_annot r with Some h => [h] | None => [] end.
Definition own_hashes (e : eds) (rss : list ers) : list name := flat_map hash_of (rs_of_eds e rss).
Definition one_per_template (e : eds) (rss : list ers) : Prop := NoDup (own_hashes e rss).
Definition own (e : eds) (r : ers) : bool := N.eqb (r_ns r) (e_ns e) && N.eqb (r_eds_label r) (e_name e).

(** what the API server is assumed to do with a creation request: the stored object has the namespace, the
    linking label and the hash annotation that were sent (its name, uid, stamps are the server's) *)
Definition born_from (nr : new_rs) (r : ers) : Prop :=
  r_ns r = nr_ns nr /\ r_eds_label r = nr_eds_label nr /\ r_hash_annot r = Some (nr_hash_annot nr).

(** the effect of a reconcile's writes on the stored replica sets; any write may be rejected ([ap_skip], which
    also covers the writes to other kinds of object); a created object appears anywhere in the list order *)
Inductive applied : list eds_write -> list ers -> list ers -> Prop :=
| ap_nil : forall rss, applied [] rss rss
| ap_skip : forall w ws rss rss', applied ws rss rss' -> applied (w :: ws) rss rss'
| ap_create : forall nr r ws l1 l2 rss', born_from nr r -> applied ws (l1 ++ r :: l2) rss' ->
    applied (WCreateRs nr :: ws) (l1 ++ l2) rss'
| ap_delete : forall n ns ws rss rss',
    applied ws (filter (fun r => negb (N.eqb (r_name r) n && N.eqb (r_ns r) ns)) rss) rss' ->
    applied (WDeleteRs n :: ws) rss rss'.

Definition same_identity (r r' : ers) : Prop :=
  r_ns r' = r_ns r /\ r_eds_label r' = r_eds_label r /\ r_hash_annot r' = r_hash_annot r.

Inductive hstep : eds * list ers -> eds * list ers -> Prop :=
| h_user : forall e e' rss, e_ns e' = e_ns e -> e_name e' = e_name e -> hstep (e, rss) (e', rss)
| h_update : forall e rss rss', Forall2 same_identity rss rss' -> hstep (e, rss) (e, rss')
| h_gone : forall e rss f, hstep (e, rss) (e, filter f rss)
| h_foreign : forall e l1 l2 r, own e r = false -> hstep (e, l1 ++ l2) (e, l1 ++ r :: l2)
| h_sync : forall e e' rss sn pl rss', es_obj sn = Some e -> es_rss sn = rss -> eds_sync sn = Ok pl ->
    applied (ep_writes pl) rss rss' -> e_ns e' = e_ns e -> e_name e' = e_name e -> hstep (e, rss) (e', rss').

Lemma NoDup_app_remove_l : forall {A} (a b : list A), NoDup (a ++ b) -> NoDup b.
Proof.
  intros A a b. induction a as [|x a IH]; [intros H; exact H|].
  cbn [app]. intros H. apply NoDup_cons_iff in H. apply IH, H.
Qed.

Lemma own_hashes_cons : forall e r l,
  own_hashes e (r :: l) = (if own e r then hash_of r else []) ++ own_hashes e l.
Proof.
  intros e r l. unfold own_hashes, rs_of_eds, own. cbn [filter].
  destruct (N.eqb (r_ns r) (e_ns e) && N.eqb (r_eds_label r) (e_name e)); reflexivity.
Qed.

Lemma own_hashes_app : forall e l1 l2, own_hashes e (l1 ++ l2) = own_hashes e l1 ++ own_hashes e l2.
Proof.
  intros e l1 l2. induction l1 as [|r l1 IH]; [reflexivity|].
  rewrite <- app_comm_cons, !own_hashes_cons, IH, app_assoc. reflexivity.
Qed.

Lemma own_hashes_identity : forall e e' rss, e_ns e' = e_ns e -> e_name e' = e_name e ->
  own_hashes e' rss = own_hashes e rss.
Proof. intros e e' rss H1 H2. unfold own_hashes, rs_of_eds. rewrite H1, H2. reflexivity. Qed.

Lemma own_hashes_update : forall e rss rss', Forall2 same_identity rss rss' -> own_hashes e rss' = own_hashes e rss.
Proof.
  intros e rss rss' H. induction H as [|r r' l l' [H1 [H2 H3]] _ IH]; [reflexivity|].
  rewrite !own_hashes_cons, IH. unfold own, hash_of. rewrite H1, H2, H3. reflexivity.
Qed.

Lemma own_hashes_filter_incl : forall e f rss h, In h (own_hashes e (filter f rss)) -> In h (own_hashes e rss).
Proof.
  intros e f rss h. induction rss as [|r l IH]; [intros H; exact H|].
  cbn [filter]. destruct (f r).
  - rewrite !own_hashes_cons. intros H. apply in_or_app. apply in_app_or in H.
    destruct H as [H|H]; [left; exact H | right; apply IH; exact H].
  - rewrite own_hashes_cons. intros H. apply in_or_app. right. apply IH. exact H.
Qed.

Lemma one_per_template_filter : forall e f rss, one_per_template e rss -> one_per_template e (filter f rss).
Proof.
  intros e f rss. unfold one_per_template. induction rss as [|r l IH]; [intros H; exact H|].
  rewrite own_hashes_cons. intros H.
  assert (Hl : NoDup (own_hashes e l)) by (apply NoDup_app_remove_l in H; exact H).
  cbn [filter]. destruct (f r); [|apply IH; exact Hl].
  rewrite own_hashes_cons. destruct (own e r); [|apply IH; exact Hl].
  unfold hash_of in *. destruct (r_hash_annot r) as [h|]; [|apply IH; exact Hl].
  cbn [app] in *. apply NoDup_cons_iff in H. destruct H as [Hn _].
  constructor; [|apply IH; exact Hl].
  intros Hin. apply Hn. apply own_hashes_filter_incl in Hin. exact Hin.
Qed.

Lemma one_per_template_insert : forall e l1 l2 r,
  one_per_template e (l1 ++ l2) ->
  (own e r = true -> forall h, r_hash_annot r = Some h -> ~ In h (own_hashes e (l1 ++ l2))) ->
  one_per_template e (l1 ++ r :: l2).
Proof.
  intros e l1 l2 r H Hfresh. unfold one_per_template in *.
  rewrite own_hashes_app, own_hashes_cons. rewrite own_hashes_app in H, Hfresh.
  destruct (own e r); [|exact H].
  unfold hash_of. destruct (r_hash_annot r) as [h|]; [|exact H].
  cbn [app]. apply (Permutation_NoDup (Permutation_middle _ _ h)).
  constructor; [apply (Hfresh eq_refl h eq_refl) | exact H].
Qed.

Lemma applied_without_creation : forall e ws rss rss', applied ws rss rss' -> creates_of ws = [] ->
  one_per_template e rss -> one_per_template e rss'.
Proof.
  intros e ws rss rss' H. induction H as [rss | w ws rss rss' _ IH | nr r ws l1 l2 rss' _ _ _ | n ns ws rss rss' _ IH];
    intros Hc Hinv.
  - exact Hinv.
  - apply IH; [|exact Hinv]. unfold creates_of in *. cbn [flat_map] in Hc. apply app_eq_nil in Hc. apply Hc.
  - discriminate Hc.
  - apply IH; [exact Hc | apply one_per_template_filter; exact Hinv].
Qed.

Lemma applied_nil : forall rss rss', applied [] rss rss' -> rss' = rss.
Proof. intros rss rss' H. inversion H; reflexivity. Qed.

(** one reconcile, whatever part of its writes takes effect, keeps the invariant *)
Theorem sync_keeps_one_per_template : forall sn e pl rss',
  es_obj sn = Some e -> eds_sync sn = Ok pl -> applied (ep_writes pl) (es_rss sn) rss' ->
  one_per_template e (es_rss sn) -> one_per_template e rss'.
Proof.
  intros sn e pl rss' Ho Hs Hap Hinv.
  destruct (creates_of (ep_writes pl)) as [|nr rest] eqn:Hc.
  - apply (applied_without_creation e _ _ _ Hap Hc Hinv).
  - assert (Hin : In nr (creates_of (ep_writes pl))) by (rewrite Hc; left; reflexivity).
    destruct (create_only_if_none_matches sn pl nr Hs Hin) as [e0 [Ho0 [Hnone [Hns [Hlab [_ [Hh [_ [_ Hw]]]]]]]]].
    rewrite Ho in Ho0. inversion Ho0; subst e0. clear Ho0.
    rewrite Hw in Hap. inversion Hap as [ | w ws a b Hrest | nr0 r ws l1 l2 b [B1 [B2 B3]] Hrest Heq Hl | ]; subst.
    + apply applied_nil in Hrest. subst. exact Hinv.
    + apply applied_nil in Hrest. subst rss'. rewrite <- Hl in Hinv, Hnone.
      apply one_per_template_insert; [exact Hinv|].
      intros _ h Hrh Hin'. rewrite B3 in Hrh. inversion Hrh; subst h. clear Hrh.
      unfold own_hashes in Hin'. apply in_flat_map in Hin'. destruct Hin' as [r' [Hr' Hh']].
      specialize (Hnone r' Hr'). unfold rs_up_to_date in Hnone. unfold hash_of in Hh'.
      destruct (r_hash_annot r') as [h'|]; [|contradiction].
      destruct Hh' as [Hh'|[]]. subst h'. rewrite Hh, N.eqb_refl in Hnone. discriminate.
Qed.

Lemma hstep_keeps : forall s s', hstep s s' ->
  one_per_template (fst s) (snd s) -> one_per_template (fst s') (snd s').
Proof.
  intros s s' H. destruct H as [e e' rss H1 H2 | e rss rss' HF | e rss f | e l1 l2 r Hown | e e' rss sn pl rss' Ho Hr Hs Hap H1 H2];
    cbn [fst snd]; unfold one_per_template at 2; intros Hinv.
  - rewrite (own_hashes_identity e e' rss H1 H2). exact Hinv.
  - rewrite (own_hashes_update e rss rss' HF). exact Hinv.
  - apply one_per_template_filter. exact Hinv.
  - apply one_per_template_insert; [exact Hinv|]. intros Ht. rewrite Hown in Ht. discriminate.
  - rewrite (own_hashes_identity e e' rss' H1 H2). subst rss.
    apply (sync_keeps_one_per_template sn e pl rss' Ho Hs Hap Hinv).
Qed.

(** every history *)
Theorem history_one_per_template : forall s s', clos_refl_trans _ hstep s s' ->
  one_per_template (fst s) (snd s) -> one_per_template (fst s') (snd s').
Proof.
  intros s s' H. induction H as [s s' H | s | s t u _ IH1 _ IH2]; intros Hinv.
  - apply (hstep_keeps s s' H Hinv).
  - exact Hinv.
  - apply IH2, IH1, Hinv.
Qed.

(** what the invariant says: two replica sets of the ExtendedDaemonSet at different places of the store never
    carry the same template hash *)
Lemma one_per_template_distinct : forall e l1 r1 l2 r2 l3 h,
  one_per_template e (l1 ++ r1 :: l2 ++ r2 :: l3) ->
  own e r1 = true -> own e r2 = true -> r_hash_annot r1 = Some h -> r_hash_annot r2 = Some h -> False.
Proof.
  intros e l1 r1 l2 r2 l3 h H O1 O2 H1 H2. unfold one_per_template in H.
  rewrite own_hashes_app, own_hashes_cons, own_hashes_app, own_hashes_cons, O1, O2 in H.
  unfold hash_of in H. rewrite H1, H2 in H. cbn [app] in H.
  apply NoDup_app_remove_l in H. apply NoDup_cons_iff in H. destruct H as [Hn _].
  apply Hn. apply in_or_app. right. left. reflexivity.
Qed.

(** in a store that satisfies the invariant and holds a replica set of the live template, the reconcile
    creates none (the re-applied or reverted template reuses its replica set) *)
Lemma reuse : forall sn e pl r h,
  es_obj sn = Some e -> eds_sync sn = Ok pl -> In r (es_rss sn) -> own e r = true ->
  r_hash_annot r = Some h -> h = e_tmpl_hash e -> creates_of (ep_writes pl) = [].
Proof.
  intros sn e pl r h Ho Hs Hin Hown Hh Heq.
  destruct (creates_of (ep_writes pl)) as [|nr rest] eqn:Hc; [reflexivity|]. exfalso.
  assert (Hi : In nr (creates_of (ep_writes pl))) by (rewrite Hc; left; reflexivity).
  destruct (create_only_if_none_matches sn pl nr Hs Hi) as [e0 [Ho0 [Hnone _]]].
  rewrite Ho in Ho0. inversion Ho0; subst e0.
  assert (Hr : In r (rs_of_eds e (es_rss sn))) by (unfold rs_of_eds; apply filter_In; split; [exact Hin | exact Hown]).
  specialize (Hnone r Hr). unfold rs_up_to_date in Hnone. rewrite Hh, Heq, N.eqb_refl in Hnone. discriminate.
Qed.
