(** * C13History: "one replica set per template" as an invariant of every history.
    [C13_one_per_hash] speaks about one reconcile.  Here the replica sets of the store evolve under any
    interleaving of ExtendedDaemonSet reconciles (whose writes take effect or are rejected, one by one),
    user edits of the ExtendedDaemonSet (any template, any strategy, any annotation - only name and namespace
    stay), status and other non-identity updates of the replica sets by anybody, deletions by anybody
    (clean-up, garbage collection) and creations of replica sets that belong to somebody else.  Over all such
    histories no two replica sets of the ExtendedDaemonSet ever carry the same template hash: re-applying or
    reverting to a template finds the one replica set of that template and creates none. *)
From Coq Require Import List ZArith NArith Bool Lia Relations Permutation.
From EDS Require Import Model.Objects Model.PodSpec Model.ErsReconcile Model.EdsReconcile Proofs.EdsWrites Proofs.C04Proofs.
Import ListNotations.

Definition hash_of (r : ers) : list name := match r_hash_annot r with Some h => [h] | None => [] end.
Definition own_hashes (e : eds) (rss : list ers) : list name := flat_map hash_of (rs_of_eds e rss).
Definition one_per_template (e : eds) (rss : list ers) : Prop := NoDup (own_hashes e rss).
Definition own (e : eds) (r : ers) : bool := N.eqb (r_ns r) (e_ns e) && N.eqb (r_eds_label r) (e_name e).

(** what the API server is assumed to do with a creation request: the stored object has the namespace, the
    linking label and the hash annotation that were sent (its name, uid, stamps are the server's) *)
Definition born_from (nr : new_rs) (r : ers) : Prop :=
  r_ns r = nr_ns nr /\ r_eds_label r = nr_eds_label nr /\ r_hash_annot r = Some (nr_hash_annot nr) /\
  r_tmplgen r = nr_tmplgen nr /\ r_tmpl_hash r = nr_tmpl_hash nr.

(** the effect of a reconcile's writes on the stored replica sets; any write may be rejected ([ap_skip], which
    also covers the writes to other kinds of object); a created object appears anywhere in the list order *)
Inductive applied : list eds_write -> list ers -> list ers -> Prop :=
| ap_nil : forall rss, applied [] rss rss
| ap_skip : forall w ws rss rss', applied ws rss rss' -> applied (w :: ws) rss rss'
| ap_create : forall nr r ws l1 l2 rss', born_from nr r -> applied ws (l1 ++ r :: l2) rss' ->
    applied (WCreateRs nr :: ws) (l1 ++ l2) rss'
| ap_delete : forall n ns ws rss rss',
    applied ws (filter (fun r => negb (N.eqb (r_name r) n && N.eqb (r_ns r) ns)) rss) rss' ->
    applied (WDeleteRs n :: ws) rss rss'.

Definition same_identity (r r' : ers) : Prop :=
  r_ns r' = r_ns r /\ r_eds_label r' = r_eds_label r /\ r_hash_annot r' = r_hash_annot r /\
  r_tmplgen r' = r_tmplgen r /\ r_tmpl_hash r' = r_tmpl_hash r.

Inductive hstep : eds * list ers -> eds * list ers -> Prop :=
| h_user : forall e e' rss, e_ns e' = e_ns e -> e_name e' = e_name e -> hstep (e, rss) (e', rss)
| h_update : forall e rss rss', Forall2 same_identity rss rss' -> hstep (e, rss) (e, rss')
| h_gone : forall e rss f, hstep (e, rss) (e, filter f rss)
| h_foreign : forall e l1 l2 r, own e r = false -> hstep (e, l1 ++ l2) (e, l1 ++ r :: l2)
| h_sync : forall e e' rss sn pl rss', es_obj sn = Some e -> es_rss sn = rss -> eds_sync sn = Ok pl ->
    applied (ep_writes pl) rss rss' -> e_ns e' = e_ns e -> e_name e' = e_name e -> hstep (e, rss) (e', rss').

Lemma NoDup_app_remove_l : forall {A} (a b : list A), NoDup (a ++ b) -> NoDup b.
Proof.
  intros A a b. induction a as [|x a IH]; [intros H; exact H|].
  cbn [app]. intros H. apply NoDup_cons_iff in H. apply IH, H.
Qed.

Lemma own_hashes_cons : forall e r l,
  own_hashes e (r :: l) = (if own e r then hash_of r else []) ++ own_hashes e l.
Proof.
  intros e r l. unfold own_hashes, rs_of_eds, own. cbn [filter].
  destruct (N.eqb (r_ns r) (e_ns e) && N.eqb (r_eds_label r) (e_name e)); reflexivity.
Qed.

Lemma own_hashes_app : forall e l1 l2, own_hashes e (l1 ++ l2) = own_hashes e l1 ++ own_hashes e l2.
Proof.
  intros e l1 l2. induction l1 as [|r l1 IH]; [reflexivity|].
  rewrite <- app_comm_cons, !own_hashes_cons, IH, app_assoc. reflexivity.
Qed.

Lemma own_hashes_identity : forall e e' rss, e_ns e' = e_ns e -> e_name e' = e_name e ->
  own_hashes e' rss = own_hashes e rss.
Proof. intros e e' rss H1 H2. unfold own_hashes, rs_of_eds. rewrite H1, H2. reflexivity. Qed.

Lemma own_hashes_update : forall e rss rss', Forall2 same_identity rss rss' -> own_hashes e rss' = own_hashes e rss.
Proof.
  intros e rss rss' H. induction H as [|r r' l l' [H1 [H2 [H3 _]]] _ IH]; [reflexivity|].
  rewrite !own_hashes_cons, IH. unfold own, hash_of. rewrite H1, H2, H3. reflexivity.
Qed.

Lemma own_hashes_filter_incl : forall e f rss h, In h (own_hashes e (filter f rss)) -> In h (own_hashes e rss).
Proof.
  intros e f rss h. induction rss as [|r l IH]; [intros H; exact H|].
  cbn [filter]. destruct (f r).
  - rewrite !own_hashes_cons. intros H. apply in_or_app. apply in_app_or in H.
    destruct H as [H|H]; [left; exact H | right; apply IH; exact H].
  - rewrite own_hashes_cons. intros H. apply in_or_app. right. apply IH. exact H.
Qed.

Lemma one_per_template_filter : forall e f rss, one_per_template e rss -> one_per_template e (filter f rss).
Proof.
  intros e f rss. unfold one_per_template. induction rss as [|r l IH]; [intros H; exact H|].
  rewrite own_hashes_cons. intros H.
  assert (Hl : NoDup (own_hashes e l)) by (apply NoDup_app_remove_l in H; exact H).
  cbn [filter]. destruct (f r); [|apply IH; exact Hl].
  rewrite own_hashes_cons. destruct (own e r); [|apply IH; exact Hl].
  unfold hash_of in *. destruct (r_hash_annot r) as [h|]; [|apply IH; exact Hl].
  cbn [app] in *. apply NoDup_cons_iff in H. destruct H as [Hn _].
  constructor; [|apply IH; exact Hl].
  intros Hin. apply Hn. apply own_hashes_filter_incl in Hin. exact Hin.
Qed.

Lemma one_per_template_insert : forall e l1 l2 r,
  one_per_template e (l1 ++ l2) ->
  (own e r = true -> forall h, r_hash_annot r = Some h -> ~ In h (own_hashes e (l1 ++ l2))) ->
  one_per_template e (l1 ++ r :: l2).
Proof.
  intros e l1 l2 r H Hfresh. unfold one_per_template in *.
  rewrite own_hashes_app, own_hashes_cons. rewrite own_hashes_app in H, Hfresh.
  destruct (own e r); [|exact H].
  unfold hash_of. destruct (r_hash_annot r) as [h|]; [|exact H].
  cbn [app]. apply (Permutation_NoDup (Permutation_middle _ _ h)).
  constructor; [apply (Hfresh eq_refl h eq_refl) | exact H].
Qed.

Lemma applied_without_creation : forall e ws rss rss', applied ws rss rss' -> creates_of ws = [] ->
  one_per_template e rss -> one_per_template e rss'.
Proof.
  intros e ws rss rss' H. induction H as [rss | w ws rss rss' _ IH | nr r ws l1 l2 rss' _ _ _ | n ns ws rss rss' _ IH];
    intros Hc Hinv.
  - exact Hinv.
  - apply IH; [|exact Hinv]. unfold creates_of in *. cbn [flat_map] in Hc. apply app_eq_nil in Hc. apply Hc.
  - discriminate Hc.
  - apply IH; [exact Hc | apply one_per_template_filter; exact Hinv].
Qed.

Lemma applied_nil : forall rss rss', applied [] rss rss' -> rss' = rss.
Proof. intros rss rss' H. inversion H; reflexivity. Qed.

(** one reconcile, whatever part of its writes takes effect, keeps the invariant *)
Theorem sync_keeps_one_per_template : forall sn e pl rss',
  es_obj sn = Some e -> eds_sync sn = Ok pl -> applied (ep_writes pl) (es_rss sn) rss' ->
  one_per_template e (es_rss sn) -> one_per_template e rss'.
Proof.
  intros sn e pl rss' Ho Hs Hap Hinv.
  destruct (creates_of (ep_writes pl)) as [|nr rest] eqn:Hc.
  - apply (applied_without_creation e _ _ _ Hap Hc Hinv).
  - assert (Hin : In nr (creates_of (ep_writes pl))) by (rewrite Hc; left; reflexivity).
    destruct (create_only_if_none_matches sn pl nr Hs Hin) as [e0 [Ho0 [Hnone [Hns [Hlab [_ [Hh [_ [_ Hw]]]]]]]]].
    rewrite Ho in Ho0. inversion Ho0; subst e0. clear Ho0.
    rewrite Hw in Hap. inversion Hap as [ | w ws a b Hrest | nr0 r ws l1 l2 b [B1 [B2 [B3 _]]] Hrest Heq Hl | ]; subst.
    + apply applied_nil in Hrest. subst. exact Hinv.
    + apply applied_nil in Hrest. subst rss'. rewrite <- Hl in Hinv, Hnone.
      apply one_per_template_insert; [exact Hinv|].
      intros _ h Hrh Hin'. rewrite B3 in Hrh. inversion Hrh; subst h. clear Hrh.
      unfold own_hashes in Hin'. apply in_flat_map in Hin'. destruct Hin' as [r' [Hr' Hh']].
      specialize (Hnone r' Hr'). unfold rs_up_to_date in Hnone. unfold hash_of in Hh'.
      destruct (r_hash_annot r') as [h'|]; [|contradiction].
      destruct Hh' as [Hh'|[]]. subst h'. rewrite Hh, N.eqb_refl in Hnone. discriminate.
Qed.

Lemma hstep_keeps : forall s s', hstep s s' ->
  one_per_template (fst s) (snd s) -> one_per_template (fst s') (snd s').
Proof.
  intros s s' H. destruct H as [e e' rss H1 H2 | e rss rss' HF | e rss f | e l1 l2 r Hown | e e' rss sn pl rss' Ho Hr Hs Hap H1 H2];
    cbn [fst snd]; unfold one_per_template at 2; intros Hinv.
  - rewrite (own_hashes_identity e e' rss H1 H2). exact Hinv.
  - rewrite (own_hashes_update e rss rss' HF). exact Hinv.
  - apply one_per_template_filter. exact Hinv.
  - apply one_per_template_insert; [exact Hinv|]. intros Ht. rewrite Hown in Ht. discriminate.
  - rewrite (own_hashes_identity e e' rss' H1 H2). subst rss.
    apply (sync_keeps_one_per_template sn e pl rss' Ho Hs Hap Hinv).
Qed.

(** every history *)
Theorem history_one_per_template : forall s s', clos_refl_trans _ hstep s s' ->
  one_per_template (fst s) (snd s) -> one_per_template (fst s') (snd s').
Proof.
  intros s s' H. induction H as [s s' H | s | s t u _ IH1 _ IH2]; intros Hinv.
  - apply (hstep_keeps s s' H Hinv).
  - exact Hinv.
  - apply IH2, IH1, Hinv.
Qed.

(** what the invariant says: two replica sets of the ExtendedDaemonSet at different places of the store never
    carry the same template hash *)
Lemma one_per_template_distinct : forall e l1 r1 l2 r2 l3 h,
  one_per_template e (l1 ++ r1 :: l2 ++ r2 :: l3) ->
  own e r1 = true -> own e r2 = true -> r_hash_annot r1 = Some h -> r_hash_annot r2 = Some h -> False.
Proof.
  intros e l1 r1 l2 r2 l3 h H O1 O2 H1 H2. unfold one_per_template in H.
  rewrite own_hashes_app, own_hashes_cons, own_hashes_app, own_hashes_cons, O1, O2 in H.
  unfold hash_of in H. rewrite H1, H2 in H. cbn [app] in H.
  apply NoDup_app_remove_l in H. apply NoDup_cons_iff in H. destruct H as [Hn _].
  apply Hn. apply in_or_app. right. left. reflexivity.
Qed.

(** in a store that satisfies the invariant and holds a replica set of the live template, the reconcile
    creates none (the re-applied or reverted template reuses its replica set) *)
Lemma reuse : forall sn e pl r h,
  es_obj sn = Some e -> eds_sync sn = Ok pl -> In r (es_rss sn) -> own e r = true ->
  r_hash_annot r = Some h -> h = e_tmpl_hash e -> creates_of (ep_writes pl) = [].
Proof.
  intros sn e pl r h Ho Hs Hin Hown Hh Heq.
  destruct (creates_of (ep_writes pl)) as [|nr rest] eqn:Hc; [reflexivity|]. exfalso.
  assert (Hi : In nr (creates_of (ep_writes pl))) by (rewrite Hc; left; reflexivity).
  destruct (create_only_if_none_matches sn pl nr Hs Hi) as [e0 [Ho0 [Hnone _]]].
  rewrite Ho in Ho0. inversion Ho0; subst e0.
  assert (Hr : In r (rs_of_eds e (es_rss sn))) by (unfold rs_of_eds; apply filter_In; split; [exact Hin | exact Hown]).
  specialize (Hnone r Hr). unfold rs_up_to_date in Hnone. rewrite Hh, Heq, N.eqb_refl in Hnone. discriminate.
Qed.

(** ** The second invariant: every replica set of the ExtendedDaemonSet is faithful to the template it was created
    from - its hash annotation, its templateGeneration and the hash of the template it holds are one value - in
    every store of every history (same steps; [born_from] and [same_identity] say that the API server stores the
    template and templateGeneration that were sent and that no later update rewrites them). *)
Definition faithful (r : ers) : Prop := r_hash_annot r = Some (r_tmplgen r) /\ r_tmpl_hash r = r_tmplgen r.
Definition all_faithful (e : eds) (rss : list ers) : Prop := forall r, In r (rs_of_eds e rss) -> faithful r.

Lemma Forall2_In_r : forall {A} (R : A -> A -> Prop) l l' y, Forall2 R l l' -> In y l' -> exists x, In x l /\ R x y.
Proof.
  intros A R l l' y H. induction H as [|a b l l' Hab _ IH]; intros Hin; [contradiction|].
  destruct Hin as [<-|Hin]; [exists a; split; [left; reflexivity | exact Hab]|].
  destruct (IH Hin) as [x [Hx HR]]. exists x. split; [right; exact Hx | exact HR].
Qed.

Lemma in_own : forall e r rss, In r (rs_of_eds e rss) <-> In r rss /\ own e r = true.
Proof. intros e r rss. unfold rs_of_eds, own. apply filter_In. Qed.

Lemma applied_faithful : forall e ws rss rss', applied ws rss rss' ->
  (forall nr, In nr (creates_of ws) -> nr_hash_annot nr = nr_tmplgen nr /\ nr_tmpl_hash nr = nr_tmplgen nr) ->
  all_faithful e rss -> all_faithful e rss'.
Proof.
  intros e ws rss rss' H.
  induction H as [rss | w ws rss rss' _ IH | nr r ws l1 l2 rss' [_ [_ [B3 [B4 B5]]]] _ IH | n ns ws rss rss' _ IH];
    intros Hc Hinv.
  - exact Hinv.
  - apply IH; [|exact Hinv]. intros nr Hin. apply Hc. unfold creates_of in *. cbn [flat_map]. apply in_or_app. right. exact Hin.
  - apply IH.
    + intros nr' Hin. apply Hc. unfold creates_of in *. cbn [flat_map]. apply in_or_app. right. exact Hin.
    + destruct (Hc nr) as [C1 C2]; [unfold creates_of; cbn [flat_map]; left; reflexivity|].
      intros x Hx. apply in_own in Hx. destruct Hx as [Hx Hox]. apply in_app_or in Hx.
      assert (Hcase : x = r \/ In x (l1 ++ l2)).
      { destruct Hx as [Hx|[Hx|Hx]]; [right; apply in_or_app; left; exact Hx | left; symmetry; exact Hx
                                       | right; apply in_or_app; right; exact Hx]. }
      destruct Hcase as [->|Hx'].
      * unfold faithful. rewrite B3, B4, B5, C1, C2. split; reflexivity.
      * apply Hinv. apply in_own. split; assumption.
  - apply IH; [exact Hc|]. intros x Hx. apply in_own in Hx. destruct Hx as [Hx Hox].
    apply filter_In in Hx. destruct Hx as [Hx _]. apply Hinv. apply in_own. split; assumption.
Qed.

Lemma hstep_keeps_faithful : forall s s', hstep s s' -> all_faithful (fst s) (snd s) -> all_faithful (fst s') (snd s').
Proof.
  intros s s' H.
  destruct H as [e e' rss H1 H2 | e rss rss' HF | e rss f | e l1 l2 r Hown | e e' rss sn pl rss' Ho Hr Hs Hap H1 H2];
    cbn [fst snd]; intros Hinv x Hx.
  - apply Hinv. unfold rs_of_eds in *. rewrite H1, H2 in Hx. exact Hx.
  - apply in_own in Hx. destruct Hx as [Hx Hox].
    destruct (Forall2_In_r _ _ _ _ HF Hx) as [y [Hy [I1 [I2 [I3 [I4 I5]]]]]].
    assert (Hfy : faithful y).
    { apply Hinv. apply in_own. split; [exact Hy|]. unfold own in *. rewrite <- I1, <- I2. exact Hox. }
    unfold faithful in *. rewrite I3, I4, I5. exact Hfy.
  - apply in_own in Hx. destruct Hx as [Hx Hox]. apply filter_In in Hx. destruct Hx as [Hx _].
    apply Hinv. apply in_own. split; assumption.
  - apply in_own in Hx. destruct Hx as [Hx Hox]. apply in_app_or in Hx.
    destruct Hx as [Hx|[Hx|Hx]].
    + apply Hinv. apply in_own. split; [apply in_or_app; left; exact Hx | exact Hox].
    + subst x. rewrite Hown in Hox. discriminate.
    + apply Hinv. apply in_own. split; [apply in_or_app; right; exact Hx | exact Hox].
  - subst rss. assert (Hx' : In x (rs_of_eds e rss')) by (unfold rs_of_eds in *; rewrite H1, H2 in Hx; exact Hx).
    clear Hx. revert x Hx'. apply (applied_faithful e _ _ _ Hap); [|exact Hinv].
    intros nr Hin. destruct (create_only_if_none_matches sn pl nr Hs Hin) as [e0 [_ [_ [_ [_ [_ [Ha [Hg [Ht _]]]]]]]]].
    rewrite Ha, Hg, Ht. split; reflexivity.
Qed.

Theorem history_faithful : forall s s', clos_refl_trans _ hstep s s' ->
  all_faithful (fst s) (snd s) -> all_faithful (fst s') (snd s').
Proof.
  intros s s' H. induction H as [s s' H | s | s t u _ IH1 _ IH2]; intros Hinv.
  - apply (hstep_keeps_faithful s s' H Hinv).
  - exact Hinv.
  - apply IH2, IH1, Hinv.
Qed.

(** read out on the pods: in a store that satisfies the invariant, every pod a replica set of the ExtendedDaemonSet
    creates is stamped with the hash that replica set records in its annotation, which is the hash of the template
    it holds *)
Lemma pods_carry_recorded_hash : forall e rss sn ch pl nn np,
  all_faithful e rss -> In (sn_rs sn) rss -> own e (sn_rs sn) = true ->
  ers_sync sn ch = Ok pl -> In (nn, np) (pl_new_pods pl) ->
  r_hash_annot (sn_rs sn) = Some (np_hash np) /\ r_tmpl_hash (sn_rs sn) = np_hash np.
Proof.
  intros e rss sn ch pl nn np Hinv Hin Hown Hs Hp.
  destruct (created_pods_identity sn ch pl nn np Hs Hp) as [Hh _].
  destruct (Hinv (sn_rs sn)) as [F1 F2]; [apply in_own; split; assumption|].
  rewrite Hh. split; assumption.
Qed.
