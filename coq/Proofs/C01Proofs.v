(** * C01Proofs: at most one daemon pod per node, only on eligible nodes - at the level of a whole
    replica-set sync. *)
From Coq Require Import List ZArith NArith Bool Lia.
From EDS Require Import Model.Objects Model.Fitness Model.PodSpec Model.Backoff Model.Filter Model.Default
     Model.Limits Model.Rolling Model.Canary Model.ErsReconcile
     Proofs.Lists Proofs.RollingProofs Proofs.SyncInv Proofs.FilterProofs Proofs.CanaryProofs Proofs.C08Proofs.
Import ListNotations.
Open Scope Z_scope.

Lemma phase_eqb_true : forall a b, phase_eqb a b = true -> a = b.
Proof. intros a b; destruct a, b; simpl; congruence. Qed.

(** ** Lists *)
Lemma attach_settings_fst : forall ss ns l, attach_settings ss ns = Ok l -> map fst l = ns.
Proof.
  intros ss ns; induction ns as [|n r IH]; intros l H; simpl in H.
  - inversion H; reflexivity.
  - apply bind_ok in H. destruct H as [os [_ H]]. apply bind_ok in H. destruct H as [t [Ht H]].
    inversion H; subst. simpl. f_equal. apply IH; assumption.
Qed.

Lemma listed_nodes_sub : forall rs e nodes ss l, listed_nodes rs e nodes ss = Ok l -> incl (map fst l) nodes.
Proof.
  intros rs e nodes ss l H. unfold listed_nodes in H. destruct (r_selector rs) as [sel|].
  - destruct (lenient_selector_ok sel); [|discriminate]. apply attach_settings_fst in H. rewrite H.
    intros x Hx. apply filter_In in Hx. tauto.
  - apply attach_settings_fst in H. rewrite H. apply incl_refl.
Qed.

Lemma listed_pods_own : forall e pods ods l, listed_pods e pods ods = Ok l ->
  forall p, In p pods -> in_ns_with_eds_label e p = true -> In p l.
Proof.
  intros e pods ods l H p Hp Hl. unfold listed_pods in H.
  assert (Hown : In p (filter (in_ns_with_eds_label e) pods)) by (apply filter_In; split; assumption).
  destruct (an_old_ds (e_annots e)) as [d|]; [|inversion H; subst; assumption].
  destruct ods as [ds|]; [|inversion H; subst; assumption].
  destruct (d_selector ds) as [sel|].
  - destruct (lenient_selector_ok sel); [|discriminate]. inversion H; subst. apply in_or_app; left; assumption.
  - inversion H; subst. apply in_or_app; left; assumption.
Qed.

Lemma listed_pods_sub : forall e pods ods l, listed_pods e pods ods = Ok l -> incl l pods.
Proof.
  intros e pods ods l H. unfold listed_pods in H.
  assert (A : incl (filter (in_ns_with_eds_label e) pods) pods) by (intros x Hx; apply filter_In in Hx; tauto).
  destruct (an_old_ds (e_annots e)) as [d|]; [|inversion H; subst; assumption].
  destruct ods as [ds|]; [|inversion H; subst; assumption].
  destruct (d_selector ds) as [sel|].
  - destruct (lenient_selector_ok sel); [|discriminate]. inversion H; subst.
    apply incl_app; [assumption|]. intros x Hx. apply filter_In in Hx. destruct Hx as [Hx _]. apply filter_In in Hx. tauto.
  - inversion H; subst. apply incl_app; [assumption|]. intros x Hx. apply filter_In in Hx. destruct Hx as [Hx _].
    apply filter_In in Hx. tauto.
Qed.

(** a pod the ExtendedDaemonSet [e] may touch: in its namespace with its name label, or - during a
    declared migration - in its namespace and owned by the named old DaemonSet *)
Definition own_pod (e : eds) (p : pod) : Prop :=
  in_ns_with_eds_label e p = true \/
  (p_ns p = e_ns e /\ exists d, an_old_ds (e_annots e) = Some d /\ In d (p_ds_owners p)).

Lemma listed_pods_spec : forall e pods ods l, listed_pods e pods ods = Ok l ->
  forall p, In p l -> In p pods /\ own_pod e p.
Proof.
  intros e pods ods l H p Hp. split; [eapply listed_pods_sub; eassumption|]. unfold listed_pods in H.
  assert (A : forall q, In q (filter (in_ns_with_eds_label e) pods) -> own_pod e q).
  { intros q Hq. apply filter_In in Hq. left. tauto. }
  destruct (an_old_ds (e_annots e)) as [d|] eqn:Ed; [|inversion H; subst; auto].
  destruct ods as [ds|]; [|inversion H; subst; auto].
  assert (B : forall q (f : pod -> bool), (forall x, f x = true -> memN d (p_ds_owners x) = true) ->
              In q (filter f (filter (fun p0 => N.eqb (p_ns p0) (e_ns e)) pods)) -> own_pod e q).
  { intros q f Hf Hq. apply filter_In in Hq. destruct Hq as [Hq Hfq]. apply filter_In in Hq. destruct Hq as [_ Hns].
    right. split; [apply N.eqb_eq; assumption|]. exists d. split; [exact Ed|]. apply memN_In. apply Hf; assumption. }
  destruct (d_selector ds) as [sel|].
  - destruct (lenient_selector_ok sel); [|discriminate]. inversion H; subst. apply in_app_or in Hp.
    destruct Hp as [Hp|Hp]; [auto|]. eapply B; [|exact Hp]. intros x Hx. apply andb_true_iff in Hx. tauto.
  - inversion H; subst. apply in_app_or in Hp. destruct Hp as [Hp|Hp]; [auto|]. eapply B; [|exact Hp]. auto.
Qed.

(** ** Strategy shapes *)
Lemma strategy_canary_shape : forall sn cx so, strategy_canary sn cx = Ok so ->
  exists cp st0,
    manage_canary_status (sn_rs sn) (e_annots (cx_eds cx)) (st_canary (e_strategy (cx_eds cx))) (sn_now sn)
                         (cx_canary_nodes cx) (cx_listed cx) (cx_items cx) st0 = Ok cp /\
    so_create_nodes so = cp_creates cp /\ so_delete_nodes so = cp_deletes cp /\
    so_cleanup so = cx_cleanup cx /\ so_rolling so = None /\
    so_label_add so = fst (patch_upto (f_patch (sn_faults sn)) (canary_label_targets (sn_rs sn) cx)) /\
    so_label_del so = [].
Proof.
  intros sn cx so H. unfold strategy_canary in H. apply bind_ok in H. destruct H as [cp [Hcp H]].
  destruct (patch_upto _ _) as [adds add_failed] eqn:Ep. inversion H; subst; clear H. cbn.
  eexists; eexists. split; [exact Hcp|]. repeat split; auto.
Qed.

Lemma strategy_unknown_shape : forall sn cx so, strategy_unknown sn cx = Ok so ->
  so_create_nodes so = [] /\ so_delete_nodes so = [] /\ so_cleanup so = [] /\ so_label_add so = [] /\
  so_label_del so = [] /\ so_rolling so = None.
Proof. intros sn cx so H. unfold strategy_unknown in H. inversion H; subst; cbn. repeat split; reflexivity. Qed.

Lemma class_nopod : forall rs now i, is_class c_nopod rs now i = true -> ni_pod i = None.
Proof.
  intros rs now i H. unfold is_class, classify in H. destruct (ni_pod i) as [p|]; [|reflexivity].
  destruct (scheduler_issue now p); [discriminate|].
  destruct (pod_up_to_date rs (ni_node i) (ni_setting i) p); [discriminate|].
  destruct (pod_terminating p); [discriminate|]. destruct (pod_available p); discriminate.
Qed.

Lemma plan_candidates : forall rs ann ru now items rp,
  rolling_plan_of rs ann ru now items = Ok rp ->
  rp_create_candidates rp = map ni_name (filter (is_class c_nopod rs now) items) /\
  rp_del_unavailable rp = map ni_name (filter (is_class c_oldunavail rs now) items) /\
  rp_del_available rp = map ni_name (filter (is_class c_oldavail rs now) items).
Proof.
  intros rs ann ru now items rp H. unfold rolling_plan_of in H.
  repeat break_match_hyp H; inversion H; subst; cbn; repeat split; reflexivity.
Qed.

(** ** Every creation targets a planning entry without a pod *)
(** The witness: the context of the sync and the item of the node. *)
Record create_witness (sn : ers_snapshot) (nn : name) : Type := MkCW {
  cw_eds : eds; cw_freq : dur; cw_cx : sync_ctx; cw_item : nitem
}.

Theorem creates_have_empty_item : forall sn ch pl nn,
  ers_sync sn ch = Ok pl -> In nn (pl_creates pl) ->
  exists e freq cx i,
    sn_eds sn = Some e /\ build_ctx sn e freq = Ok cx /\ pl_role pl = cx_role cx /\
    In i (cx_items cx) /\ ni_name i = nn /\ ni_pod i = None /\
    (cx_role cx = RoleCanary -> In nn (cx_canary_nodes cx) /\ In nn (cx_listed cx)) /\
    (cx_role cx = RoleActive -> ~ In nn (cx_canary_nodes cx)) /\
    cx_role cx <> RoleUnknown.
Proof.
  intros sn ch pl nn H Hin. apply ers_sync_inv in H.
  destruct H as [rl st after err Hp | e freq cx so He Hd Hf Hg Hc Hs Hfin].
  - subst pl. contradiction.
  - pose proof (finish_sync_fields _ _ _ _ Hfin) as F.
    destruct F as [Frole [Froll [_ [_ [_ [_ [_ [Fcre Fadm]]]]]]]].
    exists e, freq, cx.
    destruct Fcre as [Fc|Fc]; [rewrite Fc in Hin; contradiction|].
    unfold strategy_of in Hs. destruct (cx_role cx) eqn:Er.
    + (* active *)
      destruct (strategy_active_shape _ _ _ _ Hs) as [[_ [_ Hcn]] | [rp [Hrp Hplan]]].
      * rewrite Fc, Hcn in Hin. contradiction.
      * destruct (Fadm rp Hrp) as [_ [Fe|Fa]]; [rewrite Fe in Hin; contradiction|].
        assert (WF : plan_wf rp).
        { eapply rolling_plan_wf; [|exact Hplan]. apply planning_items_NoDup. eapply ctx_items_NoDup; eassumption. }
        destruct (adm_create_facts rp (pl_creates pl) Fa) as [_ [Hincl _]].
        apply Hincl in Hin. destruct (plan_candidates _ _ _ _ _ _ Hplan) as [Hcc _]. rewrite Hcc in Hin.
        apply in_map_iff in Hin. destruct Hin as [i [Hi Hin]]. apply filter_In in Hin. destruct Hin as [Hin Hcl].
        unfold planning_items, remove_names in Hin. apply filter_In in Hin. destruct Hin as [Hin Hnc].
        exists i. repeat split; auto.
        -- eapply class_nopod; eassumption.
        -- discriminate.
        -- discriminate.
        -- intros _ Hcn. apply negb_true_iff in Hnc. apply memN_false in Hnc. rewrite Hi in Hnc. contradiction.
        -- discriminate.
    + (* canary *)
      destruct (strategy_canary_shape _ _ _ Hs) as [cp [st0 [Hcp [Hcn _]]]].
      rewrite Fc, Hcn in Hin. destruct (canary_plan_lists _ _ _ _ _ _ _ _ _ Hcp) as [[Hn|Hl] _].
      * rewrite Hn in Hin. contradiction.
      * rewrite Hl in Hin. apply filter_In in Hin. destruct Hin as [Hcnn Hch].
        apply creates_here_spec in Hch. destruct Hch as [Hlisted [i [Hi [Hname Hpod]]]].
        exists i. repeat split; auto; discriminate.
    + destruct (strategy_unknown_shape _ _ _ Hs) as [Hcn _]. rewrite Fc, Hcn in Hin. contradiction.
Qed.

(** C01, first sentence: a pod is created for a node only if, in the lists the sync read, the node
    exists, is fit for the pod (selector, required affinity, NoSchedule/NoExecute taints vs tolerations)
    and every listed pod of the ExtendedDaemonSet bound to it is Failed or Unknown. *)
Theorem create_only_if : forall sn ch pl nn,
  ers_sync sn ch = Ok pl -> In nn (pl_creates pl) ->
  exists e n,
    sn_eds sn = Some e /\ In n (sn_nodes sn) /\ n_name n = nn /\ fit (r_tmpl (sn_rs sn)) n = true /\
    forall p, In p (sn_pods sn) -> in_ns_with_eds_label e p = true -> node_of_pod p = Some nn ->
              p_phase p = Failed \/ p_phase p = PhUnknown.
Proof.
  intros sn ch pl nn H Hin.
  destruct (creates_have_empty_item _ _ _ _ H Hin) as [e [freq [cx [i [He [Hc [_ [Hi [Hname [Hpod _]]]]]]]]]].
  pose proof (build_ctx_fields _ _ _ _ Hc) as [_ [_ [_ [Hnodes [Hpods [_ [_ [Hfo Hit]]]]]]]].
  rewrite Hit in Hi. apply items_of_names in Hi. destruct Hi as [Hentry _]. rewrite Hname, Hpod, Hfo in Hentry.
  pose proof (by_node_entry _ _ _ _ _ _ _ _ Hentry) as [Helig _].
  apply eligible_spec in Helig. destruct Helig as [n [Hn [Hnn [_ Hfit]]]].
  exists e, n. repeat split; auto.
  - eapply listed_nodes_sub; eassumption.
  - intros p Hp Hl Hnode.
    assert (Hlp : In p (cx_pods cx)) by (eapply listed_pods_own; eassumption).
    destruct (empty_entry_means_no_live_pod _ _ _ _ _ _ _ Hentry p Hlp Hnode) as [Hf|Hu];
      [left | right]; apply phase_eqb_true; assumption.
Qed.

(** never two pods for one node in one sync; for the canary role under distinct canary nodes (C15) *)
Theorem create_nodup : forall sn ch pl,
  ers_sync sn ch = Ok pl ->
  (forall e c, sn_eds sn = Some e -> es_canary (e_status e) = Some c -> NoDup (cs_nodes c)) ->
  NoDup (pl_creates pl).
Proof.
  intros sn ch pl H Hcn. apply ers_sync_inv in H.
  destruct H as [rl st after err Hp | e freq cx so He Hd Hf Hg Hc Hs Hfin].
  - subst pl. constructor.
  - pose proof (finish_sync_fields _ _ _ _ Hfin) as F.
    destruct F as [_ [_ [_ [_ [_ [_ [_ [Fcre Fadm]]]]]]]].
    destruct Fcre as [Fc|Fc]; [rewrite Fc; constructor|].
    unfold strategy_of in Hs. destruct (cx_role cx) eqn:Er.
    + destruct (strategy_active_shape _ _ _ _ Hs) as [[_ [_ Hn]] | [rp [Hrp Hplan]]].
      * rewrite Fc, Hn. constructor.
      * destruct (Fadm rp Hrp) as [_ [Fe|Fa]]; [rewrite Fe; constructor|].
        unfold admissible_creates in Fa. rewrite !andb_true_iff in Fa. destruct Fa as [[Fa _] _].
        apply nodupNb_NoDup. exact Fa.
    + destruct (strategy_canary_shape _ _ _ Hs) as [cp [st0 [Hcp [Hn _]]]].
      rewrite Fc, Hn. destruct (canary_plan_lists _ _ _ _ _ _ _ _ _ Hcp) as [[Hnil|Hl] _]; [rewrite Hnil; constructor|].
      rewrite Hl. apply NoDup_filter.
      pose proof (build_ctx_fields _ _ _ _ Hc) as [_ [_ [_ [_ [_ [Hcan _]]]]]]. rewrite Hcan.
      destruct (es_canary (e_status e)) as [c|] eqn:Ec; [eapply Hcn; eassumption | constructor].
    + destruct (strategy_unknown_shape _ _ _ Hs) as [Hn _]. rewrite Fc, Hn. constructor.
Qed.

(** a replica set that is neither active nor canary creates and deletes nothing *)
Theorem unknown_role_inert : forall sn ch pl,
  ers_sync sn ch = Ok pl -> pl_role pl = RoleUnknown ->
  pl_creates pl = [] /\ pl_deletes pl = [] /\ pl_cleanup pl = [] /\ pl_label_add pl = [] /\ pl_label_del pl = [].
Proof.
  intros sn ch pl H Hr. apply ers_sync_inv in H.
  destruct H as [rl st after err Hp | e freq cx so He Hd Hf Hg Hc Hs Hfin].
  - subst pl. cbn. repeat split; reflexivity.
  - pose proof (finish_sync_fields _ _ _ _ Hfin) as F.
    destruct F as [Frole [_ [Fcl [Fla [Fld [Fupd [Fdel [Fcre _]]]]]]]].
    rewrite Frole in Hr. unfold strategy_of in Hs. rewrite Hr in Hs.
    destruct (strategy_unknown_shape _ _ _ Hs) as [A [B [C [D [E _]]]]].
    rewrite Fcl, Fla, Fld, C, D, E. repeat split; auto.
    + destruct Fcre as [F|F]; [assumption | rewrite F; assumption].
    + rewrite Fdel, Fupd, B. destruct (del_delayed_of sn cx so); reflexivity.
Qed.

(** ** Deletions: which pods, and never an Unknown-phase pod *)
Lemma pod_of_node_spec : forall items nn pn, In pn (pod_of_node items nn) ->
  exists i p, In i items /\ ni_name i = nn /\ ni_pod i = Some p /\ p_name p = pn.
Proof.
  intros items nn pn H. unfold pod_of_node in H. destruct (find_item items nn) as [i|] eqn:E; [|contradiction].
  destruct (ni_pod i) as [p|] eqn:Ep; [|contradiction]. destruct H as [<-|[]].
  apply find_item_some in E. destruct E. eauto 8.
Qed.

Theorem deleted_pods_are_listed_not_unknown : forall sn ch pl pn,
  ers_sync sn ch = Ok pl -> In pn (pl_deletes pl ++ pl_cleanup pl) ->
  exists p, In p (sn_pods sn) /\ p_name p = pn /\ p_phase p <> PhUnknown /\
            (forall e, sn_eds sn = Some e -> own_pod e p).
Proof.
  intros sn ch pl pn H Hin. apply ers_sync_inv in H.
  destruct H as [rl st after err Hp | e freq cx so He Hd Hf Hg Hc Hs Hfin].
  - subst pl. contradiction.
  - pose proof (finish_sync_fields _ _ _ _ Hfin) as F.
    destruct F as [_ [_ [Fcl [_ [_ [_ [Fdel _]]]]]]].
    pose proof (build_ctx_fields _ _ _ _ Hc) as [_ [_ [_ [_ [Hpods [_ [_ [Hfo Hit]]]]]]]].
    pose proof (listed_pods_sub _ _ _ _ Hpods) as Hsub.
    assert (Hne : forall p, phase_eqb (p_phase p) PhUnknown = false -> p_phase p <> PhUnknown).
    { intros p Hp Heq. rewrite Heq in Hp. discriminate. }
    apply in_app_or in Hin. destruct Hin as [Hin|Hin].
    + rewrite Fdel in Hin. apply in_flat_map in Hin. destruct Hin as [nn [_ Hin]].
      apply pod_of_node_spec in Hin. destruct Hin as [i [p [Hi [Hname [Hpod Hpn]]]]].
      rewrite Hit in Hi. apply items_of_names in Hi. destruct Hi as [Hentry _]. rewrite Hname, Hpod, Hfo in Hentry.
      destruct (kept_never_unknown _ _ _ _ _ _ _ _ Hentry) as [Hu [Hl _]].
      exists p. repeat split; auto.
      intros e0 He0. rewrite He in He0. inversion He0; subst e0. eapply listed_pods_spec; eassumption.
    + rewrite Fcl in Hin.
      assert (Hcx : In pn (cx_cleanup cx) \/ so_cleanup so = []).
      { unfold strategy_of in Hs. destruct (cx_role cx).
        - destruct (strategy_active_shape _ _ _ _ Hs) as [[Hn _] | [rp [Hrp _]]].
          + unfold strategy_active in Hs. destruct (rolling_plan_of _ _ _ _ _) eqn:Ep; try discriminate.
            * destruct (rolling_status_counts a) as [[[[d cur] rdy] av] ign]. inversion Hs; subst. cbn in Hn. discriminate.
            * inversion Hs; subst. right; reflexivity.
          + destruct (strategy_rolling _ ch _ _ _ ltac:(unfold strategy_of; rewrite ?Hs; eauto) Hrp) as [_ [_ [_ Hcl]]] || idtac.
            unfold strategy_active in Hs. destruct (rolling_plan_of _ _ _ _ _) eqn:Ep; try discriminate.
            * destruct (rolling_status_counts a) as [[[[d cur] rdy] av] ign]. inversion Hs; subst. cbn in Hin. left; assumption.
            * inversion Hs; subst. right; reflexivity.
        - destruct (strategy_canary_shape _ _ _ Hs) as [cp [st0 [_ [_ [_ [Hcl _]]]]]]. rewrite Hcl in Hin. left; assumption.
        - destruct (strategy_unknown_shape _ _ _ Hs) as [_ [_ [Hcl _]]]. right; assumption. }
      destruct Hcx as [Hcx|Hcx]; [|rewrite Hcx in Hin; contradiction].
      unfold cx_cleanup, cleanup_targets, pod_names in Hcx. apply in_map_iff in Hcx. destruct Hcx as [p [Hpn Hp]].
      apply filter_In in Hp. destruct Hp as [Hp _]. rewrite Hfo in Hp.
      destruct (cleanup_never_unknown _ _ _ _ _ _ _ Hp) as [Hu Hl]. exists p. repeat split; auto.
      intros e0 He0. rewrite He in He0. inversion He0; subst e0. eapply listed_pods_spec; eassumption.
Qed.

(** ** Clean-up: duplicates and pods on ineligible nodes *)
Lemma cleanup_is_ctx : forall sn ch pl e freq cx,
  ers_sync sn ch = Ok pl -> sn_eds sn = Some e -> is_defaulted e = true ->
  st_freq (e_strategy e) = Some freq -> sync_gate sn freq = None -> build_ctx sn e freq = Ok cx ->
  (pl_role pl = RoleCanary \/ pl_rolling pl <> None) -> pl_cleanup pl = cx_cleanup cx.
Proof.
  intros sn ch pl e freq cx H He Hd Hf Hg Hc Hrole.
  destruct (ers_sync_full _ _ _ _ _ _ H He Hd Hf Hg Hc) as [so [Hs Hfin]].
    pose proof (finish_sync_fields _ _ _ _ Hfin) as F. destruct F as [Frole [Froll [Fcl _]]].
    rewrite Fcl. pose proof Hs as Hs'. unfold strategy_of in Hs. destruct (cx_role cx) eqn:Er.
    + destruct Hrole as [Hr|Hr]; [rewrite Frole in Hr; discriminate|]. rewrite Froll in Hr.
      destruct (so_rolling so) as [rp|] eqn:Erp; [|contradiction].
      destruct (strategy_rolling _ _ _ _ _ Hs' Erp) as [_ [_ [_ Hcl]]]. exact Hcl.
    + destruct (strategy_canary_shape _ _ _ Hs) as [cp [st0 [_ [_ [_ [Hcl _]]]]]]. exact Hcl.
    + destruct Hrole as [Hr|Hr]; [rewrite Frole in Hr; discriminate|]. rewrite Froll in Hr.
      destruct (strategy_unknown_shape _ _ _ Hs) as [_ [_ [_ [_ [_ Hn]]]]]. contradiction.
Qed.

(** Duplicates: on a node holding several counted pods (neither Failed nor Unknown) the pod kept is a
    minimum of the order "scheduled first, then oldest, then by name", and every other one that is
    not already terminating is deleted by the clean-up. *)
Theorem duplicates_resolved : forall sn ch pl e freq cx nn k q,
  ers_sync sn ch = Ok pl -> sn_eds sn = Some e -> is_defaulted e = true ->
  st_freq (e_strategy e) = Some freq -> sync_gate sn freq = None -> build_ctx sn e freq = Ok cx ->
  (pl_role pl = RoleCanary \/ pl_rolling pl <> None) ->
  In (nn, Some k) (fo_by_node (cx_fo cx)) ->
  In q (cx_pods cx) -> node_of_pod q = Some nn -> p_phase q <> Failed -> p_phase q <> PhUnknown ->
  pod_lt q k = false /\
  (p_name q <> p_name k -> pod_terminating q = false -> In (p_name q) (pl_cleanup pl)).
Proof.
  intros sn ch pl e freq cx nn k q H He Hd Hf Hg Hc Hrole Hentry Hq Hnode Hnf Hnu.
  rewrite (cleanup_is_ctx _ _ _ _ _ _ H He Hd Hf Hg Hc Hrole).
  pose proof (build_ctx_fields _ _ _ _ Hc) as [_ [_ [_ [_ [_ [_ [_ [Hfo _]]]]]]]].
  rewrite Hfo in Hentry.
  assert (Helig : In nn (eligible_nodes (sn_rs sn) (map fst (cx_nodes cx)) (cx_ignore cx))).
  { pose proof (by_node_entry _ _ _ _ _ _ _ _ Hentry) as [A _]. exact A. }
  assert (Hu : phase_eqb (p_phase q) PhUnknown = false).
  { destruct (phase_eqb (p_phase q) PhUnknown) eqn:E; [apply phase_eqb_true in E; contradiction | reflexivity]. }
  assert (Hfl : phase_eqb (p_phase q) Failed = false).
  { destruct (phase_eqb (p_phase q) Failed) eqn:E; [apply phase_eqb_true in E; contradiction | reflexivity]. }
  assert (Hcounted : In (nn, q) (sc_counted (fold_left (scan_pod (sn_rs sn) (eligible_nodes (sn_rs sn) (map fst (cx_nodes cx)) (cx_ignore cx)) (cx_ignore cx) (sn_now sn)) (cx_pods cx) (MkScan [] [] [] (sn_backoff sn))))).
  { apply scan_counts_live; try assumption. apply memN_In; assumption. }
  destruct (kept_is_minimum _ _ _ _ _ _ _ _ Hentry) as [_ Hmin]. split; [apply Hmin; assumption|].
  intros Hname Hterm. unfold cx_cleanup, cleanup_targets, pod_names. apply in_map. apply filter_In.
  split; [|rewrite Hterm; reflexivity]. rewrite Hfo. eapply duplicates_cleaned; eassumption.
Qed.

(** Pods on nodes that stopped being eligible (node gone, selector/affinity no longer matching, an
    untolerated NoSchedule/NoExecute taint) are deleted - unless Unknown, already terminating, or on a
    node hidden from this role (canary nodes for the active replica set). *)
Theorem ineligible_deleted : forall sn ch pl e freq cx nn q,
  ers_sync sn ch = Ok pl -> sn_eds sn = Some e -> is_defaulted e = true ->
  st_freq (e_strategy e) = Some freq -> sync_gate sn freq = None -> build_ctx sn e freq = Ok cx ->
  (pl_role pl = RoleCanary \/ pl_rolling pl <> None) ->
  In q (cx_pods cx) -> node_of_pod q = Some nn ->
  (forall n, In n (map fst (cx_nodes cx)) -> n_name n = nn -> fit (r_tmpl (sn_rs sn)) n = false) ->
  ~ In nn (cx_ignore cx) -> p_phase q <> PhUnknown -> pod_terminating q = false ->
  In (p_name q) (pl_cleanup pl).
Proof.
  intros sn ch pl e freq cx nn q H He Hd Hf Hg Hc Hrole Hq Hnode Hunfit Hign Hnu Hterm.
  rewrite (cleanup_is_ctx _ _ _ _ _ _ H He Hd Hf Hg Hc Hrole).
  pose proof (build_ctx_fields _ _ _ _ Hc) as [_ [_ [_ [_ [_ [_ [_ [Hfo _]]]]]]]].
  assert (Hu : phase_eqb (p_phase q) PhUnknown = false).
  { destruct (phase_eqb (p_phase q) PhUnknown) eqn:E; [apply phase_eqb_true in E; contradiction | reflexivity]. }
  unfold cx_cleanup, cleanup_targets, pod_names. apply in_map. apply filter_In.
  split; [|rewrite Hterm; reflexivity]. rewrite Hfo. eapply ineligible_cleaned; try eassumption.
  intros Hel. apply eligible_spec in Hel. destruct Hel as [n [Hn [Hnn [_ Hfit]]]].
  rewrite (Hunfit n Hn Hnn) in Hfit. discriminate.
Qed.
