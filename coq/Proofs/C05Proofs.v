(** * C05Proofs: the promotion rule ([selectCurrentReplicaSet], [IsCanaryDeploymentEnded]). *)
From Coq Require Import List ZArith NArith Bool Lia.
From EDS Require Import Model.Objects Model.Fitness Model.PodSpec Model.Default Model.Canary Model.EdsLogic
     Model.EdsReconcile Proofs.Lists Proofs.EdsInv.
Import ListNotations.
Open Scope Z_scope.

Lemma tsub_sign : forall t u, (tsub t u < 0 <-> t - u < 0) /\ (tsub t u >= 0 <-> t - u >= 0).
Proof.
  intros t u. unfold tsub, max_dur, min_dur.
  destruct (t - u >? 9223372036854775807) eqn:E1.
  - apply Z.gtb_lt in E1. lia.
  - destruct (t - u <? -9223372036854775808) eqn:E2.
    + apply Z.ltb_lt in E2. lia.
    + lia.
Qed.

(** the recorded time of the last canary pod restart (zero time = none recorded) *)
Definition last_restart_of (rs : ers) : time :=
  match get_cond (rs_conds (r_status rs)) CT_PodRestarting with Some rc => c_update rc | None => zero_time end.

(** what "ended" means: the duration has elapsed since the replica set was created and, when
    noRestartsDuration is set and a restart is recorded, that much time has passed since the last one *)
Theorem ended_only_if : forall c rs now,
  fst (canary_ended (Some c) rs now) = true ->
  exists d, ca_duration c = Some d /\ r_created rs + d < now /\
    (ca_norestarts c = None \/ last_restart_of rs = zero_time \/
     exists nrd, ca_norestarts c = Some nrd /\ last_restart_of rs + nrd < now).
Proof.
  intros c rs now H. unfold canary_ended in H. destruct (ca_duration c) as [d|] eqn:Ed; [|discriminate].
  cbv zeta in H. fold (last_restart_of rs) in H.
  set (pnr := match ca_norestarts c with
              | Some nrd => if negb (is_zero_time (last_restart_of rs)) then tsub (tadd (last_restart_of rs) nrd) now else - d
              | None => - d end) in *.
  set (pending := tsub (tadd (r_created rs) d) now) in *.
  remember (if pnr >? pending then pnr else pending) as p eqn:Hp0.
  destruct (p >=? 0) eqn:Ep; [cbn in H; discriminate|].
  assert (Hp : pnr < 0 /\ pending < 0).
  { rewrite Z.geb_leb in Ep. apply Z.leb_gt in Ep. subst p. destruct (pnr >? pending) eqn:E.
    - apply Z.gtb_lt in E. lia.
    - rewrite Z.gtb_ltb in E. apply Z.ltb_ge in E. lia. }
  destruct Hp as [Hn Hpend]. unfold pending, tadd in Hpend. apply (proj1 (tsub_sign _ _)) in Hpend.
  exists d. split; [reflexivity|]. split; [lia|].
  unfold pnr in Hn. destruct (ca_norestarts c) as [nrd|] eqn:En; [|left; reflexivity].
  destruct (is_zero_time (last_restart_of rs)) eqn:Ez; cbn [negb] in Hn.
  - right; left. unfold is_zero_time in Ez. apply Z.eqb_eq in Ez. exact Ez.
  - unfold tadd in Hn. apply (proj1 (tsub_sign _ _)) in Hn. right; right. exists nrd. split; [reflexivity | lia].
Qed.

(** while time is missing the reconcile asks to be woken up exactly when it will have elapsed *)
Theorem not_ended_requeue : forall c rs now d,
  ca_duration c = Some d -> fst (canary_ended (Some c) rs now) = false ->
  snd (canary_ended (Some c) rs now) >= 0 /\
  (ca_norestarts c = None -> 0 < d -> r_created rs + d - now <= max_dur ->
   snd (canary_ended (Some c) rs now) = r_created rs + d - now).
Proof.
  intros c rs now d Hd H. unfold canary_ended in *. rewrite Hd in *. cbv zeta in *.
  match type of H with fst (if ?b then _ else _) = false => destruct b eqn:Ep; [|cbn in H; discriminate] end.
  cbn [snd]. rewrite Z.geb_leb in Ep. apply Z.leb_le in Ep. split; [lia|].
  intros Hn Hpos Hmax. rewrite Hn in *.
  assert (Hp : tsub (tadd (r_created rs) d) now >= 0).
  { destruct (- d >? tsub (tadd (r_created rs) d) now) eqn:E; [apply Z.gtb_lt in E; lia|]. lia. }
  assert (E : - d >? tsub (tadd (r_created rs) d) now = false) by (rewrite Z.gtb_ltb; apply Z.ltb_ge; lia).
  rewrite E. unfold tsub, tadd in *.
  destruct (r_created rs + d - now >? max_dur) eqn:E1; [apply Z.gtb_lt in E1; lia|].
  destruct (r_created rs + d - now <? min_dur) eqn:E2; [apply Z.ltb_lt in E2; unfold min_dur in *; lia | reflexivity].
Qed.

(** ** [select_current] *)
(** the result is one of the two candidates *)
Lemma select_current_cases : forall ann oc a u now,
  fst (select_current ann oc (Some a) u now) = u \/ fst (select_current ann oc (Some a) u now) = a.
Proof.
  intros. unfold select_current. destruct oc as [c|]; [|left; reflexivity].
  destruct (canary_ended (Some c) u now) as [ended rq].
  destruct (negb _ && _); [left | right]; reflexivity.
Qed.

(** C05, the "only if": with a canary strategy and an existing active replica set, the up-to-date one is
    selected only if it is not failed and either named by the canary-valid annotation or - not paused -
    ended by time. *)
Theorem promotion_only_if : forall ann c a u now,
  fst (select_current ann (Some c) (Some a) u now) = u -> r_name u <> r_name a ->
  canary_failed_rs (r_status u) = false /\
  (canary_valid ann (r_name u) = true \/
   (fst (canary_paused ann (Some (r_status u))) = false /\
    exists d, ca_duration c = Some d /\ r_created u + d < now /\
      (ca_norestarts c = None \/ last_restart_of u = zero_time \/
       exists nrd, ca_norestarts c = Some nrd /\ last_restart_of u + nrd < now))).
Proof.
  intros ann c a u now H Hne. unfold select_current in H.
  destruct (canary_ended (Some c) u now) as [ended rq] eqn:Ee.
  destruct (canary_failed_rs (r_status u)) eqn:Ef; cbn [negb andb] in H; [cbn in H; subst; congruence|].
  split; [reflexivity|].
  destruct (canary_valid ann (r_name u)) eqn:Ev; [left; reflexivity|]. right.
  cbn [orb] in H. destruct (fst (canary_paused ann (Some (r_status u)))) eqn:Ep; cbn [negb andb] in H;
    [cbn in H; subst; congruence|].
  split; [reflexivity|]. destruct ended; [|cbn in H; subst; congruence].
  apply ended_only_if. rewrite Ee. reflexivity.
Qed.

(** a canary marked failed is never promoted - not by time, not by the annotation *)
Theorem failed_never_promoted : forall ann c a u now,
  canary_failed_rs (r_status u) = true -> fst (select_current ann (Some c) (Some a) u now) = a.
Proof.
  intros ann c a u now Hf. unfold select_current. destruct (canary_ended (Some c) u now) as [ended rq].
  rewrite Hf. reflexivity.
Qed.

(** in manual validation mode (a validated spec has no duration) elapsed time alone never promotes *)
Theorem manual_never_by_time : forall ann c a u now,
  validate_canary c = Ok tt -> ca_mode c = VManual -> canary_valid ann (r_name u) = false ->
  fst (select_current ann (Some c) (Some a) u now) = a.
Proof.
  intros ann c a u now Hv Hm Hval.
  assert (Hd : ca_duration c = None).
  { unfold validate_canary in Hv. destruct (ca_duration c) eqn:E; [|reflexivity]. exfalso.
    destruct (ca_autofail c) as [af|]; [|discriminate]. destruct (ca_autopause c) as [ap|]; [|discriminate].
    destruct (af_enabled af) as [afe|]; [|discriminate].
    match type of Hv with bind ?s1 _ = _ => destruct s1 as [b1|?|?]; cbn [bind] in Hv; try discriminate end.
    destruct b1; [discriminate|].
    match type of Hv with bind ?s2 _ = _ => destruct s2 as [b2|?|?]; cbn [bind] in Hv; try discriminate end.
    destruct b2; [discriminate|]. rewrite Hm in Hv. cbn in Hv. discriminate. }
  unfold select_current, canary_ended. rewrite Hd, Hval. cbn. rewrite andb_false_r. cbn. rewrite andb_false_r. reflexivity.
Qed.

Theorem adopt_when_missing : forall ann oc u now, select_current ann oc None u now = (u, 0).
Proof. reflexivity. Qed.

Theorem no_canary_promotes : forall ann a u now, select_current ann None (Some a) u now = (u, 0).
Proof. reflexivity. Qed.

(** ** the whole reconcile: the active replica set a status write names is the rule's choice *)
Lemma manage_status_active : forall st ann u active failed paused reason,
  es_active (manage_status st ann u active failed paused reason) = es_active st.
Proof. intros. unfold manage_status. destruct failed, active; reflexivity. Qed.

Theorem sync_active_is_rule : forall sn pl st',
  eds_sync sn = Ok pl -> In st' (statuses_of (ep_writes pl)) ->
  exists e uptodate,
    es_obj sn = Some e /\
    let rss := rs_of_eds e (es_rss sn) in
    let active := last_such (fun r => N.eqb (r_name r) (es_active (e_status e))) rss in
    last_such (rs_up_to_date e) rss = Some uptodate /\
    es_active st' = r_name (fst (select_current (e_annots e) (st_canary (e_strategy e)) active uptodate (es_now sn))).
Proof.
  intros sn pl st' H Hin.
  destruct (written_status_is_result _ _ _ H Hin) as [e [uptodate [current [rq [Ho [Hd [Hu [Hs [h [ann' [ws Hres]]]]]]]]]]].
  exists e, uptodate. split; [assumption|]. split; [assumption|]. rewrite Hs. cbn [fst].
  inversion Hres as [Hnc | cspec st'' ann'' ws' Hcs pr failed active st1 st2 st3 Hact Hinact]; subst.
  - reflexivity.
  - assert (H3 : es_active st3 = r_name current) by (unfold st3; rewrite manage_status_active; reflexivity).
    case_eq active; intros Ea.
    + destruct (Hact Ea) as [_ [_ [rep [nb [_ [_ [[_ ->] | [_ [sel [en [_ ->]]]]]]]]]]]; [exact H3 | exact H3].
    + destruct (Hinact Ea) as [-> _]. exact H3.
Qed.

(** the defect D2 of the pinned tree as a witness on the pre-repair function *)
Definition d2_tmpl : tmpl := MkTmpl [] None [] [] [].
Definition d2_rs (nm : name) (created : time) (conds : list cond) : ers :=
  MkErs nm 1%N 1%N 1%N (Some nm) nm d2_tmpl nm None created false (MkErsStatus 0%N 0 0 0 0 0 conds).
Definition d2_canary : canary_spec :=
  MkCanary (Some (IntV 1)) (Some (600 * second)) None [] None None None VAuto.
Lemma failed_promoted_before_fix :
  exists ann c a u now, canary_failed_rs (r_status u) = true /\
    fst (select_current_before_fix ann (Some c) (Some a) u now) = u /\ r_name u <> r_name a.
Proof.
  exists (MkAnnots AAbsent AAbsent AAbsent None AAbsent None None), d2_canary,
         (d2_rs 2%N 0 []), (d2_rs 3%N 0 [MkCond CT_CanaryFailed CTrue 0 0 0%N 0%N]), (601 * second).
  split; [reflexivity|]. split; [vm_compute; reflexivity | discriminate].
Qed.

(** ** what "ended by time" reads *)
(** "ended by time" reads two things of the replica set and nothing else: its creation time and its restart record. Its
    other conditions - its own Canary condition in particular, however young - do not enter: a restart recorded before the
    replica set was reused by a later canary still holds the promotion back for noRestartsDuration. *)
Theorem ended_reads_only : forall oc rs rs' now,
  r_created rs = r_created rs' ->
  get_cond (rs_conds (r_status rs)) CT_PodRestarting = get_cond (rs_conds (r_status rs')) CT_PodRestarting ->
  canary_ended oc rs now = canary_ended oc rs' now.
Proof. intros oc rs rs' now Hc Hr. unfold canary_ended. rewrite Hc, Hr. reflexivity. Qed.

(** ... in particular: with a restart record younger than noRestartsDuration the canary has not ended, whatever else the
    status says *)
Theorem recent_restart_holds_back : forall c d nrd rc rs now,
  ca_duration c = Some d -> ca_norestarts c = Some nrd ->
  get_cond (rs_conds (r_status rs)) CT_PodRestarting = Some rc -> is_zero_time (c_update rc) = false ->
  now <= tadd (c_update rc) nrd ->
  fst (canary_ended (Some c) rs now) = false.
Proof.
  intros c d nrd rc rs now Hd Hn Hr Hz Hle. unfold canary_ended. rewrite Hd, Hn, Hr, Hz. cbn [negb].
  assert (Hx : 0 <= tsub (tadd (c_update rc) nrd) now).
  { unfold tsub, max_dur, min_dur. destruct (tadd (c_update rc) nrd - now >? 9223372036854775807); [lia|].
    destruct (tadd (c_update rc) nrd - now <? -9223372036854775808) eqn:E; [apply Z.ltb_lt in E; lia | lia]. }
  set (X := tsub (tadd (c_update rc) nrd) now) in *. set (Y := tsub (tadd (r_created rs) d) now).
  destruct (X >? Y) eqn:E.
  - assert (Hp : X >=? 0 = true) by (apply Z.geb_le; lia). rewrite Hp. reflexivity.
  - assert (Hp : Y >=? 0 = true) by (apply Z.geb_le; rewrite Z.gtb_ltb in E; apply Z.ltb_ge in E; lia).
    rewrite Hp. reflexivity.
Qed.
