(** * EdsInv: the shape of a successful ExtendedDaemonSet reconcile ([eds_sync]). *)
From Coq Require Import List ZArith NArith Bool Lia.
From EDS Require Import Model.Objects Model.Fitness Model.PodSpec Model.Default Model.Canary Model.EdsLogic
     Model.EdsReconcile Proofs.Lists.
Import ListNotations.
Open Scope Z_scope.

(** what [finish_update] can write *)
Lemma finish_update_writes : forall sn e st' h ann' ws pl,
  finish_update sn e st' h ann' ws = Ok pl ->
  ep_writes pl = [] \/ ep_writes pl = [WStatus st'] \/ (ws = true /\ ep_writes pl = [WStatus st'; WSpec h ann']).
Proof.
  intros sn e st' h ann' ws pl H. unfold finish_update in H.
  destruct (eds_status_eqb _ _ && _ && _); [inversion H; subst; auto|].
  destruct (es_fail_status sn); [inversion H; subst; auto|].
  destruct ws; inversion H; subst; auto.
Qed.

(** the status [updateInstanceWithCurrentRS] computes, as a relation: every status the reconcile can
    write is [target_status] of the inputs *)
Inductive update_result (sn : eds_snapshot) (e : eds) (current uptodate : ers) (sc sr sa : Z)
  : eds_status -> name -> eds_annots -> bool -> Prop :=
| UR_no_canary :
    st_canary (e_strategy e) = None ->
    update_result sn e current uptodate sc sr sa (base_status e current sc sr sa) (e_tmpl_hash e) (e_annots e) false
| UR_canary (c : canary_spec) (st' : eds_status) (ann' : eds_annots) (ws : bool) :
    st_canary (e_strategy e) = Some c ->
    let pr := canary_paused (e_annots e) (Some (r_status uptodate)) in
    let failed := canary_failed_rs (r_status uptodate) in
    let active := negb (failed || N.eqb (r_name current) (r_name uptodate)) in
    let st1 := base_status e current sc sr sa in
    let st2 := with_eds_conds st1 (canary_conditions (es_conds st1) (es_now sn) failed (fst pr) (snd pr)) in
    let st3 := manage_status st2 (e_annots e) uptodate active failed (fst pr) (snd pr) in
    (active = true ->
       ann' = e_annots e /\ ws = failed /\
       exists rep nb, ca_replicas c = Some rep /\ resolve_iop rep (es_desired (e_status e)) = Some nb /\
         let previous := match es_canary st3 with Some cs => cs_nodes cs | None => [] end in
         ((nb = zlen previous /\ st' = st3) \/
          (nb <> zlen previous /\
           exists sel enough, select_or_fail sn (r_tmpl uptodate) (ca_antiaffinity c) nb (canary_candidate_nodes sn c)
                                    (eds_pods sn e) previous = (sel, enough) /\ st' = with_canary_nodes st3 sel))) ->
    (active = false ->
       st' = st3 /\ ann' = fst (clear_canary_annots (e_annots e)) /\ ws = (failed || snd (clear_canary_annots (e_annots e)))) ->
    update_result sn e current uptodate sc sr sa st'
                  (if failed then r_tmpl_hash current else e_tmpl_hash e) ann' ws.

(** the plan of [updateInstanceWithCurrentRS] is what [finish_update] writes for that status; when the canary
    node selection came up short the same writes are planned and the error is reported *)
Lemma same_writes : forall pl pl0 : eds_plan, pl = pl0 \/ pl = set_error pl0 -> ep_writes pl = ep_writes pl0.
Proof. intros pl pl0 [->| ->]; reflexivity. Qed.

Theorem update_instance_inv : forall sn e current uptodate sc sr sa pl,
  update_instance sn e current uptodate sc sr sa = Ok pl ->
  exists st' h ann' ws pl0, update_result sn e current uptodate sc sr sa st' h ann' ws /\
                        finish_update sn e st' h ann' ws = Ok pl0 /\ (pl = pl0 \/ pl = set_error pl0).
Proof.
  intros sn e current uptodate sc sr sa pl H. unfold update_instance in H.
  destruct (st_canary (e_strategy e)) as [c|] eqn:Ec.
  - destruct (canary_paused (e_annots e) (Some (r_status uptodate))) as [paused reason] eqn:Epr.
    destruct (negb (canary_failed_rs (r_status uptodate) || N.eqb (r_name current) (r_name uptodate))) eqn:Eact.
    + destruct (ca_replicas c) as [rep|] eqn:Er; [|discriminate].
      destruct (resolve_iop rep (es_desired (e_status e))) as [nb|] eqn:En; [|discriminate].
      match type of H with (if ?b then _ else _) = _ => destruct b eqn:Eq end.
      * do 4 eexists. exists pl. split; [|split; [exact H | left; reflexivity]].
        eapply UR_canary with (c := c); try eassumption; rewrite Epr; cbn [fst snd]; rewrite Eact.
        -- intros _. repeat split; auto. exists rep, nb. repeat split; auto. left. apply Z.eqb_eq in Eq. auto.
        -- discriminate.
      * destruct (select_or_fail _ _ _ _ _ _ _) as [sel enough] eqn:Es.
        assert (Hres : update_result sn e current uptodate sc sr sa
                         (with_canary_nodes (manage_status (with_eds_conds (base_status e current sc sr sa)
                            (canary_conditions (es_conds (base_status e current sc sr sa)) (es_now sn)
                               (canary_failed_rs (r_status uptodate)) paused reason)) (e_annots e) uptodate true
                               (canary_failed_rs (r_status uptodate)) paused reason) sel)
                         (if canary_failed_rs (r_status uptodate) then r_tmpl_hash current else e_tmpl_hash e)
                         (e_annots e) (canary_failed_rs (r_status uptodate))).
        { eapply UR_canary with (c := c); try eassumption; rewrite Epr; cbn [fst snd]; rewrite Eact.
          -- intros _. repeat split; auto. exists rep, nb. repeat split; auto. right. apply Z.eqb_neq in Eq. split; [assumption|].
             exists sel, enough. split; [exact Es | reflexivity].
          -- discriminate. }
        destruct enough.
        -- do 4 eexists. exists pl. split; [exact Hres|]. split; [exact H | left; reflexivity].
        -- unfold with_error in H.
           match type of H with match ?f with _ => _ end = _ => destruct f as [pl0|k|k] eqn:Ef end; try discriminate.
           inversion H; subst pl. do 4 eexists. exists pl0. split; [exact Hres|]. split; [exact Ef | right; reflexivity].
    + destruct (clear_canary_annots (e_annots e)) as [ann' changed] eqn:Ecl.
      do 4 eexists. exists pl. split; [|split; [exact H | left; reflexivity]].
      eapply UR_canary with (c := c); try eassumption; rewrite Epr; cbn [fst snd]; rewrite Eact.
      * discriminate.
      * intros _. rewrite Ecl. cbn. auto.
  - do 4 eexists. exists pl. split; [|split; [exact H | left; reflexivity]]. apply UR_no_canary. assumption.
Qed.

(** ** the whole reconcile *)
Inductive eds_shape (sn : eds_snapshot) (pl : eds_plan) : Prop :=
| ES_absent : es_obj sn = None -> ep_writes pl = [] -> eds_shape sn pl
| ES_default (e : eds) :
    es_obj sn = Some e -> is_defaulted e = false ->
    ep_writes pl = [WDefault (default_eds (es_default_mode sn) e)] -> eds_shape sn pl
| ES_create (e : eds) :
    es_obj sn = Some e -> is_defaulted e = true -> validate (e_strategy e) = Ok tt ->
    last_such (rs_up_to_date e) (rs_of_eds e (es_rss sn)) = None ->
    ep_writes pl = [WCreateRs (MkNewRs (e_ns e) (e_name e) (e_name e) (e_tmpl_hash e) (e_tmpl_hash e)
                                       (e_tmpl_hash e) (e_selector e))] -> eds_shape sn pl
| ES_main (e : eds) (uptodate current : ers) (rq : dur) :
    es_obj sn = Some e -> is_defaulted e = true -> validate (e_strategy e) = Ok tt ->
    let rss := rs_of_eds e (es_rss sn) in
    let active := last_such (fun r => N.eqb (r_name r) (es_active (e_status e))) rss in
    last_such (rs_up_to_date e) rss = Some uptodate ->
    select_current (e_annots e) (st_canary (e_strategy e)) active uptodate (es_now sn) = (current, rq) ->
    let dels := rs_to_delete sn rss current uptodate in
    ((existsb (fun d => memN d (es_fail_rs_delete sn)) dels = true /\ ep_writes pl = map WDeleteRs dels) \/
     existsb (fun d => memN d (es_fail_rs_delete sn)) dels = false /\
     exists upl,
       update_instance sn e current uptodate
         (fold_left (fun acc r => acc + rs_current (r_status r)) rss 0)
         (fold_left (fun acc r => acc + rs_ready (r_status r)) rss 0)
         (fold_left (fun acc r => acc + rs_available (r_status r)) rss 0) = Ok upl /\
       ep_writes pl = map WDeleteRs dels ++ ep_writes upl) ->
    ep_requeue_after pl = merge_requeue_after 0 rq \/ ep_requeue_after pl = rq ->
    eds_shape sn pl.

Theorem eds_sync_inv : forall sn pl, eds_sync sn = Ok pl -> eds_shape sn pl.
Proof.
  intros sn pl H. unfold eds_sync in H.
  destruct (es_obj sn) as [e|] eqn:Eo; [|inversion H; subst; apply ES_absent; auto].
  destruct (is_defaulted e) eqn:Ed; cbn [negb] in H; [|inversion H; subst; eapply ES_default; eauto].
  destruct (validate (e_strategy e)) as [[]|c|c] eqn:Ev; try discriminate.
  destruct (es_fail_list_rs sn); [discriminate|].
  destruct (last_such (rs_up_to_date e) (rs_of_eds e (es_rss sn))) as [uptodate|] eqn:Eu;
    [|inversion H; subst; eapply ES_create; eauto].
  destruct (select_current _ _ _ uptodate (es_now sn)) as [current rq] eqn:Es.
  match type of H with (if ?b then _ else _) = _ => destruct b eqn:Efail end.
  - inversion H; subst. eapply ES_main; eauto.
  - destruct (update_instance _ _ _ _ _ _ _) as [upl|c|c] eqn:Eui; try discriminate.
    inversion H; subst. eapply ES_main; eauto.
Qed.

(** the statuses and object updates a reconcile writes *)
Definition statuses_of (ws : list eds_write) : list eds_status :=
  flat_map (fun w => match w with WStatus st => [st] | _ => [] end) ws.

Lemma statuses_of_deletes : forall dels, statuses_of (map WDeleteRs dels) = [].
Proof. induction dels; simpl; auto. Qed.

Lemma statuses_of_app : forall a b, statuses_of (a ++ b) = statuses_of a ++ statuses_of b.
Proof. intros; unfold statuses_of; apply flat_map_app. Qed.

(** every status written by the main path is the [update_result] status *)
Theorem written_status_is_result : forall sn pl st',
  eds_sync sn = Ok pl -> In st' (statuses_of (ep_writes pl)) ->
  exists e uptodate current rq,
    es_obj sn = Some e /\ is_defaulted e = true /\
    let rss := rs_of_eds e (es_rss sn) in
    let active := last_such (fun r => N.eqb (r_name r) (es_active (e_status e))) rss in
    last_such (rs_up_to_date e) rss = Some uptodate /\
    select_current (e_annots e) (st_canary (e_strategy e)) active uptodate (es_now sn) = (current, rq) /\
    exists h ann' ws,
      update_result sn e current uptodate
        (fold_left (fun acc r => acc + rs_current (r_status r)) rss 0)
        (fold_left (fun acc r => acc + rs_ready (r_status r)) rss 0)
        (fold_left (fun acc r => acc + rs_available (r_status r)) rss 0) st' h ann' ws.
Proof.
  intros sn pl st' H Hin. apply eds_sync_inv in H.
  destruct H as [_ Hw | e _ _ Hw | e _ _ _ _ Hw | e uptodate current rq Ho Hd Hv rss active Hu Hs dels Hw _].
  - rewrite Hw in Hin. contradiction.
  - rewrite Hw in Hin. contradiction.
  - rewrite Hw in Hin. contradiction.
  - destruct Hw as [[_ Hw] | [_ [upl [Hui Hw]]]].
    + rewrite Hw, statuses_of_deletes in Hin. contradiction.
    + rewrite Hw, statuses_of_app, statuses_of_deletes in Hin. cbn [app] in Hin.
      apply update_instance_inv in Hui. destruct Hui as [st'' [h [ann' [ws [pl0 [Hres [Hfin Hsame]]]]]]].
      apply same_writes in Hsame. rewrite Hsame in Hin.
      apply finish_update_writes in Hfin. 
      assert (st' = st'').
      { destruct Hfin as [F|[F|[_ F]]]; rewrite F in Hin; cbn in Hin; intuition. }
      subst st''. exists e, uptodate, current, rq. repeat split; auto. eauto.
Qed.
