(** * The Canary-Failed mark of a replica set is durable (C07, C05). *)
From Coq Require Import List ZArith NArith Bool Lia.
From EDS Require Import Model.Base Model.Objects Model.Fitness Model.PodSpec Model.Backoff Model.Filter Model.Default
     Model.Limits Model.Rolling Model.Canary Model.ErsReconcile Proofs.Lists Proofs.CondProofs Proofs.CanaryProofs Proofs.SyncInv
     Proofs.C06Proofs.
Import ListNotations.
Open Scope Z_scope.

Ltac other := rewrite is_cond_true_update_other by discriminate.

Lemma cleanup_conds_failed : forall cs now ps fl,
  is_cond_true (cleanup_conds cs now ps fl) CT_CanaryFailed = is_cond_true cs CT_CanaryFailed.
Proof. intros cs now ps fl. unfold cleanup_conds. destruct ps; [reflexivity|]. other. reflexivity. Qed.

(** the common tail of the sync leaves the mark as the strategy left it *)
Lemma finish_sync_failed : forall sn cx so pl st s0,
  finish_sync sn cx so = Ok pl -> so_status so = Some s0 -> pl_status pl = Some st ->
  canary_failed_rs st = canary_failed_rs s0.
Proof.
  intros sn cx so pl st s0 H Hs Hp. unfold finish_sync in H. rewrite Hs in H.
  match type of H with (if ?c then _ else _) = _ => destruct c; [|discriminate] end.
  inversion H; subst pl; clear H. cbn [pl_status] in Hp. inversion Hp; subst st; clear Hp.
  unfold canary_failed_rs, with_conds. cbn [rs_conds].
  do 2 other.
  match goal with |- context [if ?c then update_cond _ _ CT_PodCreation _ _ _ _ _ else _] => destruct c end;
  [other|];
  (match goal with |- context [if ?c then update_cond _ _ CT_PodDeletion _ _ _ _ _ else _] => destruct c end;
   [other|]); other; reflexivity.
Qed.

Lemma canary_evaluate_failed : forall oc unpaused now st0 paused0 reason0 check l conds,
  canary_evaluate oc unpaused now st0 true paused0 reason0 check = Ok (l, conds) ->
  is_cond_true (rs_conds st0) CT_CanaryFailed = true ->
  is_cond_true conds CT_CanaryFailed = true.
Proof.
  intros oc unpaused now st0 paused0 reason0 check l conds H H0. unfold canary_evaluate in H.
  destruct oc as [c|]; [|injection H as <- <-; exact H0].
  destruct (canary_cfg_of (Some c)) as [cfg|]; [|discriminate].
  rewrite andb_false_r in H. apply bind_ok' in H. destruct H as [l' [Hl H]]. injection H as <- <-.
  pose proof (loop_failed_iff _ _ _ _ _ _ _ _ Hl) as Hf. cbn [cl_failed orb] in Hf.
  other.
  match goal with |- context [if ?c then update_cond _ _ CT_PodRestarting _ _ _ _ _ else _] => destruct c end;
  [other|]; other; rewrite is_cond_true_update_same, Hf; reflexivity.
Qed.

(** The Canary-Failed mark is durable: a sync of a replica set that is not the active one never writes a status
    that lost it - whatever the pods, annotations, faults and the runtime's choices. *)
Theorem failed_mark_durable : forall sn ch pl st,
  ers_sync sn ch = Ok pl -> pl_role pl <> RoleActive ->
  canary_failed_rs (r_status (sn_rs sn)) = true ->
  pl_status pl = Some st -> canary_failed_rs st = true.
Proof.
  intros sn ch pl st H Hr Hf Hp. unfold ers_sync in H.
  destruct (N.eqb (r_owner (sn_rs sn)) no_name); [discriminate|].
  destruct (sn_eds sn) as [e|] eqn:Ee; [|discriminate].
  destruct (is_defaulted e) eqn:Ed; cbn [negb] in H.
  - unfold sync_body in H. destruct (st_freq (e_strategy e)) as [freq|] eqn:Ef; [|discriminate].
    destruct (sync_gate sn freq) as [d|] eqn:Eg.
    + inversion H; subst pl. cbn in Hp. discriminate.
    + destruct (f_list (sn_faults sn)); [discriminate|].
      apply bind_ok in H. destruct H as [cx [Hc H]]. apply bind_ok in H. destruct H as [so [Hs H]].
      destruct (finish_sync_fields _ _ _ _ H) as [Hrole _]. rewrite Hrole in Hr.
      unfold strategy_of in Hs. destruct (cx_role cx) eqn:Er; [congruence| |].
      * (* canary *)
        unfold strategy_canary in Hs. apply bind_ok in Hs. destruct Hs as [cp [Hm Hs]].
        destruct (patch_upto _ _) as [adds add_failed] in Hs. inversion Hs; subst so; clear Hs.
        rewrite (finish_sync_failed _ _ _ _ _ _ H eq_refl Hp).
        unfold canary_failed_rs, with_conds. cbn [rs_conds]. rewrite cleanup_conds_failed.
        apply manage_canary_inv in Hm. cbv zeta in Hm. destruct Hm as [l [conds4 [He [_ [_ [_ [_ Hst]]]]]]].
        rewrite Hst. cbn [rs_conds]. rewrite Hf in He.
        eapply canary_evaluate_failed; [exact He|].
        unfold with_conds. cbn [rs_conds]. do 2 other. exact Hf.
      * (* unknown *)
        unfold strategy_unknown in Hs. inversion Hs; subst so; clear Hs.
        rewrite (finish_sync_failed _ _ _ _ _ _ H eq_refl Hp).
        unfold canary_failed_rs. cbn [rs_conds]. do 2 other. exact Hf.
  - inversion H; subst pl. cbn in Hp. inversion Hp; subst st. unfold canary_failed_rs, with_conds. cbn [rs_conds].
    other. exact Hf.
Qed.
