(** * The failed-pod back-off is per replica set (C11: no decision state shared; C02: it only delays). *)
From Coq Require Import List ZArith NArith Bool Lia.
From EDS Require Import Model.Base Model.Objects Model.Fitness Model.PodSpec Model.Backoff Model.Filter.
Import ListNotations.
Open Scope Z_scope.

Lemma bo_key_eqb_refl : forall k, bo_key_eqb k k = true.
Proof. intros [a b]; unfold bo_key_eqb; cbn; rewrite !N.eqb_refl; reflexivity. Qed.
Lemma bo_key_eqb_sym : forall a b, bo_key_eqb a b = bo_key_eqb b a.
Proof. intros [a1 a2] [b1 b2]; unfold bo_key_eqb; cbn. rewrite (N.eqb_sym a1 b1), (N.eqb_sym a2 b2). reflexivity. Qed.
Lemma bo_key_eqb_trans_false : forall a b c, bo_key_eqb a b = true -> bo_key_eqb c a = false -> bo_key_eqb c b = false.
Proof.
  intros [a1 a2] [b1 b2] [c1 c2]; unfold bo_key_eqb; cbn. intros H1 H2.
  apply andb_true_iff in H1. destruct H1 as [E1 E2]. apply N.eqb_eq in E1, E2. subst. exact H2.
Qed.

Lemma bo_get_set_other : forall k k' e m, bo_key_eqb k' k = false -> bo_get k' (bo_set k e m) = bo_get k' m.
Proof.
  intros k k' e m H; induction m as [|[k0 e0] r IH]; cbn.
  - rewrite H. reflexivity.
  - destruct (bo_key_eqb k k0) eqn:E; cbn.
    + rewrite H. rewrite (bo_key_eqb_trans_false k k0 k' E H). reflexivity.
    + destruct (bo_key_eqb k' k0); [reflexivity | exact IH].
Qed.
Lemma bo_get_set_same : forall k e m, bo_get k (bo_set k e m) = Some e.
Proof.
  intros k e m; induction m as [|[k0 e0] r IH]; cbn.
  - rewrite bo_key_eqb_refl. reflexivity.
  - destruct (bo_key_eqb k k0) eqn:E; cbn; [rewrite bo_key_eqb_refl; reflexivity | rewrite E; exact IH].
Qed.

Lemma should_delete_other : forall k k' now m,
  bo_key_eqb k' k = false -> bo_get k' (snd (should_delete_failed k now m)) = bo_get k' m.
Proof.
  intros k k' now m H. unfold should_delete_failed. destruct (bo_in_backoff k now m); [reflexivity|]. cbn [snd].
  unfold bo_next. destruct (bo_get k m) as [e|]; [destruct (bo_expired now (bo_last e))|]; apply bo_get_set_other; exact H.
Qed.

(** what the decision reads: only the entry of its own key *)
Lemma should_delete_reads_own : forall k now m m',
  bo_get k m = bo_get k m' ->
  fst (should_delete_failed k now m) = fst (should_delete_failed k now m') /\
  bo_get k (snd (should_delete_failed k now m)) = bo_get k (snd (should_delete_failed k now m')).
Proof.
  intros k now m m' H. unfold should_delete_failed, bo_in_backoff, bo_next. rewrite <- H.
  destruct (bo_get k m) as [e|] eqn:E.
  - destruct (bo_expired now (bo_last e)); cbn [fst snd].
    + rewrite !bo_get_set_same. split; reflexivity.
    + destruct (tsub now (bo_last e) <? bo_backoff e); cbn [fst snd].
      * split; [reflexivity | congruence].
      * rewrite !bo_get_set_same. split; reflexivity.
  - cbn [fst snd]. rewrite !bo_get_set_same. split; reflexivity.
Qed.

Section Isolation.
Variables (rs : ers) (elig ignore : list name) (now : time).

(** the back-off of ANOTHER replica set is not written ... *)
Lemma scan_pod_other : forall s p k', fst k' <> r_name rs -> bo_get k' (sc_bo (scan_pod rs elig ignore now s p)) = bo_get k' (sc_bo s).
Proof.
  intros s p k' Hne. unfold scan_pod.
  destruct (node_of_pod p) as [nn|]; [|reflexivity].
  destruct (phase_eqb (p_phase p) PhUnknown); [reflexivity|].
  destruct (memN nn elig).
  - destruct (phase_eqb (p_phase p) Failed).
    + pose proof (should_delete_other (r_name rs, nn) k' now (sc_bo s)) as H.
      assert (Hk : bo_key_eqb k' (r_name rs, nn) = false).
      { unfold bo_key_eqb. cbn. apply andb_false_iff. left. apply N.eqb_neq. exact Hne. }
      specialize (H Hk). destruct (should_delete_failed (r_name rs, nn) now (sc_bo s)) as [del bo']. cbn [snd] in H.
      destruct del; cbn [sc_bo]; exact H.
    + reflexivity.
  - destruct (memN nn ignore); [reflexivity|]. destruct (pod_terminating p); reflexivity.
Qed.

Lemma scan_fold_other : forall pods s k', fst k' <> r_name rs ->
  bo_get k' (sc_bo (fold_left (scan_pod rs elig ignore now) pods s)) = bo_get k' (sc_bo s).
Proof.
  induction pods as [|p r IH]; intros s k' H; cbn [fold_left]; [reflexivity|]. rewrite IH by exact H. apply scan_pod_other. exact H.
Qed.

(** ... nor read: two memories that agree on this replica set's own keys give the same scan *)
Definition own_agree (m m' : backoff) : Prop := forall nn, bo_get (r_name rs, nn) m = bo_get (r_name rs, nn) m'.

Lemma scan_pod_reads_own : forall s s' p,
  sc_counted s = sc_counted s' -> sc_cleanup s = sc_cleanup s' -> sc_unsched s = sc_unsched s' -> own_agree (sc_bo s) (sc_bo s') ->
  let t := scan_pod rs elig ignore now s p in let t' := scan_pod rs elig ignore now s' p in
  sc_counted t = sc_counted t' /\ sc_cleanup t = sc_cleanup t' /\ sc_unsched t = sc_unsched t' /\ own_agree (sc_bo t) (sc_bo t').
Proof.
  intros s s' p H1 H2 H3 H4. cbv zeta. unfold scan_pod.
  destruct (node_of_pod p) as [nn|]; [|auto].
  destruct (phase_eqb (p_phase p) PhUnknown); [auto|].
  destruct (memN nn elig).
  - destruct (phase_eqb (p_phase p) Failed).
    + destruct (should_delete_reads_own (r_name rs, nn) now (sc_bo s) (sc_bo s') (H4 nn)) as [Hf Hb].
      assert (Hag : own_agree (snd (should_delete_failed (r_name rs, nn) now (sc_bo s)))
                              (snd (should_delete_failed (r_name rs, nn) now (sc_bo s')))).
      { intro n2. destruct (N.eq_dec n2 nn) as [->|Hne]; [exact Hb|].
        rewrite !should_delete_other; [apply H4 | |];
          unfold bo_key_eqb; cbn; apply andb_false_iff; right; apply N.eqb_neq; exact Hne. }
      destruct (should_delete_failed (r_name rs, nn) now (sc_bo s)) as [del bo1].
      destruct (should_delete_failed (r_name rs, nn) now (sc_bo s')) as [del' bo2]. cbn [fst snd] in *. subst del'.
      destruct del; cbn [sc_counted sc_cleanup sc_unsched sc_bo]; rewrite ?H1, ?H2, ?H3; auto.
    + cbn [sc_counted sc_cleanup sc_unsched sc_bo]. rewrite ?H1, ?H2, ?H3. auto.
  - destruct (memN nn ignore); [auto|]. destruct (pod_terminating p); [auto|].
    cbn [sc_counted sc_cleanup sc_unsched sc_bo]. rewrite ?H1, ?H2, ?H3. auto.
Qed.

Lemma scan_fold_reads_own : forall pods s s',
  sc_counted s = sc_counted s' -> sc_cleanup s = sc_cleanup s' -> sc_unsched s = sc_unsched s' -> own_agree (sc_bo s) (sc_bo s') ->
  let t := fold_left (scan_pod rs elig ignore now) pods s in let t' := fold_left (scan_pod rs elig ignore now) pods s' in
  sc_counted t = sc_counted t' /\ sc_cleanup t = sc_cleanup t' /\ sc_unsched t = sc_unsched t' /\ own_agree (sc_bo t) (sc_bo t').
Proof.
  induction pods as [|p r IH]; intros s s' H1 H2 H3 H4; cbn [fold_left]; [auto|].
  destruct (scan_pod_reads_own s s' p H1 H2 H3 H4) as [A [B [C D]]]. apply IH; assumption.
Qed.
End Isolation.

(** ** The failed-pod back-off is per replica set.
    The sync of one replica set neither writes the back-off entries of another replica set ... *)
Theorem backoff_not_written_by_others : forall rs nodes pods ignore now bo k',
  fst k' <> r_name rs ->
  bo_get k' (fo_backoff (filter_and_map rs nodes pods ignore now bo)) = bo_get k' bo.
Proof.
  intros rs nodes pods ignore now bo k' H. unfold filter_and_map. cbn [fo_backoff].
  rewrite scan_fold_other by exact H. reflexivity.
Qed.

(** ... nor reads them: with two memories that agree on this replica set's own keys, what the sync keeps per node, cleans
    up and reports unscheduled is the same - a superseded replica set of the same ExtendedDaemonSet, reconciled first every
    time, cannot use up the back-off of the active one *)
Theorem backoff_not_read_from_others : forall rs nodes pods ignore now bo bo',
  (forall nn, bo_get (r_name rs, nn) bo = bo_get (r_name rs, nn) bo') ->
  let f := filter_and_map rs nodes pods ignore now bo in let f' := filter_and_map rs nodes pods ignore now bo' in
  fo_by_node f = fo_by_node f' /\ fo_cleanup f = fo_cleanup f' /\ fo_unscheduled f = fo_unscheduled f'.
Proof.
  intros rs nodes pods ignore now bo bo' H. cbv zeta. unfold filter_and_map.
  destruct (scan_fold_reads_own rs (eligible_nodes rs nodes ignore) ignore now pods (MkScan [] [] [] bo) (MkScan [] [] [] bo')
              eq_refl eq_refl eq_refl H) as [A [B [C _]]].
  cbn [fo_by_node fo_cleanup fo_unscheduled]. rewrite A, B, C. auto.
Qed.
