(** * C19Proofs: kubectl-eds commands change only what they document; the controller obeys them. *)
From Coq Require Import List ZArith NArith Bool Lia.
From EDS Require Import Model.Objects Model.Fitness Model.PodSpec Model.Canary Model.EdsLogic Model.Plugin
     Proofs.Lists Proofs.CondProofs.
Import ListNotations.
Open Scope Z_scope.

(** ** frame: which annotation keys a command may change *)
Definition same_but_canary_pause (a b : eds_annots) : Prop :=
  an_rolling_paused a = an_rolling_paused b /\ an_frozen a = an_frozen b /\
  an_canary_paused_reason a = an_canary_paused_reason b /\ an_canary_valid a = an_canary_valid b /\ an_old_ds a = an_old_ds b.
Definition same_but_valid (a b : eds_annots) : Prop :=
  an_rolling_paused a = an_rolling_paused b /\ an_frozen a = an_frozen b /\ an_canary_paused a = an_canary_paused b /\
  an_canary_paused_reason a = an_canary_paused_reason b /\ an_canary_unpaused a = an_canary_unpaused b /\ an_old_ds a = an_old_ds b.
Definition same_but_ru_paused (a b : eds_annots) : Prop :=
  an_frozen a = an_frozen b /\ an_canary_paused a = an_canary_paused b /\
  an_canary_paused_reason a = an_canary_paused_reason b /\ an_canary_unpaused a = an_canary_unpaused b /\
  an_canary_valid a = an_canary_valid b /\ an_old_ds a = an_old_ds b.
Definition same_but_frozen (a b : eds_annots) : Prop :=
  an_rolling_paused a = an_rolling_paused b /\ an_canary_paused a = an_canary_paused b /\
  an_canary_paused_reason a = an_canary_paused_reason b /\ an_canary_unpaused a = an_canary_unpaused b /\
  an_canary_valid a = an_canary_valid b /\ an_old_ds a = an_old_ds b.

Theorem frame : forall c e ex ann',
  run_cmd c (Some e) ex = PatchAnn ann' ->
  match c with
  | CanaryPause | CanaryUnpause => same_but_canary_pause (e_annots e) ann'
  | CanaryValidate => same_but_valid (e_annots e) ann'
  | RuPause | RuUnpause => same_but_ru_paused (e_annots e) ann'
  | Freeze | Unfreeze => same_but_frozen (e_annots e) ann'
  | CanaryFail => False
  end.
Proof.
  intros c e ex ann' H. unfold run_cmd in H.
  destruct c; destruct (es_canary (e_status e)) as [cs|]; try discriminate;
    try (destruct (negb _); try discriminate);
    try (destruct (an_canary_paused (e_annots e)); try discriminate);
    try (destruct (an_rolling_paused (e_annots e)); try discriminate);
    try (destruct (an_frozen (e_annots e)); try discriminate);
    try (destruct (option_eqb N.eqb _ _); try discriminate);
    try (destruct (ex _); try discriminate);
    inversion H; subst; cbn; repeat split; reflexivity.
Qed.

(** ** preconditions *)
Theorem canary_commands_need_active_canary : forall c e ex,
  es_canary (e_status e) = None ->
  match c with CanaryPause | CanaryUnpause | CanaryValidate | CanaryFail => run_cmd c (Some e) ex = Refused | _ => True end.
Proof. intros c e ex H. destruct c; cbn; try rewrite H; auto. Qed.

Theorem canary_pause_fail_need_strategy : forall c e ex,
  st_canary (e_strategy e) = None ->
  match c with CanaryPause | CanaryUnpause | CanaryFail => run_cmd c (Some e) ex = Refused | _ => True end.
Proof. intros c e ex H. destruct c; cbn; auto; rewrite H; destruct (es_canary (e_status e)); reflexivity. Qed.

Theorem rollout_commands_need_no_canary : forall c e ex cs,
  es_canary (e_status e) = Some cs ->
  match c with RuPause | RuUnpause | Freeze | Unfreeze => run_cmd c (Some e) ex = Refused | _ => True end.
Proof. intros c e ex cs H. destruct c; cbn; try rewrite H; auto. Qed.

Theorem already_in_state_refused : forall e ex,
  (an_canary_paused (e_annots e) = ATrue -> run_cmd CanaryPause (Some e) ex = Refused) /\
  (an_canary_paused (e_annots e) = AFalse -> run_cmd CanaryUnpause (Some e) ex = Refused) /\
  (an_rolling_paused (e_annots e) = ATrue -> run_cmd RuPause (Some e) ex = Refused) /\
  (an_rolling_paused (e_annots e) = AFalse \/ an_rolling_paused (e_annots e) = AAbsent -> run_cmd RuUnpause (Some e) ex = Refused) /\
  (an_frozen (e_annots e) = ATrue -> run_cmd Freeze (Some e) ex = Refused) /\
  (an_frozen (e_annots e) = AFalse \/ an_frozen (e_annots e) = AAbsent -> run_cmd Unfreeze (Some e) ex = Refused) /\
  (forall cs, es_canary (e_status e) = Some cs -> an_canary_valid (e_annots e) = Some (cs_rs cs) ->
              run_cmd CanaryValidate (Some e) ex = Refused).
Proof.
  intros e ex. repeat split; intros; cbn;
    destruct (es_canary (e_status e)) eqn:Ec; try reflexivity; try discriminate;
    try (destruct (negb _); try reflexivity);
    try (rewrite H; reflexivity);
    try (destruct H as [H | H]; rewrite H; reflexivity).
  inversion H; subst. rewrite H0. cbn. rewrite N.eqb_refl. reflexivity.
Qed.

(** ** obeyed: what the controller's readers see after a command *)
Theorem pause_is_seen : forall e ex ann' ost,
  run_cmd CanaryPause (Some e) ex = PatchAnn ann' ->
  fst (canary_paused ann' ost) = true /\ canary_unpaused ann' = false.
Proof.
  intros e ex ann' ost H. cbn in H. destruct (es_canary (e_status e)); [|discriminate].
  destruct (negb _); [discriminate|]. destruct (an_canary_paused (e_annots e)); try discriminate; inversion H; subst;
    unfold canary_paused, canary_unpaused; cbn; (split; [|reflexivity]);
    destruct ost as [st|]; try reflexivity; destruct (is_cond_true (rs_conds st) CT_CanaryPaused); reflexivity.
Qed.

Theorem unpause_is_seen : forall e ex ann',
  run_cmd CanaryUnpause (Some e) ex = PatchAnn ann' ->
  canary_unpaused ann' = true /\ an_canary_paused ann' = AFalse.
Proof.
  intros e ex ann' H. cbn in H. destruct (es_canary (e_status e)); [|discriminate].
  destruct (negb _); [discriminate|]. destruct (an_canary_paused (e_annots e)); try discriminate; inversion H; subst; split; reflexivity.
Qed.

(** validate promotes exactly the replica set that was the canary when the command ran - and not a later one *)
Theorem validate_names_the_canary : forall e ex ann' cs,
  run_cmd CanaryValidate (Some e) ex = PatchAnn ann' -> es_canary (e_status e) = Some cs ->
  forall n, canary_valid ann' n = N.eqb (cs_rs cs) n.
Proof.
  intros e ex ann' cs H Hc n. cbn in H. rewrite Hc in H. destruct (option_eqb N.eqb _ _); [discriminate|].
  inversion H; subst. unfold canary_valid; cbn. reflexivity.
Qed.

Corollary validate_promotes_only_that_one : forall e ex ann' cs c a u now,
  run_cmd CanaryValidate (Some e) ex = PatchAnn ann' -> es_canary (e_status e) = Some cs ->
  canary_failed_rs (r_status u) = false ->
  (r_name u = cs_rs cs -> fst (select_current ann' (Some c) (Some a) u now) = u) /\
  (r_name u <> cs_rs cs -> fst (canary_paused ann' (Some (r_status u))) = true \/ fst (canary_ended (Some c) u now) = false ->
   fst (select_current ann' (Some c) (Some a) u now) = a).
Proof.
  intros e ex ann' cs c a u now H Hc Hnf. pose proof (validate_names_the_canary _ _ _ _ H Hc (r_name u)) as Hv.
  unfold select_current. destruct (canary_ended (Some c) u now) as [ended rq]. rewrite Hnf, Hv. cbn [negb andb fst].
  split.
  - intros Hn. rewrite Hn, N.eqb_refl. reflexivity.
  - intros Hn Hor. assert (E : N.eqb (cs_rs cs) (r_name u) = false) by (apply N.eqb_neq; congruence). rewrite E. cbn [orb].
    destruct Hor as [Hp|He]; [rewrite Hp | cbn in He; rewrite He, andb_false_r]; reflexivity.
Qed.

(** fail: after the command the replica set reads as failed, whatever conditions it carried (repaired defect D13) *)
Theorem fail_is_seen : forall cs now, is_cond_true (fail_conds cs now) CT_CanaryFailed = true.
Proof. intros cs now. unfold fail_conds. rewrite is_cond_true_update_same. reflexivity. Qed.

(** ... and no condition of another type is touched *)
Theorem fail_frame : forall cs now t, t <> CT_CanaryFailed -> get_cond (fail_conds cs now) t = get_cond cs t.
Proof. intros cs now t H. unfold fail_conds. apply get_cond_update_other. exact H. Qed.

(** before the repair the entry was appended: an earlier Canary-Failed entry that is not True shadowed it (the first
    match wins) - the command reported success and no rollback followed *)
Theorem fail_shadowed_before_fix :
  exists cs now, is_cond_true (fail_conds_before_fix cs now) CT_CanaryFailed = false.
Proof. exists [MkCond CT_CanaryFailed CFalse 0 0 0%N 0%N], 5. reflexivity. Qed.

(** a command refuses only when its precondition does not hold or what it asks for is already in place: with an
    ExtendedDaemonSet to act on, a refusal implies - per command - no active canary / no canary strategy / already paused;
    nothing to unpause; already validated for this replica set; the canary replica set missing; a canary in progress /
    already paused (frozen); nothing to unpause (unfreeze) *)
Theorem refuses_only_when : forall c e rs_exists,
  run_cmd c (Some e) rs_exists = Refused ->
  let ann := e_annots e in
  let has_canary := match es_canary (e_status e) with Some _ => true | None => false end in
  let has_strategy := match st_canary (e_strategy e) with Some _ => true | None => false end in
  match c with
  | CanaryPause => has_canary = false \/ has_strategy = false \/ a3_true (an_canary_paused ann) = true
  | CanaryUnpause => has_canary = false \/ has_strategy = false \/ a3_true (an_canary_paused ann) = false
  | CanaryValidate => match es_canary (e_status e) with
                      | Some cs => an_canary_valid ann = Some (cs_rs cs)
                      | None => True end
  | CanaryFail => match es_canary (e_status e) with
                  | Some cs => has_strategy = false \/ rs_exists (cs_rs cs) = false
                  | None => True end
  | RuPause => has_canary = true \/ a3_true (an_rolling_paused ann) = true
  | RuUnpause => has_canary = true \/ a3_true (an_rolling_paused ann) = false
  | Freeze => has_canary = true \/ a3_true (an_frozen ann) = true
  | Unfreeze => has_canary = true \/ a3_true (an_frozen ann) = false
  end.
Proof.
  intros c e rs_exists H. cbv zeta. unfold run_cmd in H.
  destruct c.
  - destruct (es_canary (e_status e)) as [cs|]; [|left; reflexivity].
    destruct (st_canary (e_strategy e)); cbn [negb] in H; [|right; left; reflexivity].
    destruct (an_canary_paused (e_annots e)); try discriminate. right; right; reflexivity.
  - destruct (es_canary (e_status e)) as [cs|]; [|left; reflexivity].
    destruct (st_canary (e_strategy e)); cbn [negb] in H; [|right; left; reflexivity].
    destruct (an_canary_paused (e_annots e)); try discriminate. right; right; reflexivity.
  - destruct (es_canary (e_status e)) as [cs|]; [|exact I].
    destruct (option_eqb N.eqb (an_canary_valid (e_annots e)) (Some (cs_rs cs))) eqn:E; [|discriminate].
    destruct (an_canary_valid (e_annots e)) as [v|]; cbn in E; [|discriminate]. apply N.eqb_eq in E. subst. reflexivity.
  - destruct (es_canary (e_status e)) as [cs|]; [|exact I].
    destruct (st_canary (e_strategy e)); cbn [negb] in H; [|left; reflexivity].
    destruct (rs_exists (cs_rs cs)); [discriminate | right; reflexivity].
  - destruct (es_canary (e_status e)) as [cs|]; [left; reflexivity|].
    destruct (an_rolling_paused (e_annots e)); try discriminate. right; reflexivity.
  - destruct (es_canary (e_status e)) as [cs|]; [left; reflexivity|].
    destruct (an_rolling_paused (e_annots e)); try discriminate; right; reflexivity.
  - destruct (es_canary (e_status e)) as [cs|]; [left; reflexivity|].
    destruct (an_frozen (e_annots e)); try discriminate. right; reflexivity.
  - destruct (es_canary (e_status e)) as [cs|]; [left; reflexivity|].
    destruct (an_frozen (e_annots e)); try discriminate; right; reflexivity.
Qed.
