(** * The Active condition outside the active role (C09: where the slow-start ramp starts). *)
From Coq Require Import List ZArith NArith Bool Lia.
From EDS Require Import Model.Base Model.Objects Model.Fitness Model.PodSpec Model.Backoff Model.Filter Model.Default
     Model.Limits Model.Rolling Model.Canary Model.ErsReconcile Proofs.Lists Proofs.CondProofs Proofs.CanaryProofs Proofs.SyncInv
     Proofs.C06Proofs Proofs.FailedMark.
Import ListNotations.
Open Scope Z_scope.

Ltac other := rewrite is_cond_true_update_other by discriminate.

Lemma cleanup_conds_active : forall cs now ps fl,
  is_cond_true (cleanup_conds cs now ps fl) CT_Active = is_cond_true cs CT_Active.
Proof. intros cs now ps fl. unfold cleanup_conds. destruct ps; [reflexivity|]. other. reflexivity. Qed.

Lemma finish_sync_active : forall sn cx so pl st s0,
  finish_sync sn cx so = Ok pl -> so_status so = Some s0 -> pl_status pl = Some st ->
  is_cond_true (rs_conds st) CT_Active = is_cond_true (rs_conds s0) CT_Active.
Proof.
  intros sn cx so pl st s0 H Hs Hp. unfold finish_sync in H. rewrite Hs in H.
  match type of H with (if ?c then _ else _) = _ => destruct c; [|discriminate] end.
  inversion H; subst pl; clear H. cbn [pl_status] in Hp. inversion Hp; subst st; clear Hp.
  unfold with_conds. cbn [rs_conds].
  do 2 other.
  match goal with |- context [if ?c then update_cond _ _ CT_PodCreation _ _ _ _ _ else _] => destruct c end;
  [other|];
  (match goal with |- context [if ?c then update_cond _ _ CT_PodDeletion _ _ _ _ _ else _] => destruct c end;
   [other|]); other; reflexivity.
Qed.

Lemma canary_evaluate_active : forall oc unpaused now st0 f0 paused0 reason0 check l conds,
  canary_evaluate oc unpaused now st0 f0 paused0 reason0 check = Ok (l, conds) ->
  is_cond_true conds CT_Active = is_cond_true (rs_conds st0) CT_Active.
Proof.
  intros oc unpaused now st0 f0 paused0 reason0 check l conds H. unfold canary_evaluate in H.
  destruct oc as [c|]; [|injection H as <- <-; reflexivity].
  destruct (canary_cfg_of (Some c)) as [cfg|]; [|discriminate].
  destruct (unpaused && negb f0); apply bind_ok' in H; destruct H as [l' [Hl H]]; injection H as <- <-;
  other;
  (match goal with |- context [if ?c then update_cond _ _ CT_PodRestarting _ _ _ _ _ else _] => destruct c end;
   [other|]); do 2 other; reflexivity.
Qed.

(** "the time since its Active condition last became true": a sync of a replica set in another role than active (a canary,
    or no role at all: superseded) never writes a status whose Active condition is True - so when the replica set becomes
    active (again), the condition turns True at that moment and the ramp starts there *)
Theorem inactive_role_not_active : forall sn ch pl st e,
  ers_sync sn ch = Ok pl -> sn_eds sn = Some e -> is_defaulted e = true ->
  pl_role pl <> RoleActive -> pl_status pl = Some st ->
  is_cond_true (rs_conds st) CT_Active = false.
Proof.
  intros sn ch pl st e H He Hd Hr Hp. unfold ers_sync in H.
  destruct (N.eqb (r_owner (sn_rs sn)) no_name); [discriminate|].
  rewrite He, Hd in H. cbn [negb] in H.
  unfold sync_body in H. destruct (st_freq (e_strategy e)) as [freq|] eqn:Ef; [|discriminate].
  destruct (sync_gate sn freq) as [d|] eqn:Eg.
  - inversion H; subst pl. cbn in Hp. discriminate.
  - destruct (f_list (sn_faults sn)); [discriminate|].
    apply bind_ok in H. destruct H as [cx [Hc H]]. apply bind_ok in H. destruct H as [so [Hs H]].
    destruct (finish_sync_fields _ _ _ _ H) as [Hrole _]. rewrite Hrole in Hr.
    unfold strategy_of in Hs. destruct (cx_role cx) eqn:Er; [congruence| |].
    + unfold strategy_canary in Hs. apply bind_ok in Hs. destruct Hs as [cp [Hm Hs]].
      destruct (patch_upto _ _) as [adds add_failed] in Hs. inversion Hs; subst so; clear Hs.
      rewrite (finish_sync_active _ _ _ _ _ _ H eq_refl Hp).
      unfold with_conds. cbn [rs_conds]. rewrite cleanup_conds_active.
      apply manage_canary_inv in Hm. cbv zeta in Hm. destruct Hm as [l [conds4 [Hev [_ [_ [_ [_ Hst]]]]]]].
      rewrite Hst. cbn [rs_conds].
      rewrite (canary_evaluate_active _ _ _ _ _ _ _ _ _ _ Hev).
      unfold with_conds. cbn [rs_conds]. rewrite is_cond_true_update_same. reflexivity.
    + unfold strategy_unknown in Hs. inversion Hs; subst so; clear Hs.
      rewrite (finish_sync_active _ _ _ _ _ _ H eq_refl Hp).
      cbn [rs_conds]. rewrite is_cond_true_update_same. reflexivity.
Qed.

(** ... and a replica set whose stored Active condition is not True starts its ramp now *)
Theorem ramp_starts_at_activation : forall st now,
  is_cond_true (rs_conds st) CT_Active = false -> rolling_start st now = now.
Proof.
  intros st now H. unfold rolling_start, is_cond_true in *.
  destruct (get_cond (rs_conds st) CT_Active) as [c|]; [|reflexivity]. rewrite H. reflexivity.
Qed.
