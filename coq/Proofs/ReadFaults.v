(** * Failing reads: a List that fails never leads to a write decided on what was not read (C11, C15, C18). *)
From Coq Require Import List ZArith NArith Bool Lia.
From EDS Require Import Model.Base Model.Objects Model.Fitness Model.PodSpec Model.Backoff Model.Filter Model.Default
     Model.Limits Model.Rolling Model.Canary Model.ErsReconcile Model.EdsReconcile Proofs.Lists Proofs.SyncInv Proofs.EdsInv.
Import ListNotations.
Open Scope Z_scope.

(** a failing read never leads to a blind write: when a List of the sync fails, the sync touches no pod - it either
    returns before reading (gate closed, parent not defaulted) or ends with an error *)
Lemma ers_list_failure_touches_nothing : forall sn ch pl,
  f_list (sn_faults sn) = true -> ers_sync sn ch = Ok pl ->
  pl_creates pl = [] /\ pl_deletes pl = [] /\ pl_cleanup pl = [] /\ pl_label_add pl = [] /\ pl_label_del pl = [].
Proof.
  intros sn ch pl Hf H. unfold ers_sync in H.
  destruct (N.eqb (r_owner (sn_rs sn)) no_name); [discriminate|].
  destruct (sn_eds sn) as [e|]; [|discriminate].
  destruct (is_defaulted e); cbn [negb] in H.
  - unfold sync_body in H. destruct (st_freq (e_strategy e)) as [freq|]; [|discriminate].
    destruct (sync_gate sn freq); [injection H as <-; cbn; auto|].
    rewrite Hf in H. discriminate.
  - injection H as <-. cbn. auto.
Qed.

(** ... and an ExtendedDaemonSet reconcile that cannot list its replica sets writes nothing beyond the defaulting of an
    undefaulted object (which happens before the list is read) *)
Lemma eds_list_failure_writes_nothing : forall sn pl e,
  es_fail_list_rs sn = true -> es_obj sn = Some e -> is_defaulted e = true -> eds_sync sn = Ok pl -> False.
Proof.
  intros sn pl e Hf Ho Hd H. unfold eds_sync in H. rewrite Ho, Hd in H. cbn [negb] in H.
  destruct (validate (e_strategy e)) as [[]|k|k]; try discriminate. rewrite Hf in H. discriminate.
Qed.
