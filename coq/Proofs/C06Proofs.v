(** * C06Proofs: auto-fail and auto-pause fire exactly on their documented triggers. *)
From Coq Require Import List ZArith NArith Bool Lia.
From EDS Require Import Model.Objects Model.Fitness Model.PodSpec Model.Rolling Model.Canary
     Proofs.Lists Proofs.CondProofs Proofs.CanaryProofs.
Import ListNotations.
Open Scope Z_scope.

(** ** the documented triggers, written from the property text *)
Definition restart_count (p : pod) : Z := match highest_restart p with Ok (n, _) => n | _ => 0 end.

(** the two pod-independent auto-fail conditions *)
Definition restarts_span_exceeded (cfg : canary_cfg) (restart_cond : option cond) : bool :=
  match cc_af_restarts_dur cfg, restart_cond with
  | Some d, Some rc => tsub (c_update rc) (c_trans rc) >? d
  | _, _ => false
  end.
Definition canary_timed_out (cfg : canary_cfg) (now : time) (start_cond : option cond) : bool :=
  match start_cond, cc_af_timeout cfg with
  | Some sc, Some d => tsub now (c_trans sc) >? d
  | _, _ => false
  end.

Definition fail_trigger (cfg : canary_cfg) (now : time) (start_cond restart_cond : option cond) (p : pod) : bool :=
  cc_af_enabled cfg &&
  ((restart_count p >? cc_af_max cfg) || restarts_span_exceeded cfg restart_cond || canary_timed_out cfg now start_cond).

(** stuck in a start error (only after maxSlowStartDuration when that is set) or still creating its
    containers after maxSlowStartDuration *)
Definition stuck (cfg : canary_cfg) (now : time) (p : pod) : bool :=
  let start := match p_start p with Some s => s | None => 0 end in
  if fst (cannot_start p) then
    match cc_ap_slow cfg with Some slow => tafter now (tadd start slow) | None => true end
  else
    match cc_ap_slow cfg with
    | Some slow => cc_ap_enabled cfg && pending_create p && tafter now (tadd start slow)
    | None => false
    end.
Definition pause_trigger (cfg : canary_cfg) (now : time) (p : pod) : bool :=
  cc_ap_enabled cfg && (stuck cfg now p || (restart_count p >? cc_ap_max cfg)).

(** ** one step of the loop *)
Lemma step_characterised : forall cfg u now sc rc st p st',
  canary_pod_step cfg u now sc rc st p = Ok st' ->
  cl_failed st' = cl_failed st || fail_trigger cfg now sc rc p /\
  (cl_failed st' = false ->
   cl_paused st' = if u then false else cl_paused st || pause_trigger cfg now p).
Proof.
  intros cfg u now sc rc st p st' H. unfold canary_pod_step in H.
  unfold fail_trigger, pause_trigger, stuck, restart_count.
  destruct (highest_restart p) as [[rcount hreason]|c|c] eqn:Eh; cbn [bind] in H; try discriminate.
  apply bind_ok' in H. destruct H as [nr [_ H]].
  destruct (cannot_start p) as [cs0 csr0] eqn:Ecs. cbn [fst].
  apply bind_ok' in H. destruct H as [[[cannot creason] cspod] [Hslow H]].
  (* the slow-start branch computes [stuck] *)
  assert (Hstuck : cannot = (if cs0 then match cc_ap_slow cfg with Some slow => tafter now (tadd (match p_start p with Some s => s | None => 0 end) slow) | None => true end
                             else match cc_ap_slow cfg with
                                  | Some slow => cc_ap_enabled cfg && pending_create p && tafter now (tadd (match p_start p with Some s => s | None => 0 end) slow)
                                  | None => false end)).
  { destruct cs0, (cc_ap_slow cfg) as [slow|]; cbn in Hslow.
    - destruct (p_start p) as [stt|]; [|discriminate].
      destruct (tafter now (tadd stt slow)); cbn in Hslow; inversion Hslow; reflexivity.
    - inversion Hslow; reflexivity.
    - destruct (cc_ap_enabled cfg && pending_create p) eqn:Epc.
      + destruct (p_start p) as [stt|]; [|discriminate].
        destruct (tafter now (tadd stt slow)); inversion Hslow; reflexivity.
      + inversion Hslow; subst. reflexivity.
    - inversion Hslow; reflexivity. }
  (* replace the stuck expression by the loop's own variable before case analysis *)
  rewrite <- Hstuck. clear Hstuck Hslow.
  Ltac fin H := inversion H; subst; cbn [cl_failed cl_paused]; cbn [andb orb];
                rewrite ?orb_true_r, ?orb_false_r, ?andb_true_r, ?andb_false_r; split; [reflexivity | try discriminate; try reflexivity].
  destruct (cl_failed st) eqn:Ef.
  - fin H.
  - cbn [orb].
    set (c2 := match cc_af_restarts_dur cfg, rc with Some d, Some r => tsub (c_update r) (c_trans r) >? d | _, _ => false end) in *.
    set (c3 := match sc, cc_af_timeout cfg with Some s, Some d => tsub now (c_trans s) >? d | _, _ => false end) in *.
    unfold restarts_span_exceeded, canary_timed_out. fold c2 c3.
    destruct (cc_af_enabled cfg) eqn:Eafe; cbn [andb] in *.
    + destruct (rcount >? cc_af_max cfg) eqn:E1; cbn [orb]; [fin H|].
      destruct c2 eqn:E2; cbn [orb]; [fin H|].
      destruct c3 eqn:E3; cbn [orb]; [fin H|].
      destruct u; [fin H|].
      destruct (cc_ap_enabled cfg) eqn:Eape; cbn [andb]; [|fin H].
      destruct cannot eqn:Ec; [fin H|].
      destruct (rcount >? cc_ap_max cfg) eqn:E4; fin H.
    + destruct u; [fin H|].
      destruct (cc_ap_enabled cfg) eqn:Eape; cbn [andb]; [|fin H].
      destruct cannot eqn:Ec; [fin H|].
      destruct (rcount >? cc_ap_max cfg) eqn:E4; fin H.
Qed.

(** ** the whole loop: for every vector of pods *)
Theorem loop_failed_iff : forall cfg u now sc rc ps st st',
  canary_pod_loop cfg u now sc rc st ps = Ok st' ->
  cl_failed st' = cl_failed st || existsb (fail_trigger cfg now sc rc) ps.
Proof.
  intros cfg u now sc rc ps; induction ps as [|p r IH]; intros st st' H; simpl in H.
  - inversion H; subst. cbn. rewrite orb_false_r. reflexivity.
  - apply bind_ok' in H. destruct H as [st1 [H1 H]]. rewrite (IH _ _ H).
    destruct (step_characterised _ _ _ _ _ _ _ _ H1) as [Hf _]. rewrite Hf. cbn [existsb]. rewrite orb_assoc. reflexivity.
Qed.

Theorem loop_paused_iff : forall cfg u now sc rc ps st st',
  canary_pod_loop cfg u now sc rc st ps = Ok st' -> cl_failed st' = false ->
  cl_paused st' = match ps with
                  | [] => cl_paused st
                  | _ => if u then false else cl_paused st || existsb (pause_trigger cfg now) ps
                  end.
Proof.
  intros cfg u now sc rc ps; induction ps as [|p r IH]; intros st st' H Hnf; simpl in H.
  - inversion H; subst. reflexivity.
  - apply bind_ok' in H. destruct H as [st1 [H1 H]].
    pose proof (loop_failed_iff _ _ _ _ _ _ _ _ H) as Hf. rewrite Hnf in Hf. symmetry in Hf. apply orb_false_iff in Hf.
    destruct Hf as [Hf1 _]. destruct (step_characterised _ _ _ _ _ _ _ _ H1) as [_ Hp]. specialize (Hp Hf1).
    rewrite (IH _ _ H Hnf). destruct r as [|q r'].
    + rewrite Hp. cbn [existsb]. rewrite orb_false_r. reflexivity.
    + rewrite Hp. destruct u; [reflexivity|]. cbn [existsb]. rewrite !orb_assoc. reflexivity.
Qed.

(** ** at the level of [manageCanaryStatus] *)
(** Canary-Failed after the sync: it was already failed, or auto-fail is enabled and a checked pod's
    highest restart count exceeds maxRestarts, or (some pod being checked) the span between first and
    latest observed restart exceeds maxRestartsDuration, or the canary lasted longer than canaryTimeout. *)
Theorem canary_failed_iff : forall rs ann c now cn listed items st0 cp cfg,
  manage_canary_status rs ann (Some c) now cn listed items st0 = Ok cp ->
  canary_cfg_of (Some c) = Some cfg ->
  cp_failed cp = canary_failed_rs (r_status rs) ||
                 existsb (fail_trigger cfg now (get_cond (rs_conds st0) CT_Canary) (get_cond (rs_conds st0) CT_PodRestarting))
                         (cn_check (canary_scan_of rs listed items cn)).
Proof.
  intros rs ann c now cn listed items st0 cp cfg H Hcfg. apply manage_canary_inv in H. cbv zeta in H.
  destruct H as [l [conds4 [He [_ [_ [Hf _]]]]]]. rewrite Hf.
  apply canary_evaluate_inv in He. destruct He as [[Hn _] | [_ [cfg' [Hc' Hl]]]]; [discriminate|].
  rewrite Hcfg in Hc'. inversion Hc'; subst cfg'. rewrite (loop_failed_iff _ _ _ _ _ _ _ _ Hl). reflexivity.
Qed.

(** Canary-Paused after the sync, when it is not failed: with checked pods, a manual unpause wins;
    otherwise it was paused (its own condition, else the annotation) or auto-pause is enabled and a
    checked pod exceeds maxRestarts or is stuck.  With no checked pod: unpause (if not failed) else as before. *)
Theorem canary_paused_iff : forall rs ann c now cn listed items st0 cp cfg,
  manage_canary_status rs ann (Some c) now cn listed items st0 = Ok cp ->
  canary_cfg_of (Some c) = Some cfg -> cp_failed cp = false ->
  let paused0 := fst (canary_paused ann (Some (r_status rs))) in
  let unpaused := canary_unpaused ann in
  let pods := cn_check (canary_scan_of rs listed items cn) in
  cp_paused cp = if unpaused then false else paused0 || existsb (pause_trigger cfg now) pods.
Proof.
  intros rs ann c now cn listed items st0 cp cfg H Hcfg Hnf paused0 unpaused pods.
  apply manage_canary_inv in H. cbv zeta in H.
  destruct H as [l [conds4 [He [_ [_ [Hf [Hp _]]]]]]]. rewrite Hp. rewrite Hf in Hnf.
  apply canary_evaluate_inv in He. destruct He as [[Hn _] | [_ [cfg' [Hc' Hl]]]]; [discriminate|].
  rewrite Hcfg in Hc'. inversion Hc'; subst cfg'.
  pose proof (loop_failed_iff _ _ _ _ _ _ _ _ Hl) as Hfl. rewrite Hnf in Hfl. cbn [cl_failed] in Hfl.
  symmetry in Hfl. apply orb_false_iff in Hfl. destruct Hfl as [Hf0 _].
  rewrite (loop_paused_iff _ _ _ _ _ _ _ _ Hl Hnf). cbn [cl_paused]. fold unpaused paused0 pods. rewrite Hf0. cbn [negb]. rewrite andb_true_r.
  destruct pods as [|q r]; destruct unpaused; cbn [existsb]; rewrite ?orb_false_r; reflexivity.
Qed.

(** disabled features never fire *)
Theorem autofail_disabled_never_fails : forall cfg now sc rc p, cc_af_enabled cfg = false -> fail_trigger cfg now sc rc p = false.
Proof. intros cfg now sc rc p H. unfold fail_trigger. rewrite H. reflexivity. Qed.
Theorem autopause_disabled_never_pauses : forall cfg now p, cc_ap_enabled cfg = false -> pause_trigger cfg now p = false.
Proof. intros cfg now p H. unfold pause_trigger. rewrite H. reflexivity. Qed.

(** ** the restart record (the PodRestarting condition) only moves forward *)
Lemma ct_restart_ne_failed : CT_PodRestarting <> CT_CanaryFailed. Proof. discriminate. Qed.
Lemma ct_restart_ne_paused : CT_PodRestarting <> CT_CanaryPaused. Proof. discriminate. Qed.
Lemma ct_restart_ne_cannot : CT_PodRestarting <> CT_PodCannotStart. Proof. discriminate. Qed.

Theorem restart_record_monotone : forall oc unpaused now st0 f0 p0 r0 check l conds b,
  canary_evaluate oc unpaused now st0 f0 p0 r0 check = Ok (l, conds) ->
  get_cond (rs_conds st0) CT_PodRestarting = Some b ->
  exists a, get_cond conds CT_PodRestarting = Some a /\
            c_update b <= c_update a /\ (c_status b = CTrue -> c_trans a = c_trans b).
Proof.
  intros oc unpaused now st0 f0 p0 r0 check l conds b H Hb. unfold canary_evaluate in H.
  destruct oc as [c|]; [|injection H as _ <-; exists b; split; [exact Hb|]; split; [lia | reflexivity]].
  destruct (canary_cfg_of (Some c)) as [cfg|]; [|discriminate].
  assert (Hgen : forall l' conds',
    conds' = update_cond
      (if negb (is_zero_time (cl_new_restart l')) &&
          tafter (cl_new_restart l') (match get_cond (rs_conds st0) CT_PodRestarting with Some c0 => c_update c0 | None => zero_time end)
       then update_cond (update_cond (update_cond (rs_conds st0) now CT_CanaryFailed (bool_to_cond (cl_failed l')) (cl_failed_reason l') no_name false true)
                           now CT_CanaryPaused (bool_to_cond (cl_paused l')) (cl_paused_reason l') no_name false true)
              (cl_new_restart l') CT_PodRestarting CTrue (cl_cs_reason l') M_OTHER false true
       else update_cond (update_cond (rs_conds st0) now CT_CanaryFailed (bool_to_cond (cl_failed l')) (cl_failed_reason l') no_name false true)
              now CT_CanaryPaused (bool_to_cond (cl_paused l')) (cl_paused_reason l') no_name false true)
      now CT_PodCannotStart (bool_to_cond (cl_cannot_start l')) (cl_cs_reason l')
      (if N.eqb (cl_cs_reason l') R_EMPTY then M_EMPTY else M_OTHER) false true ->
    exists a, get_cond conds' CT_PodRestarting = Some a /\ c_update b <= c_update a /\ (c_status b = CTrue -> c_trans a = c_trans b)).
  { intros l' conds' ->. rewrite get_cond_update_other by exact ct_restart_ne_cannot.
    rewrite Hb.
    assert (Hbase : get_cond (update_cond (update_cond (rs_conds st0) now CT_CanaryFailed (bool_to_cond (cl_failed l')) (cl_failed_reason l') no_name false true)
                                now CT_CanaryPaused (bool_to_cond (cl_paused l')) (cl_paused_reason l') no_name false true) CT_PodRestarting = Some b).
    { rewrite get_cond_update_other by exact ct_restart_ne_paused. rewrite get_cond_update_other by exact ct_restart_ne_failed. exact Hb. }
    destruct (negb (is_zero_time (cl_new_restart l')) && tafter (cl_new_restart l') (c_update b)) eqn:E.
    - apply andb_true_iff in E. destruct E as [_ E]. unfold tafter in E. apply Z.gtb_lt in E.
      unfold update_cond at 1. rewrite Hbase.
      eexists. split; [apply get_update_first; [exact Hbase | reflexivity]|]. cbn [c_update c_trans c_status].
      rewrite orb_true_r. split; [lia|]. intros Hs. rewrite Hs. cbn. reflexivity.
    - exists b. split; [exact Hbase|]. split; [lia | reflexivity]. }
  destruct (unpaused && negb f0); apply bind_ok' in H; destruct H as [l' [_ H]]; injection H as _ <-; apply (Hgen l'); reflexivity.
Qed.
