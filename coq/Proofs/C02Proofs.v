(** * C02Proofs: convergence of the rollout on the per-class abstraction; silence at the fixpoint. *)
From Coq Require Import List ZArith NArith Bool Lia Permutation.
From EDS Require Import Model.Base Model.Objects Model.Fitness Model.PodSpec Model.Limits Model.Rolling Model.Abstract
     Proofs.Lists Proofs.RollingProofs.
Import ListNotations.
Open Scope Z_scope.

Lemma round_wf : forall maxc mu s, a_wf s -> a_wf (a_round maxc mu s) /\ a_nodes (a_round maxc mu s) = a_nodes s.
Proof.
  intros maxc mu [m ur un orr onr t] H. unfold a_wf, a_round, a_sync, a_settle, a_limits, calc_create, calc_delete, a_nodes in *.
  cbn [a_missing a_up_ready a_up_notready a_old_ready a_old_notready a_terminating lp_nodes lp_pods lp_available lp_old_available lp_created lp_unresponsive lp_old_unavailable lp_max_creation lp_max_unavailable lp_max_unschedulable] in *. lia.
Qed.

(** In every fair round the measure strictly decreases while it is positive - provided at least one pod
    may be created and one may be unavailable (maxc >= 1, mu >= 1). *)
Theorem measure_decreases : forall maxc mu s,
  a_wf s -> 1 <= maxc -> 1 <= mu -> 0 < a_measure s ->
  a_measure (a_round maxc mu s) < a_measure s.
Proof.
  intros maxc mu [m ur un orr onr t] H Hc Hu Hpos.
  unfold a_wf, a_measure, a_round, a_sync, a_settle, a_limits, calc_create, calc_delete, a_nodes in *. cbn [a_missing a_up_ready a_up_notready a_old_ready a_old_notready a_terminating lp_nodes lp_pods lp_available lp_old_available lp_created lp_unresponsive lp_old_unavailable lp_max_creation lp_max_unavailable lp_max_unschedulable] in *. lia.
Qed.

Theorem measure_nonneg : forall s, a_wf s -> 0 <= a_measure s.
Proof. intros [m ur un orr onr t] H. unfold a_wf, a_measure in *; cbn [a_missing a_up_ready a_up_notready a_old_ready a_old_notready a_terminating lp_nodes lp_pods lp_available lp_old_available lp_created lp_unresponsive lp_old_unavailable lp_max_creation lp_max_unavailable lp_max_unschedulable] in *; lia. Qed.

Theorem measure_zero_converged : forall s, a_wf s -> a_measure s = 0 -> a_converged s.
Proof. intros [m ur un orr onr t] H H0. unfold a_wf, a_measure, a_converged in *; cbn [a_missing a_up_ready a_up_notready a_old_ready a_old_notready a_terminating lp_nodes lp_pods lp_available lp_old_available lp_created lp_unresponsive lp_old_unavailable lp_max_creation lp_max_unavailable lp_max_unschedulable] in *; lia. Qed.

(** a converged state is a fixpoint of the round: nothing is created, nothing is deleted *)
Theorem converged_fixpoint : forall maxc mu s, a_wf s -> 0 <= maxc -> a_converged s -> a_round maxc mu s = s.
Proof.
  intros maxc mu [m ur un orr onr t] H Hc Hcv. unfold a_wf, a_converged, a_round, a_sync, a_settle, a_limits, calc_create, calc_delete, a_nodes in *.
  cbn [a_missing a_up_ready a_up_notready a_old_ready a_old_notready a_terminating lp_nodes lp_pods lp_available lp_old_available lp_created lp_unresponsive lp_old_unavailable lp_max_creation lp_max_unavailable lp_max_unschedulable] in *. destruct Hcv as [-> [-> [-> [-> ->]]]]. f_equal; lia.
Qed.

(** after at most [measure] rounds (<= 3 per node) every targeted node runs a Ready up-to-date pod *)
Theorem converges : forall maxc mu n s,
  a_wf s -> 1 <= maxc -> 1 <= mu -> a_measure s <= Z.of_nat n -> a_converged (a_rounds n maxc mu s).
Proof.
  intros maxc mu n; induction n as [|k IH]; intros s Hwf Hc Hu Hm.
  - simpl. apply measure_zero_converged; [assumption|]. pose proof (measure_nonneg s Hwf). lia.
  - simpl. destruct (Z.eq_dec (a_measure s) 0) as [E|E].
    + (* already converged: the rounds keep it *)
      pose proof (measure_zero_converged s Hwf E) as Hcv.
      assert (Hfix : forall j, a_rounds j maxc mu s = s).
      { induction j; simpl; [reflexivity|]. rewrite (converged_fixpoint maxc mu s Hwf ltac:(lia) Hcv). assumption. }
      rewrite (converged_fixpoint maxc mu s Hwf ltac:(lia) Hcv), Hfix. assumption.
    + pose proof (measure_nonneg s Hwf). destruct (round_wf maxc mu s Hwf) as [Hwf' _].
      apply IH; try assumption. pose proof (measure_decreases maxc mu s Hwf Hc Hu ltac:(lia)). lia.
Qed.

Corollary bound_three_per_node : forall s, a_wf s -> a_measure s <= 3 * a_nodes s.
Proof. intros [m ur un orr onr t] H. unfold a_wf, a_measure, a_nodes in *; cbn [a_missing a_up_ready a_up_notready a_old_ready a_old_notready a_terminating lp_nodes lp_pods lp_available lp_old_available lp_created lp_unresponsive lp_old_unavailable lp_max_creation lp_max_unavailable lp_max_unschedulable] in *; lia. Qed.

(** each limit is necessary: with no creation slot, or no allowed unavailability, some state never moves *)
Theorem creation_limit_needed : exists s, a_wf s /\ 0 < a_measure s /\ a_round 0 1 s = s.
Proof. exists (MkA 1 0 0 0 0 0). unfold a_wf; cbn. repeat split; try lia. Qed.
Theorem unavailable_limit_needed : exists s, a_wf s /\ 0 < a_measure s /\ a_round 1 0 s = s.
Proof. exists (MkA 0 0 0 1 0 0). unfold a_wf; cbn. repeat split; try lia. Qed.

(** ** silence of the real plan at the fixpoint *)
(** when every planning item holds an up-to-date pod, the rolling plan has no creation candidate and no
    deletion candidate: every admissible choice is empty *)
Theorem plan_silent_when_up_to_date : forall rs ann ru now items rp,
  rolling_plan_of rs ann ru now items = Ok rp ->
  (forall i, In i items -> is_class c_uptodate rs now i = true) ->
  rp_create_candidates rp = [] /\ rp_del_unavailable rp = [] /\ rp_del_available rp = [] /\
  (forall obs, admissible_creates rp obs = true -> obs = []) /\
  (forall obs, admissible_deletes rp obs = true -> obs = []).
Proof.
  intros rs ann ru now items rp H Hall.
  assert (Hf : forall f, (forall c, c_uptodate c = true -> f c = false) -> filter (is_class f rs now) items = []).
  { intros f Hex. clear H. induction items as [|i r IH]; [reflexivity|]. simpl.
    assert (Hi : is_class c_uptodate rs now i = true) by (apply Hall; left; reflexivity).
    unfold is_class in *. rewrite (Hex _ Hi). apply IH. intros j Hj. apply Hall. right; assumption. }
  unfold rolling_plan_of in H.
  destruct (ru_max_sched_failure ru) as [msf|]; [|discriminate].
  destruct (resolve_iop msf (zlen items)) as [max_fail|]; [|discriminate].
  destruct (ru_max_unavailable ru) as [mu|]; [|discriminate].
  destruct (resolve_iop mu (zlen items)) as [max_unav|]; [|discriminate].
  destruct (ru_increase ru) as [inc|]; [|discriminate].
  destruct (resolve_iop inc (zlen items)); [|discriminate].
  destruct (ru_interval ru) as [interval|]; [|discriminate].
  destruct (ru_max_parallel ru) as [maxpar|]; [|discriminate].
  destruct (max_creation inc interval maxpar (zlen items) _ now) as [maxc|]; [|discriminate].
  injection H as <-. cbn [rp_create_candidates rp_del_unavailable rp_del_available].
  rewrite (Hf c_nopod), (Hf c_oldunavail), (Hf c_oldavail); try (intros [] Hc; simpl in *; congruence).
  cbn. repeat split; try reflexivity.
  - intros obs Ha. unfold admissible_creates in Ha. cbn in Ha. rewrite !andb_true_iff in Ha. destruct Ha as [[_ Hs] _].
    destruct obs as [|x r]; [reflexivity|]. cbn in Hs. discriminate.
  - intros obs Ha. unfold admissible_deletes in Ha. cbn in Ha. rewrite !andb_true_iff in Ha. destruct Ha as [[[_ Hs] _] _].
    destruct obs as [|x r]; [reflexivity|]. cbn in Hs. discriminate.
Qed.

(** ** projection of the real plan onto the abstraction *)
Lemma class_partition : forall rs now items,
  let c f := count_if (is_class f rs now) items in
  c c_nopod + c c_unresp + c c_ready + c c_up_notready + c c_oldavail + c c_oldunavail + c c_oldterm = zlen items.
Proof.
  intros rs now items. cbv beta zeta. induction items as [|i r IH]; [reflexivity|].
  rewrite !count_if_cons. unfold zlen in *. cbn [length]. rewrite Nat2Z.inj_succ.
  assert (E : forall f, is_class f rs now i = f (classify rs now i)) by reflexivity. rewrite !E.
  destruct (classify rs now i) as [| |[|]| | |];
    cbn [c_nopod c_unresp c_ready c_up_notready c_oldavail c_oldunavail c_oldterm c_haspod c_uptodate]; lia.
Qed.
Lemma haspod_split : forall rs now items,
  let c f := count_if (is_class f rs now) items in
  c c_haspod = c c_ready + c c_up_notready + c c_oldavail + c c_oldunavail + c c_oldterm.
Proof.
  intros rs now items. cbv beta zeta. induction items as [|i r IH]; [reflexivity|].
  rewrite !count_if_cons.
  assert (E : forall f, is_class f rs now i = f (classify rs now i)) by reflexivity. rewrite !E.
  destruct (classify rs now i) as [| |[|]| | |];
    cbn [c_nopod c_unresp c_ready c_up_notready c_oldavail c_oldunavail c_oldterm c_haspod c_uptodate]; lia.
Qed.
Lemma uptodate_split : forall rs now items,
  let c f := count_if (is_class f rs now) items in
  c c_uptodate = c c_ready + c c_up_notready.
Proof.
  intros rs now items. cbv beta zeta. induction items as [|i r IH]; [reflexivity|].
  rewrite !count_if_cons.
  assert (E : forall f, is_class f rs now i = f (classify rs now i)) by reflexivity. rewrite !E.
  destruct (classify rs now i) as [| |[|]| | |];
    cbn [c_nopod c_unresp c_ready c_up_notready c_oldavail c_oldunavail c_oldterm c_haspod c_uptodate]; lia.
Qed.

(** The budgets of the real plan are those of the abstract sync on the abstraction of the items: for planning
    items without a stuck pod and a rollout that is neither paused nor frozen, the number of creations and of
    update-deletions the plan allows are exactly [c] and [d] of [a_sync]. *)
Theorem plan_projects : forall rs ann ru now items rp,
  rolling_plan_of rs ann ru now items = Ok rp ->
  rp_paused rp = false -> rp_frozen rp = false ->
  count_if (is_class c_unresp rs now) items = 0 -> 0 <= rp_max_sched_failure rp ->
  let s := abs_of rs now items in
  let lp := a_limits s (rp_max_creation rp) (rp_max_unavailable rp) in
  a_nodes s = zlen items /\
  rp_nb_create rp = Z.min (calc_create lp) (a_missing s) /\
  rp_nb_delete rp = Z.min (calc_delete lp) (a_old_notready s + a_old_ready s) /\
  zlen (rp_create_candidates rp) = a_missing s /\
  zlen (rp_del_unavailable rp) = a_old_notready s /\ zlen (rp_del_available rp) = a_old_ready s.
Proof.
  intros rs ann ru now items rp H Hp Hf Hu Hmf.
  unfold rolling_plan_of in H.
  destruct (ru_max_sched_failure ru) as [msf|]; [|discriminate].
  destruct (resolve_iop msf (zlen items)) as [max_fail|]; [|discriminate].
  destruct (ru_max_unavailable ru) as [mu|]; [|discriminate].
  destruct (resolve_iop mu (zlen items)) as [max_unav|]; [|discriminate].
  destruct (ru_increase ru) as [inc|]; [|discriminate].
  destruct (resolve_iop inc (zlen items)); [|discriminate].
  destruct (ru_interval ru) as [interval|]; [|discriminate].
  destruct (ru_max_parallel ru) as [maxpar|]; [|discriminate].
  destruct (max_creation inc interval maxpar (zlen items) _ now) as [maxc|]; [|discriminate].
  injection H as <-. cbn [rp_paused rp_frozen rp_max_sched_failure rp_max_creation rp_max_unavailable
                          rp_nb_create rp_nb_delete rp_create_candidates rp_del_unavailable rp_del_available] in *.
  rewrite Hp, Hf. cbn [orb].
  pose proof (class_partition rs now items) as Hpart. cbv beta zeta in Hpart. rewrite Hu in Hpart.
  pose proof (haspod_split rs now items) as Hhp. cbv beta zeta in Hhp.
  pose proof (uptodate_split rs now items) as Hup. cbv beta zeta in Hup.
  assert (Hlen : forall f, zlen (map ni_name (filter (is_class f rs now) items)) = count_if (is_class f rs now) items).
  { intros f. unfold zlen, count_if. rewrite map_length. reflexivity. }
  rewrite !Hlen.
  unfold abs_of. cbn [a_missing a_old_notready a_old_ready].
  assert (Hn : a_nodes (abs_of rs now items) = zlen items).
  { unfold a_nodes, abs_of. cbn. lia. }
  split; [exact Hn|].
  unfold count_items. cbn [k_pods k_available k_old_available k_created k_unresponsive k_old_unavailable].
  unfold calc_create, calc_delete, a_limits.
  cbn [lp_nodes lp_pods lp_available lp_old_available lp_created lp_unresponsive lp_old_unavailable
       lp_max_creation lp_max_unavailable lp_max_unschedulable].
  fold (abs_of rs now items). rewrite Hn. unfold abs_of.
  cbn [a_up_ready a_up_notready a_old_ready a_old_notready a_terminating a_missing].
  rewrite Hu, Hhp.
  replace (Z.min 0 max_fail) with 0 by lia.
  repeat split; try reflexivity; f_equal; f_equal; try lia; f_equal; lia.
Qed.

(** ** one whole sync on the class counts *)
Definition b2z (b : bool) : Z := if b then 1 else 0.

Lemma count_forall2 : forall rs now creates deletes g items items',
  synced rs now creates deletes items items' ->
  count_if (is_class g rs now) items' =
  count_if (fun i => g (cls_after creates deletes (ni_name i) (classify rs now i))) items.
Proof.
  intros rs now creates deletes g items items' H. induction H as [|i i' l l' Hi Hl IH]; [reflexivity|].
  rewrite !count_if_cons, IH. unfold is_class. rewrite Hi. reflexivity.
Qed.

Lemma count_linear : forall {A} (f a b c d : A -> bool) l,
  (forall x, In x l -> b2z (f x) = b2z (a x) - b2z (b x) + b2z (c x) + b2z (d x)) ->
  count_if f l = count_if a l - count_if b l + count_if c l + count_if d l.
Proof.
  intros A f a b c d l; induction l as [|x r IH]; intros H; [reflexivity|].
  rewrite !count_if_cons. rewrite IH by (intros y Hy; apply H; right; assumption).
  pose proof (H x (or_introl eq_refl)) as Hx. unfold b2z in Hx.
  destruct (f x), (a x), (b x), (c x), (d x); lia.
Qed.

Lemma NoDup_map_filter : forall {A B} (h : A -> B) (f : A -> bool) l, NoDup (map h l) -> NoDup (map h (filter f l)).
Proof.
  intros A B h f l; induction l as [|x r IH]; intros H; [constructor|].
  cbn in H. inversion H as [|y ys Hn Hr]; subst. cbn. destruct (f x); cbn; [|apply IH; assumption].
  constructor; [|apply IH; assumption]. intros Hin. apply Hn.
  apply in_map_iff in Hin. destruct Hin as [z [Hz Hf]]. apply filter_In in Hf. apply in_map_iff. exists z. tauto.
Qed.

(** members of a duplicate-free set of names, counted over the items *)
Lemma count_names : forall (P : nitem -> bool) (S : list name) items,
  NoDup (map ni_name items) -> NoDup S ->
  count_if (fun i => P i && memN (ni_name i) S) items =
  count_if (fun x => memN x (map ni_name (filter P items))) S.
Proof.
  intros P S items Hnd HS. unfold count_if. f_equal.
  rewrite <- (map_length ni_name (filter (fun i => P i && memN (ni_name i) S) items)).
  apply Permutation_length, NoDup_Permutation.
  - apply NoDup_map_filter. assumption.
  - apply NoDup_filter. assumption.
  - intros x. rewrite in_map_iff, filter_In. split.
    + intros [i [Hx Hi]]. apply filter_In in Hi. destruct Hi as [Hi Hp]. apply andb_true_iff in Hp. destruct Hp as [Hp Hm].
      subst x. split; [apply memN_In; assumption|]. apply memN_In. apply in_map_iff. exists i. split; [reflexivity|].
      apply filter_In. split; assumption.
    + intros [Hx Hm]. apply memN_In in Hm. apply in_map_iff in Hm. destruct Hm as [i [Hn Hi]].
      apply filter_In in Hi. destruct Hi as [Hi Hp]. exists i. split; [assumption|]. apply filter_In. split; [assumption|].
      rewrite Hp. cbn. apply memN_In. subst x. assumption.
Qed.

Lemma unique_name : forall items i j, NoDup (map ni_name items) -> In i items -> In j items -> ni_name i = ni_name j -> i = j.
Proof.
  induction items as [|x r IH]; intros i j H Hi Hj He; [contradiction|].
  cbn in H. inversion H as [|y ys Hn Hr]; subst.
  destruct Hi as [->|Hi], Hj as [->|Hj]; try reflexivity.
  - exfalso. apply Hn. rewrite He. apply in_map. assumption.
  - exfalso. apply Hn. rewrite <- He. apply in_map. assumption.
  - apply IH; assumption.
Qed.

Section SyncProjects.
Variables (rs : ers) (ann : eds_annots) (ru : rolling) (now : time) (items items' : list nitem) (rp : rolling_plan).
Variables (creates deletes : list name).
Hypothesis Hnd : NoDup (map ni_name items).
Hypothesis Hplan : rolling_plan_of rs ann ru now items = Ok rp.
Hypothesis Hp : rp_paused rp = false.
Hypothesis Hf : rp_frozen rp = false.
Hypothesis Hu : count_if (is_class c_unresp rs now) items = 0.
Hypothesis Hmf : 0 <= rp_max_sched_failure rp.
Hypothesis Hac : admissible_creates rp creates = true.
Hypothesis Had : admissible_deletes rp deletes = true.
Hypothesis Hs : synced rs now creates deletes items items'.

Let WF : plan_wf rp := rolling_plan_wf rs ann ru now items rp Hnd Hplan.

Lemma plan_lists :
  rp_create_candidates rp = map ni_name (filter (is_class c_nopod rs now) items) /\
  rp_del_unavailable rp = map ni_name (filter (is_class c_oldunavail rs now) items) /\
  rp_del_available rp = map ni_name (filter (is_class c_oldavail rs now) items).
Proof.
  clear Hs Had Hac Hmf Hu Hf Hp WF. unfold rolling_plan_of in Hplan.
  destruct (ru_max_sched_failure ru) as [msf|]; [|discriminate].
  destruct (resolve_iop msf (zlen items)) as [max_fail|]; [|discriminate].
  destruct (ru_max_unavailable ru) as [mu|]; [|discriminate].
  destruct (resolve_iop mu (zlen items)) as [max_unav|]; [|discriminate].
  destruct (ru_increase ru) as [inc|]; [|discriminate].
  destruct (resolve_iop inc (zlen items)); [|discriminate].
  destruct (ru_interval ru) as [interval|]; [|discriminate].
  destruct (ru_max_parallel ru) as [maxpar|]; [|discriminate].
  destruct (max_creation inc interval maxpar (zlen items) _ now) as [maxc|]; [|discriminate].
  injection Hplan as <-. cbn. auto.
Qed.

(** a name on the creation list belongs to an item without a pod; one on the deletion list to an outdated pod *)
Lemma created_class : forall i, In i items -> memN (ni_name i) creates = true -> classify rs now i = NoPod.
Proof.
  intros i Hi Hm. destruct (adm_create_facts rp creates Hac) as [_ [Hincl _]].
  apply memN_In in Hm. apply Hincl in Hm. destruct plan_lists as [E _]. rewrite E in Hm.
  apply in_map_iff in Hm. destruct Hm as [j [Hn Hj]]. apply filter_In in Hj. destruct Hj as [Hj Hc].
  assert (j = i) by (eapply unique_name; eassumption). subst j.
  unfold is_class in Hc. destruct (classify rs now i); cbn in Hc; congruence.
Qed.
Lemma deleted_class : forall i, In i items -> memN (ni_name i) deletes = true ->
  classify rs now i = OldAvailable \/ classify rs now i = OldUnavailable.
Proof.
  intros i Hi Hm. destruct (adm_facts rp deletes Had) as [_ [Hincl _]].
  apply memN_In in Hm. apply Hincl in Hm. destruct plan_lists as [_ [E1 E2]]. rewrite E1, E2 in Hm.
  apply in_app_or in Hm. destruct Hm as [Hm|Hm]; apply in_map_iff in Hm; destruct Hm as [j [Hn Hj]];
    apply filter_In in Hj; destruct Hj as [Hj Hc];
    assert (j = i) by (eapply unique_name; eassumption); subst j;
    unfold is_class in Hc; destruct (classify rs now i); cbn in Hc; try congruence; auto.
Qed.

(** the count of a class after the sync *)
Lemma class_after : forall g,
  count_if (is_class g rs now) items' =
  count_if (is_class g rs now) items
  - count_if (fun i => g (classify rs now i) && (memN (ni_name i) creates || memN (ni_name i) deletes)) items
  + (if g (UpToDate false) then zlen creates else 0) + (if g OldTerminating then zlen deletes else 0).
Proof.
  intros g. rewrite (count_forall2 rs now creates deletes g items items' Hs).
  rewrite (count_linear _ (is_class g rs now)
             (fun i => g (classify rs now i) && (memN (ni_name i) creates || memN (ni_name i) deletes))
             (fun i => g (UpToDate false) && memN (ni_name i) creates)
             (fun i => g OldTerminating && memN (ni_name i) deletes)).
  - f_equal; [f_equal|].
    + destruct (g (UpToDate false)); cbn [andb].
      * destruct (adm_create_facts rp creates Hac) as [Hndc [Hincl _]]. destruct plan_lists as [E _].
        transitivity (count_if (fun x => memN x creates) (map ni_name items)).
        { unfold count_if. f_equal. clear. induction items as [|x r IH]; [reflexivity|]. cbn. destruct (memN (ni_name x) creates); cbn; rewrite IH; reflexivity. }
        apply count_members; try assumption. intros x Hx. apply Hincl in Hx. rewrite E in Hx.
        apply in_map_iff in Hx. destruct Hx as [j [Hn Hj]]. apply filter_In in Hj. apply in_map_iff. exists j. tauto.
      * apply count_if_zero. reflexivity.
    + destruct (g OldTerminating); cbn [andb].
      * destruct (adm_facts rp deletes Had) as [Hndd [Hincl _]]. destruct plan_lists as [_ [E1 E2]].
        transitivity (count_if (fun x => memN x deletes) (map ni_name items)).
        { unfold count_if. f_equal. clear. induction items as [|x r IH]; [reflexivity|]. cbn. destruct (memN (ni_name x) deletes); cbn; rewrite IH; reflexivity. }
        apply count_members; try assumption. intros x Hx. apply Hincl in Hx. rewrite E1, E2 in Hx.
        apply in_app_or in Hx. destruct Hx as [Hx|Hx]; apply in_map_iff in Hx; destruct Hx as [j [Hn Hj]];
          apply filter_In in Hj; apply in_map_iff; exists j; tauto.
      * apply count_if_zero. reflexivity.
  - intros i Hi. unfold cls_after, is_class.
    destruct (memN (ni_name i) creates) eqn:Ec.
    + rewrite (created_class i Hi Ec).
      destruct (memN (ni_name i) deletes) eqn:Ed.
      * destruct (deleted_class i Hi Ed) as [F|F]; rewrite (created_class i Hi Ec) in F; discriminate.
      * unfold b2z. destruct (g (UpToDate false)), (g NoPod), (g OldTerminating); cbn; lia.
    + destruct (memN (ni_name i) deletes) eqn:Ed.
      * unfold b2z. destruct (g (UpToDate false)), (g (classify rs now i)), (g OldTerminating); cbn; lia.
      * unfold b2z. destruct (g (UpToDate false)), (g (classify rs now i)), (g OldTerminating); cbn; lia.
Qed.

Lemma count_if_ext : forall {A} (f g : A -> bool) l, (forall x, In x l -> f x = g x) -> count_if f l = count_if g l.
Proof.
  intros A f g l; induction l as [|x r IH]; intros H; [reflexivity|].
  rewrite !count_if_cons, (H x (or_introl eq_refl)), IH; [reflexivity|]. intros y Hy; apply H; right; assumption.
Qed.

Lemma filter_true_all : forall {A} (l : list A), filter (fun _ => true) l = l.
Proof. induction l as [|x r IH]; cbn; [reflexivity | rewrite IH; reflexivity]. Qed.

Lemma moved_none : forall g, g NoPod = false -> g OldAvailable = false -> g OldUnavailable = false ->
  count_if (fun i => g (classify rs now i) && (memN (ni_name i) creates || memN (ni_name i) deletes)) items = 0.
Proof.
  intros g G1 G2 G3. apply count_if_zero. intros i Hi.
  destruct (memN (ni_name i) creates) eqn:Ec; [rewrite (created_class i Hi Ec), G1; reflexivity|].
  destruct (memN (ni_name i) deletes) eqn:Ed; [|apply andb_false_r].
  destruct (deleted_class i Hi Ed) as [->| ->]; [rewrite G2 | rewrite G3]; reflexivity.
Qed.

Lemma moved_nopod :
  count_if (fun i => c_nopod (classify rs now i) && (memN (ni_name i) creates || memN (ni_name i) deletes)) items = zlen creates.
Proof.
  rewrite (count_if_ext _ (fun i => is_class c_nopod rs now i && memN (ni_name i) creates)).
  - rewrite count_names by (try assumption; exact (proj1 (adm_create_facts rp creates Hac))).
    destruct plan_lists as [E _]. rewrite <- E.
    destruct (adm_create_facts rp creates Hac) as [Hndc [Hincl _]].
    rewrite (count_if_ext _ (fun _ => true)); [unfold count_if, zlen; rewrite filter_true_all; reflexivity|].
    intros x Hx. apply memN_In. apply Hincl. assumption.
  - intros i Hi. unfold is_class.
    destruct (memN (ni_name i) creates) eqn:Ec; [rewrite (created_class i Hi Ec); reflexivity|].
    destruct (memN (ni_name i) deletes) eqn:Ed; [|rewrite !andb_false_r; reflexivity].
    destruct (deleted_class i Hi Ed) as [->| ->]; reflexivity.
Qed.

Lemma moved_oldavail :
  count_if (fun i => c_oldavail (classify rs now i) && (memN (ni_name i) creates || memN (ni_name i) deletes)) items
  = avail_chosen rp deletes.
Proof.
  rewrite (count_if_ext _ (fun i => is_class c_oldavail rs now i && memN (ni_name i) deletes)).
  - rewrite count_names by (try assumption; exact (proj1 (adm_facts rp deletes Had))).
    destruct plan_lists as [_ [_ E]]. rewrite <- E. reflexivity.
  - intros i Hi. unfold is_class.
    destruct (memN (ni_name i) creates) eqn:Ec; [rewrite (created_class i Hi Ec); reflexivity|]. reflexivity.
Qed.

Lemma moved_oldunavail :
  count_if (fun i => c_oldunavail (classify rs now i) && (memN (ni_name i) creates || memN (ni_name i) deletes)) items
  = zlen deletes - avail_chosen rp deletes.
Proof.
  rewrite (count_if_ext _ (fun i => is_class c_oldunavail rs now i && memN (ni_name i) deletes)).
  - rewrite count_names by (try assumption; exact (proj1 (adm_facts rp deletes Had))).
    destruct plan_lists as [_ [E _]]. rewrite <- E.
    pose proof (chosen_split rp deletes WF Had) as Hsp. lia.
  - intros i Hi. unfold is_class.
    destruct (memN (ni_name i) creates) eqn:Ec; [rewrite (created_class i Hi Ec); reflexivity|]. reflexivity.
Qed.

(** One sync, on the class counts: the planning items after the calls of ANY admissible choice of the runtime were
    applied abstract to [a_sync] of the abstraction of the items before. *)
Theorem sync_projects :
  abs_of rs now items' = a_sync (abs_of rs now items) (rp_max_creation rp) (rp_max_unavailable rp).
Proof.
  destruct (plan_projects rs ann ru now items rp Hplan Hp Hf Hu Hmf) as [Hn [Hc [Hd [Lc [Lu La]]]]].
  destruct (adm_create_facts rp creates Hac) as [_ [_ Hlc]].
  destruct (adm_facts rp deletes Had) as [_ [_ [Hld _]]].
  pose proof (avail_chosen_value rp deletes WF Had) as Hav. rewrite Lu in Hav.
  unfold a_sync. rewrite <- Hc, <- Hd, <- Hlc, <- Hld.
  unfold abs_of at 1. rewrite !class_after.
  rewrite moved_nopod, moved_oldavail, moved_oldunavail.
  rewrite (moved_none c_ready), (moved_none c_up_notready), (moved_none c_oldterm) by reflexivity.
  cbn [c_nopod c_ready c_up_notready c_oldavail c_oldunavail c_oldterm].
  unfold abs_of. cbn [a_missing a_up_ready a_up_notready a_old_ready a_old_notready a_terminating].
  unfold abs_of in Hav. cbn [a_old_notready] in Hav.
  rewrite Hld in *.
  f_equal; try lia.
  - destruct (rp_nb_delete rp <=? count_if (is_class c_oldunavail rs now) items) eqn:E;
      [apply Z.leb_le in E | apply Z.leb_gt in E]; lia.
  - destruct (rp_nb_delete rp <=? count_if (is_class c_oldunavail rs now) items) eqn:E;
      [apply Z.leb_le in E | apply Z.leb_gt in E]; lia.
Qed.
End SyncProjects.
