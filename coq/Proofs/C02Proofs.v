(** * C02Proofs: convergence of the rollout on the per-class abstraction; silence at the fixpoint. *)
From Coq Require Import List ZArith NArith Bool Lia.
From EDS Require Import Model.Base Model.Objects Model.Fitness Model.PodSpec Model.Limits Model.Rolling Model.Abstract
     Proofs.Lists Proofs.RollingProofs.
Import ListNotations.
Open Scope Z_scope.

Lemma round_wf : forall maxc mu s, a_wf s -> a_wf (a_round maxc mu s) /\ a_nodes (a_round maxc mu s) = a_nodes s.
Proof.
  intros maxc mu [m ur un orr onr t] H. unfold a_wf, a_round, a_sync, a_settle, a_limits, calc_create, calc_delete, a_nodes in *.
  cbn [a_missing a_up_ready a_up_notready a_old_ready a_old_notready a_terminating lp_nodes lp_pods lp_available lp_old_available lp_created lp_unresponsive lp_old_unavailable lp_max_creation lp_max_unavailable lp_max_unschedulable] in *. lia.
Qed.

(** In every fair round the measure strictly decreases while it is positive - provided at least one pod
    may be created and one may be unavailable (maxc >= 1, mu >= 1). *)
Theorem measure_decreases : forall maxc mu s,
  a_wf s -> 1 <= maxc -> 1 <= mu -> 0 < a_measure s ->
  a_measure (a_round maxc mu s) < a_measure s.
Proof.
  intros maxc mu [m ur un orr onr t] H Hc Hu Hpos.
  unfold a_wf, a_measure, a_round, a_sync, a_settle, a_limits, calc_create, calc_delete, a_nodes in *. cbn [a_missing a_up_ready a_up_notready a_old_ready a_old_notready a_terminating lp_nodes lp_pods lp_available lp_old_available lp_created lp_unresponsive lp_old_unavailable lp_max_creation lp_max_unavailable lp_max_unschedulable] in *. lia.
Qed.

Theorem measure_nonneg : forall s, a_wf s -> 0 <= a_measure s.
Proof. intros [m ur un orr onr t] H. unfold a_wf, a_measure in *; cbn [a_missing a_up_ready a_up_notready a_old_ready a_old_notready a_terminating lp_nodes lp_pods lp_available lp_old_available lp_created lp_unresponsive lp_old_unavailable lp_max_creation lp_max_unavailable lp_max_unschedulable] in *; lia. Qed.

Theorem measure_zero_converged : forall s, a_wf s -> a_measure s = 0 -> a_converged s.
Proof. intros [m ur un orr onr t] H H0. unfold a_wf, a_measure, a_converged in *; cbn [a_missing a_up_ready a_up_notready a_old_ready a_old_notready a_terminating lp_nodes lp_pods lp_available lp_old_available lp_created lp_unresponsive lp_old_unavailable lp_max_creation lp_max_unavailable lp_max_unschedulable] in *; lia. Qed.

(** a converged state is a fixpoint of the round: nothing is created, nothing is deleted *)
Theorem converged_fixpoint : forall maxc mu s, a_wf s -> 0 <= maxc -> a_converged s -> a_round maxc mu s = s.
Proof.
  intros maxc mu [m ur un orr onr t] H Hc Hcv. unfold a_wf, a_converged, a_round, a_sync, a_settle, a_limits, calc_create, calc_delete, a_nodes in *.
  cbn [a_missing a_up_ready a_up_notready a_old_ready a_old_notready a_terminating lp_nodes lp_pods lp_available lp_old_available lp_created lp_unresponsive lp_old_unavailable lp_max_creation lp_max_unavailable lp_max_unschedulable] in *. destruct Hcv as [-> [-> [-> [-> ->]]]]. f_equal; lia.
Qed.

(** after at most [measure] rounds (<= 3 per node) every targeted node runs a Ready up-to-date pod *)
Theorem converges : forall maxc mu n s,
  a_wf s -> 1 <= maxc -> 1 <= mu -> a_measure s <= Z.of_nat n -> a_converged (a_rounds n maxc mu s).
Proof.
  intros maxc mu n; induction n as [|k IH]; intros s Hwf Hc Hu Hm.
  - simpl. apply measure_zero_converged; [assumption|]. pose proof (measure_nonneg s Hwf). lia.
  - simpl. destruct (Z.eq_dec (a_measure s) 0) as [E|E].
    + (* already converged: the rounds keep it *)
      pose proof (measure_zero_converged s Hwf E) as Hcv.
      assert (Hfix : forall j, a_rounds j maxc mu s = s).
      { induction j; simpl; [reflexivity|]. rewrite (converged_fixpoint maxc mu s Hwf ltac:(lia) Hcv). assumption. }
      rewrite (converged_fixpoint maxc mu s Hwf ltac:(lia) Hcv), Hfix. assumption.
    + pose proof (measure_nonneg s Hwf). destruct (round_wf maxc mu s Hwf) as [Hwf' _].
      apply IH; try assumption. pose proof (measure_decreases maxc mu s Hwf Hc Hu ltac:(lia)). lia.
Qed.

Corollary bound_three_per_node : forall s, a_wf s -> a_measure s <= 3 * a_nodes s.
Proof. intros [m ur un orr onr t] H. unfold a_wf, a_measure, a_nodes in *; cbn [a_missing a_up_ready a_up_notready a_old_ready a_old_notready a_terminating lp_nodes lp_pods lp_available lp_old_available lp_created lp_unresponsive lp_old_unavailable lp_max_creation lp_max_unavailable lp_max_unschedulable] in *; lia. Qed.

(** each limit is necessary: with no creation slot, or no allowed unavailability, some state never moves *)
Theorem creation_limit_needed : exists s, a_wf s /\ 0 < a_measure s /\ a_round 0 1 s = s.
Proof. exists (MkA 1 0 0 0 0 0). unfold a_wf; cbn. repeat split; try lia. Qed.
Theorem unavailable_limit_needed : exists s, a_wf s /\ 0 < a_measure s /\ a_round 1 0 s = s.
Proof. exists (MkA 0 0 0 1 0 0). unfold a_wf; cbn. repeat split; try lia. Qed.

(** ** silence of the real plan at the fixpoint *)
(** when every planning item holds an up-to-date pod, the rolling plan has no creation candidate and no
    deletion candidate: every admissible choice is empty *)
Theorem plan_silent_when_up_to_date : forall rs ann ru now items rp,
  rolling_plan_of rs ann ru now items = Ok rp ->
  (forall i, In i items -> is_class c_uptodate rs now i = true) ->
  rp_create_candidates rp = [] /\ rp_del_unavailable rp = [] /\ rp_del_available rp = [] /\
  (forall obs, admissible_creates rp obs = true -> obs = []) /\
  (forall obs, admissible_deletes rp obs = true -> obs = []).
Proof.
  intros rs ann ru now items rp H Hall.
  assert (Hf : forall f, (forall c, c_uptodate c = true -> f c = false) -> filter (is_class f rs now) items = []).
  { intros f Hex. clear H. induction items as [|i r IH]; [reflexivity|]. simpl.
    assert (Hi : is_class c_uptodate rs now i = true) by (apply Hall; left; reflexivity).
    unfold is_class in *. rewrite (Hex _ Hi). apply IH. intros j Hj. apply Hall. right; assumption. }
  unfold rolling_plan_of in H.
  destruct (ru_max_sched_failure ru) as [msf|]; [|discriminate].
  destruct (resolve_iop msf (zlen items)) as [max_fail|]; [|discriminate].
  destruct (ru_max_unavailable ru) as [mu|]; [|discriminate].
  destruct (resolve_iop mu (zlen items)) as [max_unav|]; [|discriminate].
  destruct (ru_increase ru) as [inc|]; [|discriminate].
  destruct (resolve_iop inc (zlen items)); [|discriminate].
  destruct (ru_interval ru) as [interval|]; [|discriminate].
  destruct (ru_max_parallel ru) as [maxpar|]; [|discriminate].
  destruct (max_creation inc interval maxpar (zlen items) _ now) as [maxc|]; [|discriminate].
  injection H as <-. cbn [rp_create_candidates rp_del_unavailable rp_del_available].
  rewrite (Hf c_nopod), (Hf c_oldunavail), (Hf c_oldavail); try (intros [] Hc; simpl in *; congruence).
  cbn. repeat split; try reflexivity.
  - intros obs Ha. unfold admissible_creates in Ha. cbn in Ha. rewrite !andb_true_iff in Ha. destruct Ha as [[_ Hs] _].
    destruct obs as [|x r]; [reflexivity|]. cbn in Hs. discriminate.
  - intros obs Ha. unfold admissible_deletes in Ha. cbn in Ha. rewrite !andb_true_iff in Ha. destruct Ha as [[[_ Hs] _] _].
    destruct obs as [|x r]; [reflexivity|]. cbn in Hs. discriminate.
Qed.

(** ** projection of the real plan onto the abstraction *)
Lemma class_partition : forall rs now items,
  let c f := count_if (is_class f rs now) items in
  c c_nopod + c c_unresp + c c_ready + c c_up_notready + c c_oldavail + c c_oldunavail + c c_oldterm = zlen items.
Proof.
  intros rs now items. cbv beta zeta. induction items as [|i r IH]; [reflexivity|].
  rewrite !count_if_cons. unfold zlen in *. cbn [length]. rewrite Nat2Z.inj_succ.
  assert (E : forall f, is_class f rs now i = f (classify rs now i)) by reflexivity. rewrite !E.
  destruct (classify rs now i) as [| |[|]| | |];
    cbn [c_nopod c_unresp c_ready c_up_notready c_oldavail c_oldunavail c_oldterm c_haspod c_uptodate]; lia.
Qed.
Lemma haspod_split : forall rs now items,
  let c f := count_if (is_class f rs now) items in
  c c_haspod = c c_ready + c c_up_notready + c c_oldavail + c c_oldunavail + c c_oldterm.
Proof.
  intros rs now items. cbv beta zeta. induction items as [|i r IH]; [reflexivity|].
  rewrite !count_if_cons.
  assert (E : forall f, is_class f rs now i = f (classify rs now i)) by reflexivity. rewrite !E.
  destruct (classify rs now i) as [| |[|]| | |];
    cbn [c_nopod c_unresp c_ready c_up_notready c_oldavail c_oldunavail c_oldterm c_haspod c_uptodate]; lia.
Qed.
Lemma uptodate_split : forall rs now items,
  let c f := count_if (is_class f rs now) items in
  c c_uptodate = c c_ready + c c_up_notready.
Proof.
  intros rs now items. cbv beta zeta. induction items as [|i r IH]; [reflexivity|].
  rewrite !count_if_cons.
  assert (E : forall f, is_class f rs now i = f (classify rs now i)) by reflexivity. rewrite !E.
  destruct (classify rs now i) as [| |[|]| | |];
    cbn [c_nopod c_unresp c_ready c_up_notready c_oldavail c_oldunavail c_oldterm c_haspod c_uptodate]; lia.
Qed.

(** The budgets of the real plan are those of the abstract sync on the abstraction of the items: for planning
    items without a stuck pod and a rollout that is neither paused nor frozen, the number of creations and of
    update-deletions the plan allows are exactly [c] and [d] of [a_sync]. *)
Theorem plan_projects : forall rs ann ru now items rp,
  rolling_plan_of rs ann ru now items = Ok rp ->
  rp_paused rp = false -> rp_frozen rp = false ->
  count_if (is_class c_unresp rs now) items = 0 -> 0 <= rp_max_sched_failure rp ->
  let s := abs_of rs now items in
  let lp := a_limits s (rp_max_creation rp) (rp_max_unavailable rp) in
  a_nodes s = zlen items /\
  rp_nb_create rp = Z.min (calc_create lp) (a_missing s) /\
  rp_nb_delete rp = Z.min (calc_delete lp) (a_old_notready s + a_old_ready s) /\
  zlen (rp_create_candidates rp) = a_missing s /\
  zlen (rp_del_unavailable rp) = a_old_notready s /\ zlen (rp_del_available rp) = a_old_ready s.
Proof.
  intros rs ann ru now items rp H Hp Hf Hu Hmf.
  unfold rolling_plan_of in H.
  destruct (ru_max_sched_failure ru) as [msf|]; [|discriminate].
  destruct (resolve_iop msf (zlen items)) as [max_fail|]; [|discriminate].
  destruct (ru_max_unavailable ru) as [mu|]; [|discriminate].
  destruct (resolve_iop mu (zlen items)) as [max_unav|]; [|discriminate].
  destruct (ru_increase ru) as [inc|]; [|discriminate].
  destruct (resolve_iop inc (zlen items)); [|discriminate].
  destruct (ru_interval ru) as [interval|]; [|discriminate].
  destruct (ru_max_parallel ru) as [maxpar|]; [|discriminate].
  destruct (max_creation inc interval maxpar (zlen items) _ now) as [maxc|]; [|discriminate].
  injection H as <-. cbn [rp_paused rp_frozen rp_max_sched_failure rp_max_creation rp_max_unavailable
                          rp_nb_create rp_nb_delete rp_create_candidates rp_del_unavailable rp_del_available] in *.
  rewrite Hp, Hf. cbn [orb].
  pose proof (class_partition rs now items) as Hpart. cbv beta zeta in Hpart. rewrite Hu in Hpart.
  pose proof (haspod_split rs now items) as Hhp. cbv beta zeta in Hhp.
  pose proof (uptodate_split rs now items) as Hup. cbv beta zeta in Hup.
  assert (Hlen : forall f, zlen (map ni_name (filter (is_class f rs now) items)) = count_if (is_class f rs now) items).
  { intros f. unfold zlen, count_if. rewrite map_length. reflexivity. }
  rewrite !Hlen.
  unfold abs_of. cbn [a_missing a_old_notready a_old_ready].
  assert (Hn : a_nodes (abs_of rs now items) = zlen items).
  { unfold a_nodes, abs_of. cbn. lia. }
  split; [exact Hn|].
  unfold count_items. cbn [k_pods k_available k_old_available k_created k_unresponsive k_old_unavailable].
  unfold calc_create, calc_delete, a_limits.
  cbn [lp_nodes lp_pods lp_available lp_old_available lp_created lp_unresponsive lp_old_unavailable
       lp_max_creation lp_max_unavailable lp_max_unschedulable].
  fold (abs_of rs now items). rewrite Hn. unfold abs_of.
  cbn [a_up_ready a_up_notready a_old_ready a_old_notready a_terminating a_missing].
  rewrite Hu, Hhp.
  replace (Z.min 0 max_fail) with 0 by lia.
  repeat split; try reflexivity; f_equal; f_equal; try lia; f_equal; lia.
Qed.
