(** * C18Proofs: at most one valid ExtendedDaemonsetSetting applies to a node. *)
From Coq Require Import List ZArith NArith Bool Lia.
From EDS Require Import Model.Objects Model.Fitness Model.PodSpec Model.Setting Model.ErsReconcile Proofs.Lists.
Import ListNotations.
Open Scope Z_scope.

Lemma setting_before_total : forall a b, s_name a <> s_name b -> setting_before a b = true \/ setting_before b a = true.
Proof.
  intros a b Hn. unfold setting_before.
  destruct (Z.eqb_spec (s_created a) (s_created b)) as [E|E].
  - rewrite E, Z.eqb_refl. rewrite !N.ltb_lt. lia.
  - assert (E' : s_created b =? s_created a = false) by (apply Z.eqb_neq; congruence). rewrite E'.
    rewrite !Z.ltb_lt. lia.
Qed.

Lemma setting_before_asym : forall a b, setting_before a b = true -> setting_before b a = false.
Proof.
  intros a b H. unfold setting_before in *.
  destruct (Z.eqb_spec (s_created a) (s_created b)) as [E|E].
  - rewrite E, Z.eqb_refl in *. apply N.ltb_lt in H. apply N.ltb_ge. lia.
  - assert (E' : s_created b =? s_created a = false) by (apply Z.eqb_neq; congruence). rewrite E'.
    apply Z.ltb_lt in H. apply Z.ltb_ge. lia.
Qed.

(** Mutual exclusion: two distinct settings of one namespace whose selectors both match some node are
    never both valid - for every population of settings and nodes. *)
Theorem mutex : forall s1 s2 same_ns nodes n,
  In s1 same_ns -> In s2 same_ns -> s_name s1 <> s_name s2 -> In n nodes ->
  setting_matches s1 n = true -> setting_matches s2 n = true ->
  setting_valid s1 same_ns nodes = true -> setting_valid s2 same_ns nodes = false.
Proof.
  intros s1 s2 same_ns nodes n H1 H2 Hne Hn M1 M2 V1.
  unfold setting_valid in *. rewrite !andb_true_iff in V1. destruct V1 as [_ V1]. apply negb_true_iff in V1.
  assert (C12 : conflicts_with s1 nodes s2 = false).
  { destruct (conflicts_with s1 nodes s2) eqn:E; [|reflexivity].
    exfalso. assert (existsb (conflicts_with s1 nodes) same_ns = true) by (apply existsb_exists; eauto). congruence. }
  assert (Hex : existsb (fun n0 => setting_matches s2 n0 && setting_matches s1 n0) nodes = true).
  { apply existsb_exists. exists n. rewrite M1, M2. auto. }
  assert (Hex' : existsb (fun n0 => setting_matches s1 n0 && setting_matches s2 n0) nodes = true).
  { apply existsb_exists. exists n. rewrite M1, M2. auto. }
  unfold conflicts_with in C12. rewrite Hex in C12.
  assert (Hn12 : N.eqb (s_name s2) (s_name s1) = false) by (apply N.eqb_neq; congruence).
  rewrite Hn12 in C12. cbn [negb andb] in C12. rewrite andb_true_r in C12.
  (* s2 is not before s1, so s1 is before s2: s1 takes the node away from s2 *)
  destruct (setting_before_total s1 s2 Hne) as [B|B]; [|congruence].
  assert (C21 : conflicts_with s2 nodes s1 = true).
  { unfold conflicts_with. rewrite Hex', B.
    assert (Hn21 : N.eqb (s_name s1) (s_name s2) = false) by (apply N.eqb_neq; congruence). rewrite Hn21. reflexivity. }
  assert (existsb (conflicts_with s2 nodes) same_ns = true) by (apply existsb_exists; eauto).
  rewrite H. rewrite andb_false_r. reflexivity.
Qed.

Theorem noref_error : forall s same_ns nodes, has_reference s = false -> setting_valid s same_ns nodes = false.
Proof. intros s same_ns nodes H. unfold setting_valid. rewrite H. reflexivity. Qed.

Theorem bad_selector_error : forall s same_ns nodes,
  strict_selector_ok (s_selector s) = false -> setting_valid s same_ns nodes = false.
Proof. intros s same_ns nodes H. unfold setting_valid. rewrite H. rewrite andb_false_r. reflexivity. Qed.

(** a well-formed setting that overlaps no other on any node is valid - whatever the other settings'
    selectors look like (after the repair of D12) *)
Theorem alone_valid : forall s same_ns nodes,
  has_reference s = true -> strict_selector_ok (s_selector s) = true ->
  (forall o n, In o same_ns -> s_name o <> s_name s -> In n nodes ->
               setting_matches o n = true -> setting_matches s n = false) ->
  setting_valid s same_ns nodes = true.
Proof.
  intros s same_ns nodes Hr Hs Hno. unfold setting_valid. rewrite Hr, Hs. cbn [andb]. apply negb_true_iff.
  apply not_true_is_false. intros Hex. apply existsb_exists in Hex. destruct Hex as [o [Ho Hc]].
  unfold conflicts_with in Hc. rewrite !andb_true_iff in Hc. destruct Hc as [[Hne _] Hn].
  apply negb_true_iff, N.eqb_neq in Hne. apply existsb_exists in Hn. destruct Hn as [n [Hn Hm]].
  apply andb_true_iff in Hm. destruct Hm as [Mo Ms]. rewrite (Hno o n Ho Hne Hn Mo) in Ms. discriminate.
Qed.

(** the verdict reads the SPECS only: two populations that differ in statuses give the same verdicts, so
    the order in which the settings are reconciled is irrelevant *)
Definition same_spec (a b : setting) : Prop :=
  s_name a = s_name b /\ s_ns a = s_ns b /\ s_ref a = s_ref b /\ s_selector a = s_selector b /\ s_created a = s_created b.

Lemma conflicts_same_spec : forall inst inst' nodes o o',
  same_spec inst inst' -> same_spec o o' -> conflicts_with inst nodes o = conflicts_with inst' nodes o'.
Proof.
  intros inst inst' nodes o o' [A1 [A2 [A3 [A4 A5]]]] [B1 [B2 [B3 [B4 B5]]]].
  unfold conflicts_with, setting_before, setting_matches. rewrite A1, A4, A5, B1, B4, B5. reflexivity.
Qed.

Theorem order_irrelevant : forall inst inst' l l' nodes,
  same_spec inst inst' -> Forall2 same_spec l l' ->
  setting_valid inst l nodes = setting_valid inst' l' nodes.
Proof.
  intros inst inst' l l' nodes Hi Hl. unfold setting_valid, has_reference.
  destruct Hi as [A1 [A2 [A3 [A4 A5]]]]. rewrite A3, A4. f_equal. f_equal.
  induction Hl as [|o o' r r' Ho Hr IH]; [reflexivity|]. cbn [existsb].
  rewrite (conflicts_same_spec inst inst' nodes o o'); [|repeat split; assumption | assumption]. rewrite IH. reflexivity.
Qed.

(** the replica-set sync attaches at most one setting to a node, and only a valid one whose selector matches *)
Theorem attached_setting_valid : forall ss n s,
  setting_for ss n = Ok (Some s) ->
  In s ss /\ s_status s = SET_VALID /\ strict_selector_matches (s_selector s) (n_labels n) = true.
Proof.
  induction ss as [|x r IH]; intros n s H; simpl in H; [discriminate|].
  destruct (negb (N.eqb (s_status x) SET_VALID)) eqn:Ev.
  - destruct (IH n s H) as [A B]. split; [right; assumption | assumption].
  - destruct (negb (strict_selector_ok (s_selector x))); [discriminate|].
    destruct (strict_selector_matches (s_selector x) (n_labels n)) eqn:Em.
    + inversion H; subst. apply negb_false_iff, N.eqb_eq in Ev. repeat split; auto. left; reflexivity.
    + destruct (IH n s H) as [A B]. split; [right; assumption | assumption].
Qed.

(** ** Reads that fail *)

(** a reconcile that could not read its lists never turns a setting valid: a setting is valid afterwards only if it
    was valid before (and the verdict could not be renewed) or the lists were read and the rule makes it valid *)
Lemma valid_only_by_the_rule : forall inst all nodes fs fn,
  fst (setting_sync inst all nodes fs fn) = SET_VALID ->
  (fs = true /\ s_status inst = SET_VALID) \/
  (fs = false /\ fn = false /\ setting_valid inst (settings_of_ns (s_ns inst) all) nodes = true).
Proof.
  intros inst all nodes fs fn H. unfold setting_sync in H.
  destruct (has_reference inst); cbn [negb] in H; [|discriminate].
  destruct fs; [left; split; [reflexivity | exact H]|].
  destruct fn; [discriminate|].
  destruct (setting_valid inst (settings_of_ns (s_ns inst) all) nodes); [right; auto | discriminate].
Qed.

(** ... and a setting without a reference is put in error whatever could be read *)
Lemma noref_error_always : forall inst all nodes fs fn,
  has_reference inst = false -> setting_sync inst all nodes fs fn = (SET_ERROR, true).
Proof. intros inst all nodes fs fn H. unfold setting_sync. rewrite H. reflexivity. Qed.
