(** * EdsWrites: what an ExtendedDaemonSet reconcile writes - replica-set creation and clean-up,
    rollback of a failed canary, write targets (C13, C07, C12). *)
From Coq Require Import List ZArith NArith Bool Lia.
From EDS Require Import Model.Objects Model.Fitness Model.PodSpec Model.Default Model.Canary Model.EdsLogic
     Model.EdsReconcile Proofs.Lists Proofs.CondProofs Proofs.EdsInv Proofs.C05Proofs.
Import ListNotations.
Open Scope Z_scope.

Lemma last_such_none : forall {A} (f : A -> bool) l, last_such f l = None -> forall x, In x l -> f x = false.
Proof.
  intros A f l. unfold last_such. rewrite <- fold_left_rev_right.
  intros H x Hx. apply in_rev in Hx. induction (rev l) as [|y r IH]; [contradiction|].
  simpl in H. destruct (f y) eqn:E; [discriminate|]. destruct Hx as [->|Hx]; [assumption | apply IH; assumption].
Qed.

Lemma last_such_some : forall {A} (f : A -> bool) l x, last_such f l = Some x -> In x l /\ f x = true.
Proof.
  intros A f l x. unfold last_such. rewrite <- fold_left_rev_right. intros H.
  assert (In x (rev l) /\ f x = true).
  { induction (rev l) as [|y r IH]; [discriminate|]. simpl in H. destruct (f y) eqn:E.
    - inversion H; subst. split; [left; reflexivity | assumption].
    - destruct (IH H) as [A1 A2]. split; [right; assumption | assumption]. }
  destruct H0 as [Hin Hf]. split; [apply in_rev; assumption | assumption].
Qed.

Definition deletes_of (ws : list eds_write) : list name :=
  flat_map (fun w => match w with WDeleteRs n => [n] | _ => [] end) ws.
Definition creates_of (ws : list eds_write) : list new_rs :=
  flat_map (fun w => match w with WCreateRs r => [r] | _ => [] end) ws.
Definition specs_of (ws : list eds_write) : list (name * eds_annots) :=
  flat_map (fun w => match w with WSpec h a => [(h, a)] | _ => [] end) ws.

Lemma deletes_of_app : forall a b, deletes_of (a ++ b) = deletes_of a ++ deletes_of b.
Proof. intros; unfold deletes_of; apply flat_map_app. Qed.
Lemma deletes_of_map : forall l, deletes_of (map WDeleteRs l) = l.
Proof. induction l; simpl; [reflexivity | f_equal; assumption]. Qed.
Lemma creates_of_deletes : forall dels, creates_of (map WDeleteRs dels) = [].
Proof. induction dels; simpl; auto. Qed.
Lemma creates_of_app : forall a b, creates_of (a ++ b) = creates_of a ++ creates_of b.
Proof. intros; unfold creates_of; apply flat_map_app. Qed.
Lemma finish_no_deletes : forall sn e st h a ws pl, finish_update sn e st h a ws = Ok pl ->
  deletes_of (ep_writes pl) = [] /\ creates_of (ep_writes pl) = [].
Proof.
  intros sn e st h a ws pl H. apply finish_update_writes in H.
  destruct H as [->|[->|[_ ->]]]; split; reflexivity.
Qed.

(** ** C13: clean-up never touches a replica set in use *)
Theorem cleanup_safe : forall sn pl n,
  eds_sync sn = Ok pl -> In n (deletes_of (ep_writes pl)) ->
  exists e uptodate current r,
    es_obj sn = Some e /\
    let rss := rs_of_eds e (es_rss sn) in
    last_such (rs_up_to_date e) rss = Some uptodate /\
    current = fst (select_current (e_annots e) (st_canary (e_strategy e))
                     (last_such (fun r => N.eqb (r_name r) (es_active (e_status e))) rss) uptodate (es_now sn)) /\
    In r rss /\ r_name r = n /\ n <> r_name current /\ n <> r_name uptodate /\
    rs_desired (r_status r) + rs_current (r_status r) + rs_ready (r_status r) + rs_available (r_status r) = 0 /\
    should_delete_ers (es_now sn) r = true.
Proof.
  intros sn pl n H Hin. apply eds_sync_inv in H.
  destruct H as [_ Hw | e _ _ Hw | e _ _ _ _ Hw | e uptodate current rq Ho Hd Hv rss active Hu Hs dels Hw _];
    try (rewrite Hw in Hin; contradiction).
  assert (Hd' : In n dels).
  { destruct Hw as [[_ Hw] | [_ [upl [Hui Hw]]]]; rewrite Hw in Hin.
    - rewrite deletes_of_map in Hin. assumption.
    - rewrite deletes_of_app, deletes_of_map in Hin. apply in_app_or in Hin. destruct Hin as [Hin|Hin]; [assumption|].
      apply update_instance_inv in Hui. destruct Hui as [st' [h [ann' [ws [pl0 [_ [Hfin Hsame]]]]]]].
      apply same_writes in Hsame. rewrite Hsame in Hin.
      apply finish_no_deletes in Hfin. destruct Hfin as [F _]. rewrite F in Hin. contradiction. }
  unfold dels, rs_to_delete in Hd'. apply in_map_iff in Hd'. destruct Hd' as [r [Hn Hr]].
  apply filter_In in Hr. destruct Hr as [Hr Hc]. rewrite !andb_true_iff in Hc. destruct Hc as [[[C1 C2] _] C4].
  apply negb_true_iff in C1, C2. apply N.eqb_neq in C1, C2.
  exists e, uptodate, current, r. cbv zeta. unfold active, rss in *. split; [assumption|]. split; [assumption|]. split; [rewrite Hs; reflexivity|].
  repeat split; try assumption; try congruence.
  unfold should_delete_ers in C4. destruct (is_cond_true _ _ && _); [discriminate|]. apply Z.eqb_eq in C4. lia.
Qed.

(** a failed canary replica set is kept for at least two minutes after it failed *)
Theorem retention : forall now r c,
  is_cond_true (rs_conds (r_status r)) CT_CanaryFailed = true ->
  get_cond (rs_conds (r_status r)) CT_CanaryFailed = Some c -> now < c_trans c + 2 * minute ->
  should_delete_ers now r = false.
Proof.
  intros now r c Ht Hg Hlt. unfold should_delete_ers. rewrite Ht, Hg. unfold tbefore, tadd.
  assert (E : now <? c_trans c + 2 * minute = true) by (apply Z.ltb_lt; assumption). rewrite E. reflexivity.
Qed.

Theorem nonzero_never_deleted : forall now r,
  rs_desired (r_status r) + rs_current (r_status r) + rs_ready (r_status r) + rs_available (r_status r) <> 0 ->
  should_delete_ers now r = false.
Proof.
  intros now r H. unfold should_delete_ers. destruct (is_cond_true _ _ && _); [reflexivity|].
  apply Z.eqb_neq. lia.
Qed.

(** ** C13: one replica set per template *)
Theorem create_only_if_none_matches : forall sn pl nr,
  eds_sync sn = Ok pl -> In nr (creates_of (ep_writes pl)) ->
  exists e, es_obj sn = Some e /\
    (forall r, In r (rs_of_eds e (es_rss sn)) -> rs_up_to_date e r = false) /\
    nr_ns nr = e_ns e /\ nr_eds_label nr = e_name e /\ nr_owner nr = e_name e /\
    nr_hash_annot nr = e_tmpl_hash e /\ nr_tmplgen nr = e_tmpl_hash e /\ nr_tmpl_hash nr = e_tmpl_hash e /\
    ep_writes pl = [WCreateRs nr].
Proof.
  intros sn pl nr H Hin. apply eds_sync_inv in H.
  destruct H as [_ Hw | e _ _ Hw | e Ho _ _ Hn Hw | e uptodate current rq Ho Hd Hv rss active Hu Hs dels Hw _].
  - rewrite Hw in Hin. contradiction.
  - rewrite Hw in Hin. contradiction.
  - rewrite Hw in Hin. cbn in Hin. destruct Hin as [<-|[]]. exists e. split; [assumption|].
    split; [apply last_such_none; assumption|]. cbn. repeat split; auto.
  - exfalso. destruct Hw as [[_ Hw] | [_ [upl [Hui Hw]]]]; rewrite Hw in Hin.
    + rewrite creates_of_deletes in Hin. contradiction.
    + rewrite creates_of_app, creates_of_deletes in Hin. cbn [app] in Hin.
      apply update_instance_inv in Hui. destruct Hui as [st' [h [ann' [ws [pl0 [_ [Hfin Hsame]]]]]]].
      apply same_writes in Hsame. rewrite Hsame in Hin.
      apply finish_no_deletes in Hfin. destruct Hfin as [_ F]. rewrite F in Hin. contradiction.
Qed.

(** ** C07: rollback of a failed canary *)
Lemma specs_of_deletes : forall dels, specs_of (map WDeleteRs dels) = [].
Proof. induction dels; simpl; auto. Qed.
Lemma specs_of_app : forall a b, specs_of (a ++ b) = specs_of a ++ specs_of b.
Proof. intros; unfold specs_of; apply flat_map_app. Qed.

(** the shape of the main path when the up-to-date replica set is failed and the active one exists *)
Lemma failed_main_path : forall sn pl e a u,
  eds_sync sn = Ok pl -> es_obj sn = Some e -> is_defaulted e = true ->
  last_such (fun r => N.eqb (r_name r) (es_active (e_status e))) (rs_of_eds e (es_rss sn)) = Some a ->
  last_such (rs_up_to_date e) (rs_of_eds e (es_rss sn)) = Some u ->
  st_canary (e_strategy e) <> None -> canary_failed_rs (r_status u) = true ->
  let dels := rs_to_delete sn (rs_of_eds e (es_rss sn)) a u in
  (existsb (fun d => memN d (es_fail_rs_delete sn)) dels = true /\ ep_writes pl = map WDeleteRs dels) \/
  (existsb (fun d => memN d (es_fail_rs_delete sn)) dels = false /\
   exists st' upl,
     es_canary st' = None /\ es_active st' = r_name a /\ es_state st' = ST_CANARY_FAILED /\
     finish_update sn e st' (r_tmpl_hash a) (fst (clear_canary_annots (e_annots e))) true = Ok upl /\
     ep_writes pl = map WDeleteRs dels ++ ep_writes upl).
Proof.
  intros sn pl e a u H Ho Hdef Ha Hu Hcan Hfailed dels. apply eds_sync_inv in H.
  destruct H as [Hn _ | e' Ho' Hnd _ | e' Ho' _ _ Hn _ | e' uptodate current rq Ho' Hd Hv rss' active Hu' Hs dels' Hw _].
  - congruence.
  - rewrite Ho in Ho'. inversion Ho'; subst e'. congruence.
  - rewrite Ho in Ho'. inversion Ho'; subst e'. congruence.
  - rewrite Ho in Ho'. inversion Ho'; subst e'. unfold rss' in *. rewrite Hu in Hu'. inversion Hu'; subst uptodate.
    unfold active in Hs. rewrite Ha in Hs.
    destruct (st_canary (e_strategy e)) as [c|] eqn:Ec; [|contradiction].
    pose proof (failed_never_promoted (e_annots e) c a u (es_now sn) Hfailed) as Hcur. rewrite Hs in Hcur. cbn in Hcur. subst current.
    fold dels in dels'. unfold dels' in *. clear dels'.
    destruct Hw as [[Hf Hw] | [Hf [upl [Hui Hw]]]]; [left; split; assumption|]. right. split; [assumption|].
    apply update_instance_inv in Hui. destruct Hui as [st' [h [ann' [ws [pl0 [Hres [Hfin Hsame]]]]]]].
    apply same_writes in Hsame. rewrite Hsame in Hw. clear Hsame upl.
    inversion Hres as [Hnc | cspec st'' ann'' ws' Hcs pr failed actv st1 st2 st3 Hact Hinact]; subst; [congruence|].
    assert (Df : failed = true) by exact Hfailed.
    assert (Da : actv = false) by (unfold actv; rewrite Df; reflexivity).
    destruct (Hinact Da) as [Hst [Hann Hws]]. subst st' ann' ws.
    assert (A1 : es_canary st3 = None) by (unfold st3, manage_status; rewrite Df; reflexivity).
    assert (A2 : es_active st3 = r_name a) by (unfold st3; rewrite manage_status_active; reflexivity).
    assert (A3 : es_state st3 = ST_CANARY_FAILED) by (unfold st3, manage_status; rewrite Df; reflexivity).
    rewrite Df in Hfin. cbn [orb] in Hfin.
    exists st3, pl0. repeat split; assumption.
Qed.

(** every status written during the rollback clears status.canary, keeps activeReplicaSet and reports
    Canary Failed; every object update carries the ACTIVE replica set's template and no canary pause
    annotations *)
Theorem rollback_plan : forall sn pl e a u,
  eds_sync sn = Ok pl -> es_obj sn = Some e -> is_defaulted e = true ->
  last_such (fun r => N.eqb (r_name r) (es_active (e_status e))) (rs_of_eds e (es_rss sn)) = Some a ->
  last_such (rs_up_to_date e) (rs_of_eds e (es_rss sn)) = Some u ->
  st_canary (e_strategy e) <> None -> canary_failed_rs (r_status u) = true ->
  (forall st', In st' (statuses_of (ep_writes pl)) ->
     es_canary st' = None /\ es_active st' = r_name a /\ es_state st' = ST_CANARY_FAILED) /\
  (forall h ann', In (h, ann') (specs_of (ep_writes pl)) ->
     h = r_tmpl_hash a /\ ann' = fst (clear_canary_annots (e_annots e))).
Proof.
  intros sn pl e a u H Ho Hdef Ha Hu Hcan Hfailed.
  destruct (failed_main_path _ _ _ _ _ H Ho Hdef Ha Hu Hcan Hfailed) as [[_ Hw] | [_ [st' [upl [C1 [C2 [C3 [Hfin Hw]]]]]]]]; rewrite Hw.
  - split; [intros st'' Hin; rewrite statuses_of_deletes in Hin; contradiction
           | intros h ann' Hin; rewrite specs_of_deletes in Hin; contradiction].
  - rewrite statuses_of_app, statuses_of_deletes, specs_of_app, specs_of_deletes. cbn [app].
    apply finish_update_writes in Hfin. destruct Hfin as [F|[F|[_ F]]]; rewrite F; cbn; split.
    + intros ? [].
    + intros ? ? [].
    + intros st'' [<-|[]]. auto.
    + intros ? ? [].
    + intros st'' [<-|[]]. auto.
    + intros h ann' [Heq|[]]. inversion Heq; subst. auto.
Qed.

(** recoverable: as long as spec.template is not the active replica set's template, a reconcile whose
    writes are accepted plans the status write AND the object update - so after a status-only prefix (the
    controller stopped, or the object update failed) the next reconcile completes the rollback *)
Theorem rollback_recoverable : forall sn pl e a u,
  eds_sync sn = Ok pl -> es_obj sn = Some e -> is_defaulted e = true ->
  last_such (fun r => N.eqb (r_name r) (es_active (e_status e))) (rs_of_eds e (es_rss sn)) = Some a ->
  last_such (rs_up_to_date e) (rs_of_eds e (es_rss sn)) = Some u ->
  st_canary (e_strategy e) <> None -> canary_failed_rs (r_status u) = true ->
  e_tmpl_hash e <> r_tmpl_hash a -> es_fail_status sn = false -> es_fail_rs_delete sn = [] ->
  exists st', In (WStatus st') (ep_writes pl) /\
              In (WSpec (r_tmpl_hash a) (fst (clear_canary_annots (e_annots e)))) (ep_writes pl).
Proof.
  intros sn pl e a u H Ho Hdef Ha Hu Hcan Hfailed Hne Hfs Hfd.
  destruct (failed_main_path _ _ _ _ _ H Ho Hdef Ha Hu Hcan Hfailed) as [[Hf _] | [_ [st' [upl [_ [_ [_ [Hfin Hw]]]]]]]].
  - exfalso. rewrite Hfd in Hf. clear -Hf. induction (rs_to_delete _ _ _ _); simpl in Hf; [discriminate | auto].
  - unfold finish_update in Hfin.
    assert (E : N.eqb (r_tmpl_hash a) (e_tmpl_hash e) = false) by (apply N.eqb_neq; congruence).
    rewrite E, andb_false_r, Hfs in Hfin. cbn in Hfin. injection Hfin as <-. rewrite Hw. cbn [ep_writes].
    exists st'. split; apply in_or_app; right; [left | right; left]; reflexivity.
Qed.

(** the replica set of spec.template - during an unfinished rollback: the failed canary, the only durable record of the
    failure - is never deleted by the reconcile, however long ago it failed and whatever it reports *)
Theorem uptodate_never_deleted : forall sn pl e u,
  eds_sync sn = Ok pl -> es_obj sn = Some e ->
  last_such (rs_up_to_date e) (rs_of_eds e (es_rss sn)) = Some u ->
  ~ In (r_name u) (deletes_of (ep_writes pl)).
Proof.
  intros sn pl e u H He Hu Hin.
  destruct (cleanup_safe sn pl (r_name u) H Hin) as [e' [u' [cur [r [He' Hrest]]]]].
  rewrite He in He'. inversion He'; subst e'. cbv zeta in Hrest.
  destruct Hrest as [Hu' [_ [_ [_ [_ [Hne _]]]]]]. rewrite Hu in Hu'. inversion Hu'; subst u'. apply Hne. reflexivity.
Qed.
