(** * C16Proofs: defaulting is a fixed point; validation; no accepted spec crashes a reconcile. *)
From Coq Require Import List ZArith NArith Bool Lia.
From EDS Require Import Model.Objects Model.Fitness Model.PodSpec Model.Backoff Model.Filter Model.Default
     Model.Limits Model.Rolling Model.Canary Model.ErsReconcile Model.EdsLogic Model.EdsReconcile
     Proofs.Lists Proofs.CondProofs Proofs.SyncInv Proofs.CanaryProofs.
Import ListNotations.
Open Scope Z_scope.

(** ** defaulting *)
Lemma or_default_idem : forall {A} (o : option A) d, or_default (or_default o d) d = or_default o d.
Proof. intros A [x|] d; reflexivity. Qed.

Lemma default_rolling_idem : forall r, default_rolling (default_rolling r) = default_rolling r.
Proof. intros [a b c d e]; destruct a, b, c, d, e; reflexivity. Qed.

Definition eff_mode (m mode : vmode) : vmode := match mode with VUnset => m | x => x end.
Lemma eff_mode_idem : forall m mode, eff_mode m (eff_mode m mode) = eff_mode m mode.
Proof. intros m mode; destruct mode, m; reflexivity. Qed.
Lemma default_autopause_idem : forall a, default_autopause (default_autopause a) = default_autopause a.
Proof. intros [e m s]; destruct e, m; reflexivity. Qed.
Lemma default_autofail_idem : forall a, default_autofail (default_autofail a) = default_autofail a.
Proof. intros [e m d t]; destruct e, m; reflexivity. Qed.

Lemma default_canary_idem : forall m c, default_canary m (default_canary m c) = default_canary m c.
Proof.
  intros m [rep dur ns aa ap af nr mode]. unfold default_canary. cbv zeta.
  cbn [ca_mode ca_duration ca_replicas ca_nodesel ca_antiaffinity ca_autopause ca_autofail ca_norestarts].
  rewrite !or_default_idem, default_autopause_idem, default_autofail_idem.
  destruct mode, m; cbn [vmode_eqb]; destruct dur, nr; reflexivity.
Qed.

Theorem default_idempotent : forall m s, default_strategy m (default_strategy m s) = default_strategy m s.
Proof.
  intros m [r c f]. unfold default_strategy; cbn. rewrite default_rolling_idem, or_default_idem.
  destruct c as [c|]; cbn; [rewrite default_canary_idem|]; reflexivity.
Qed.

Theorem default_eds_idempotent : forall m e, default_eds m (default_eds m e) = default_eds m e.
Proof.
  intros m e. unfold default_eds; cbn. rewrite default_idempotent. reflexivity.
Qed.

(** the defaulted object is recognised as defaulted (for a controller-level default mode that is set) *)
Lemma default_canary_recognised : forall m c, m <> VUnset -> is_defaulted_canary (default_canary m c) = true.
Proof.
  intros m [rep dur ns aa ap af nr mode] Hm. unfold default_canary, is_defaulted_canary. cbv zeta.
  cbn [ca_mode ca_duration ca_replicas ca_nodesel ca_antiaffinity ca_autopause ca_autofail ca_norestarts].
  assert (Hr : is_some (or_default rep (IntV 1)) = true) by (destruct rep; reflexivity).
  assert (Hn : is_some (or_default ns empty_selector) = true) by (destruct ns; reflexivity).
  rewrite Hr, Hn.
  assert (Hap : match Some (default_autopause match ap with Some a => a | None => MkAutoPause None None None end) with
                | Some a => is_some (ap_enabled a) && is_some (ap_max_restarts a) | None => false end = true)
    by (destruct ap as [[e1 m1 s1]|]; cbn; try (destruct e1); try (destruct m1); reflexivity).
  assert (Haf : match Some (default_autofail match af with Some a => a | None => MkAutoFail None None None None end) with
                | Some a => is_some (af_enabled a) && is_some (af_max_restarts a) | None => false end = true)
    by (destruct af as [[e2 m2 d2 t2]|]; cbn; try (destruct e2); try (destruct m2); reflexivity).
  rewrite Hap, Haf.
  destruct mode, m; try congruence; cbn; destruct dur; reflexivity.
Qed.

Theorem default_recognised : forall m e, m <> VUnset -> is_defaulted (default_eds m e) = true.
Proof.
  intros m e Hm. unfold is_defaulted, default_eds. cbn [e_strategy e_tmpl_name_set negb]. rewrite andb_true_r.
  destruct (e_strategy e) as [[a b c d f] can fr]. unfold default_strategy, is_defaulted_strategy.
  cbn [st_rolling st_canary st_freq].
  assert (Hroll : is_defaulted_rolling (default_rolling (MkRolling a b c d f)) = true) by (destruct a, b, c, d, f; reflexivity).
  rewrite Hroll. assert (Hf : is_some (or_default fr (10 * second)) = true) by (destruct fr; reflexivity). rewrite Hf.
  destruct can as [c0|]; cbn [option_map andb]; [rewrite default_canary_recognised by assumption|]; reflexivity.
Qed.

(** defaulting changes no value the user set (apart from clearing the template's name) *)
Definition opt_kept {A} (a b : option A) : Prop := match a with Some x => b = Some x | None => True end.

Theorem default_preserves : forall m s,
  let s' := default_strategy m s in
  opt_kept (ru_max_unavailable (st_rolling s)) (ru_max_unavailable (st_rolling s')) /\
  opt_kept (ru_max_sched_failure (st_rolling s)) (ru_max_sched_failure (st_rolling s')) /\
  opt_kept (ru_max_parallel (st_rolling s)) (ru_max_parallel (st_rolling s')) /\
  opt_kept (ru_interval (st_rolling s)) (ru_interval (st_rolling s')) /\
  opt_kept (ru_increase (st_rolling s)) (ru_increase (st_rolling s')) /\
  opt_kept (st_freq s) (st_freq s') /\
  match st_canary s, st_canary s' with
  | None, None => True
  | Some c, Some c' =>
      opt_kept (ca_replicas c) (ca_replicas c') /\ opt_kept (ca_duration c) (ca_duration c') /\
      opt_kept (ca_nodesel c) (ca_nodesel c') /\ ca_antiaffinity c' = ca_antiaffinity c /\
      opt_kept (ca_norestarts c) (ca_norestarts c') /\ (ca_mode c <> VUnset -> ca_mode c' = ca_mode c) /\
      match ca_autopause c, ca_autopause c' with
      | Some a, Some a' => opt_kept (ap_enabled a) (ap_enabled a') /\ opt_kept (ap_max_restarts a) (ap_max_restarts a') /\
                           ap_max_slow_start a' = ap_max_slow_start a
      | None, Some _ => True | _, None => False end /\
      match ca_autofail c, ca_autofail c' with
      | Some a, Some a' => opt_kept (af_enabled a) (af_enabled a') /\ opt_kept (af_max_restarts a) (af_max_restarts a') /\
                           af_max_restarts_dur a' = af_max_restarts_dur a /\ af_timeout a' = af_timeout a
      | None, Some _ => True | _, None => False end
  | _, _ => False
  end.
Proof.
  intros m [[a b c d f] can fr]. cbn.
  repeat split; try (destruct a; cbn; auto; fail); try (destruct b; cbn; auto; fail); try (destruct c; cbn; auto; fail);
    try (destruct d; cbn; auto; fail); try (destruct f; cbn; auto; fail); try (destruct fr; cbn; auto; fail).
  destruct can as [[rep dur ns aa ap af nr mode]|]; cbn; [|exact I].
  repeat split.
  - destruct rep; cbn; auto.
  - destruct dur; cbn; auto.
  - destruct ns; cbn; auto.
  - destruct nr; cbn; auto.
  - destruct mode; cbn; congruence.
  - destruct ap as [[e1 m1 s1]|]; cbn; [|exact I]. repeat split; [destruct e1 | destruct m1]; cbn; auto.
  - destruct af as [[e2 m2 d2 t2]|]; cbn; [|exact I]. repeat split; [destruct e2 | destruct m2]; cbn; auto.
Qed.

Theorem default_eds_frame : forall m e,
  let e' := default_eds m e in
  e_name e' = e_name e /\ e_ns e' = e_ns e /\ e_annots e' = e_annots e /\ e_tmpl e' = e_tmpl e /\
  e_selector e' = e_selector e /\ e_status e' = e_status e /\ e_tmpl_name_set e' = false.
Proof. intros; cbn; repeat split. Qed.

(** ** validation *)
Theorem validate_no_panic : forall c, is_defaulted_canary c = true -> forall k, validate_canary c <> Panic k.
Proof.
  intros [rep dur ns aa ap af nr mode] H k. unfold is_defaulted_canary in H; cbn in H.
  rewrite !andb_true_iff in H. destruct H as [[[[[_ _] _] _] Hap] Haf].
  destruct ap as [[e1 m1 s1]|]; [|discriminate]. destruct af as [[e2 m2 d2 t2]|]; [|discriminate].
  cbn in Hap, Haf. destruct e1 as [e1|]; [|discriminate]. destruct m1 as [m1|]; [|discriminate].
  destruct e2 as [e2|]; [|discriminate]. destruct m2 as [m2|]; [|discriminate].
  unfold validate_canary; cbn.
  destruct e2, e1; cbn; try (destruct (m2 <? m1); cbn); try discriminate;
    destruct t2 as [t|]; cbn; try (destruct dur as [d|]; cbn; try (destruct (t <=? d); cbn)); try discriminate;
    destruct (vmode_eqb mode VManual); cbn; try discriminate;
    try (destruct (is_some _); cbn; try discriminate); try (destruct dur; cbn; try discriminate);
    try (destruct (is_some nr); discriminate); try (destruct nr; cbn; discriminate).
Qed.

Definition mk_canary_for_validation (du nr : option Base.dur) (mode : vmode) (ape afe : bool) (apm afm : Z) (to : option Base.dur) : canary_spec :=
  MkCanary (Some (IntV 1)) du (Some empty_selector) [] (Some (MkAutoPause (Some ape) (Some apm) None))
           (Some (MkAutoFail (Some afe) (Some afm) None to)) nr mode.

(** the documented rejections *)
Theorem validate_rejects : forall (du nr to : option Base.dur) mode apm afm (t d : Base.dur),
  (afm < apm -> validate_canary (mk_canary_for_validation du nr mode true true apm afm to) = Error 1%N) /\
  (apm <= afm -> t <= d ->
     validate_canary (mk_canary_for_validation (Some d) nr mode true true apm afm (Some t)) = Error 2%N) /\
  (apm <= afm -> to = None \/ (to = Some t /\ d < t) ->
     validate_canary (mk_canary_for_validation (Some d) nr VManual true true apm afm to) = Error 3%N) /\
  (apm <= afm -> validate_canary (mk_canary_for_validation None (Some d) VManual true true apm afm to) = Error 4%N).
Proof.
  intros du nr to mode apm afm t d. unfold validate_canary, mk_canary_for_validation; cbn. repeat split.
  - intros H. assert (E : afm <? apm = true) by (apply Z.ltb_lt; lia). rewrite E. reflexivity.
  - intros H1 H2. assert (E : afm <? apm = false) by (apply Z.ltb_ge; lia). rewrite E. cbn.
    assert (E2 : t <=? d = true) by (apply Z.leb_le; lia). rewrite E2. reflexivity.
  - intros H1 H2. assert (E : afm <? apm = false) by (apply Z.ltb_ge; lia). rewrite E. cbn.
    destruct H2 as [->|[-> Ht]]; cbn; [reflexivity|].
    assert (E2 : t <=? d = false) by (apply Z.leb_gt; lia). rewrite E2. reflexivity.
  - intros H1. assert (E : afm <? apm = false) by (apply Z.ltb_ge; lia). rewrite E. cbn.
    destruct to; reflexivity.
Qed.

(** ** the ExtendedDaemonSet reconcile never panics *)
Theorem eds_sync_total : forall sn k, eds_sync sn <> Panic k.
Proof.
  intros sn k H. unfold eds_sync in H.
  destruct (es_obj sn) as [e|]; [|discriminate].
  destruct (is_defaulted e) eqn:Ed; cbn [negb] in H; [|discriminate].
  destruct (validate (e_strategy e)) as [[]|c|c] eqn:Ev; try discriminate.
  - destruct (es_fail_list_rs sn); [discriminate|].
    destruct (last_such (rs_up_to_date e) (rs_of_eds e (es_rss sn))) as [u|]; [|discriminate].
    destruct (select_current _ _ _ u (es_now sn)) as [cur rq].
    match type of H with (if ?b then _ else _) = _ => destruct b; [discriminate|] end.
    destruct (update_instance sn e cur u _ _ _) as [upl|c|c] eqn:Eu; try discriminate.
    (* update_instance has no panicking path *)
    unfold update_instance in Eu. destruct (st_canary (e_strategy e)) as [cs|].
    + destruct (canary_paused _ _) as [p r].
      destruct (negb _).
      * destruct (ca_replicas cs); [|discriminate]. destruct (resolve_iop _ _); [|discriminate].
        match type of Eu with (if ?b then _ else _) = _ => destruct b end.
        -- unfold finish_update in Eu. repeat (match type of Eu with (if ?b then _ else _) = _ => destruct b end); discriminate.
        -- destruct (select_or_fail _ _ _ _ _ _ _) as [sel en]. destruct en; unfold with_error, finish_update in Eu;
             repeat (match type of Eu with context [if ?b then _ else _] => destruct b end); discriminate.
      * destruct (clear_canary_annots _) as [a' ch].
        unfold finish_update in Eu. repeat (match type of Eu with (if ?b then _ else _) = _ => destruct b end); discriminate.
    + unfold finish_update in Eu. repeat (match type of Eu with (if ?b then _ else _) = _ => destruct b end); discriminate.
  - (* validation panics only on a spec that is not defaulted *)
    unfold validate in Ev. destruct (st_canary (e_strategy e)) as [cs|] eqn:Ec; [|discriminate].
    unfold is_defaulted, is_defaulted_strategy in Ed. rewrite Ec in Ed. rewrite !andb_true_iff in Ed.
    destruct Ed as [[[_ Hc] _] _]. exact (validate_no_panic cs Hc c Ev).
Qed.

Lemma validate_panicked_before_fix :
  exists c, is_defaulted_canary c = true /\ exists k, validate_canary_before_fix c = Panic k.
Proof.
  exists (MkCanary (Some (IntV 1)) None (Some empty_selector) [] (Some (MkAutoPause (Some true) (Some 2) None))
                   (Some (MkAutoFail (Some true) (Some 5) None (Some (60 * second)))) None VManual).
  split; [reflexivity|]. eexists. reflexivity.
Qed.
