(** * Taints against tolerations, and the cannot-start test: position independent (C01, C02, C06). *)
From Coq Require Import List ZArith NArith Bool Lia Permutation.
From EDS Require Import Model.Base Model.Objects Model.Fitness Model.PodSpec.
Import ListNotations.

(** one untolerated NoSchedule / NoExecute taint excludes the node, wherever it stands in the list and whatever the
    other taints are *)
Theorem untolerated_taint_excludes : forall t tols n ta,
  In ta (n_taints n) -> taint_counts ta = true -> (forall tol, In tol tols -> tolerates tol ta = false) ->
  fit_tols t tols n = false.
Proof.
  intros t tols n ta Hin Hc Hno. unfold fit_tols. apply andb_false_iff. right.
  unfold tolerates_taints. apply not_true_iff_false. intro H. rewrite forallb_forall in H.
  specialize (H ta Hin). rewrite Hc in H. cbn [negb orb] in H.
  apply existsb_exists in H. destruct H as [tol [Ht Hy]]. rewrite (Hno tol Ht) in Hy. discriminate.
Qed.

(** ... and conversely: the taints let the pod in exactly when every taint that counts is tolerated by some toleration *)
Theorem taints_tolerated_iff : forall tols tas,
  tolerates_taints tols tas = true <->
  (forall ta, In ta tas -> taint_counts ta = true -> exists tol, In tol tols /\ tolerates tol ta = true).
Proof.
  intros tols tas. unfold tolerates_taints. rewrite forallb_forall. split.
  - intros H ta Hin Hc. specialize (H ta Hin). rewrite Hc in H. cbn [negb orb] in H. apply existsb_exists in H. exact H.
  - intros H ta Hin. destruct (taint_counts ta) eqn:Hc; [|reflexivity]. cbn [negb orb].
    apply existsb_exists. exact (H ta Hin Hc).
Qed.

(** the order of the taints on the node (and of the tolerations in the template) is irrelevant *)
Theorem taint_order_irrelevant : forall tols tols' tas tas',
  Permutation tas tas' -> Permutation tols tols' -> tolerates_taints tols tas = tolerates_taints tols' tas'.
Proof.
  intros tols tols' tas tas' Hp Hq.
  destruct (tolerates_taints tols tas) eqn:E; symmetry.
  - apply taints_tolerated_iff. intros ta Hin Hc. apply (Permutation_in _ (Permutation_sym Hp)) in Hin.
    destruct (proj1 (taints_tolerated_iff tols tas) E ta Hin Hc) as [tol [Ht Hy]].
    exists tol. split; [apply (Permutation_in _ Hq); exact Ht | exact Hy].
  - apply not_true_iff_false. intro E'. apply not_true_iff_false in E. apply E.
    apply taints_tolerated_iff. intros ta Hin Hc. apply (Permutation_in _ Hp) in Hin.
    destruct (proj1 (taints_tolerated_iff tols' tas') E' ta Hin Hc) as [tol [Ht Hy]].
    exists tol. split; [apply (Permutation_in _ (Permutation_sym Hq)); exact Ht | exact Hy].
Qed.

(** a pod cannot start exactly when SOME container status (regular, init or ephemeral, in any position) waits on one of
    the listed reasons - a harmless waiting reason in front hides nothing *)
Theorem cannot_start_iff : forall p,
  fst (cannot_start p) = existsb (fun c => match cs_waiting c with Some r => is_cannot_start_reason r | None => false end) (p_cstats p).
Proof.
  intro p. unfold cannot_start.
  induction (p_cstats p) as [|c r IH]; [reflexivity|]. cbn [find existsb].
  destruct (match cs_waiting c with Some r0 => is_cannot_start_reason r0 | None => false end); [reflexivity | exact IH].
Qed.

Theorem cannot_start_reason_listed : forall p, fst (cannot_start p) = true -> is_cannot_start_reason (snd (cannot_start p)) = true.
Proof.
  intro p. unfold cannot_start.
  destruct (find _ (p_cstats p)) as [c|] eqn:E; cbn [fst snd]; [|discriminate].
  intros _. apply find_some in E. destruct E as [_ E]. destruct (cs_waiting c); [exact E | discriminate].
Qed.

(** the node selector always applies, whatever the affinity block looks like (absent, empty, preferences only - all of which
    the model reads as "no required term" - or required terms) *)
Theorem node_selector_always_applies : forall t tols n,
  fit_tols t tols n = true -> set_matches (t_nodesel t) (n_labels n) = true.
Proof.
  intros t tols n H. unfold fit_tols, check_node_selector in H.
  apply andb_true_iff in H. destruct H as [H _]. apply andb_true_iff in H. destruct H as [H _]. exact H.
Qed.

