(** * C09Proofs: slow-start ramp, per-sync creation bound and the spacing of syncs. *)
From Coq Require Import List ZArith NArith Bool Lia.
From EDS Require Import Model.Objects Model.Fitness Model.PodSpec Model.Backoff Model.Filter Model.Default
     Model.Limits Model.Rolling Model.Canary Model.ErsReconcile Proofs.Lists Proofs.CondProofs Proofs.RollingProofs Proofs.SyncInv.
Import ListNotations.
Open Scope Z_scope.

(** The ramp the plan carries is [max_creation] of the strategy fields, started at the transition of
    a True Active condition of the status READ (else now), percentages resolved against the number of
    planning items (targeted nodes). *)
Lemma plan_ramp : forall rs ann ru now items rp,
  rolling_plan_of rs ann ru now items = Ok rp ->
  exists inc interval maxpar,
    ru_increase ru = Some inc /\ ru_interval ru = Some interval /\ ru_max_parallel ru = Some maxpar /\
    rp_start rp = rolling_start (r_status rs) now /\
    max_creation inc interval maxpar (zlen items) (rp_start rp) now = Some (rp_max_creation rp).
Proof.
  intros rs ann ru now items rp H. unfold rolling_plan_of in H.
  destruct (ru_max_sched_failure ru) as [msf|]; [|discriminate].
  destruct (resolve_iop msf (zlen items)) as [max_fail|]; [|discriminate].
  destruct (ru_max_unavailable ru) as [mu|]; [|discriminate].
  destruct (resolve_iop mu (zlen items)) as [max_unav|]; [|discriminate].
  destruct (ru_increase ru) as [inc|]; [|discriminate].
  destruct (resolve_iop inc (zlen items)); [|discriminate].
  destruct (ru_interval ru) as [interval|]; [|discriminate].
  destruct (ru_max_parallel ru) as [maxpar|]; [|discriminate].
  destruct (max_creation inc interval maxpar (zlen items) _ now) as [maxc|] eqn:E; [|discriminate].
  inversion H; subst rp; clear H. exists inc, interval, maxpar. cbn. repeat split; auto.
Qed.

Lemma sync_create_cap : forall sn ch pl rp,
  ers_sync sn ch = Ok pl -> pl_rolling pl = Some rp -> mon_create_cap rp (pl_creates pl) = true.
Proof.
  intros sn ch pl rp H Hr. destruct (sync_rolling _ _ _ _ H Hr) as [_ [WF [_ [Hn|Ha]]]].
  - rewrite Hn. apply mon_create_cap_nil.
  - apply create_cap; assumption.
Qed.

Lemma sync_delete_cap : forall sn ch pl rp,
  ers_sync sn ch = Ok pl -> pl_rolling pl = Some rp -> mon_cap rp (pl_update_nodes pl) = true.
Proof.
  intros sn ch pl rp H Hr. destruct (sync_rolling _ _ _ _ H Hr) as [_ [WF [[Hn|Ha] _]]].
  - rewrite Hn. apply mon_cap_nil.
  - apply cap; assumption.
Qed.

(** ** Spacing *)
(** the gate: while the previous full sync is younger than reconcileFrequency the sync touches nothing *)
Lemma gate_closed_idle : forall sn ch pl e freq c,
  sn_eds sn = Some e -> st_freq (e_strategy e) = Some freq ->
  get_cond (rs_conds (r_status (sn_rs sn))) CT_LastFullSync = Some c ->
  sn_now sn < c_update c + freq ->
  ers_sync sn ch = Ok pl ->
  pl_creates pl = [] /\ pl_deletes pl = [] /\ pl_cleanup pl = [] /\ pl_label_add pl = [] /\ pl_label_del pl = [].
Proof.
  intros sn ch pl e freq c He Hf Hc Hlt H. apply ers_sync_inv in H.
  destruct H as [rl st after err Hp | e' freq' cx so He' Hd Hf' Hg _ _ _].
  - subst pl. cbn. repeat split; reflexivity.
  - rewrite He in He'. inversion He'; subst e'. rewrite Hf in Hf'. inversion Hf'; subst freq'.
    unfold sync_gate in Hg. rewrite Hc in Hg. unfold tafter, tadd in Hg.
    assert (E : c_update c + freq >? sn_now sn = true) by (apply Z.gtb_lt; lia).
    rewrite E in Hg. discriminate.
Qed.

Lemma full_sync_stamps : forall sn cx so pl, finish_sync sn cx so = Ok pl ->
  exists st c, pl_status pl = Some st /\ get_cond (rs_conds st) CT_LastFullSync = Some c /\ c_update c = sn_now sn.
Proof.
  intros sn cx so pl H. unfold finish_sync in H.
  match type of H with (if ?c then _ else _) = _ => destruct c; [|discriminate] end.
  inversion H; subst pl; clear H. cbn [pl_status].
  match goal with |- context [with_conds ?s (update_cond ?cs ?now CT_LastFullSync CTrue ?r ?m true true)] =>
    destruct (update_cond_stamps cs now CT_LastFullSync CTrue r m) as [c [Hc [Hu _]]];
    exists (with_conds s (update_cond cs now CT_LastFullSync CTrue r m true true)), c end.
  split; [reflexivity|]. split; [exact Hc | exact Hu].
Qed.

(** Two syncs of one replica set: if the first ran its three stages at [t1] and its status write is what
    the second reads, a second sync that touches any pod runs at [t2 >= t1 + reconcileFrequency]. *)
Lemma spacing : forall sn1 ch1 pl1 st1 sn2 ch2 pl2 e2 freq,
  ers_sync sn1 ch1 = Ok pl1 -> pl_status pl1 = Some st1 ->
  (pl_creates pl1 <> [] \/ pl_deletes pl1 <> [] \/ pl_cleanup pl1 <> []) ->
  r_status (sn_rs sn2) = st1 ->
  sn_eds sn2 = Some e2 -> st_freq (e_strategy e2) = Some freq ->
  ers_sync sn2 ch2 = Ok pl2 ->
  (pl_creates pl2 <> [] \/ pl_deletes pl2 <> [] \/ pl_cleanup pl2 <> []) ->
  sn_now sn1 + freq <= sn_now sn2.
Proof.
  intros sn1 ch1 pl1 st1 sn2 ch2 pl2 e2 freq H1 Hst Hact1 Hread He2 Hf2 H2 Hact2.
  apply ers_sync_inv in H1.
  destruct H1 as [rl st after err Hp | e freq1 cx so He Hd Hf Hg Hc Hs Hfin].
  - subst pl1. cbn in Hact1. destruct Hact1 as [F|[F|F]]; congruence.
  - destruct (full_sync_stamps _ _ _ _ Hfin) as [st [c [Hps [Hgc Hup]]]].
    rewrite Hps in Hst. injection Hst as Hst'.
    destruct (Z_lt_le_dec (sn_now sn2) (sn_now sn1 + freq)) as [Hlt|Hge]; [|assumption].
    exfalso. rewrite <- Hup in Hlt. rewrite Hst', <- Hread in Hgc.
    destruct (gate_closed_idle sn2 ch2 pl2 e2 freq c He2 Hf2 Hgc Hlt H2) as [A [B [C _]]].
    destruct Hact2 as [F|[F|F]]; congruence.
Qed.

(** the one-second resolution of stored timestamps, for real (sub-second) instants: a stamp is the
    instant truncated to the second, so the bound above gives "more than frequency minus one second". *)
Definition floor_second (t : Z) : Z := (t / second) * second.
Lemma spacing_subsecond : forall t1 t2 freq,
  floor_second t1 + freq <= t2 -> t2 - t1 > freq - second.
Proof.
  intros t1 t2 freq H. unfold floor_second, second in *.
  pose proof (Z.div_mod t1 1000000000 ltac:(lia)). pose proof (Z.mod_pos_bound t1 1000000000 ltac:(lia)). lia.
Qed.

(** a creation limit that is zero or negative (a negative maxParallelPodCreation or slowStartAdditiveIncrease, which the
    schema accepts) means: create nothing - never a negative count *)
Theorem nonpositive_limit_creates_nothing : forall p, lp_max_creation p <= 0 -> calc_create p = 0.
Proof. intros p H. unfold calc_create. lia. Qed.
Theorem create_count_nonnegative : forall p, 0 <= calc_create p /\ 0 <= calc_delete p.
Proof. intros p. unfold calc_create, calc_delete. lia. Qed.
