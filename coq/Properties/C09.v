(** * C09 - pod creation is rate limited by slow start and syncs are spaced.
    Property theorems only; each is closed by [exact] of a lemma of [Proofs/]. *)
From Coq Require Import List ZArith.
From EDS Require Import Model.Objects Model.Limits Model.Rolling Model.ErsReconcile
     Model.Default Proofs.Lists Proofs.RollingProofs Proofs.SyncInv Proofs.C09Proofs Proofs.RoleConds.
Import ListNotations.
Open Scope Z_scope.

(** The ramp: for a positive interval and a clock that does not run backwards,
    maxCreation = min(maxParallelPodCreation, (1 + floor(t / interval)) * increase); Go's truncated
    division is the floor because t >= 0. *)
Theorem C09_ramp : forall inc interval maxpar nb start now sv,
  resolve_iop inc nb = Some sv -> 0 < interval -> start <= now -> now - start <= max_dur ->
  max_creation inc interval maxpar nb start now = Some (Z.min ((1 + (now - start) / interval) * sv) maxpar).
Proof. exact ramp_formula. Qed.
Print Assumptions C09_ramp.

(** after the repair of D1b a zero or negative interval means one slot (no division) *)
Theorem C09_ramp_nonpositive_interval : forall inc interval maxpar nb start now sv,
  resolve_iop inc nb = Some sv -> interval <= 0 ->
  max_creation inc interval maxpar nb start now = Some (Z.min sv maxpar).
Proof. exact ramp_nonpositive_interval. Qed.
Print Assumptions C09_ramp_nonpositive_interval.

(** percentages resolve against the number of targeted nodes, rounding up *)
Theorem C09_percent_rounds_up : forall v total r, resolve_iop (PctV v) total = Some r ->
  100 * r >= v * total /\ 100 * (r - 1) < v * total.
Proof. exact percent_rounds_up. Qed.
Print Assumptions C09_percent_rounds_up.

(** the plan's ramp is that formula on the strategy's fields, started at the transition of a True Active
    condition in the status read (else now), percent resolved against the planning items *)
Theorem C09_plan_ramp : forall rs ann ru now items rp,
  rolling_plan_of rs ann ru now items = Ok rp ->
  exists inc interval maxpar,
    ru_increase ru = Some inc /\ ru_interval ru = Some interval /\ ru_max_parallel ru = Some maxpar /\
    rp_start rp = rolling_start (r_status rs) now /\
    max_creation inc interval maxpar (zlen items) (rp_start rp) now = Some (rp_max_creation rp).
Proof. exact plan_ramp. Qed.
Print Assumptions C09_plan_ramp.

(** In one sync the active replica set creates at most max(0, ramp) pods and at most as many as nodes
    lack a pod - for every snapshot and every choice of the runtime. *)
Theorem C09_create_bound : forall sn ch pl rp,
  ers_sync sn ch = Ok pl -> pl_rolling pl = Some rp -> mon_create_cap rp (pl_creates pl) = true.
Proof. exact sync_create_cap. Qed.
Print Assumptions C09_create_bound.

(** ... and deletes at most maxUnavailable pods for updating. *)
Theorem C09_delete_bound : forall sn ch pl rp,
  ers_sync sn ch = Ok pl -> pl_rolling pl = Some rp -> mon_cap rp (pl_update_nodes pl) = true.
Proof. exact sync_delete_cap. Qed.
Print Assumptions C09_delete_bound.

(** The gate: while the last full sync is younger than reconcileFrequency the sync touches no pod. *)
Theorem C09_gate : forall sn ch pl e freq c,
  sn_eds sn = Some e -> st_freq (e_strategy e) = Some freq ->
  get_cond (rs_conds (r_status (sn_rs sn))) CT_LastFullSync = Some c ->
  sn_now sn < c_update c + freq ->
  ers_sync sn ch = Ok pl ->
  pl_creates pl = [] /\ pl_deletes pl = [] /\ pl_cleanup pl = [] /\ pl_label_add pl = [] /\ pl_label_del pl = [].
Proof. exact gate_closed_idle. Qed.
Print Assumptions C09_gate.

(** Spacing: if a sync that touched pods wrote its status and the next sync of the same replica set reads
    that status, the next sync touches pods only at least reconcileFrequency later (stamps and instants in
    whole seconds); for real instants the stamp is the truncated instant, hence "up to one second". *)
Theorem C09_spacing : forall sn1 ch1 pl1 st1 sn2 ch2 pl2 e2 freq,
  ers_sync sn1 ch1 = Ok pl1 -> pl_status pl1 = Some st1 ->
  (pl_creates pl1 <> [] \/ pl_deletes pl1 <> [] \/ pl_cleanup pl1 <> []) ->
  r_status (sn_rs sn2) = st1 ->
  sn_eds sn2 = Some e2 -> st_freq (e_strategy e2) = Some freq ->
  ers_sync sn2 ch2 = Ok pl2 ->
  (pl_creates pl2 <> [] \/ pl_deletes pl2 <> [] \/ pl_cleanup pl2 <> []) ->
  sn_now sn1 + freq <= sn_now sn2.
Proof. exact spacing. Qed.
Print Assumptions C09_spacing.

Theorem C09_spacing_subsecond : forall t1 t2 freq,
  floor_second t1 + freq <= t2 -> t2 - t1 > freq - second.
Proof. exact spacing_subsecond. Qed.
Print Assumptions C09_spacing_subsecond.

(** Non-vacuity: 100 % of 7 nodes, 90 s into a 60 s interval, cap 250: two slots of 7. *)
Example C09_example : max_creation (PctV 100) (60 * second) 250 7 0 (90 * second) = Some 14.
Proof. reflexivity. Qed.

(** "t is the time since its Active condition last became true": a sync of a replica set in another role than active (a
    canary, or no role at all: superseded by a later template) never writes a status whose Active condition is True ... *)
Theorem C09_inactive_role_not_active : forall sn ch pl st e,
  ers_sync sn ch = Ok pl -> sn_eds sn = Some e -> is_defaulted e = true ->
  pl_role pl <> RoleActive -> pl_status pl = Some st ->
  is_cond_true (rs_conds st) CT_Active = false.
Proof. exact inactive_role_not_active. Qed.
Print Assumptions C09_inactive_role_not_active.

(** ... so a replica set that becomes active again starts its ramp at that moment, not at its first activation *)
Theorem C09_ramp_starts_at_activation : forall st now,
  is_cond_true (rs_conds st) CT_Active = false -> rolling_start st now = now.
Proof. exact ramp_starts_at_activation. Qed.
Print Assumptions C09_ramp_starts_at_activation.

(** a creation limit that is zero or negative (a negative maxParallelPodCreation or slowStartAdditiveIncrease, which the
    schema accepts) means: create nothing - the counts handed to the strategy are never negative *)
Theorem C09_nonpositive_limit_creates_nothing : forall p, lp_max_creation p <= 0 -> calc_create p = 0.
Proof. exact nonpositive_limit_creates_nothing. Qed.
Print Assumptions C09_nonpositive_limit_creates_nothing.

Theorem C09_counts_nonnegative : forall p, 0 <= calc_create p /\ 0 <= calc_delete p.
Proof. exact create_count_nonnegative. Qed.
Print Assumptions C09_counts_nonnegative.
