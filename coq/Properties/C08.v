(** * C08 - pause and freeze annotations stop exactly what they promise to stop.
    Property theorems only; each is closed by [exact] of a lemma of [Proofs/]. *)
From Coq Require Import List ZArith Bool.
From EDS Require Import Model.Objects Model.Rolling Model.Canary Model.ErsReconcile Model.EdsLogic
     Proofs.Lists Proofs.RollingProofs Proofs.SyncInv Proofs.C08Proofs.
Import ListNotations.
Open Scope Z_scope.

(** For every snapshot and every choice of the runtime: while rolling-update-paused or rollout-frozen is
    "true" a successful sync of the active replica set deletes no pod in order to update it; while
    rollout-frozen is "true" it creates no pod.  (Clean-up deletions are outside, as the statement says.) *)
Theorem C08_active_paused_frozen : forall sn ch pl e,
  ers_sync sn ch = Ok pl -> sn_eds sn = Some e -> pl_role pl = RoleActive ->
  (a3_true (an_rolling_paused (e_annots e)) || a3_true (an_frozen (e_annots e)) = true ->
     pl_update_nodes pl = [] /\ pl_deletes pl = []) /\
  (a3_true (an_frozen (e_annots e)) = true -> pl_creates pl = []).
Proof. exact active_paused_frozen. Qed.
Print Assumptions C08_active_paused_frozen.

(** Pausing leaves creation untouched: candidates, counters, ramp and the number of pods created are
    the same whatever the rolling-update-paused annotation says. *)
Theorem C08_paused_still_creates : forall rs ann ann' ru now items rp rp',
  a3_true (an_frozen ann) = a3_true (an_frozen ann') ->
  rolling_plan_of rs ann ru now items = Ok rp -> rolling_plan_of rs ann' ru now items = Ok rp' ->
  rp_nb_create rp = rp_nb_create rp' /\ rp_create_candidates rp = rp_create_candidates rp' /\
  rp_counts rp = rp_counts rp' /\ rp_max_creation rp = rp_max_creation rp'.
Proof. exact paused_creates_unchanged. Qed.
Print Assumptions C08_paused_still_creates.

(** Resume: the plan depends on the two annotations only through "is the value exactly true", so removing
    an annotation or setting it to false (or to anything else) gives the plan of the unpaused rollout. *)
Theorem C08_resume : forall rs ann ann' ru now items,
  a3_true (an_rolling_paused ann) = a3_true (an_rolling_paused ann') ->
  a3_true (an_frozen ann) = a3_true (an_frozen ann') ->
  rolling_plan_of rs ann ru now items = rolling_plan_of rs ann' ru now items.
Proof. exact plan_depends_on_switches. Qed.
Print Assumptions C08_resume.

(** While the canary is paused or failed (as this very sync establishes it and writes it to the
    conditions) no canary pod is created. *)
Theorem C08_canary_paused_no_create : forall rs ann oc now cn listed items st0 cp,
  manage_canary_status rs ann oc now cn listed items st0 = Ok cp ->
  cp_paused cp || cp_failed cp = true -> cp_creates cp = [].
Proof. exact canary_paused_no_create. Qed.
Print Assumptions C08_canary_paused_no_create.

(** A canary resumes on unpause: with the canary-unpaused annotation the sync ends not paused unless
    the canary is failed - for every list of canary pods, the empty one included (repaired defect D6). *)
Theorem C08_canary_resumes_on_unpause : forall rs ann oc now cn listed items st0 cp,
  manage_canary_status rs ann oc now cn listed items st0 = Ok cp -> oc <> None ->
  canary_unpaused ann = true -> cp_failed cp = false -> cp_paused cp = false.
Proof. exact canary_unpause_lifts. Qed.
Print Assumptions C08_canary_resumes_on_unpause.

(** Elapsed time never promotes a paused canary (pause by annotation or by the replica set's own
    Canary-Paused condition): only the canary-valid annotation does. *)
Theorem C08_paused_never_time_promoted : forall ann oc a u now,
  oc <> None -> fst (canary_paused ann (Some (r_status u))) = true -> canary_valid ann (r_name u) = false ->
  fst (select_current ann oc (Some a) u now) = a.
Proof. exact paused_not_time_promoted. Qed.
Print Assumptions C08_paused_never_time_promoted.

(** "a canary resumes on ... explicit validation": the canary-valid annotation naming the new replica set promotes it,
    paused or not, unless it is failed. *)
Theorem C08_resumes_on_validation : forall ann oc a u now,
  canary_valid ann (r_name u) = true -> canary_failed_rs (r_status u) = false ->
  fst (select_current ann oc (Some a) u now) = u.
Proof. exact validated_promotes. Qed.
Print Assumptions C08_resumes_on_validation.

(** status.state: Frozen before Paused before Running when no canary is active; Canary Paused (with the
    reason) iff paused while one is. *)
Theorem C08_state_no_canary : forall ann,
  non_canary_state ann =
  if a3_true (an_frozen ann) then ST_FROZEN else if a3_true (an_rolling_paused ann) then ST_RU_PAUSED else ST_RUNNING.
Proof. exact state_string_no_canary. Qed.
Print Assumptions C08_state_no_canary.

Theorem C08_state_canary : forall st ann u paused reason,
  es_state (manage_status st ann u true false paused reason) = (if paused then ST_CANARY_PAUSED else ST_CANARY) /\
  es_reason (manage_status st ann u true false paused reason) = (if paused then reason else 0%N).
Proof. exact state_string_canary. Qed.
Print Assumptions C08_state_canary.
