(** * C02 - reconciliation converges to one Ready live-template pod per eligible node.
    Property theorems only; each is closed by [exact] of a lemma of [Proofs/].

    Liveness is proved on the per-class abstraction of the rollout (Model/Abstract.v), whose round uses the
    same budget functions as the sync model, and transferred to the planning items of the sync model itself
    ([C02_rollout_converges]); "API calls succeed and created pods get scheduled and become Ready" and the
    fairness of the rounds are hypotheses of the statement itself, written out as an explicit model of the
    environment ([settled], [synced], [fair_round]). *)
From Coq Require Import List ZArith Bool.
From EDS Require Import Model.Base Model.Objects Model.Limits Model.Rolling Model.Abstract Proofs.Lists Proofs.C02Proofs Proofs.C02Round.
Import ListNotations.
Open Scope Z_scope.

(** in every fair round the measure (3 per outdated pod, 2 per node without a pod, 1 per pod not Ready yet)
    strictly decreases while positive - for every state (any mix after node churn, partial rollouts, several
    template changes) and every limits with at least one creation slot and one allowed unavailable pod *)
Theorem C02_measure_decreases : forall maxc mu s,
  a_wf s -> 1 <= maxc -> 1 <= mu -> 0 < a_measure s -> a_measure (a_round maxc mu s) < a_measure s.
Proof. exact measure_decreases. Qed.
Print Assumptions C02_measure_decreases.

(** hence after at most [measure] <= 3 * nodes rounds every targeted node runs a Ready up-to-date pod *)
Theorem C02_converges : forall maxc mu n s,
  a_wf s -> 1 <= maxc -> 1 <= mu -> a_measure s <= Z.of_nat n -> a_converged (a_rounds n maxc mu s).
Proof. exact converges. Qed.
Print Assumptions C02_converges.

Theorem C02_bound : forall s, a_wf s -> a_measure s <= 3 * a_nodes s.
Proof. exact bound_three_per_node. Qed.
Print Assumptions C02_bound.

(** the converged state is a fixpoint: further rounds create and delete nothing *)
Theorem C02_fixpoint : forall maxc mu s, a_wf s -> 0 <= maxc -> a_converged s -> a_round maxc mu s = s.
Proof. exact converged_fixpoint. Qed.
Print Assumptions C02_fixpoint.

(** the rolling-update limits are necessary: without a creation slot, or with no allowed unavailability,
    some state never moves *)
Theorem C02_creation_limit_needed : exists s, a_wf s /\ 0 < a_measure s /\ a_round 0 1 s = s.
Proof. exact creation_limit_needed. Qed.
Print Assumptions C02_creation_limit_needed.
Theorem C02_unavailable_limit_needed : exists s, a_wf s /\ 0 < a_measure s /\ a_round 1 0 s = s.
Proof. exact unavailable_limit_needed. Qed.
Print Assumptions C02_unavailable_limit_needed.

(** silence of the real plan: when every planning item holds an up-to-date pod the rolling plan has no
    candidate, so every choice the runtime may make creates and deletes nothing *)
Theorem C02_fixpoint_silent : forall rs ann ru now items rp,
  rolling_plan_of rs ann ru now items = Ok rp ->
  (forall i, In i items -> is_class c_uptodate rs now i = true) ->
  rp_create_candidates rp = [] /\ rp_del_unavailable rp = [] /\ rp_del_available rp = [] /\
  (forall obs, admissible_creates rp obs = true -> obs = []) /\
  (forall obs, admissible_deletes rp obs = true -> obs = []).
Proof. exact plan_silent_when_up_to_date. Qed.
Print Assumptions C02_fixpoint_silent.

(** The link between the abstraction and the sync model, as far as it is a statement about one sync: for planning
    items without a stuck pod, a rollout neither paused nor frozen, the numbers of creations and of update-deletions
    the REAL plan allows ([rolling_plan_of], every admissible choice of the runtime has exactly these sizes) are the
    [c] and [d] of the abstract sync on the class counts of those items, and the candidate sets have the sizes of the
    corresponding classes. *)
Theorem C02_plan_projects : forall rs ann ru now items rp,
  rolling_plan_of rs ann ru now items = Ok rp ->
  rp_paused rp = false -> rp_frozen rp = false ->
  count_if (is_class c_unresp rs now) items = 0 -> 0 <= rp_max_sched_failure rp ->
  let s := abs_of rs now items in
  let lp := a_limits s (rp_max_creation rp) (rp_max_unavailable rp) in
  a_nodes s = zlen items /\
  rp_nb_create rp = Z.min (calc_create lp) (a_missing s) /\
  rp_nb_delete rp = Z.min (calc_delete lp) (a_old_notready s + a_old_ready s) /\
  zlen (rp_create_candidates rp) = a_missing s /\
  zlen (rp_del_unavailable rp) = a_old_notready s /\ zlen (rp_del_available rp) = a_old_ready s.
Proof. exact plan_projects. Qed.
Print Assumptions C02_plan_projects.

(** ... and the state after the sync: [synced] says what the calls of a sync do to the planning items (a created pod is
    up to date and not Ready yet - C10_roundtrip; a pod whose deletion was requested is terminating; nothing else
    changes).  For EVERY admissible choice of the runtime (every map order), the items after the sync abstract to
    [a_sync] of the abstraction of the items before: the controller's half of an abstract round is exactly what the sync
    model does.  The other half, [a_settle] (terminating pods disappear, created pods become Ready), is the kubelet. *)
Theorem C02_sync_projects : forall rs ann ru now items items' rp creates deletes,
  NoDup (map ni_name items) ->
  rolling_plan_of rs ann ru now items = Ok rp ->
  rp_paused rp = false -> rp_frozen rp = false ->
  count_if (is_class c_unresp rs now) items = 0 -> 0 <= rp_max_sched_failure rp ->
  admissible_creates rp creates = true -> admissible_deletes rp deletes = true ->
  synced rs now creates deletes items items' ->
  abs_of rs now items' = a_sync (abs_of rs now items) (rp_max_creation rp) (rp_max_unavailable rp).
Proof. exact sync_projects. Qed.
Print Assumptions C02_sync_projects.

(** The environment's half of a round, as an explicit model ([settled]: a pod being deleted is gone, a created pod is
    Ready, nothing else changes and no pod gets stuck while the clock moves): the items after it abstract to [a_settle]
    of the abstraction before. That the kubelet and the API server behave so is the hypothesis "created pods get
    scheduled and become Ready" of the property; the fair-tail histories exercise it on the real code. *)
Theorem C02_settle_projects : forall rs now now' items items',
  settled rs now now' items items' -> count_if (is_class c_unresp rs now) items = 0 ->
  abs_of rs now' items' = a_settle (abs_of rs now items) /\ count_if (is_class c_unresp rs now') items' = 0.
Proof. exact settle_projects. Qed.
Print Assumptions C02_settle_projects.

(** A whole fair round of the sync model - the environment settles, the active replica set plans on what it reads, the
    runtime picks ANY admissible set of creations and deletions, the calls are applied - is an abstract round, with the
    limits of that round's plan. *)
Theorem C02_round_projects : forall rs ann ru st st'',
  fair_round rs ann ru st st'' -> count_if (is_class c_unresp rs (fst st)) (snd st) = 0 ->
  exists maxc mu, 1 <= maxc /\ 1 <= mu /\
    abs_of rs (fst st'') (snd st'') = a_round maxc mu (abs_of rs (fst st) (snd st)) /\
    count_if (is_class c_unresp rs (fst st'')) (snd st'') = 0.
Proof. exact round_projects. Qed.
Print Assumptions C02_round_projects.

(** Convergence of the sync model: from ANY planning items without a stuck pod (any mix of missing, outdated,
    not-yet-Ready and terminating pods - after node churn, partial rollouts, several template changes), after a chain of
    fair rounds at least as long as the measure of the start (at most 3 per node, [C02_bound]) - whatever the runtime
    chooses in each round, whatever the ramp allows beyond one creation and one unavailable pod, the limits differing
    from round to round - every planning item holds a Ready pod of the live template. *)
Theorem C02_rollout_converges : forall rs ann ru n st st',
  c_chain rs ann ru st n st' ->
  count_if (is_class c_unresp rs (fst st)) (snd st) = 0 ->
  a_measure (abs_of rs (fst st) (snd st)) <= Z.of_nat n ->
  forall i, In i (snd st') -> classify rs (fst st') i = UpToDate true.
Proof. exact rollout_converges. Qed.
Print Assumptions C02_rollout_converges.
