(** * C05 - a new version becomes active only when the promotion rule allows it.
    Property theorems only; each is closed by [exact] of a lemma of [Proofs/]. *)
From Coq Require Import List ZArith Bool.
From EDS Require Import Model.Objects Model.Default Model.Canary Model.EdsLogic Model.EdsReconcile
     Proofs.Lists Proofs.EdsInv Proofs.C05Proofs.
Import ListNotations.
Open Scope Z_scope.

(** The "only if", for every annotation set, canary spec, pair of replica sets and instant: with a
    canary strategy and an existing active replica set [a], the replica set matching spec.template [u]
    is selected only if it is not marked failed and either the canary-valid annotation names it or it is
    not paused (annotation or its own Canary-Paused condition) and the duration has elapsed since it was
    created and - noRestartsDuration set, a restart recorded - that long since the last restart. *)
Theorem C05_only_if : forall ann c a u now,
  fst (select_current ann (Some c) (Some a) u now) = u -> r_name u <> r_name a ->
  canary_failed_rs (r_status u) = false /\
  (canary_valid ann (r_name u) = true \/
   (fst (canary_paused ann (Some (r_status u))) = false /\
    exists d, ca_duration c = Some d /\ r_created u + d < now /\
      (ca_norestarts c = None \/ last_restart_of u = zero_time \/
       exists nrd, ca_norestarts c = Some nrd /\ last_restart_of u + nrd < now))).
Proof. exact promotion_only_if. Qed.
Print Assumptions C05_only_if.

Theorem C05_candidates : forall ann oc a u now,
  fst (select_current ann oc (Some a) u now) = u \/ fst (select_current ann oc (Some a) u now) = a.
Proof. exact select_current_cases. Qed.
Print Assumptions C05_candidates.

(** A canary marked failed is never promoted: not by elapsed time, not by the annotation
    (after the repair of D2). *)
Theorem C05_failed_never_promoted : forall ann c a u now,
  canary_failed_rs (r_status u) = true -> fst (select_current ann (Some c) (Some a) u now) = a.
Proof. exact failed_never_promoted. Qed.
Print Assumptions C05_failed_never_promoted.

(** In manual validation mode (validation rejects a duration there) elapsed time alone never promotes. *)
Theorem C05_manual_never_by_time : forall ann c a u now,
  validate_canary c = Ok tt -> ca_mode c = VManual -> canary_valid ann (r_name u) = false ->
  fst (select_current ann (Some c) (Some a) u now) = a.
Proof. exact manual_never_by_time. Qed.
Print Assumptions C05_manual_never_by_time.

(** If the recorded active replica set no longer exists the matching one is adopted directly; without a
    canary strategy the matching one is always selected. *)
Theorem C05_adopt_when_missing : forall ann oc u now, select_current ann oc None u now = (u, 0).
Proof. exact adopt_when_missing. Qed.
Print Assumptions C05_adopt_when_missing.

Theorem C05_no_canary : forall ann a u now, select_current ann None (Some a) u now = (u, 0).
Proof. exact no_canary_promotes. Qed.
Print Assumptions C05_no_canary.

(** The wake-up: while time is missing the requeue hint is non-negative and, with no noRestartsDuration,
    exactly the missing time (so the promotion needs no external event). Corner kept visible: at the
    exact boundary instant the hint is 0, i.e. no wake-up. *)
Theorem C05_requeue_wakeup : forall c rs now d,
  ca_duration c = Some d -> fst (canary_ended (Some c) rs now) = false ->
  snd (canary_ended (Some c) rs now) >= 0 /\
  (ca_norestarts c = None -> 0 < d -> r_created rs + d - now <= max_dur ->
   snd (canary_ended (Some c) rs now) = r_created rs + d - now).
Proof. exact not_ended_requeue. Qed.
Print Assumptions C05_requeue_wakeup.

(** The whole reconcile: every status it writes names as active exactly the replica set the rule
    selects from the replica sets it listed - whatever else the reconcile does. *)
Theorem C05_sync : forall sn pl st',
  eds_sync sn = Ok pl -> In st' (statuses_of (ep_writes pl)) ->
  exists e uptodate,
    es_obj sn = Some e /\
    let rss := rs_of_eds e (es_rss sn) in
    let active := last_such (fun r => N.eqb (r_name r) (es_active (e_status e))) rss in
    last_such (rs_up_to_date e) rss = Some uptodate /\
    es_active st' = r_name (fst (select_current (e_annots e) (st_canary (e_strategy e)) active uptodate (es_now sn))).
Proof. exact sync_active_is_rule. Qed.
Print Assumptions C05_sync.

(** The defect of the pinned tree (D2), kept as a checked record: a failed canary whose duration had
    elapsed was selected. Repaired by "fix: a canary marked failed is never promoted". *)
Theorem C05_failed_promoted_before_fix :
  exists ann c a u now, canary_failed_rs (r_status u) = true /\
    fst (select_current_before_fix ann (Some c) (Some a) u now) = u /\ r_name u <> r_name a.
Proof. exact failed_promoted_before_fix. Qed.
Print Assumptions C05_failed_promoted_before_fix.

(** "ended by time" reads two things of the replica set and nothing else - its creation time and its restart record. Its
    other conditions (its own Canary condition in particular, however young: a replica set reused by a later canary) do
    not enter ... *)
Theorem C05_ended_reads_only : forall oc rs rs' now,
  r_created rs = r_created rs' ->
  get_cond (rs_conds (r_status rs)) CT_PodRestarting = get_cond (rs_conds (r_status rs')) CT_PodRestarting ->
  canary_ended oc rs now = canary_ended oc rs' now.
Proof. exact ended_reads_only. Qed.
Print Assumptions C05_ended_reads_only.

(** ... so a restart recorded less than noRestartsDuration ago holds the promotion by time back, whatever else the
    status says *)
Theorem C05_recent_restart_holds_back : forall c d nrd rc rs now,
  ca_duration c = Some d -> ca_norestarts c = Some nrd ->
  get_cond (rs_conds (r_status rs)) CT_PodRestarting = Some rc -> is_zero_time (c_update rc) = false ->
  now <= tadd (c_update rc) nrd ->
  fst (canary_ended (Some c) rs now) = false.
Proof. exact recent_restart_holds_back. Qed.
Print Assumptions C05_recent_restart_holds_back.
