(** * C14 - status tells the truth about replica sets and pods.
    Property theorems only; each is closed by [exact] of a lemma of [Proofs/]. *)
From Coq Require Import List ZArith NArith Bool.
From EDS Require Import Model.Base Model.Objects Model.Default Model.Rolling Model.Canary Model.ErsReconcile Model.EdsLogic Model.EdsReconcile
     Model.Spec Proofs.Lists Proofs.EdsInv Proofs.C14Proofs.
Import ListNotations.
Open Scope Z_scope.

(** Refinement to [Spec.v]: for every snapshot (any number of replica sets, roles, conditions and
    annotations) every status an ExtendedDaemonSet reconcile writes has current/ready/available equal to
    the sums over the listed replica sets, desired/upToDate/ignored from the current and - while a canary
    is active - the canary replica set, state and reason as the canary facts and annotations dictate, the
    Canary-Failed / Canary-Paused conditions equal to those facts, and no canary block when no canary is
    active. *)
Theorem C14_refines : forall sn pl st',
  eds_sync sn = Ok pl -> In st' (statuses_of (ep_writes pl)) ->
  exists e uptodate current,
    es_obj sn = Some e /\
    let rss := rs_of_eds e (es_rss sn) in
    last_such (rs_up_to_date e) rss = Some uptodate /\
    current = fst (select_current (e_annots e) (st_canary (e_strategy e))
                     (last_such (fun r => N.eqb (r_name r) (es_active (e_status e))) rss) uptodate (es_now sn)) /\
    let f := facts_of (e_annots e) (st_canary (e_strategy e)) current uptodate in
    es_current st' = spec_current rss /\ es_ready st' = spec_ready rss /\ es_available st' = spec_available rss /\
    es_desired st' = spec_desired f current uptodate /\ es_uptodate st' = spec_uptodate f current uptodate /\
    es_ignored st' = spec_ignored f current uptodate /\
    es_state st' = spec_state f (e_annots e) /\ es_reason st' = spec_reason f (es_reason (e_status e)) /\
    es_active st' = r_name current /\
    (sf_canary_strategy f = true ->
       is_cond_true (es_conds st') ECT_CanaryFailed = spec_cond_failed f /\
       is_cond_true (es_conds st') ECT_CanaryPaused = spec_cond_paused f) /\
    (sf_canary_active f = false -> sf_canary_strategy f = true -> es_canary st' = None).
Proof. exact status_refines_spec. Qed.
Print Assumptions C14_refines.

(** An active or canary replica set's written status satisfies 0 <= available <= ready <= current <= desired,
    for every snapshot and every choice of the runtime. *)
Theorem C14_order : forall sn ch pl st e,
  ers_sync sn ch = Ok pl -> sn_eds sn = Some e -> is_defaulted e = true -> pl_status pl = Some st ->
  (pl_role pl = RoleCanary \/ pl_rolling pl <> None) -> counters_ordered st.
Proof. exact ers_status_ordered. Qed.
Print Assumptions C14_order.

(** the active role's counters are counts of planning items by class (desired = targeted nodes,
    current = up-to-date pods, ready = available = Ready up-to-date pods) *)
Theorem C14_active_counts : forall rs now items,
  let k := count_items rs now items in
  0 <= k_available k /\ k_available k <= k_ready k /\ k_ready k <= k_created k /\ k_created k <= k_nodes k.
Proof. exact rolling_counts_ordered. Qed.
Print Assumptions C14_active_counts.

(** the conditions clause, with the reason: while a canary strategy is set and the canary is paused and not failed,
    the Canary-Paused condition of every status written is True and names the reason the canary is paused for now
    (the replica set's own condition, else the annotation's reason) - also when it was True before for another reason *)
Theorem C14_paused_condition_names_reason : forall sn pl st',
  eds_sync sn = Ok pl -> In st' (statuses_of (ep_writes pl)) ->
  exists e uptodate current,
    es_obj sn = Some e /\
    let rss := rs_of_eds e (es_rss sn) in
    last_such (rs_up_to_date e) rss = Some uptodate /\
    current = fst (select_current (e_annots e) (st_canary (e_strategy e))
                     (last_such (fun r => N.eqb (r_name r) (es_active (e_status e))) rss) uptodate (es_now sn)) /\
    let f := facts_of (e_annots e) (st_canary (e_strategy e)) current uptodate in
    (sf_canary_strategy f = true -> spec_cond_paused f = true ->
     exists c, get_cond (es_conds st') ECT_CanaryPaused = Some c /\ c_status c = CTrue /\ c_reason c = sf_reason f).
Proof. exact paused_condition_reason. Qed.
Print Assumptions C14_paused_condition_names_reason.

(** The quiescence clause, the controller's half: at rest - every planning item holds a Ready pod of the live template,
    which is where every fair run ends ([C02_rollout_converges]) - the counters of the active role are the number of
    targeted nodes, four times, and no node is ignored ... *)
Theorem C14_counters_at_rest : forall rs ann ru now items rp,
  rolling_plan_of rs ann ru now items = Ok rp ->
  (forall i, In i items -> classify rs now i = UpToDate true) ->
  rolling_status_counts rp = (zlen items, zlen items, zlen items, zlen items, 0).
Proof. exact counters_at_rest. Qed.
Print Assumptions C14_counters_at_rest.

(** ... and so is the status the active replica set's sync writes (whenever the strategy resolves, i.e. a rolling plan
    exists): desired = current = ready = available = the targeted (eligible, non-canary) nodes.  The ExtendedDaemonSet's
    own counters are functions of the replica sets' statuses ([C14_refines]). *)
Theorem C14_active_status_at_rest : forall sn ch pl st e freq cx,
  ers_sync sn ch = Ok pl -> sn_eds sn = Some e -> is_defaulted e = true ->
  st_freq (e_strategy e) = Some freq -> sync_gate sn freq = None -> build_ctx sn e freq = Ok cx ->
  cx_role cx = RoleActive -> pl_rolling pl <> None -> pl_status pl = Some st ->
  (forall i, In i (planning_items cx) -> classify (sn_rs sn) (sn_now sn) i = UpToDate true) ->
  rs_desired st = zlen (planning_items cx) /\ rs_current st = zlen (planning_items cx) /\
  rs_ready st = zlen (planning_items cx) /\ rs_available st = zlen (planning_items cx) /\ rs_ignored st = 0.
Proof. exact active_status_at_rest. Qed.
Print Assumptions C14_active_status_at_rest.
