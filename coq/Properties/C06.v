(** * C06 - auto-fail and auto-pause fire exactly on their documented triggers.
    Property theorems only; each is closed by [exact] of a lemma of [Proofs/]. *)
From Coq Require Import List ZArith Bool.
From EDS Require Import Model.Objects Model.PodSpec Model.Rolling Model.Canary
     Proofs.Lists Proofs.CanaryProofs Proofs.C06Proofs Proofs.C08Proofs Proofs.FitnessProofs.
Import ListNotations.
Open Scope Z_scope.

(** The triggers are [fail_trigger] and [pause_trigger] of Proofs/C06Proofs.v, written from the
    property text.  For every vector of checked pods (any length), every threshold pair, every previous
    condition state and every annotation combination for which the evaluation does not crash: *)

(** Canary-Failed becomes (or stays) true exactly when it was true, or auto-fail is enabled and a pod's
    highest restart count exceeds autoFail.maxRestarts, or - a pod being checked - the span between the
    first and the latest observed restart exceeds maxRestartsDuration, or the canary has lasted longer
    than canaryTimeout. *)
Theorem C06_failed_iff : forall rs ann c now cn listed items st0 cp cfg,
  manage_canary_status rs ann (Some c) now cn listed items st0 = Ok cp ->
  canary_cfg_of (Some c) = Some cfg ->
  cp_failed cp = canary_failed_rs (r_status rs) ||
                 existsb (fail_trigger cfg now (get_cond (rs_conds st0) CT_Canary) (get_cond (rs_conds st0) CT_PodRestarting))
                         (cn_check (canary_scan_of rs listed items cn)).
Proof. exact canary_failed_iff. Qed.
Print Assumptions C06_failed_iff.

(** Otherwise Canary-Paused is: false under a manual unpause; else true exactly when it was paused (its own
    condition, else the annotation) or auto-pause is enabled and a pod exceeds autoPause.maxRestarts, is
    stuck in an image/config/hook start error (only after maxSlowStartDuration when that is set) or is
    still creating its containers after maxSlowStartDuration. *)
Theorem C06_paused_iff : forall rs ann c now cn listed items st0 cp cfg,
  manage_canary_status rs ann (Some c) now cn listed items st0 = Ok cp ->
  canary_cfg_of (Some c) = Some cfg -> cp_failed cp = false ->
  let paused0 := fst (canary_paused ann (Some (r_status rs))) in
  let unpaused := canary_unpaused ann in
  let pods := cn_check (canary_scan_of rs listed items cn) in
  cp_paused cp = if unpaused then false else paused0 || existsb (pause_trigger cfg now) pods.
Proof. exact canary_paused_iff. Qed.
Print Assumptions C06_paused_iff.

(** once true it stays true while that replica set is the canary; a manual unpause never unfails *)
Theorem C06_failed_sticky : forall rs ann oc now cn listed items st0 cp,
  manage_canary_status rs ann oc now cn listed items st0 = Ok cp ->
  canary_failed_rs (r_status rs) = true -> cp_failed cp = true.
Proof. exact canary_failed_sticky. Qed.
Print Assumptions C06_failed_sticky.

(** disabled features never fire *)
Theorem C06_autofail_disabled : forall cfg now sc rc p, cc_af_enabled cfg = false -> fail_trigger cfg now sc rc p = false.
Proof. exact autofail_disabled_never_fails. Qed.
Print Assumptions C06_autofail_disabled.
Theorem C06_autopause_disabled : forall cfg now p, cc_ap_enabled cfg = false -> pause_trigger cfg now p = false.
Proof. exact autopause_disabled_never_pauses. Qed.
Print Assumptions C06_autopause_disabled.

(** while the canary is paused or failed no further canary pod is created *)
Theorem C06_no_create_when_paused_or_failed : forall rs ann oc now cn listed items st0 cp,
  manage_canary_status rs ann oc now cn listed items st0 = Ok cp ->
  cp_paused cp || cp_failed cp = true -> cp_creates cp = [].
Proof. exact canary_paused_no_create. Qed.
Print Assumptions C06_no_create_when_paused_or_failed.

(** the loop itself, for any starting state (the characterisation the two theorems above instantiate) *)
Theorem C06_loop_failed : forall cfg u now sc rc ps st st',
  canary_pod_loop cfg u now sc rc st ps = Ok st' ->
  cl_failed st' = cl_failed st || existsb (fail_trigger cfg now sc rc) ps.
Proof. exact loop_failed_iff. Qed.
Print Assumptions C06_loop_failed.

(** "the span between the first and the latest observed restart" (and C05's "since the last canary pod restart") rest on
    the PodRestarting condition: lastTransitionTime = the first observed restart, lastUpdateTime = the latest.  Whatever
    the pods of a later sync show, the recorded latest restart never moves backwards and a recorded first restart is kept. *)
Theorem C06_restart_record_monotone : forall oc unpaused now st0 f0 p0 r0 check l conds b,
  canary_evaluate oc unpaused now st0 f0 p0 r0 check = Ok (l, conds) ->
  get_cond (rs_conds st0) CT_PodRestarting = Some b ->
  exists a, get_cond conds CT_PodRestarting = Some a /\
            c_update b <= c_update a /\ (c_status b = CTrue -> c_trans a = c_trans b).
Proof. exact restart_record_monotone. Qed.
Print Assumptions C06_restart_record_monotone.

(** "cannot start" is a property of the set of container statuses: a pod cannot start exactly when SOME status (regular,
    init or ephemeral, in any position) waits on one of the listed reasons, and the reason reported is a listed one -
    a harmless waiting reason in front of it hides nothing *)
Theorem C06_cannot_start_iff : forall p,
  fst (cannot_start p) = existsb (fun c => match cs_waiting c with Some r => is_cannot_start_reason r | None => false end) (p_cstats p).
Proof. exact cannot_start_iff. Qed.
Print Assumptions C06_cannot_start_iff.

Theorem C06_cannot_start_reason_listed : forall p,
  fst (cannot_start p) = true -> is_cannot_start_reason (snd (cannot_start p)) = true.
Proof. exact cannot_start_reason_listed. Qed.
Print Assumptions C06_cannot_start_reason_listed.
