(** * C12 - an ExtendedDaemonSet only ever touches its own objects.
    Property theorems only; each is closed by [exact] of a lemma of [Proofs/]. *)
From Coq Require Import List ZArith Bool.
From EDS Require Import Model.Objects Model.PodSpec Model.Default Model.Canary Model.ErsReconcile Model.EdsLogic Model.EdsReconcile
     Model.PodTemplate Model.Spec Proofs.Lists Proofs.EdsInv Proofs.EdsWrites Proofs.C01Proofs Proofs.C04Proofs
     Proofs.C12Proofs Proofs.C14Proofs.
Import ListNotations.
Open Scope Z_scope.

(** For every population of ExtendedDaemonSets, replica sets, pods and DaemonSets in the snapshot
    (same or different names and namespaces, overlapping labels): every replica set the reconcile deletes is in
    its namespace and carries its name label ... *)
Theorem C12_deleted_rs_own : forall sn pl n,
  eds_sync sn = Ok pl -> In n (deletes_of (ep_writes pl)) ->
  exists e r, es_obj sn = Some e /\ In r (es_rss sn) /\ r_name r = n /\ r_ns r = e_ns e /\ r_eds_label r = e_name e.
Proof. exact deleted_rs_own. Qed.
Print Assumptions C12_deleted_rs_own.

(** ... every replica set it creates is in its namespace, labelled and owned by it ... *)
Theorem C12_created_rs_own : forall sn pl nr,
  eds_sync sn = Ok pl -> In nr (creates_of (ep_writes pl)) ->
  exists e, es_obj sn = Some e /\
    (forall r, In r (rs_of_eds e (es_rss sn)) -> rs_up_to_date e r = false) /\
    nr_ns nr = e_ns e /\ nr_eds_label nr = e_name e /\ nr_owner nr = e_name e /\
    nr_hash_annot nr = e_tmpl_hash e /\ nr_tmplgen nr = e_tmpl_hash e /\ nr_tmpl_hash nr = e_tmpl_hash e /\
    ep_writes pl = [WCreateRs nr].
Proof. exact create_only_if_none_matches. Qed.
Print Assumptions C12_created_rs_own.

(** ... the replica set it names as active is one of its own (no foreign replica set is adopted) and the
    counters of its status are sums over its own replica sets only ([C14_refines]: [rs_of_eds]). *)
Theorem C12_no_foreign_adoption : forall sn pl st',
  eds_sync sn = Ok pl -> In st' (statuses_of (ep_writes pl)) ->
  exists e r, es_obj sn = Some e /\ In r (es_rss sn) /\ r_name r = es_active st' /\ r_ns r = e_ns e /\ r_eds_label r = e_name e.
Proof. exact active_rs_own. Qed.
Print Assumptions C12_no_foreign_adoption.

(** The replica-set sync: every pod it deletes (update or clean-up) is a pod of the parent's namespace
    carrying the parent's name label or - with the migration annotation - owned by the named DaemonSet ... *)
Theorem C12_deleted_pods_own : forall sn ch pl pn,
  ers_sync sn ch = Ok pl -> In pn (pl_deletes pl ++ pl_cleanup pl) ->
  exists p, In p (sn_pods sn) /\ p_name p = pn /\ p_phase p <> PhUnknown /\
            (forall e, sn_eds sn = Some e -> own_pod e p).
Proof. exact deleted_pods_are_listed_not_unknown. Qed.
Print Assumptions C12_deleted_pods_own.

(** ... every pod it creates is in the replica set's namespace with both name labels and owned by it ... *)
Theorem C12_created_pods_own : forall sn ch pl nn np,
  ers_sync sn ch = Ok pl -> In (nn, np) (pl_new_pods pl) ->
  np_hash np = r_tmplgen (sn_rs sn) /\ np_rs_label np = r_name (sn_rs sn) /\ np_owner np = r_name (sn_rs sn) /\
  np_eds_label np = r_eds_label (sn_rs sn) /\ np_ns np = r_ns (sn_rs sn) /\ In nn (pl_creates pl).
Proof. exact created_pods_identity. Qed.
Print Assumptions C12_created_pods_own.

(** ... and every pod it relabels is one of the parent's pods (canary label added) or a pod of the syncing
    replica set in its namespace (canary label removed). *)
Theorem C12_label_add_own : forall sn ch pl e pn,
  ers_sync sn ch = Ok pl -> sn_eds sn = Some e -> In pn (pl_label_add pl) ->
  pl_role pl = RoleCanary /\
  exists p nn, In p (sn_pods sn) /\ p_name p = pn /\ p_rs_label p = r_name (sn_rs sn) /\
               node_of_pod p = Some nn /\ In nn (canary_nodes_of e) /\ own_pod e p.
Proof. exact label_add_only_canary. Qed.
Print Assumptions C12_label_add_own.

Theorem C12_label_del_own : forall sn ch pl pn,
  ers_sync sn ch = Ok pl -> In pn (pl_label_del pl) ->
  pl_role pl = RoleActive /\
  exists p, In p (sn_pods sn) /\ p_name p = pn /\ p_rs_label p = r_name (sn_rs sn) /\ p_ns p = r_ns (sn_rs sn) /\
            p_is_canary_labelled p = true.
Proof. exact label_del_only_active. Qed.
Print Assumptions C12_label_del_own.

(** the PodTemplate written is the one of the same name and namespace, owned by the ExtendedDaemonSet *)
Theorem C12_podtemplate_own : forall e,
  pt_name (new_podtemplate e) = e_name e /\ pt_ns (new_podtemplate e) = e_ns e /\ pt_owner (new_podtemplate e) = e_name e.
Proof. exact (fun e => conj eq_refl (conj eq_refl eq_refl)). Qed.
Print Assumptions C12_podtemplate_own.
