(** * C20 - exported metrics match object status; label values match their keys.
    Property theorems only; each is closed by [exact] of a lemma of [Proofs/]. *)
From Coq Require Import String Ascii Permutation.
From EDS Require Import Model.Base Model.Metrics Check.C20Check Proofs.MetricsProofs.
Open Scope string_scope.

(** The label-info series pairs every label key, sanitised, with the value of that same label:
    as a list equality (hence as a multiset), for every label map, including keys with dots,
    slashes and dashes, keys that collide after sanitising (both pairs are kept) and the empty map. *)
Theorem C20_pairs : forall m : list (string * string),
  combine (fst (build_info_labels m)) (snd (build_info_labels m)) =
  map (fun kv => (sanitize (fst kv), snd kv)) m.
Proof. exact pairs_exact. Qed.
Print Assumptions C20_pairs.

Theorem C20_lengths : forall m : list (string * string),
  length (fst (build_info_labels m)) = length m /\ length (snd (build_info_labels m)) = length m.
Proof. exact pairs_lengths. Qed.
Print Assumptions C20_lengths.

(** Sanitised keys are legal Prometheus label names ([a-zA-Z0-9_] only). *)
Theorem C20_legal : forall m, forallb (all_chars legal_char) (fst (build_info_labels m)) = true.
Proof. exact keys_legal. Qed.
Print Assumptions C20_legal.

Theorem C20_sanitize_keeps_legal : forall s, all_chars legal_char s = true -> sanitize s = s.
Proof. exact sanitize_fixes_legal. Qed.
Print Assumptions C20_sanitize_keeps_legal.

(** The gauge families report the status fields (desired, current, ready, available, upToDate,
    ignoredUnresponsiveNodes, canary flags and node count, paused/frozen, Canary-Failed). *)
Theorem C20_gauges_eds : forall v labels, mon_eds_gauges v (eds_families v labels) = true.
Proof. exact eds_gauges. Qed.
Print Assumptions C20_gauges_eds.

Theorem C20_gauges_ers : forall v labels, mon_ers_gauges v (ers_families v labels) = true.
Proof. exact ers_gauges. Qed.
Print Assumptions C20_gauges_ers.

Theorem C20_identity_eds : forall v labels,
  mon_identity (ev_ns v) (ev_name v) (eds_families v labels) = true.
Proof. exact eds_identity. Qed.
Print Assumptions C20_identity_eds.

(** The defect of the pinned tree (values looked up by the sanitised key), kept as a checked
    record: it is repaired by the commit "fix: label-info metrics pair each sanitised key ...". *)
Theorem C20_pairs_refuted_before_fix :
  exists m, combine (fst (build_info_labels_before_fix m)) (snd (build_info_labels_before_fix m))
            <> map (fun kv => (sanitize (fst kv), snd kv)) m.
Proof. exact pairs_refuted_before_fix. Qed.
Print Assumptions C20_pairs_refuted_before_fix.

(** Non-vacuity: a map with a dotted key, a collision and a legal key. *)
Example C20_example :
  build_info_labels [("a.b", "1"); ("a_b", "2"); ("extendeddaemonset.datadoghq.com/name", "foo")]
  = (["a_b"; "a_b"; "extendeddaemonset_datadoghq_com_name"], ["1"; "2"; "foo"]).
Proof. reflexivity. Qed.
