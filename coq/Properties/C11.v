(** * C11 - any failed API call or controller crash is recovered without breaking safety.
    Property theorems only; each is closed by [exact] of a lemma of [Proofs/]. *)
From Coq Require Import List ZArith Bool.
From EDS Require Import Model.Objects Model.PodSpec Model.Backoff Model.Rolling Model.ErsReconcile Model.EdsReconcile Model.Abstract
     Proofs.Lists Proofs.RollingProofs Proofs.C11Proofs Proofs.C02Proofs Proofs.C16Proofs Proofs.ReadFaults Proofs.BackoffProofs Model.Default Model.Filter.
Import ListNotations.
Open Scope Z_scope.

(** The safety theorems of C01, C03, C04, C05 and C12 are statements about ONE reconcile as a function of the
    snapshot it reads, for EVERY snapshot: they hold at every intermediate store a fault can leave behind -
    a rejected call, an applied call with a lost answer, a process stop before or after any write all leave
    some subset of the planned writes applied.  What remains is that a subset of a safe plan is safe: *)

(** any subset of the planned creations keeps "at most one live pod per node" *)
Theorem C11_subset_of_creates_safe : forall live creates applied,
  at_most_one live -> NoDup creates -> (forall nn, In nn creates -> ~ In nn live) ->
  sublist applied creates -> at_most_one (live ++ applied).
Proof. exact subset_of_creates_safe. Qed.
Print Assumptions C11_subset_of_creates_safe.

(** any subset of an admissible update-deletion set stays within the availability budget and the cap *)
Theorem C11_subset_of_deletes_within_budget : forall rp chosen applied,
  plan_wf rp -> admissible_deletes rp chosen = true -> sublist applied chosen ->
  mon_budget rp applied = true /\ mon_cap rp applied = true.
Proof. exact subset_of_deletes_within_budget. Qed.
Print Assumptions C11_subset_of_deletes_within_budget.

(** No decision state outside the API objects: the ExtendedDaemonSet reconcile is a function of the snapshot
    alone ([eds_sync : eds_snapshot -> outcome eds_plan]); the replica-set sync depends on the controller's
    memory only through the failed-pod back-off, and a fresh instance (empty memory) never holds a Failed pod
    back - the back-off only ever delays a deletion. *)
Theorem C11_fresh_instance : forall k now, fst (should_delete_failed k now []) = true.
Proof. exact fresh_instance_deletes_failed. Qed.
Print Assumptions C11_fresh_instance.

Theorem C11_backoff_only_delays : forall k now m, fst (should_delete_failed k now m) = false -> bo_in_backoff k now m = true.
Proof. exact backoff_only_delays. Qed.
Print Assumptions C11_backoff_only_delays.

(** a fault never crashes the ExtendedDaemonSet reconcile that follows, whatever store it left behind *)
Theorem C11_next_reconcile_total : forall sn k, eds_sync sn <> Panic k.
Proof. exact eds_sync_total. Qed.
Print Assumptions C11_next_reconcile_total.

(** Convergence afterwards: the abstract convergence theorem holds from EVERY state, hence from the state
    a fault leaves; the converged state is the fixpoint characterised in C02, the same as without the fault. *)
Theorem C11_converges_from_any_state : forall maxc mu n s,
  a_wf s -> 1 <= maxc -> 1 <= mu -> a_measure s <= Z.of_nat n -> a_converged (a_rounds n maxc mu s).
Proof. exact converges. Qed.
Print Assumptions C11_converges_from_any_state.

(** Faults on the read side: when a List of the replica-set sync fails, the sync touches no pod - it either returned
    before reading (gate closed, parent not defaulted) or ends with an error *)
Theorem C11_ers_list_failure_touches_nothing : forall sn ch pl,
  f_list (sn_faults sn) = true -> ers_sync sn ch = Ok pl ->
  pl_creates pl = [] /\ pl_deletes pl = [] /\ pl_cleanup pl = [] /\ pl_label_add pl = [] /\ pl_label_del pl = [].
Proof. exact ers_list_failure_touches_nothing. Qed.
Print Assumptions C11_ers_list_failure_touches_nothing.

(** ... and an ExtendedDaemonSet reconcile (of a defaulted object) that cannot list its replica sets has no plan at all:
    it ends with an error before any write *)
Theorem C11_eds_list_failure_writes_nothing : forall sn pl e,
  es_fail_list_rs sn = true -> es_obj sn = Some e -> is_defaulted e = true -> eds_sync sn = Ok pl -> False.
Proof. exact eds_list_failure_writes_nothing. Qed.
Print Assumptions C11_eds_list_failure_writes_nothing.

(** The one piece of in-memory state, the failed-pod back-off, is per replica set: the sync of one replica set neither
    writes the entries of another replica set ... *)
Theorem C11_backoff_not_written_by_others : forall rs nodes pods ignore now bo k',
  fst k' <> r_name rs ->
  bo_get k' (fo_backoff (filter_and_map rs nodes pods ignore now bo)) = bo_get k' bo.
Proof. exact backoff_not_written_by_others. Qed.
Print Assumptions C11_backoff_not_written_by_others.

(** ... nor reads them: with two memories that agree on this replica set's own keys, what the sync keeps per node, cleans
    up and reports unscheduled is the same - a superseded replica set of the same ExtendedDaemonSet, reconciled first every
    time, cannot use up the back-off of the active one *)
Theorem C11_backoff_not_read_from_others : forall rs nodes pods ignore now bo bo',
  (forall nn, bo_get (r_name rs, nn) bo = bo_get (r_name rs, nn) bo') ->
  let f := filter_and_map rs nodes pods ignore now bo in let f' := filter_and_map rs nodes pods ignore now bo' in
  fo_by_node f = fo_by_node f' /\ fo_cleanup f = fo_cleanup f' /\ fo_unscheduled f = fo_unscheduled f'.
Proof. exact backoff_not_read_from_others. Qed.
Print Assumptions C11_backoff_not_read_from_others.
