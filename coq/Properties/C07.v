(** * C07 - a failed canary is rolled back to the active version.
    Property theorems only; each is closed by [exact] of a lemma of [Proofs/]. *)
From Coq Require Import List ZArith Bool.
From EDS Require Import Model.Objects Model.Default Model.Canary Model.EdsLogic Model.EdsReconcile
     Model.ErsReconcile Proofs.Lists Proofs.EdsInv Proofs.C05Proofs Proofs.EdsWrites Proofs.FailedMark.
Import ListNotations.
Open Scope Z_scope.

(** The plan, for every snapshot in which the replica set matching spec.template is marked failed
    (automatically or by the user, paused or not, before or after the duration, validated or not) and the
    recorded active replica set exists: every status written clears status.canary, leaves
    status.activeReplicaSet on the active replica set and reports Canary Failed; every object update carries
    the ACTIVE replica set's template and no canary pause annotations. *)
Theorem C07_plan : forall sn pl e a u,
  eds_sync sn = Ok pl -> es_obj sn = Some e -> is_defaulted e = true ->
  last_such (fun r => N.eqb (r_name r) (es_active (e_status e))) (rs_of_eds e (es_rss sn)) = Some a ->
  last_such (rs_up_to_date e) (rs_of_eds e (es_rss sn)) = Some u ->
  st_canary (e_strategy e) <> None -> canary_failed_rs (r_status u) = true ->
  (forall st', In st' (statuses_of (ep_writes pl)) ->
     es_canary st' = None /\ es_active st' = r_name a /\ es_state st' = ST_CANARY_FAILED) /\
  (forall h ann', In (h, ann') (specs_of (ep_writes pl)) ->
     h = r_tmpl_hash a /\ ann' = fst (clear_canary_annots (e_annots e))).
Proof. exact rollback_plan. Qed.
Print Assumptions C07_plan.

(** The rollback completes even if the status write succeeds and the spec write fails or the controller
    stops between them: the plan is a function of the snapshot alone, and as long as spec.template is not
    the active replica set's template a reconcile whose writes are accepted performs the status write AND
    the object update again. *)
Theorem C07_recoverable : forall sn pl e a u,
  eds_sync sn = Ok pl -> es_obj sn = Some e -> is_defaulted e = true ->
  last_such (fun r => N.eqb (r_name r) (es_active (e_status e))) (rs_of_eds e (es_rss sn)) = Some a ->
  last_such (rs_up_to_date e) (rs_of_eds e (es_rss sn)) = Some u ->
  st_canary (e_strategy e) <> None -> canary_failed_rs (r_status u) = true ->
  e_tmpl_hash e <> r_tmpl_hash a -> es_fail_status sn = false -> es_fail_rs_delete sn = [] ->
  exists st', In (WStatus st') (ep_writes pl) /\
              In (WSpec (r_tmpl_hash a) (fst (clear_canary_annots (e_annots e)))) (ep_writes pl).
Proof. exact rollback_recoverable. Qed.
Print Assumptions C07_recoverable.

(** A failed canary is never promoted, whatever else holds (after the repair of D2). *)
Theorem C07_never_promoted : forall ann c a u now,
  canary_failed_rs (r_status u) = true -> fst (select_current ann (Some c) (Some a) u now) = a.
Proof. exact failed_never_promoted. Qed.
Print Assumptions C07_never_promoted.

(** Retention: the failed replica set is kept for at least two minutes after it failed, and is deleted
    only once it reports no pods. *)
Theorem C07_retention : forall now r c,
  is_cond_true (rs_conds (r_status r)) CT_CanaryFailed = true ->
  get_cond (rs_conds (r_status r)) CT_CanaryFailed = Some c -> now < c_trans c + 2 * minute ->
  should_delete_ers now r = false.
Proof. exact retention. Qed.
Print Assumptions C07_retention.

Theorem C07_deleted_only_when_empty : forall now r,
  rs_desired (r_status r) + rs_current (r_status r) + rs_ready (r_status r) + rs_available (r_status r) <> 0 ->
  should_delete_ers now r = false.
Proof. exact nonzero_never_deleted. Qed.
Print Assumptions C07_deleted_only_when_empty.

(** Between the two writes of the rollback the only durable record of the failure is the Canary-Failed condition of the
    canary replica set. No sync of a replica set that is not the active one - canary role or, once status.canary is
    cleared, no role at all - ever writes a status that lost it, whatever the pods, annotations, faults and choices of the
    runtime: the retry of the rollback finds the mark again. *)
Theorem C07_failed_mark_durable : forall sn ch pl st,
  ers_sync sn ch = Ok pl -> pl_role pl <> RoleActive ->
  canary_failed_rs (r_status (sn_rs sn)) = true ->
  pl_status pl = Some st -> canary_failed_rs st = true.
Proof. exact failed_mark_durable. Qed.
Print Assumptions C07_failed_mark_durable.

(** ... and the record itself stays: the replica set of spec.template - during an unfinished rollback the failed canary -
    is never deleted by the reconcile, however long ago it failed and whatever it reports *)
Theorem C07_record_never_deleted : forall sn pl e u,
  eds_sync sn = Ok pl -> es_obj sn = Some e ->
  last_such (rs_up_to_date e) (rs_of_eds e (es_rss sn)) = Some u ->
  ~ In (r_name u) (deletes_of (ep_writes pl)).
Proof. exact uptodate_never_deleted. Qed.
Print Assumptions C07_record_never_deleted.
