(** * C18 - at most one valid ExtendedDaemonsetSetting applies to a node.
    Property theorems only; each is closed by [exact] of a lemma of [Proofs/]. *)
From Coq Require Import List ZArith Bool.
From EDS Require Import Model.Objects Model.Fitness Model.PodSpec Model.Setting Model.ErsReconcile Proofs.Lists Proofs.C18Proofs.
Import ListNotations.
Open Scope Z_scope.

(** For every population of settings of a namespace (any number, equal or different creation times,
    selectors by labels or expressions) and every set of nodes: two distinct settings whose selectors both
    match some node are never both valid - the older one (creation time, then name) reports the conflict. *)
Theorem C18_mutex : forall s1 s2 same_ns nodes n,
  In s1 same_ns -> In s2 same_ns -> s_name s1 <> s_name s2 -> In n nodes ->
  setting_matches s1 n = true -> setting_matches s2 n = true ->
  setting_valid s1 same_ns nodes = true -> setting_valid s2 same_ns nodes = false.
Proof. exact mutex. Qed.
Print Assumptions C18_mutex.

(** a setting without a reference, or with an unusable selector, is in error *)
Theorem C18_noref_error : forall s same_ns nodes, has_reference s = false -> setting_valid s same_ns nodes = false.
Proof. exact noref_error. Qed.
Print Assumptions C18_noref_error.
Theorem C18_bad_selector_error : forall s same_ns nodes,
  strict_selector_ok (s_selector s) = false -> setting_valid s same_ns nodes = false.
Proof. exact bad_selector_error. Qed.
Print Assumptions C18_bad_selector_error.

(** a well-formed setting overlapping no other is valid, whatever the other settings look like *)
Theorem C18_alone_valid : forall s same_ns nodes,
  has_reference s = true -> strict_selector_ok (s_selector s) = true ->
  (forall o n, In o same_ns -> s_name o <> s_name s -> In n nodes ->
               setting_matches o n = true -> setting_matches s n = false) ->
  setting_valid s same_ns nodes = true.
Proof. exact alone_valid. Qed.
Print Assumptions C18_alone_valid.

(** the verdict of a reconcile is a function of the specs and the nodes, never of another setting's status:
    every order of reconciling the settings against one cluster state gives the same statuses *)
Theorem C18_order_irrelevant : forall inst inst' l l' nodes,
  same_spec inst inst' -> Forall2 same_spec l l' ->
  setting_valid inst l nodes = setting_valid inst' l' nodes.
Proof. exact order_irrelevant. Qed.
Print Assumptions C18_order_irrelevant.

(** only valid settings influence pods and every node is affected by at most one: the replica-set sync
    attaches to a node the first valid setting of the ExtendedDaemonSet whose selector matches, or none *)
Theorem C18_one_per_node : forall ss n s,
  setting_for ss n = Ok (Some s) ->
  In s ss /\ s_status s = SET_VALID /\ strict_selector_matches (s_selector s) (n_labels n) = true.
Proof. exact attached_setting_valid. Qed.
Print Assumptions C18_one_per_node.

(** a reconcile that could not read the settings or the nodes never turns a setting valid: afterwards a setting is valid
    only if it was so before (the verdict could not be renewed) or everything was read and the rule makes it valid *)
Theorem C18_valid_only_by_the_rule : forall inst all nodes fs fn,
  fst (setting_sync inst all nodes fs fn) = SET_VALID ->
  (fs = true /\ s_status inst = SET_VALID) \/
  (fs = false /\ fn = false /\ setting_valid inst (settings_of_ns (s_ns inst) all) nodes = true).
Proof. exact valid_only_by_the_rule. Qed.
Print Assumptions C18_valid_only_by_the_rule.

(** ... and a setting without a reference is put in error whatever could be read *)
Theorem C18_noref_error_always : forall inst all nodes fs fn,
  has_reference inst = false -> setting_sync inst all nodes fs fn = (SET_ERROR, true).
Proof. exact noref_error_always. Qed.
Print Assumptions C18_noref_error_always.
