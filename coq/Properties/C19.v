(** * C19 - kubectl-eds commands change only what they document; the controller obeys them.
    Property theorems only; each is closed by [exact] of a lemma of [Proofs/]. *)
From Coq Require Import List ZArith Bool.
From EDS Require Import Model.Objects Model.Canary Model.EdsLogic Model.Plugin Model.ErsReconcile Model.EdsReconcile
     Proofs.Lists Proofs.C19Proofs Proofs.C08Proofs Proofs.EdsWrites Proofs.EdsInv.
Import ListNotations.
Open Scope Z_scope.

(** Frame: a command that acts patches only its documented annotation keys - canary pause/unpause:
    canary-paused and canary-unpaused; validate: canary-valid; rolling-update pause/unpause: its key;
    freeze/unfreeze: its key. [canary fail] never patches annotations: it appends one Canary-Failed condition
    to the canary replica set's status ([fail_conds]). *)
Theorem C19_frame : forall c e ex ann',
  run_cmd c (Some e) ex = PatchAnn ann' ->
  match c with
  | CanaryPause | CanaryUnpause => same_but_canary_pause (e_annots e) ann'
  | CanaryValidate => same_but_valid (e_annots e) ann'
  | RuPause | RuUnpause => same_but_ru_paused (e_annots e) ann'
  | Freeze | Unfreeze => same_but_frozen (e_annots e) ann'
  | CanaryFail => False
  end.
Proof. exact frame. Qed.
Print Assumptions C19_frame.

(** Preconditions: the canary commands refuse without an active canary (status.canary); pause, unpause and
    fail also without a canary strategy; rolling-update pause and freeze refuse while a canary is active;
    every command refuses when the object is already in the requested state. *)
Theorem C19_canary_commands_need_active_canary : forall c e ex,
  es_canary (e_status e) = None ->
  match c with CanaryPause | CanaryUnpause | CanaryValidate | CanaryFail => run_cmd c (Some e) ex = Refused | _ => True end.
Proof. exact canary_commands_need_active_canary. Qed.
Print Assumptions C19_canary_commands_need_active_canary.

Theorem C19_canary_commands_need_strategy : forall c e ex,
  st_canary (e_strategy e) = None ->
  match c with CanaryPause | CanaryUnpause | CanaryFail => run_cmd c (Some e) ex = Refused | _ => True end.
Proof. exact canary_pause_fail_need_strategy. Qed.
Print Assumptions C19_canary_commands_need_strategy.

Theorem C19_rollout_commands_need_no_canary : forall c e ex cs,
  es_canary (e_status e) = Some cs ->
  match c with RuPause | RuUnpause | Freeze | Unfreeze => run_cmd c (Some e) ex = Refused | _ => True end.
Proof. exact rollout_commands_need_no_canary. Qed.
Print Assumptions C19_rollout_commands_need_no_canary.

Theorem C19_already_in_state : forall e ex,
  (an_canary_paused (e_annots e) = ATrue -> run_cmd CanaryPause (Some e) ex = Refused) /\
  (an_canary_paused (e_annots e) = AFalse -> run_cmd CanaryUnpause (Some e) ex = Refused) /\
  (an_rolling_paused (e_annots e) = ATrue -> run_cmd RuPause (Some e) ex = Refused) /\
  (an_rolling_paused (e_annots e) = AFalse \/ an_rolling_paused (e_annots e) = AAbsent -> run_cmd RuUnpause (Some e) ex = Refused) /\
  (an_frozen (e_annots e) = ATrue -> run_cmd Freeze (Some e) ex = Refused) /\
  (an_frozen (e_annots e) = AFalse \/ an_frozen (e_annots e) = AAbsent -> run_cmd Unfreeze (Some e) ex = Refused) /\
  (forall cs, es_canary (e_status e) = Some cs -> an_canary_valid (e_annots e) = Some (cs_rs cs) ->
              run_cmd CanaryValidate (Some e) ex = Refused).
Proof. exact already_in_state_refused. Qed.
Print Assumptions C19_already_in_state.

(** Obeyed.  pause: the controller's reader sees the canary paused (state Canary Paused by C08/C14) ... *)
Theorem C19_pause_obeyed : forall e ex ann' ost,
  run_cmd CanaryPause (Some e) ex = PatchAnn ann' ->
  fst (canary_paused ann' ost) = true /\ canary_unpaused ann' = false.
Proof. exact pause_is_seen. Qed.
Print Assumptions C19_pause_obeyed.

(** ... unpause: the unpause annotation is set and the pause annotation false, so the next canary sync ends
    not paused unless failed - also with no canary pod to evaluate (repaired D6) ... *)
Theorem C19_unpause_obeyed : forall e ex ann',
  run_cmd CanaryUnpause (Some e) ex = PatchAnn ann' ->
  canary_unpaused ann' = true /\ an_canary_paused ann' = AFalse.
Proof. exact unpause_is_seen. Qed.
Print Assumptions C19_unpause_obeyed.

Theorem C19_unpause_lifts : forall rs ann oc now cn listed items st0 cp,
  manage_canary_status rs ann oc now cn listed items st0 = Ok cp -> oc <> None ->
  canary_unpaused ann = true -> cp_failed cp = false -> cp_paused cp = false.
Proof. exact canary_unpause_lifts. Qed.
Print Assumptions C19_unpause_lifts.

(** ... validate: promotes exactly the replica set that was the canary when the command ran; a replica set
    with another name (a later template) is not promoted by that annotation ... *)
Theorem C19_validate_obeyed : forall e ex ann' cs c a u now,
  run_cmd CanaryValidate (Some e) ex = PatchAnn ann' -> es_canary (e_status e) = Some cs ->
  canary_failed_rs (r_status u) = false ->
  (r_name u = cs_rs cs -> fst (select_current ann' (Some c) (Some a) u now) = u) /\
  (r_name u <> cs_rs cs -> fst (canary_paused ann' (Some (r_status u))) = true \/ fst (canary_ended (Some c) u now) = false ->
   fst (select_current ann' (Some c) (Some a) u now) = a).
Proof. exact validate_promotes_only_that_one. Qed.
Print Assumptions C19_validate_obeyed.

(** ... fail: after the command the replica set reads as failed in the controllers' own reading (the first condition of the
    type), whatever conditions it carried - which leads to the rollback (C07) - and no other condition is touched. *)
Theorem C19_fail_obeyed : forall cs now, is_cond_true (fail_conds cs now) CT_CanaryFailed = true.
Proof. exact fail_is_seen. Qed.
Print Assumptions C19_fail_obeyed.

Theorem C19_fail_frame : forall cs now t, t <> CT_CanaryFailed -> get_cond (fail_conds cs now) t = get_cond cs t.
Proof. exact fail_frame. Qed.
Print Assumptions C19_fail_frame.

(** Repaired defect D13: the command used to append the entry; an earlier Canary-Failed entry whose status is False (a
    replica set that failed as a canary, became active when the canary strategy was taken out, and is a canary again -
    reached by the real controllers in the histories of the C19 check) shadowed it: success reported, no rollback. *)
Theorem C19_fail_shadowed_refuted_before_fix : exists cs now, is_cond_true (fail_conds_before_fix cs now) CT_CanaryFailed = false.
Proof. exact fail_shadowed_before_fix. Qed.
Print Assumptions C19_fail_shadowed_refuted_before_fix.

(** ... and they refuse ONLY then, or when what they ask for is already in place: with an ExtendedDaemonSet to act on, a
    refusal implies - per command - no active canary / no canary strategy / paused already; nothing to unpause; validated
    already for this replica set; the canary replica set missing; a canary in progress / paused (frozen) already; nothing
    to unpause (unfreeze) *)
Theorem C19_refuses_only_when : forall c e rs_exists,
  run_cmd c (Some e) rs_exists = Refused ->
  let ann := e_annots e in
  let has_canary := match es_canary (e_status e) with Some _ => true | None => false end in
  let has_strategy := match st_canary (e_strategy e) with Some _ => true | None => false end in
  match c with
  | CanaryPause => has_canary = false \/ has_strategy = false \/ a3_true (an_canary_paused ann) = true
  | CanaryUnpause => has_canary = false \/ has_strategy = false \/ a3_true (an_canary_paused ann) = false
  | CanaryValidate => match es_canary (e_status e) with
                      | Some cs => an_canary_valid ann = Some (cs_rs cs)
                      | None => True end
  | CanaryFail => match es_canary (e_status e) with
                  | Some cs => has_strategy = false \/ rs_exists (cs_rs cs) = false
                  | None => True end
  | RuPause => has_canary = true \/ a3_true (an_rolling_paused ann) = true
  | RuUnpause => has_canary = true \/ a3_true (an_rolling_paused ann) = false
  | Freeze => has_canary = true \/ a3_true (an_frozen ann) = true
  | Unfreeze => has_canary = true \/ a3_true (an_frozen ann) = false
  end.
Proof. exact refuses_only_when. Qed.
Print Assumptions C19_refuses_only_when.
