(** * C01 - at most one daemon pod per node, and only on eligible nodes.
    Property theorems only; each is closed by [exact] of a lemma of [Proofs/]. *)
From Coq Require Import List ZArith Bool Permutation.
From EDS Require Import Model.Objects Model.Fitness Model.PodSpec Model.Backoff Model.Filter Model.Default
     Model.Rolling Model.Canary Model.ErsReconcile
     Proofs.Lists Proofs.SyncInv Proofs.FilterProofs Proofs.C01Proofs Proofs.FitnessProofs.
Import ListNotations.
Open Scope Z_scope.

(** For every snapshot (any nodes, labels, taints; any template; any multiset of pods per node in any
    phase, scheduled or pinned by affinity, terminating, duplicated, of any replica set), every role and
    every choice of the runtime: the sync creates a pod for node [nn] only if, in the state it read, a
    node of that name exists, is fit for the pod ([fit] = node selector, required node affinity,
    NoSchedule/NoExecute taints against the template's and the standard tolerations) and every listed pod
    of the ExtendedDaemonSet bound to that node is Failed or Unknown. *)
Theorem C01_create_only_if : forall sn ch pl nn,
  ers_sync sn ch = Ok pl -> In nn (pl_creates pl) ->
  exists e n,
    sn_eds sn = Some e /\ In n (sn_nodes sn) /\ n_name n = nn /\ fit (r_tmpl (sn_rs sn)) n = true /\
    forall p, In p (sn_pods sn) -> in_ns_with_eds_label e p = true -> node_of_pod p = Some nn ->
              p_phase p = Failed \/ p_phase p = PhUnknown.
Proof. exact create_only_if. Qed.
Print Assumptions C01_create_only_if.

(** Never two pods for one node in the same sync (for the canary role: when status.canary.nodes is
    duplicate free, which is C15's invariant). *)
Theorem C01_create_nodup : forall sn ch pl,
  ers_sync sn ch = Ok pl ->
  (forall e c, sn_eds sn = Some e -> es_canary (e_status e) = Some c -> NoDup (cs_nodes c)) ->
  NoDup (pl_creates pl).
Proof. exact create_nodup. Qed.
Print Assumptions C01_create_nodup.

(** A replica set that is neither active nor canary touches no pod. *)
Theorem C01_unknown_role_inert : forall sn ch pl,
  ers_sync sn ch = Ok pl -> pl_role pl = RoleUnknown ->
  pl_creates pl = [] /\ pl_deletes pl = [] /\ pl_cleanup pl = [] /\ pl_label_add pl = [] /\ pl_label_del pl = [].
Proof. exact unknown_role_inert. Qed.
Print Assumptions C01_unknown_role_inert.

(** Duplicates: the pod kept for a node is a minimum of "scheduled first, then oldest, then by name"
    among the node's counted pods, and every other one that is not already terminating is deleted. *)
Theorem C01_duplicates : forall sn ch pl e freq cx nn k q,
  ers_sync sn ch = Ok pl -> sn_eds sn = Some e -> is_defaulted e = true ->
  st_freq (e_strategy e) = Some freq -> sync_gate sn freq = None -> build_ctx sn e freq = Ok cx ->
  (pl_role pl = RoleCanary \/ pl_rolling pl <> None) ->
  In (nn, Some k) (fo_by_node (cx_fo cx)) ->
  In q (cx_pods cx) -> node_of_pod q = Some nn -> p_phase q <> Failed -> p_phase q <> PhUnknown ->
  pod_lt q k = false /\
  (p_name q <> p_name k -> pod_terminating q = false -> In (p_name q) (pl_cleanup pl)).
Proof. exact duplicates_resolved. Qed.
Print Assumptions C01_duplicates.

(** the order itself: scheduled before unscheduled, then the older creation time, then the name -
    a strict total order on pods with distinct names, so "the" kept pod does not depend on how Go's
    unstable sort treats ties *)
Theorem C01_order : forall a b,
  pod_lt a b = true <->
  (sched_rank a < sched_rank b \/
   (sched_rank a = sched_rank b /\
    (p_created a < p_created b \/ (p_created a = p_created b /\ (p_name a < p_name b)%N)))).
Proof. exact pod_lt_spec. Qed.
Print Assumptions C01_order.

(** Pods on nodes that stopped being eligible are deleted. *)
Theorem C01_ineligible_deleted : forall sn ch pl e freq cx nn q,
  ers_sync sn ch = Ok pl -> sn_eds sn = Some e -> is_defaulted e = true ->
  st_freq (e_strategy e) = Some freq -> sync_gate sn freq = None -> build_ctx sn e freq = Ok cx ->
  (pl_role pl = RoleCanary \/ pl_rolling pl <> None) ->
  In q (cx_pods cx) -> node_of_pod q = Some nn ->
  (forall n, In n (map fst (cx_nodes cx)) -> n_name n = nn -> fit (r_tmpl (sn_rs sn)) n = false) ->
  ~ In nn (cx_ignore cx) -> p_phase q <> PhUnknown -> pod_terminating q = false ->
  In (p_name q) (pl_cleanup pl).
Proof. exact ineligible_deleted. Qed.
Print Assumptions C01_ineligible_deleted.

(** Pods in Unknown phase are never touched: every pod the sync deletes (to update it or to clean up)
    is a listed pod whose phase is not Unknown. *)
Theorem C01_unknown_phase_untouched : forall sn ch pl pn,
  ers_sync sn ch = Ok pl -> In pn (pl_deletes pl ++ pl_cleanup pl) ->
  exists p, In p (sn_pods sn) /\ p_name p = pn /\ p_phase p <> PhUnknown /\
            (forall e, sn_eds sn = Some e -> own_pod e p).
Proof. exact deleted_pods_are_listed_not_unknown. Qed.
Print Assumptions C01_unknown_phase_untouched.

(** Eligibility and taints: one untolerated NoSchedule / NoExecute taint makes the node unfit wherever it stands in the
    node's taint list and whatever the other taints are (a tolerated taint after it does not make up for it) ... *)
Theorem C01_untolerated_taint_excludes : forall t tols n ta,
  In ta (n_taints n) -> taint_counts ta = true -> (forall tol, In tol tols -> tolerates tol ta = false) ->
  fit_tols t tols n = false.
Proof. exact untolerated_taint_excludes. Qed.
Print Assumptions C01_untolerated_taint_excludes.

(** ... and the verdict does not depend on the order of the taints or of the tolerations *)
Theorem C01_taint_order_irrelevant : forall tols tols' tas tas',
  Permutation tas tas' -> Permutation tols tols' -> tolerates_taints tols tas = tolerates_taints tols' tas'.
Proof. exact taint_order_irrelevant. Qed.
Print Assumptions C01_taint_order_irrelevant.

(** ... and the node selector always applies, whatever the affinity block looks like (absent, empty, preferences only, or
    required terms) *)
Theorem C01_node_selector_always_applies : forall t tols n,
  fit_tols t tols n = true -> set_matches (t_nodesel t) (n_labels n) = true.
Proof. exact node_selector_always_applies. Qed.
Print Assumptions C01_node_selector_always_applies.
