(** * C16 - defaulting is a fixed point and no accepted spec can crash the controller.
    Property theorems only; each is closed by [exact] of a lemma of [Proofs/]. *)
From Coq Require Import List ZArith Bool.
From EDS Require Import Model.Objects Model.Default Model.ErsReconcile Model.EdsReconcile
     Model.PodSpec Proofs.Lists Proofs.C16Proofs Proofs.C16Ers.
Import ListNotations.
Open Scope Z_scope.

(** The spec type of the model is the Go type (every pointer an option, int-or-string three-valued,
    durations in Z nanoseconds including zero and negative), so these quantify over ALL specs. *)
Theorem C16_idempotent : forall m s, default_strategy m (default_strategy m s) = default_strategy m s.
Proof. exact default_idempotent. Qed.
Print Assumptions C16_idempotent.

Theorem C16_idempotent_object : forall m e, default_eds m (default_eds m e) = default_eds m e.
Proof. exact default_eds_idempotent. Qed.
Print Assumptions C16_idempotent_object.

(** the defaulted object is recognised as defaulted, so reconciliation never loops on defaulting
    (for a controller-level default validation mode that is set: the flag accepts auto or manual) *)
Theorem C16_recognised : forall m e, m <> VUnset -> is_defaulted (default_eds m e) = true.
Proof. exact default_recognised. Qed.
Print Assumptions C16_recognised.

(** defaulting changes no value the user set ... *)
Theorem C16_preserves : forall m s,
  let s' := default_strategy m s in
  opt_kept (ru_max_unavailable (st_rolling s)) (ru_max_unavailable (st_rolling s')) /\
  opt_kept (ru_max_sched_failure (st_rolling s)) (ru_max_sched_failure (st_rolling s')) /\
  opt_kept (ru_max_parallel (st_rolling s)) (ru_max_parallel (st_rolling s')) /\
  opt_kept (ru_interval (st_rolling s)) (ru_interval (st_rolling s')) /\
  opt_kept (ru_increase (st_rolling s)) (ru_increase (st_rolling s')) /\
  opt_kept (st_freq s) (st_freq s') /\
  match st_canary s, st_canary s' with
  | None, None => True
  | Some c, Some c' =>
      opt_kept (ca_replicas c) (ca_replicas c') /\ opt_kept (ca_duration c) (ca_duration c') /\
      opt_kept (ca_nodesel c) (ca_nodesel c') /\ ca_antiaffinity c' = ca_antiaffinity c /\
      opt_kept (ca_norestarts c) (ca_norestarts c') /\ (ca_mode c <> VUnset -> ca_mode c' = ca_mode c) /\
      match ca_autopause c, ca_autopause c' with
      | Some a, Some a' => opt_kept (ap_enabled a) (ap_enabled a') /\ opt_kept (ap_max_restarts a) (ap_max_restarts a') /\
                           ap_max_slow_start a' = ap_max_slow_start a
      | None, Some _ => True | _, None => False end /\
      match ca_autofail c, ca_autofail c' with
      | Some a, Some a' => opt_kept (af_enabled a) (af_enabled a') /\ opt_kept (af_max_restarts a) (af_max_restarts a') /\
                           af_max_restarts_dur a' = af_max_restarts_dur a /\ af_timeout a' = af_timeout a
      | None, Some _ => True | _, None => False end
  | _, _ => False
  end.
Proof. exact default_preserves. Qed.
Print Assumptions C16_preserves.

(** ... apart from clearing the pod template's name; nothing else of the object is touched *)
Theorem C16_frame : forall m e,
  let e' := default_eds m e in
  e_name e' = e_name e /\ e_ns e' = e_ns e /\ e_annots e' = e_annots e /\ e_tmpl e' = e_tmpl e /\
  e_selector e' = e_selector e /\ e_status e' = e_status e /\ e_tmpl_name_set e' = false.
Proof. exact default_eds_frame. Qed.
Print Assumptions C16_frame.

(** validation of a defaulted canary never dereferences nil (after the repair of D1a) ... *)
Theorem C16_validate_total : forall c, is_defaulted_canary c = true -> forall k, validate_canary c <> Panic k.
Proof. exact validate_no_panic. Qed.
Print Assumptions C16_validate_total.

(** ... and rejects: autoFail.maxRestarts below autoPause.maxRestarts; a canaryTimeout not above the
    duration; duration or noRestartsDuration in manual validation mode *)
Theorem C16_validate_rejects : forall (du nr to : option Base.dur) mode apm afm (t d : Base.dur),
  (afm < apm -> validate_canary (mk_canary_for_validation du nr mode true true apm afm to) = Error 1%N) /\
  (apm <= afm -> t <= d ->
     validate_canary (mk_canary_for_validation (Some d) nr mode true true apm afm (Some t)) = Error 2%N) /\
  (apm <= afm -> to = None \/ (to = Some t /\ d < t) ->
     validate_canary (mk_canary_for_validation (Some d) nr VManual true true apm afm to) = Error 3%N) /\
  (apm <= afm -> validate_canary (mk_canary_for_validation None (Some d) VManual true true apm afm to) = Error 4%N).
Proof. exact validate_rejects. Qed.
Print Assumptions C16_validate_rejects.

(** the ExtendedDaemonSet reconcile returns a result or an error, never crashes - for EVERY snapshot *)
Theorem C16_eds_reconcile_total : forall sn k, eds_sync sn <> Panic k.
Proof. exact eds_sync_total. Qed.
Print Assumptions C16_eds_reconcile_total.

(** the replica-set sync returns a result or an error, never crashes - for EVERY snapshot (any parent spec: one that
    is not recognised as defaulted ends the sync at once; a defaulted one has every pointer the strategies
    dereference), every role, every choice of the runtime, every fault - provided the pod statuses are
    kubelet-shaped ([pod_shape_ok]: a last state of a container carries Terminated; a pod reporting container
    statuses has a start time).  Includes the repaired D15 (canary role without a canary strategy), D16, D1b, D1c. *)
Theorem C16_ers_reconcile_total : forall sn ch,
  forallb pod_shape_ok (sn_pods sn) = true -> forall k, ers_sync sn ch <> Panic k.
Proof. exact ers_sync_no_panic. Qed.
Print Assumptions C16_ers_reconcile_total.

(** the defect D1a of the pinned tree, kept as a checked record *)
Theorem C16_validate_panicked_before_fix :
  exists c, is_defaulted_canary c = true /\ exists k, validate_canary_before_fix c = Panic k.
Proof. exact validate_panicked_before_fix. Qed.
Print Assumptions C16_validate_panicked_before_fix.
