(** * C10 - created pods are pinned, labelled and stable under the controller's comparison.
    Property theorems only; each is closed by [exact] of a lemma of [Proofs/]. *)
From Coq Require Import List ZArith Bool.
From EDS Require Import Model.Objects Model.Fitness Model.PodSpec Proofs.Lists Proofs.C10Proofs.
Import ListNotations.
Open Scope Z_scope.

(** bound to exactly the node it was created for: by node name ... *)
Theorem C10_pinned_by_name : forall rs n os,
  np_nodename (create_pod rs (Some n) os false) = n_name n /\
  np_affinity (create_pod rs (Some n) os false) = t_affinity (r_tmpl rs).
Proof. exact pinned_by_name. Qed.
Print Assumptions C10_pinned_by_name.

(** ... or by a required node affinity on the node's name added to EVERY affinity term (replacing an earlier
    name field, keeping the other requirements), which [GetNodeNameFromAffinity] reads back - for templates
    with no affinity, one term or many (a present-but-empty term list is rejected by API validation) *)
Theorem C10_pinned_by_affinity : forall rs n os,
  let np := create_pod rs (Some n) os true in
  np_nodename np = no_name /\
  exists ts, np_affinity np = Some ts /\
    (forall t, In t ts -> In (name_field (n_name n)) (nt_fields t) /\
                          forall f, In f (nt_fields t) -> fq_is_name f = true -> f = name_field (n_name n)) /\
    (t_affinity (r_tmpl rs) <> Some [] -> affinity_node_name (Some ts) = n_name n).
Proof. exact pinned_by_affinity. Qed.
Print Assumptions C10_pinned_by_affinity.

(** owned by its replica set, carrying both name labels, that replica set's template hash, the
    autoscaler annotation and the template's tolerations followed by the six default DaemonSet ones *)
Theorem C10_identity : forall rs on os mode,
  let np := create_pod rs on os mode in
  np_owner np = r_name rs /\ np_rs_label np = r_name rs /\ np_eds_label np = r_eds_label rs /\ np_ns np = r_ns rs /\
  np_hash np = r_tmplgen rs /\ np_autoscaler_annot np = true /\
  np_tolerations np = t_tolerations (r_tmpl rs) ++ std_tolerations /\
  np_setting_labels np = match os with Some s => Some (s_name s, s_ns s) | None => None end.
Proof. exact created_pod_identity. Qed.
Print Assumptions C10_identity.

(** container resources: node-annotation override, else the setting attached to the node, else the template
    (a malformed override leaves the earlier choice) *)
Theorem C10_resources : forall n os c,
  container_resources (Some n) os c =
  match find (fun ko => N.eqb (fst ko) (fst c)) (n_overrides n) with
  | Some (_, OvOk r) => r
  | _ => match os with
         | Some s => match assoc_res (fst c) (s_containers s) with Some r => r | None => snd c end
         | None => snd c
         end
  end.
Proof. exact resources_resolution. Qed.
Print Assumptions C10_resources.

(** Round trip: a pod just created for given inputs is recognised as up to date for the same inputs - for
    every replica set, node (any override annotations), setting and both node-assignment modes (after the
    repair of D4: the comparison skips containers overridden by the node annotation). *)
Theorem C10_roundtrip : forall rs n os mode nm created,
  setting_maps_wf os ->
  pod_up_to_date rs n os (pod_of_newpod (create_pod rs (Some n) os mode) nm created) = true.
Proof. exact roundtrip. Qed.
Print Assumptions C10_roundtrip.

(** Sensitivity: outdated when the template changes, when the node's override annotations change, or when
    a resource value demanded by the applicable setting differs from the pod's. *)
Theorem C10_outdated_on_template_change : forall rs n os p,
  p_hash p <> Some (r_tmplgen rs) -> pod_up_to_date rs n os p = false.
Proof. exact outdated_on_template_change. Qed.
Print Assumptions C10_outdated_on_template_change.

Theorem C10_outdated_on_annotation_change : forall rs n os p,
  (match p_nodehash p with Some h => h | None => no_name end) <> n_nodehash n -> pod_up_to_date rs n os p = false.
Proof. exact outdated_on_annotation_change. Qed.
Print Assumptions C10_outdated_on_annotation_change.

Theorem C10_outdated_on_setting_value : forall rs n s p c want k v have,
  In (c, have) (p_resources p) -> (forall c' r', In (c', r') (p_resources p) -> c' = c -> r' = have) ->
  has_override n c = false -> assoc_res c (s_containers s) = Some want ->
  In (k, v) (res_limits want) -> assocZ k (res_limits have) <> Some v ->
  pod_up_to_date rs n (Some s) p = false.
Proof. exact outdated_on_setting_value. Qed.
Print Assumptions C10_outdated_on_setting_value.
