(** * C03 - the rolling update respects maxUnavailable.
    Property theorems only; each is closed by [exact] of a lemma of [Proofs/]. *)
From Coq Require Import List ZArith.
From EDS Require Import Model.Objects Model.Limits Model.Rolling Model.ErsReconcile
     Model.Abstract Proofs.Lists Proofs.RollingProofs Proofs.SyncInv Proofs.C03Proofs Proofs.C02Round.
Import ListNotations.
Open Scope Z_scope.

(** For every plan [rolling_plan_of] computes from duplicate-free planning items (any number of nodes,
    any assignment of nodes to the seven classes, any maxUnavailable / maxPodSchedulerFailure,
    absolute or percent) and EVERY choice of update-deletions the model allows - every iteration order
    of the controller's per-node map - the number of AVAILABLE pods deleted is at most
    max(0, maxUnavailable - U), U = targeted nodes without an available pod, stuck/unresponsive ones
    tolerated up to maxPodSchedulerFailure. *)
Theorem C03_budget : forall rs ann ru now items rp chosen,
  NoDup (map ni_name items) -> rolling_plan_of rs ann ru now items = Ok rp ->
  admissible_deletes rp chosen = true -> mon_budget rp chosen = true.
Proof. exact budget_of_items. Qed.
Print Assumptions C03_budget.

(** Unavailable pods are replaced first: an available pod is deleted only if every unavailable
    outdated (non-terminating) pod is deleted too. *)
Theorem C03_unavailable_first : forall rs ann ru now items rp chosen,
  NoDup (map ni_name items) -> rolling_plan_of rs ann ru now items = Ok rp ->
  admissible_deletes rp chosen = true -> mon_unavailable_first rp chosen = true.
Proof. exact unavailable_first_of_items. Qed.
Print Assumptions C03_unavailable_first.

(** Never more than maxUnavailable pods deleted for updating in one sync. *)
Theorem C03_cap : forall rs ann ru now items rp chosen,
  NoDup (map ni_name items) -> rolling_plan_of rs ann ru now items = Ok rp ->
  admissible_deletes rp chosen = true -> mon_cap rp chosen = true.
Proof. exact cap_of_items. Qed.
Print Assumptions C03_cap.

(** The same three facts for a whole replica-set sync ([ers_sync]: lists, filter, strategy, time
    gates): whatever the snapshot and the runtime's choice, when the sync succeeds with a rolling
    plan (active role), its update-deletions satisfy the three monitors. *)
Theorem C03_sync : forall sn ch pl rp,
  ers_sync sn ch = Ok pl -> pl_rolling pl = Some rp ->
  mon_budget rp (pl_update_nodes pl) = true /\
  mon_unavailable_first rp (pl_update_nodes pl) = true /\
  mon_cap rp (pl_update_nodes pl) = true.
Proof. exact sync_budget. Qed.
Print Assumptions C03_sync.

(** Only the pods of the chosen nodes are deleted for updating (at most one per node); every other
    deletion of the sync is the clean-up list (duplicates, pods on ineligible nodes, Failed pods). *)
Theorem C03_outside_budget : forall sn ch pl,
  ers_sync sn ch = Ok pl -> (length (pl_deletes pl) <= length (pl_update_nodes pl))%nat.
Proof. exact sync_deletes_bounded. Qed.
Print Assumptions C03_outside_budget.

(** The arithmetic of [limits.go] alone: the deletion budget never exceeds maxUnavailable nor
    maxUnavailable - U + (already unavailable outdated pods). *)
Theorem C03_limits : forall p,
  calc_delete p <= Z.max 0 (lp_max_unavailable p) /\
  calc_delete p <= Z.max 0 (lp_max_unavailable p
                            - (lp_nodes p - Z.min (lp_unresponsive p) (lp_max_unschedulable p)
                               - lp_available p - lp_old_available p) + lp_old_unavailable p).
Proof. exact calc_delete_bounds. Qed.
Print Assumptions C03_limits.

(** The defect of the pinned tree (D3: the deleted pods were a map-order prefix of all candidates),
    kept as a checked record: ten nodes, two outdated-unavailable, eight outdated-available,
    maxUnavailable 2 - two AVAILABLE pods could be deleted. Repaired by the commit
    "fix: rolling update replaces unavailable pods before available ones". *)
Theorem C03_budget_refuted_before_fix :
  exists rp chosen, plan_wf rp /\ admissible_deletes_before_fix rp chosen = true /\ mon_budget rp chosen = false.
Proof. exact budget_refuted_before_fix. Qed.
Print Assumptions C03_budget_refuted_before_fix.

(** Non-vacuity: a plan with candidates of both kinds and an admissible non-empty choice. *)
Example C03_example :
  plan_wf d3_plan /\ admissible_deletes d3_plan [2%N; 1%N] = true /\ mon_budget d3_plan [2%N; 1%N] = true.
Proof. exact example_admissible. Qed.

(** The budget over whole rounds (per-class abstraction; every fair round of the sync model is such a round with its own
    plan's limits, [C02_round_projects]): a fair round never leaves more nodes without a Ready pod than there were before it
    or than maxUnavailable allows, whatever the creation limit - the controller's own deletions of available pods stop at
    the budget, everything else a round does only moves nodes between the unavailable classes or out of them ... *)
Theorem C03_round_keeps_availability : forall maxc mu s,
  a_wf s -> 0 <= mu -> a_unavailable (a_round maxc mu s) <= Z.max (a_unavailable s) mu.
Proof. exact round_keeps_availability. Qed.
Print Assumptions C03_round_keeps_availability.

(** ... hence along any chain of fair rounds whose maxUnavailable stays within [mu] (the limits may differ from round to
    round) the number of nodes without a Ready pod never exceeds the larger of what it was at the start and [mu] *)
Theorem C03_chain_keeps_availability : forall mu n s s',
  a_wf s -> a_chain_mu mu s n s' -> a_unavailable s' <= Z.max (a_unavailable s) mu.
Proof. exact chain_keeps_availability. Qed.
Print Assumptions C03_chain_keeps_availability.
