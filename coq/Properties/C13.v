(** * C13 - one replica set per template, faithful to it, never collected while in use.
    Property theorems only; each is closed by [exact] of a lemma of [Proofs/]. *)
From Coq Require Import List ZArith Bool.
From EDS Require Import Model.Objects Model.PodSpec Model.Default Model.Canary Model.ErsReconcile Model.EdsLogic Model.EdsReconcile
     Model.PodTemplate Proofs.Lists Proofs.EdsInv Proofs.EdsWrites Proofs.C04Proofs Proofs.C13Proofs Proofs.C13History.
From Coq Require Import Relations.
Import ListNotations.
Open Scope Z_scope.

(** A replica set is created only when no listed replica set of the ExtendedDaemonSet matches the
    template hash - so re-applying or reverting to a template reuses its replica set and at most one is
    created per distinct template while one exists - and the new one records that hash in its annotation
    and templateGeneration and holds that template; nothing else is written by that reconcile. *)
Theorem C13_one_per_hash : forall sn pl nr,
  eds_sync sn = Ok pl -> In nr (creates_of (ep_writes pl)) ->
  exists e, es_obj sn = Some e /\
    (forall r, In r (rs_of_eds e (es_rss sn)) -> rs_up_to_date e r = false) /\
    nr_ns nr = e_ns e /\ nr_eds_label nr = e_name e /\ nr_owner nr = e_name e /\
    nr_hash_annot nr = e_tmpl_hash e /\ nr_tmplgen nr = e_tmpl_hash e /\ nr_tmpl_hash nr = e_tmpl_hash e /\
    ep_writes pl = [WCreateRs nr].
Proof. exact create_only_if_none_matches. Qed.
Print Assumptions C13_one_per_hash.

(** The writes of both reconcilers never modify a replica set's template, annotation or
    templateGeneration (the write alphabet has no such operation), and every pod a replica set creates
    carries that replica set's templateGeneration. *)
Theorem C13_pods_carry_hash : forall sn ch pl nn np,
  ers_sync sn ch = Ok pl -> In (nn, np) (pl_new_pods pl) ->
  np_hash np = r_tmplgen (sn_rs sn) /\ np_rs_label np = r_name (sn_rs sn) /\ np_owner np = r_name (sn_rs sn) /\
  np_eds_label np = r_eds_label (sn_rs sn) /\ np_ns np = r_ns (sn_rs sn) /\ In nn (pl_creates pl).
Proof. exact created_pods_identity. Qed.
Print Assumptions C13_pods_carry_hash.

(** Clean-up: a deleted replica set is one of the ExtendedDaemonSet's own, is neither the one the
    promotion rule selects in this reconcile nor the one matching spec.template, and reports zero
    desired, current, ready and available pods. *)
Theorem C13_cleanup_safe : forall sn pl n,
  eds_sync sn = Ok pl -> In n (deletes_of (ep_writes pl)) ->
  exists e uptodate current r,
    es_obj sn = Some e /\
    let rss := rs_of_eds e (es_rss sn) in
    last_such (rs_up_to_date e) rss = Some uptodate /\
    current = fst (select_current (e_annots e) (st_canary (e_strategy e))
                     (last_such (fun r => N.eqb (r_name r) (es_active (e_status e))) rss) uptodate (es_now sn)) /\
    In r rss /\ r_name r = n /\ n <> r_name current /\ n <> r_name uptodate /\
    rs_desired (r_status r) + rs_current (r_status r) + rs_ready (r_status r) + rs_available (r_status r) = 0 /\
    should_delete_ers (es_now sn) r = true.
Proof. exact cleanup_safe. Qed.
Print Assumptions C13_cleanup_safe.

Theorem C13_nonzero_never_deleted : forall now r,
  rs_desired (r_status r) + rs_current (r_status r) + rs_ready (r_status r) + rs_available (r_status r) <> 0 ->
  should_delete_ers now r = false.
Proof. exact nonzero_never_deleted. Qed.
Print Assumptions C13_nonzero_never_deleted.

(** The PodTemplate of the same name and namespace mirrors spec.template and its hash. *)
Theorem C13_podtemplate : forall e opt fail ws err,
  podtemplate_sync (Some e) opt fail = Ok (ws, err) ->
  (forall p, opt = Some p -> pt_faithful p = true) ->
  exists p, pt_after opt ws = Some p /\ pt_hash_annot p = Some (e_tmpl_hash e) /\ pt_tmpl_hash p = e_tmpl_hash e /\
            pt_faithful p = true.
Proof. exact podtemplate_mirrors. Qed.
Print Assumptions C13_podtemplate.

Theorem C13_podtemplate_silent_iff : forall e pt fail ws err,
  podtemplate_sync (Some e) (Some pt) fail = Ok (ws, err) ->
  (ws = [] <-> pt_hash_annot pt = Some (e_tmpl_hash e)).
Proof. exact podtemplate_silent_iff. Qed.
Print Assumptions C13_podtemplate_silent_iff.

(** Over every history - ExtendedDaemonSet reconciles whose writes take effect or are rejected one by one,
    user edits of anything but name and namespace (template changes in a row, reverts, strategy and annotation
    changes), status and other non-identity updates of the replica sets, deletions by anybody, replica sets of
    other owners appearing - no two replica sets of the ExtendedDaemonSet carry the same template hash.
    The step relation [hstep] and the API server's part ([applied], [born_from]) are in [Proofs/C13History.v]. *)
Theorem C13_history_one_per_template : forall s s', clos_refl_trans _ hstep s s' ->
  one_per_template (fst s) (snd s) -> one_per_template (fst s') (snd s').
Proof. exact history_one_per_template. Qed.
Print Assumptions C13_history_one_per_template.

(** the invariant read out: two of its replica sets at different places of the store have different hashes *)
Theorem C13_history_distinct : forall e l1 r1 l2 r2 l3 h,
  one_per_template e (l1 ++ r1 :: l2 ++ r2 :: l3) ->
  own e r1 = true -> own e r2 = true -> r_hash_annot r1 = Some h -> r_hash_annot r2 = Some h -> False.
Proof. exact one_per_template_distinct. Qed.
Print Assumptions C13_history_distinct.

(** re-applying or reverting to a template reuses its replica set: when the store holds a replica set of the
    ExtendedDaemonSet with the hash of spec.template, the reconcile creates none *)
Theorem C13_reuse : forall sn e pl r h,
  es_obj sn = Some e -> eds_sync sn = Ok pl -> In r (es_rss sn) -> own e r = true ->
  r_hash_annot r = Some h -> h = e_tmpl_hash e -> creates_of (ep_writes pl) = [].
Proof. exact reuse. Qed.
Print Assumptions C13_reuse.

(** Faithfulness over every history (same steps): each replica set of the ExtendedDaemonSet records, as its
    annotation and its templateGeneration, the hash of the template it holds - the one it was created from - and
    every pod it creates is stamped with that hash. *)
Theorem C13_history_faithful : forall s s', clos_refl_trans _ hstep s s' ->
  all_faithful (fst s) (snd s) -> all_faithful (fst s') (snd s').
Proof. exact history_faithful. Qed.
Print Assumptions C13_history_faithful.

Theorem C13_history_pods_carry_recorded_hash : forall e rss sn ch pl nn np,
  all_faithful e rss -> In (sn_rs sn) rss -> own e (sn_rs sn) = true ->
  ers_sync sn ch = Ok pl -> In (nn, np) (pl_new_pods pl) ->
  r_hash_annot (sn_rs sn) = Some (np_hash np) /\ r_tmpl_hash (sn_rs sn) = np_hash np.
Proof. exact pods_carry_recorded_hash. Qed.
Print Assumptions C13_history_pods_carry_recorded_hash.

(** the empty store satisfies the invariant, so every store reached from it does *)
Example C13_history_starts : forall e, one_per_template e [] /\ all_faithful e [].
Proof. intros e. split; [constructor | intros r Hr; destruct Hr]. Qed.
