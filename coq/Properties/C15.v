(** * C15 - canary nodes are valid, distinct, stable and as many as requested.
    Property theorems only; each is closed by [exact] of a lemma of [Proofs/]. *)
From Coq Require Import List ZArith NArith Bool Sorting.Sorted Permutation.
From EDS Require Import Model.Objects Model.Fitness Model.PodSpec Model.Default Model.Canary Model.EdsLogic Model.EdsReconcile
     Proofs.Lists Proofs.RollingProofs Proofs.EdsInv Proofs.C15Proofs Proofs.C15Sync Proofs.C15Spread Proofs.C15Restarts.
Import ListNotations.
Open Scope Z_scope.

(** [select_nodes] for every node population, template, anti-affinity keys, requested number and
    previously selected list (duplicate free): the result is duplicate free ... *)
Theorem C15_nodup : forall t keys nb nodes pods previous,
  NoDup previous -> NoDup (fst (select_nodes t keys nb nodes pods previous)).
Proof. exact select_nodup. Qed.
Print Assumptions C15_nodup.

(** ... every name on it is a listed node (the caller lists the nodes matching the canary node selector)
    that is fit for the pod ... *)
Theorem C15_new_valid : forall t keys nb nodes pods previous,
  NoDup previous -> forall nn, In nn (fst (select_nodes t keys nb nodes pods previous)) -> valid_node t nodes nn.
Proof. exact select_all_valid. Qed.
Print Assumptions C15_new_valid.

(** ... nodes selected earlier that are still valid are kept ... *)
Theorem C15_keeps_valid : forall t keys nb nodes pods previous,
  NoDup previous -> forall nn, In nn previous -> valid_node t nodes nn ->
  (forall n m, In n nodes -> In m nodes -> n_name n = n_name m -> n = m) ->
  In nn (fst (select_nodes t keys nb nodes pods previous)).
Proof. exact select_keeps_valid. Qed.
Print Assumptions C15_keeps_valid.

(** ... names are added only while the list is shorter than the resolved replicas ... *)
Theorem C15_no_overshoot : forall t keys nb nodes pods previous, NoDup previous ->
  let still_valid := filter (fun nn => match find (fun n => N.eqb (n_name n) nn)
                                                  (sort_by (fun n => node_restarts pods (n_name n)) nodes) with
                                       | Some n => fit t n | None => false end) previous in
  zlen (fst (select_nodes t keys nb nodes pods previous)) <= Z.max nb (zlen still_valid) /\
  (zlen still_valid < nb -> zlen (fst (select_nodes t keys nb nodes pods previous)) <= nb) /\
  incl still_valid previous.
Proof. exact select_no_overshoot. Qed.
Print Assumptions C15_no_overshoot.

(** ... fewer valid nodes than requested is the error path (the shortened list is written with the status - which
    keeps status.desired, against which a percentage is resolved, fresh - and the reconcile reports the error, see
    [C15_sync_source] and [C15_sync_short_reports_error]) and
    on success the list has exactly the requested length when the still-valid previous part was not longer. *)
Theorem C15_error_if_short : forall t keys nb nodes pods previous,
  snd (select_nodes t keys nb nodes pods previous) = false <->
  zlen (fst (select_nodes t keys nb nodes pods previous)) < nb.
Proof. exact select_short_iff. Qed.
Print Assumptions C15_error_if_short.

Theorem C15_count : forall t keys nb nodes pods previous,
  NoDup previous -> snd (select_nodes t keys nb nodes pods previous) = true ->
  zlen (filter (fun nn => match find (fun n => N.eqb (n_name n) nn)
                                     (sort_by (fun n => node_restarts pods (n_name n)) nodes) with
                          | Some n => fit t n | None => false end) previous) <= nb ->
  zlen (fst (select_nodes t keys nb nodes pods previous)) = nb.
Proof. exact select_count. Qed.
Print Assumptions C15_count.

(** candidates are visited in order of non-decreasing restarts of their daemon pods *)
Theorem C15_candidates_by_restarts : forall pods nodes,
  Sorted (le_key (fun n => node_restarts pods (n_name n))) (sort_by (fun n => node_restarts pods (n_name n)) nodes).
Proof. exact candidates_by_restarts. Qed.
Print Assumptions C15_candidates_by_restarts.

(** "additional ones are taken preferring nodes whose daemon pods restarted least": without anti-affinity keys every
    node ADDED by a selection has no more restarts than any valid (listed, fit) candidate that was left out *)
Theorem C15_least_restarts : forall t nb nodes pods previous a m,
  let final := fst (select_nodes t [] nb nodes pods previous) in
  let still_valid := filter (fun nn => match find (fun n => N.eqb (n_name n) nn)
                                                  (sort_by (fun n => node_restarts pods (n_name n)) nodes) with
                                       | Some n => fit t n | None => false end) previous in
  In a final -> ~ In a still_valid ->
  In m nodes -> fit t m = true -> ~ In (n_name m) final ->
  node_restarts pods a <= node_restarts pods (n_name m).
Proof. exact select_least_restarts. Qed.
Print Assumptions C15_least_restarts.

(** "spreading": with nodeAntiAffinityKeys, one selection never brings the number of canary nodes carrying one value of
    the keys above the quota - the canary size divided by the number of distinct values among the candidate nodes,
    rounded up - unless the nodes kept from the previous selection already exceeded it (kept nodes are never dropped for
    balance). [cnt keys nodes l v] = the nodes carrying value [v] whose name is on [l]. *)
Theorem C15_spreading : forall t keys nb nodes pods previous v,
  keys <> [] -> NoDup (map n_name nodes) ->
  let sorted := sort_by (fun n => node_restarts pods (n_name n)) nodes in
  let still_valid := filter (fun nn => match find (fun n => N.eqb (n_name n) nn) sorted with
                                       | Some n => fit t n | None => false end) previous in
  let final := fst (select_nodes t keys nb nodes pods previous) in
  let values := zlen (aa_init keys sorted still_valid) in
  cnt keys nodes final v <= Z.max (cnt keys nodes still_valid v) (Z.quot (nb + values - 1) values).
Proof. exact select_spreads. Qed.
Print Assumptions C15_spreading.

(** a percentage of replicas resolves rounding up (against status.desired of the ExtendedDaemonSet,
    after the repair of D7) *)
Theorem C15_percent : forall v total r, resolve_iop (PctV v) total = Some r ->
  100 * r >= v * total /\ 100 * (r - 1) < v * total.
Proof. exact percent_rounds_up. Qed.
Print Assumptions C15_percent.

(** The whole reconcile: the canary list a status write carries is either the list read, unchanged, or
    [select_nodes] for the resolved replicas over the nodes matching the canary node selector ([select_or_fail]: when
    the List of the pods or of the nodes fails inside [selectNodes] the list stays as it was and the error is reported). *)
Theorem C15_sync_source : forall sn pl st' c',
  eds_sync sn = Ok pl -> In st' (statuses_of (ep_writes pl)) -> es_canary st' = Some c' ->
  exists e, es_obj sn = Some e /\
  ((st_canary (e_strategy e) = None /\ es_canary (e_status e) = Some c') \/
   exists uptodate cspec,
    st_canary (e_strategy e) = Some cspec /\ cs_rs c' = r_name uptodate /\
    last_such (rs_up_to_date e) (rs_of_eds e (es_rss sn)) = Some uptodate /\
    canary_failed_rs (r_status uptodate) = false /\
    let prev := status_canary_nodes (e_status e) in
    exists rep nb, ca_replicas cspec = Some rep /\ resolve_iop rep (es_desired (e_status e)) = Some nb /\
      ((nb = zlen prev /\ cs_nodes c' = prev) \/
       (nb <> zlen prev /\
        exists enough,
        select_or_fail sn (r_tmpl uptodate) (ca_antiaffinity cspec) nb (canary_candidate_nodes sn cspec)
                       (eds_pods sn e) prev = (cs_nodes c', enough) /\ (enough = false -> ep_error pl = true)))).
Proof. exact sync_canary_nodes. Qed.
Print Assumptions C15_sync_source.

(** distinctness is an invariant of reconciles: a duplicate-free list read gives a duplicate-free list written *)
Theorem C15_nodup_inv : forall sn pl st' c',
  eds_sync sn = Ok pl -> In st' (statuses_of (ep_writes pl)) -> es_canary st' = Some c' ->
  (forall e, es_obj sn = Some e -> NoDup (status_canary_nodes (e_status e))) ->
  NoDup (cs_nodes c').
Proof. exact sync_nodes_nodup. Qed.
Print Assumptions C15_nodup_inv.

(** whenever a reconcile changes the list, all of the new list is valid, it is at least as long as
    requested, and it is longer than requested only if nothing was added *)
Theorem C15_valid_at_selection : forall sn pl st' c',
  eds_sync sn = Ok pl -> In st' (statuses_of (ep_writes pl)) -> es_canary st' = Some c' ->
  (forall e, es_obj sn = Some e -> NoDup (status_canary_nodes (e_status e))) ->
  forall e, es_obj sn = Some e -> cs_nodes c' <> status_canary_nodes (e_status e) ->
  exists u cspec rep nb,
    st_canary (e_strategy e) = Some cspec /\ cs_rs c' = r_name u /\
    ca_replicas cspec = Some rep /\ resolve_iop rep (es_desired (e_status e)) = Some nb /\
    (forall nn, In nn (cs_nodes c') -> valid_canary_node sn cspec u nn) /\
    (nb <= zlen (cs_nodes c') \/ ep_error pl = true) /\
    (zlen (cs_nodes c') <= nb \/ incl (cs_nodes c') (status_canary_nodes (e_status e))).
Proof. exact sync_nodes_valid_at_selection. Qed.
Print Assumptions C15_valid_at_selection.

(** "if fewer valid nodes exist the reconcile reports an error instead of silently running a smaller canary", for the
    whole reconcile: whenever the selection for the resolved replicas comes up short, the plan carries the error. *)
Theorem C15_sync_short_reports_error : forall sn pl e uptodate current rq cspec rep nb,
  eds_sync sn = Ok pl -> es_obj sn = Some e -> is_defaulted e = true ->
  last_such (rs_up_to_date e) (rs_of_eds e (es_rss sn)) = Some uptodate ->
  select_current (e_annots e) (st_canary (e_strategy e))
                 (last_such (fun r => N.eqb (r_name r) (es_active (e_status e))) (rs_of_eds e (es_rss sn)))
                 uptodate (es_now sn) = (current, rq) ->
  st_canary (e_strategy e) = Some cspec ->
  canary_failed_rs (r_status uptodate) = false -> N.eqb (r_name current) (r_name uptodate) = false ->
  ca_replicas cspec = Some rep -> resolve_iop rep (es_desired (e_status e)) = Some nb ->
  nb <> zlen (status_canary_nodes (e_status e)) ->
  snd (select_or_fail sn (r_tmpl uptodate) (ca_antiaffinity cspec) nb (canary_candidate_nodes sn cspec)
                      (eds_pods sn e) (status_canary_nodes (e_status e))) = false ->
  ep_error pl = true.
Proof. exact short_selection_error. Qed.
Print Assumptions C15_sync_short_reports_error.

(** The full statement "each name refers to a valid node WHILE THE CANARY IS ACTIVE" is false of the
    code: the list is re-selected only when its length differs from the resolved replicas, so a canary
    node that is deleted or tainted later stays listed (known finding D9).  Witness on the model: the
    previous list names a node that no longer exists; the count matches; the reconcile keeps it. *)
Definition C15_valid_while_active_statement : Prop :=
  forall sn pl st' c' e cspec u,
    eds_sync sn = Ok pl -> In st' (statuses_of (ep_writes pl)) -> es_canary st' = Some c' ->
    es_obj sn = Some e -> st_canary (e_strategy e) = Some cspec ->
    last_such (rs_up_to_date e) (rs_of_eds e (es_rss sn)) = Some u ->
    forall nn, In nn (cs_nodes c') -> valid_canary_node sn cspec u nn.

(** The restart tally that ranks the candidates counts every listed daemon pod of the node and does not depend on
    the order in which the API server lists the pods. *)
Theorem C15_restarts_order_irrelevant : forall pods pods' nn,
  Permutation pods pods' -> node_restarts pods nn = node_restarts pods' nn.
Proof. exact node_restarts_order_irrelevant. Qed.
Print Assumptions C15_restarts_order_irrelevant.

Theorem C15_restarts_count_every_pod : forall l1 p l2 nn, p_nodename p = nn ->
  node_restarts (l1 ++ p :: l2) nn = p_restart_sum p + node_restarts (l1 ++ l2) nn.
Proof. exact node_restarts_counts_every_pod. Qed.
Print Assumptions C15_restarts_count_every_pod.
