(** * C17 - concurrent reconciles and parallel pod operations are race free and lose no error.
    Property theorems only; each is closed by [exact] of a lemma of [Proofs/].

    What is logic is proved here; the absence of data races in goroutine interleavings is a fact about the
    Go runtime's executions and is observed (race detector), see DESIGN.md 5/C17: PARTIAL. *)
From Coq Require Import List Arith Bool Permutation ZArith.
From EDS Require Import Model.Fanin Model.Objects Model.Rolling Model.Canary Model.ErsReconcile
     Proofs.C17Proofs Proofs.CondProofs.
Import ListNotations.

(** Atomic collection (buffered channel drained until closed; append under a mutex): for every number of
    workers, every failure vector and EVERY schedule in which each failing worker runs, exactly the failing
    workers' errors are collected - none lost, none duplicated. *)
Theorem C17_atomic_no_loss : forall fails sched,
  NoDup fails -> (forall i, In i fails -> In i sched) ->
  Permutation (f_shared (frun Atomic fails sched f_init)) fails.
Proof. exact atomic_no_loss. Qed.
Print Assumptions C17_atomic_no_loss.

Theorem C17_atomic_count : forall fails sched,
  NoDup fails -> (forall i, In i fails -> In i sched) ->
  length (f_shared (frun Atomic fails sched f_init)) = length fails.
Proof. exact atomic_count. Qed.
Print Assumptions C17_atomic_count.

(** The unsynchronised append of the pinned tree ([deletePodSlice], repaired: D10) loses an error under some
    complete schedule - the lost update the race detector reports. *)
Theorem C17_unsync_loses :
  exists fails sched, NoDup fails /\ complete Unsync fails sched = true /\
    (length (f_shared (frun Unsync fails sched f_init)) < length fails)%nat.
Proof. exact unsync_loses. Qed.
Print Assumptions C17_unsync_loses.

(** Every rejected pod creation or update-deletion, and every strategy error (a failed clean-up deletion), is
    reflected in the error the sync returns and in the ReconcileError condition of the status it writes. *)
Theorem C17_reflected : forall sn cx so pl st,
  finish_sync sn cx so = Ok pl -> pl_status pl = Some st ->
  ((exists nn, In nn (pl_creates pl) /\ In nn (f_create (sn_faults sn))) \/
   (exists pn, In pn (pl_deletes pl) /\ In pn (f_delete (sn_faults sn))) \/ so_err so = true) ->
  pl_error pl = true /\ is_cond_true (rs_conds st) CT_ReconcileError = true.
Proof. exact failed_operation_reflected. Qed.
Print Assumptions C17_reflected.

(** PodsCleanupDone is not true when a clean-up deletion failed, and true when the clean-up ran clean. *)
Theorem C17_cleanup_failure : forall cs now ps fl pn,
  In pn (cleanup_targets ps) -> In pn (f_delete fl) ->
  is_cond_true (cleanup_conds cs now ps fl) CT_PodsCleanupDone = false.
Proof. exact cleanup_failure_reflected. Qed.
Print Assumptions C17_cleanup_failure.

Theorem C17_cleanup_success : forall cs now ps fl,
  ps <> [] -> failed_of (cleanup_targets ps) (f_delete fl) = [] ->
  is_cond_true (cleanup_conds cs now ps fl) CT_PodsCleanupDone = true.
Proof. exact cleanup_success_reflected. Qed.
Print Assumptions C17_cleanup_success.
