(** * C04 - canary blast radius: the new template runs only on the selected canary nodes.
    Property theorems only; each is closed by [exact] of a lemma of [Proofs/]. *)
From Coq Require Import List ZArith Bool.
From EDS Require Import Model.Objects Model.Fitness Model.PodSpec Model.Default Model.Rolling Model.Canary
     Model.ErsReconcile Model.EdsLogic Model.EdsReconcile
     Proofs.Lists Proofs.SyncInv Proofs.C01Proofs Proofs.C04Proofs Proofs.EdsInv Proofs.C15Proofs Proofs.C15Sync.
Import ListNotations.
Open Scope Z_scope.

(** For every snapshot, role and choice of the runtime: a pod created by the canary replica set is on a
    node listed in status.canary.nodes (as read); the active replica set never creates on such a node; a
    replica set that is neither creates nothing.  The role is a function of the parent's status as read,
    so this holds for every interleaving of the syncs of the active, canary and leftover replica sets. *)
Theorem C04_creates_confined : forall sn ch pl e nn,
  ers_sync sn ch = Ok pl -> sn_eds sn = Some e -> In nn (pl_creates pl) ->
  (pl_role pl = RoleCanary -> In nn (canary_nodes_of e)) /\
  (pl_role pl = RoleActive -> ~ In nn (canary_nodes_of e)) /\
  pl_role pl <> RoleUnknown.
Proof. exact creates_confined. Qed.
Print Assumptions C04_creates_confined.

(** Every pod object a sync sends carries the syncing replica set's own template hash, name labels and
    owner - so pods of the new template are created by the replica set made from it (the canary, until
    it is promoted) and by no other. *)
Theorem C04_created_pods_identity : forall sn ch pl nn np,
  ers_sync sn ch = Ok pl -> In (nn, np) (pl_new_pods pl) ->
  np_hash np = r_tmplgen (sn_rs sn) /\ np_rs_label np = r_name (sn_rs sn) /\ np_owner np = r_name (sn_rs sn) /\
  np_eds_label np = r_eds_label (sn_rs sn) /\ np_ns np = r_ns (sn_rs sn) /\ In nn (pl_creates pl).
Proof. exact created_pods_identity. Qed.
Print Assumptions C04_created_pods_identity.

(** While a canary is listed the active replica set deletes no pod on a canary node, neither to update
    it nor to clean up. *)
Theorem C04_active_spares_canary_nodes : forall sn ch pl e pn,
  ers_sync sn ch = Ok pl -> sn_eds sn = Some e -> pl_role pl = RoleActive ->
  es_canary (e_status e) <> None ->
  In pn (pl_deletes pl ++ pl_cleanup pl) ->
  exists p nn, In p (sn_pods sn) /\ p_name p = pn /\ node_of_pod p = Some nn /\ ~ In nn (canary_nodes_of e).
Proof. exact active_spares_canary_nodes. Qed.
Print Assumptions C04_active_spares_canary_nodes.

(** The ExtendedDaemonSet reconcile never adds nodes beyond the resolved replicas: whenever it changes
    the list, the new list is not longer than requested unless nothing was added. *)
Theorem C04_list_growth : forall sn pl st' c',
  eds_sync sn = Ok pl -> In st' (statuses_of (ep_writes pl)) -> es_canary st' = Some c' ->
  (forall e, es_obj sn = Some e -> NoDup (status_canary_nodes (e_status e))) ->
  forall e, es_obj sn = Some e -> cs_nodes c' <> status_canary_nodes (e_status e) ->
  exists u cspec rep nb,
    st_canary (e_strategy e) = Some cspec /\ cs_rs c' = r_name u /\
    ca_replicas cspec = Some rep /\ resolve_iop rep (es_desired (e_status e)) = Some nb /\
    (forall nn, In nn (cs_nodes c') -> valid_canary_node sn cspec u nn) /\
    (nb <= zlen (cs_nodes c') \/ ep_error pl = true) /\
    (zlen (cs_nodes c') <= nb \/ incl (cs_nodes c') (status_canary_nodes (e_status e))).
Proof. exact sync_nodes_valid_at_selection. Qed.
Print Assumptions C04_list_growth.

(** Canary labels: added only by the canary role, only to pods of the syncing replica set on a listed
    canary node ... *)
Theorem C04_label_add_only_canary : forall sn ch pl e pn,
  ers_sync sn ch = Ok pl -> sn_eds sn = Some e -> In pn (pl_label_add pl) ->
  pl_role pl = RoleCanary /\
  exists p nn, In p (sn_pods sn) /\ p_name p = pn /\ p_rs_label p = r_name (sn_rs sn) /\
               node_of_pod p = Some nn /\ In nn (canary_nodes_of e) /\ C01Proofs.own_pod e p.
Proof. exact label_add_only_canary. Qed.
Print Assumptions C04_label_add_only_canary.

(** ... to every kept pod of its own on a canary node when no patch fails ... *)
Theorem C04_label_added : forall sn ch pl e freq cx,
  ers_sync sn ch = Ok pl -> sn_eds sn = Some e -> is_defaulted e = true ->
  st_freq (e_strategy e) = Some freq -> sync_gate sn freq = None -> build_ctx sn e freq = Ok cx ->
  pl_role pl = RoleCanary -> f_patch (sn_faults sn) = [] ->
  pl_label_add pl = canary_label_targets (sn_rs sn) cx.
Proof. exact label_added. Qed.
Print Assumptions C04_label_added.

(** ... and removed only by the active role, only from the syncing replica set's own labelled pods:
    "lose it once the replica set has become active". *)
Theorem C04_label_del_only_active : forall sn ch pl pn,
  ers_sync sn ch = Ok pl -> In pn (pl_label_del pl) ->
  pl_role pl = RoleActive /\
  exists p, In p (sn_pods sn) /\ p_name p = pn /\ p_rs_label p = r_name (sn_rs sn) /\ p_ns p = r_ns (sn_rs sn) /\
            p_is_canary_labelled p = true.
Proof. exact label_del_only_active. Qed.
Print Assumptions C04_label_del_only_active.
