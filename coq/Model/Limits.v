(** * Limits: [strategy/limits/limits.go] and the slow-start ramp of [rollingupdate.go]. *)
From EDS Require Import Model.Objects.

Record limit_params := MkLimits {
  lp_nodes : Z; lp_pods : Z; lp_available : Z; lp_old_available : Z; lp_created : Z;
  lp_unresponsive : Z; lp_old_unavailable : Z;
  lp_max_creation : Z; lp_max_unavailable : Z; lp_max_unschedulable : Z
}.

Definition calc_create (p : limit_params) : Z :=
  Z.max 0 (Z.min (lp_nodes p - lp_pods p) (lp_max_creation p)).

Definition calc_delete (p : limit_params) : Z :=
  let eff := Z.min (lp_unresponsive p) (lp_max_unschedulable p) in
  let d := lp_max_unavailable p - (lp_nodes p - eff - lp_available p - lp_old_available p) + lp_old_unavailable p in
  Z.max 0 (Z.min d (lp_max_unavailable p)).

(** [calculateMaxCreation] (after the repair of D1b: a non-positive interval means one slot).
    Go's integer division truncates toward zero: [Z.quot]. *)
Definition max_creation (increase : intorpct) (interval : dur) (max_parallel : Z) (nb_nodes : Z)
           (start now : time) : option Z :=
  match resolve_iop increase nb_nodes with
  | None => None
  | Some start_value =>
      let slots := if interval >? 0 then Z.quot (tsub now start) interval else 0 in
      Some (Z.min ((1 + slots) * start_value) max_parallel)
  end.
