(** * Backoff: the replica-set reconciler's in-memory failed-pod back-off
    ([flowcontrol.NewBackOff(10s, 15min)], no jitter), keyed by (replica set, node). *)
From EDS Require Import Model.Objects.

Definition bo_key := (name * name)%type.
Definition bo_key_eqb (a b : bo_key) : bool := N.eqb (fst a) (fst b) && N.eqb (snd a) (snd b).
Record bo_entry := MkBo { bo_backoff : dur; bo_last : time }.
Definition backoff := list (bo_key * bo_entry).

Definition BO_INITIAL : dur := 10 * second.
Definition BO_MAX : dur := 15 * minute.

Fixpoint bo_get (k : bo_key) (m : backoff) : option bo_entry :=
  match m with
  | [] => None
  | (k', e) :: r => if bo_key_eqb k k' then Some e else bo_get k r
  end.
Fixpoint bo_set (k : bo_key) (e : bo_entry) (m : backoff) : backoff :=
  match m with
  | [] => [(k, e)]
  | (k', e') :: r => if bo_key_eqb k k' then (k, e) :: r else (k', e') :: bo_set k e r
  end.

Definition bo_expired (t last : time) : bool := tsub t last >? BO_MAX * 2.

(** [IsInBackOffSinceUpdate(key, now)] *)
Definition bo_in_backoff (k : bo_key) (now : time) (m : backoff) : bool :=
  match bo_get k m with
  | None => false
  | Some e => if bo_expired now (bo_last e) then false else tsub now (bo_last e) <? bo_backoff e
  end.

(** [Next(key, now)] (the clock read inside is the same virtual instant) *)
Definition bo_next (k : bo_key) (now : time) (m : backoff) : backoff :=
  match bo_get k m with
  | None => bo_set k (MkBo BO_INITIAL now) m
  | Some e =>
      if bo_expired now (bo_last e) then bo_set k (MkBo BO_INITIAL now) m
      else bo_set k (MkBo (Z.min (bo_backoff e * 2) BO_MAX) now) m
  end.

(** [shouldDeleteFailedPod] *)
Definition should_delete_failed (k : bo_key) (now : time) (m : backoff) : bool * backoff :=
  if bo_in_backoff k now m then (false, m) else (true, bo_next k now m).

Definition bo_gc (now : time) (m : backoff) : backoff :=
  filter (fun ke => negb (tsub now (bo_last (snd ke)) >? BO_MAX * 2)) m.

Definition bo_entry_eqb (a b : bo_entry) : bool := (bo_backoff a =? bo_backoff b) && (bo_last a =? bo_last b).
(** memories are compared as finite maps *)
Definition backoff_eqb (a b : backoff) : bool :=
  Nat.eqb (length a) (length b) &&
  forallb (fun ke => match bo_get (fst ke) b with Some e => bo_entry_eqb (snd ke) e | None => false end) a.
