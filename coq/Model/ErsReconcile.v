(** * ErsReconcile: one [Reconcile] of the replica-set controller as a function of the snapshot it
    reads ([controllers/extendeddaemonsetreplicaset/controller.go], [strategy/unknown.go],
    [ManageCanaryDeployment], [ManageDeployment] after the limits, [cleanupPods]). *)
From EDS Require Import Model.Objects Model.Fitness Model.PodSpec Model.Backoff Model.Filter
     Model.Default Model.Limits Model.Rolling Model.Canary.

(** Which API calls fail in this reconcile (for C11/C17); all empty = failure free. *)
Record faults := MkFaults {
  f_create : list name;       (* nodes whose pod creation is rejected *)
  f_delete : list name;       (* pods whose deletion is rejected *)
  f_patch : list name;        (* pods whose label patch is rejected *)
  f_status : bool;            (* the status write is rejected *)
  f_list : bool               (* a List call of [buildStrategyParams] (nodes, pods, settings) fails *)
}.
Definition no_faults : faults := MkFaults [] [] [] false false.

Record ers_snapshot := MkErsSnap {
  sn_now : time;
  sn_rs : ers;
  sn_eds : option eds;                 (* the owner named by the owner reference, in the rs's namespace *)
  sn_nodes : list node;                (* every node of the cluster, in list order *)
  sn_pods : list pod;                  (* every pod of the cluster, in list order *)
  sn_settings : list setting;          (* every setting of the cluster, in list order *)
  sn_old_ds : option daemonset;        (* the DaemonSet named by the migration annotation, if it exists *)
  sn_backoff : backoff;
  sn_affinity_mode : bool;
  sn_faults : faults
}.

Inductive role := RoleActive | RoleCanary | RoleUnknown.
Definition role_of (e : eds) (rs_name : name) : role :=
  let st := e_status e in
  if N.eqb (es_active st) no_name then RoleUnknown
  else if N.eqb (es_active st) rs_name then RoleActive
  else match es_canary st with
       | Some c => if N.eqb (cs_rs c) rs_name then RoleCanary else RoleUnknown
       | None => RoleUnknown
       end.

(** What the sync did / wants to do. Lists are sets of targets: calls inside a batch are concurrent. *)
Record ers_plan := MkErsPlan {
  pl_role : role;
  pl_creates : list name;              (* nodes for which a pod is created (attempted) *)
  pl_new_pods : list (name * newpod);  (* node, pod object sent to the API *)
  pl_deletes : list name;              (* pods deleted in order to update them (attempted) *)
  pl_cleanup : list name;              (* pods deleted by the clean-up (attempted) *)
  pl_label_add : list name;            (* pods patched with the canary label (attempted) *)
  pl_label_del : list name;            (* pods patched to lose the canary label (attempted) *)
  pl_status : option ers_status;       (* the status written, None = no write attempted *)
  pl_requeue : bool;
  pl_requeue_after : dur;
  pl_error : bool;                     (* Reconcile returned a non-nil error *)
  pl_backoff : backoff;
  (* witnesses of the decision, for the theorems and monitors (not compared with the implementation) *)
  pl_update_nodes : list name;         (* nodes whose pod is deleted in order to update it *)
  pl_rolling : option rolling_plan     (* active role: candidate sets, counts and budgets *)
}.

Definition in_ns_with_eds_label (e : eds) (p : pod) : bool :=
  N.eqb (p_ns p) (e_ns e) && p_has_eds_label p (e_name e).

(** [getPodList] ++ [getOldDaemonsetPodList]. Error 31 = the old DaemonSet's selector is unusable. *)
Definition listed_pods (e : eds) (pods : list pod) (ods : option daemonset) : outcome (list pod) :=
  let own := filter (in_ns_with_eds_label e) pods in
  match an_old_ds (e_annots e), ods with
  | Some d, Some ds =>
      let in_ns := filter (fun p => N.eqb (p_ns p) (e_ns e)) pods in
      match d_selector ds with
      | Some sel =>
          if lenient_selector_ok sel
          then Ok (own ++ filter (fun p => lenient_selector_matches sel (p_labels p) && memN d (p_ds_owners p)) in_ns)
          else Error 31%N
      | None => Ok (own ++ filter (fun p => memN d (p_ds_owners p)) in_ns)
      end
  | _, _ => Ok own
  end.

(** [getNodeList]: nodes selected by the replica set's selector; to each the first valid setting of
    the ExtendedDaemonSet (in list order) whose selector matches. Errors: 32 replica-set selector,
    33 a valid setting with an unusable selector. *)
Definition settings_of (e : eds) (ss : list setting) : list setting :=
  filter (fun s => N.eqb (s_ns s) (e_ns e) &&
                   match s_ref s with Some r => N.eqb r (e_name e) | None => false end) ss.
Fixpoint setting_for (ss : list setting) (n : node) : outcome (option setting) :=
  match ss with
  | [] => Ok None
  | s :: r =>
      if negb (N.eqb (s_status s) SET_VALID) then setting_for r n
      else if negb (strict_selector_ok (s_selector s)) then Error 33%N
      else if strict_selector_matches (s_selector s) (n_labels n) then Ok (Some s)
      else setting_for r n
  end.
Fixpoint attach_settings (ss : list setting) (ns : list node) : outcome (list (node * option setting)) :=
  match ns with
  | [] => Ok []
  | n :: r => bind (setting_for ss n) (fun os => bind (attach_settings ss r) (fun t => Ok ((n, os) :: t)))
  end.
Definition listed_nodes (rs : ers) (e : eds) (nodes : list node) (ss : list setting)
  : outcome (list (node * option setting)) :=
  match r_selector rs with
  | Some sel =>
      if lenient_selector_ok sel
      then attach_settings (settings_of e ss) (filter (fun n => lenient_selector_matches sel (n_labels n)) nodes)
      else Error 32%N
  | None => attach_settings (settings_of e ss) nodes
  end.

Definition items_of (nodes : list (node * option setting)) (by_node : list (name * option pod)) : list nitem :=
  flat_map (fun np =>
              match find (fun ns => N.eqb (n_name (fst ns)) (fst np)) nodes with
              | Some (n, os) => [MkNItem n os (snd np)]
              | None => []
              end) by_node.

Definition pod_names (ps : list pod) : list name := map p_name ps.

(** [cleanupPods]: deletes the non-terminating pods of the list; the PodsCleanupDone condition is
    written whenever the list is non-empty. *)
Definition cleanup_targets (ps : list pod) : list name :=
  pod_names (filter (fun p => negb (pod_terminating p)) ps).
Definition failed_of (targets fails : list name) : list name := filter (fun x => memN x fails) targets.
Definition cleanup_conds (cs : list cond) (now : time) (ps : list pod) (fl : faults) : list cond :=
  match ps with
  | [] => cs
  | _ =>
      update_cond cs now CT_PodsCleanupDone
        (match failed_of (cleanup_targets ps) (f_delete fl) with [] => CTrue | _ => CFalse end)
        no_name no_name false false
  end.

(** [manageUnscheduledPodNodes] *)
Definition unscheduled_nodes (ps : list pod) : list name :=
  map (fun p => if N.eqb (p_nodename p) no_name then p_affname p else p_nodename p)
      (filter p_unschedulable ps).

(** Result of the role-specific strategy. *)
Record strat_out := MkStratOut {
  so_status : option ers_status;      (* Result.NewStatus, None when the strategy failed early *)
  so_create_nodes : list name;
  so_delete_nodes : list name;
  so_unscheduled : list name;
  so_requeue : bool; so_requeue_after : dur;
  so_err : bool;                      (* the strategy returned an error *)
  so_label_add : list name; so_label_del : list name;
  so_cleanup : list name;
  so_rolling : option rolling_plan    (* active role: the budgets, to judge the runtime's choice *)
}.

Definition with_conds (st : ers_status) (cs : list cond) : ers_status :=
  MkErsStatus (rs_status st) (rs_desired st) (rs_current st) (rs_ready st) (rs_available st) (rs_ignored st) cs.

Definition CLEAN_LABELS_THRESHOLD : dur := 5 * minute.

(** The observed choice of the runtime for the active role. *)
Record choice := MkChoice {
  ch_creates : list name;       (* nodes for which a pod creation was attempted *)
  ch_deleted_pods : list name   (* every pod whose deletion was attempted (update and clean-up) *)
}.

Definition remove_names (canary : list name) (items : list nitem) : list nitem :=
  filter (fun i => negb (memN (ni_name i) canary)) items.

(** What the sync derives from its lists before the role-specific strategy runs. *)
Record sync_ctx := MkCtx {
  cx_eds : eds;
  cx_freq : dur;
  cx_role : role;
  cx_nodes : list (node * option setting);   (* listed nodes with the setting attached to each *)
  cx_pods : list pod;                        (* listed pods (own + adopted) *)
  cx_canary_nodes : list name;
  cx_ignore : list name;
  cx_fo : filter_out;
  cx_items : list nitem
}.
Definition cx_listed (cx : sync_ctx) : list name := map (fun ns => n_name (fst ns)) (cx_nodes cx).
Definition cx_cleanup (cx : sync_ctx) : list name := cleanup_targets (fo_cleanup (cx_fo cx)).
Definition cx_unsched (cx : sync_ctx) : list name := unscheduled_nodes (fo_unscheduled (cx_fo cx)).
Definition pod_of_node (items : list nitem) (nn : name) : list name :=
  match find_item items nn with
  | Some i => match ni_pod i with Some p => [p_name p] | None => [] end
  | None => [] end.

Section Sync.
Variable sn : ers_snapshot.
Variable obs : choice.

Definition build_ctx (e : eds) (freq : dur) : outcome sync_ctx :=
  let rs := sn_rs sn in
  let now := sn_now sn in
  let rl := role_of e (r_name rs) in
  bind (listed_nodes rs e (sn_nodes sn) (sn_settings sn)) (fun nodes =>
  bind (listed_pods e (sn_pods sn) (sn_old_ds sn)) (fun pods =>
  let canary_nodes := match es_canary (e_status e) with Some c => cs_nodes c | None => [] end in
  let ignore := match rl, es_canary (e_status e) with RoleActive, Some _ => canary_nodes | _, _ => [] end in
  let fo := filter_and_map rs (map fst nodes) pods ignore now (sn_backoff sn) in
  Ok (MkCtx e freq rl nodes pods canary_nodes ignore fo (items_of nodes (fo_by_node fo))))).

(** The items the active (and the unknown) role plans over: canary nodes removed. *)
Definition planning_items (cx : sync_ctx) : list nitem := remove_names (cx_canary_nodes cx) (cx_items cx).

Definition strategy_active (cx : sync_ctx) : outcome strat_out :=
  let rs := sn_rs sn in let now := sn_now sn in let fl := sn_faults sn in
  let e := cx_eds cx in let read := r_status rs in
  let c0 := update_cond (rs_conds read) now CT_Canary CFalse no_name no_name false false in
  let c1 := update_cond c0 now CT_CanaryPaused CFalse no_name no_name false false in
  let c2 := update_cond c1 now CT_CanaryFailed CFalse no_name no_name false false in
  let paused := a3_true (an_rolling_paused (e_annots e)) in
  let frozen := a3_true (an_frozen (e_annots e)) in
  let c3 := update_cond c2 now CT_RollingUpdatePaused (bool_to_cond paused) no_name no_name false false in
  let c4 := update_cond c3 now CT_RolloutFrozen (bool_to_cond frozen) no_name no_name false false in
  let c5 := update_cond c4 now CT_Active (bool_to_cond (negb paused && negb frozen)) no_name no_name false false in
  let items' := planning_items cx in
  match rolling_plan_of rs (e_annots e) (st_rolling (e_strategy e)) now items' with
  | Panic c => Panic c
  | Error _ => Ok (MkStratOut None [] [] [] false 0 true [] [] [] None)
  | Ok pl =>
      (* the nodes whose pod the runtime chose to delete: candidates whose pod was deleted *)
      let chosen := filter (fun nn => existsb (fun pn => memN pn (ch_deleted_pods obs)) (pod_of_node (cx_items cx) nn))
                           (rp_del_unavailable pl ++ rp_del_available pl) in
      let '(d, cur, rdy, av, ign) := rolling_status_counts pl in
      let c6 := cleanup_conds c5 now (fo_cleanup (cx_fo cx)) fl in
      let st := MkErsStatus RS_ACTIVE d cur rdy av ign c6 in
      let labelled :=
        if tsub now (rp_start pl) <? CLEAN_LABELS_THRESHOLD
        then pod_names (filter (fun p => N.eqb (p_ns p) (r_ns rs) && p_is_canary_labelled p &&
                                         N.eqb (p_rs_label p) (r_name rs)) (sn_pods sn))
        else [] in
      Ok (MkStratOut (Some st) (ch_creates obs) chosen (cx_unsched cx)
            (negb (d =? rdy) || negb (Nat.eqb (length (failed_of labelled (f_patch fl))) 0)) 0
            (negb (Nat.eqb (length (failed_of (cx_cleanup cx) (f_delete fl))) 0))
            [] labelled (cx_cleanup cx) (Some pl))
  end.

(** [ensureCanaryPodLabels] stops at the first failing patch. *)
Fixpoint patch_upto (fails : list name) (l : list name) : list name * bool :=
  match l with
  | [] => ([], false)
  | x :: r => if memN x fails then ([x], true) else let '(t, b) := patch_upto fails r in (x :: t, b)
  end.

Definition canary_label_targets (rs : ers) (cx : sync_ctx) : list name :=
  flat_map (fun nn => match find_item (cx_items cx) nn with
                      | Some i => match ni_pod i with
                                  | Some p => if N.eqb (p_rs_label p) (r_name rs) && negb (p_is_canary_labelled p)
                                              then [p_name p] else []
                                  | None => [] end
                      | None => [] end) (cx_canary_nodes cx).

Definition strategy_canary (cx : sync_ctx) : outcome strat_out :=
  let rs := sn_rs sn in let now := sn_now sn in let fl := sn_faults sn in
  let e := cx_eds cx in let read := r_status rs in
  let c0 := update_cond (rs_conds read) now CT_Canary CTrue no_name no_name false false in
  let c1 := update_cond c0 now CT_Active CFalse no_name no_name false false in
  bind (manage_canary_status rs (e_annots e) (st_canary (e_strategy e)) now (cx_canary_nodes cx) (cx_listed cx)
                      (cx_items cx) (with_conds read c1)) (fun cp =>
  let '(adds, add_failed) := patch_upto (f_patch fl) (canary_label_targets rs cx) in
  let cleanup_failed := negb (Nat.eqb (length (failed_of (cx_cleanup cx) (f_delete fl))) 0) in
  let st := with_conds (cp_status cp) (cleanup_conds (rs_conds (cp_status cp)) now (fo_cleanup (cx_fo cx)) fl) in
  let prompt := add_failed || cleanup_failed in
  Ok (MkStratOut (Some st) (cp_creates cp) (cp_deletes cp) (cx_unsched cx)
        (cp_requeue cp || prompt) (if cp_requeue cp || prompt then second else 0)
        cleanup_failed adds [] (cx_cleanup cx) None)).

Definition strategy_unknown (cx : sync_ctx) : outcome strat_out :=
  let rs := sn_rs sn in let now := sn_now sn in
  let read := r_status rs in
  let c0 := update_cond (rs_conds read) now CT_Canary CFalse no_name no_name false false in
  let c1 := update_cond c0 now CT_Active CFalse no_name no_name false false in
  let items' := planning_items cx in
  let good := filter (fun i => match ni_pod i with
                               | Some p => pod_up_to_date rs (ni_node i) (ni_setting i) p
                               | None => false end) items' in
  let unresp := filter (fun i => match ni_pod i with Some p => scheduler_issue now p | None => false end) good in
  let live := filter (fun i => match ni_pod i with Some p => negb (scheduler_issue now p) | None => false end) good in
  let rdy := count_if (fun i => match ni_pod i with Some p => pod_ready p | None => false end) live in
  let st := MkErsStatus RS_UNKNOWN 0 (zlen live) rdy rdy (zlen unresp) c1 in
  Ok (MkStratOut (Some st) [] [] [] (negb (0 =? rdy)) second false [] [] [] None).

Definition strategy_of (cx : sync_ctx) : outcome strat_out :=
  match cx_role cx with
  | RoleActive => strategy_active cx
  | RoleCanary => strategy_canary cx
  | RoleUnknown => strategy_unknown cx
  end.

(** The common tail of [Reconcile]: the two time-gated batches, the conditions, the status write. *)
Definition finish_sync (cx : sync_ctx) (so : strat_out) : outcome ers_plan :=
  let rs := sn_rs sn in let now := sn_now sn in let fl := sn_faults sn in
  let read := r_status rs in let freq := cx_freq cx in
  (* defect D1c repaired: with no status from the strategy the status read is kept *)
  let st0 := match so_status so with Some s => s | None => read end in
  let c_uns := update_cond (rs_conds st0) now CT_Unschedule
                 (match so_unscheduled so with [] => CFalse | _ => CTrue end) no_name
                 (match so_unscheduled so with [] => M_EMPTY | _ => M_OTHER end) false false in
  (* deletions *)
  let del_delayed :=
    match get_cond c_uns CT_PodDeletion with
    | Some c => tsub now (c_update c) <? freq
    | None => false
    end in
  let del_nodes := if del_delayed then [] else so_delete_nodes so in
  let del_targets := flat_map (pod_of_node (cx_items cx)) del_nodes in
  let c_del := if negb del_delayed && negb (Nat.eqb (length (so_delete_nodes so)) 0)
               then update_cond c_uns now CT_PodDeletion CTrue no_name M_PODS_DELETED false true else c_uns in
  (* creations (repaired defect D16: the log line of the delay branch read the PodDeletion condition,
     nil when that condition does not exist) *)
  let create_delayed :=
    match get_cond c_del CT_PodCreation with
    | Some c => tsub now (c_update c) <? freq
    | None => false
    end in
  let create_targets := if create_delayed then [] else so_create_nodes so in
  (* the runtime's observable choice must be one the model allows (Error 99 otherwise) *)
  if match so_rolling so with
     | Some pl => (del_delayed || admissible_deletes pl (so_delete_nodes so)) &&
                  (create_delayed || admissible_creates pl (so_create_nodes so))
     | None => true
     end
  then
  let c_cre := if negb create_delayed && negb (Nat.eqb (length (so_create_nodes so)) 0)
               then update_cond c_del now CT_PodCreation CTrue no_name M_PODS_CREATED false true else c_del in
  let new_pods :=
    flat_map (fun nn => match find (fun ns => N.eqb (n_name (fst ns)) nn) (cx_nodes cx) with
                        | Some (n, os) => [(nn, create_pod rs (Some n) os (sn_affinity_mode sn))]
                        | None => [] end) create_targets in
  (* [CreatePodFromDaemonSetReplicaSet] overwrites the malformed-annotation error with the result of
     [SetControllerReference] (the scheme is never nil in Reconcile): it never surfaces *)
  let any_err := so_err so ||
                 negb (Nat.eqb (length (failed_of del_targets (f_delete fl))) 0) ||
                 negb (Nat.eqb (length (failed_of create_targets (f_create fl))) 0) in
  let c_err := update_cond c_cre now CT_ReconcileError (bool_to_cond any_err) no_name no_name false true in
  let c_sync := update_cond c_err now CT_LastFullSync CTrue no_name M_FULL_SYNC true true in
  let new_status := with_conds st0 c_sync in
  let requeue_after := if del_delayed || create_delayed then freq else so_requeue_after so in
  let bo' := if Z.modulo (now / second) 60 <? freq / second then bo_gc now (fo_backoff (cx_fo cx)) else fo_backoff (cx_fo cx) in
  Ok (MkErsPlan (cx_role cx) create_targets new_pods del_targets (so_cleanup so)
                (so_label_add so) (so_label_del so) (Some new_status)
                (so_requeue so) requeue_after (any_err || f_status fl) bo'
                del_nodes (so_rolling so))
  else Error 99%N.

Definition idle_plan (rl : role) (st : option ers_status) (after : dur) (err : bool) : ers_plan :=
  MkErsPlan rl [] [] [] [] [] [] st false after err (sn_backoff sn) [] None.

(** [Some d] = the previous full sync is younger than reconcileFrequency: return after [d]. *)
Definition sync_gate (freq : dur) : option dur :=
  match get_cond (rs_conds (r_status (sn_rs sn))) CT_LastFullSync with
  | Some c => let next := tadd (c_update c) freq in
              if tafter next (sn_now sn) then Some (tsub next (sn_now sn)) else None
  | None => None
  end.

Definition sync_body (e : eds) : outcome ers_plan :=
  match st_freq (e_strategy e) with
  | None => Panic 30%N
  | Some freq =>
      match sync_gate freq with
      | Some d => Ok (idle_plan (role_of e (r_name (sn_rs sn))) None d false)
      | None =>
          (* the lists are read once the gate is open; a failing List ends the sync with an error, nothing written *)
          if f_list (sn_faults sn) then Error 34%N
          else bind (build_ctx e freq) (fun cx => bind (strategy_of cx) (fun so => finish_sync cx so))
      end
  end.

(** The whole reconcile. *)
Definition ers_sync : outcome ers_plan :=
  let rs := sn_rs sn in
  if N.eqb (r_owner rs) no_name then Error 40%N
  else match sn_eds sn with
  | None => Error 41%N
  | Some e =>
      if negb (is_defaulted e) then
        let c := update_cond (rs_conds (r_status rs)) (sn_now sn) CT_ReconcileError CTrue no_name M_NOT_DEFAULTED false true in
        Ok (idle_plan (role_of e (r_name rs)) (Some (with_conds (r_status rs) c)) second (f_status (sn_faults sn)))
      else sync_body e
  end.
End Sync.
