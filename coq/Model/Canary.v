(** * Canary: [manageCanaryStatus] / [manageCanaryPodFailures] ([strategy/canary.go]) and the
    canary predicates of [controllers/extendeddaemonset/utils.go]. *)
From EDS Require Import Model.Objects Model.Fitness Model.PodSpec Model.Rolling.

(** ** Predicates on annotations and replica-set conditions *)
Definition canary_failed_rs (st : ers_status) : bool := is_cond_true (rs_conds st) CT_CanaryFailed.

(** [IsCanaryDeploymentPaused]: the replica set's Canary-Paused condition first, then the annotation. *)
Definition canary_paused (ann : eds_annots) (ost : option ers_status) : bool * name :=
  match ost with
  | Some st =>
      if is_cond_true (rs_conds st) CT_CanaryPaused
      then (true, match get_cond (rs_conds st) CT_CanaryPaused with Some c => c_reason c | None => R_EMPTY end)
      else if a3_true (an_canary_paused ann)
           then (true, match an_canary_paused_reason ann with Some r => r | None => R_UNKNOWN end)
           else (false, R_EMPTY)
  | None =>
      if a3_true (an_canary_paused ann)
      then (true, match an_canary_paused_reason ann with Some r => r | None => R_UNKNOWN end)
      else (false, R_EMPTY)
  end.
Definition canary_unpaused (ann : eds_annots) : bool := a3_true (an_canary_unpaused ann).
Definition canary_valid (ann : eds_annots) (rs_name : name) : bool :=
  match an_canary_valid ann with Some v => N.eqb v rs_name | None => false end.

(** ** Per-pod evaluation.  State threaded through the loop over the checked pods. *)
Record cloop := MkCLoop {
  cl_failed : bool; cl_failed_reason : name;
  cl_paused : bool; cl_paused_reason : name;
  cl_new_restart : time;                  (* newRestartTime, zero_time if none *)
  cl_cannot_start : bool;                 (* value left by the LAST pod *)
  cl_cs_reason : name                     (* cannotStartPodReason: of the last pod that could not start *)
}.

Record canary_cfg := MkCCfg {
  cc_ap_enabled : bool; cc_ap_max : Z; cc_ap_slow : option dur;
  cc_af_enabled : bool; cc_af_max : Z; cc_af_restarts_dur : option dur; cc_af_timeout : option dur
}.
(** [None] = a nil pointer would be dereferenced. *)
Definition canary_cfg_of (oc : option canary_spec) : option canary_cfg :=
  match oc with
  | None => None
  | Some c =>
      match ca_autopause c, ca_autofail c with
      | Some ap, Some af =>
          match ap_enabled ap, ap_max_restarts ap, af_enabled af, af_max_restarts af with
          | Some ape, Some apm, Some afe, Some afm =>
              Some (MkCCfg ape apm (ap_max_slow_start ap) afe afm (af_max_restarts_dur af) (af_timeout af))
          | _, _, _, _ => None
          end
      | _, _ => None
      end
  end.

(** One iteration of the loop of [manageCanaryPodFailures].
    [start_cond] = the Canary condition of the NEW status, [restart_cond] = PodRestarting of the
    status READ. Panic 3 = status.startTime is nil where it is dereferenced. *)
Definition canary_pod_step (cfg : canary_cfg) (unpaused : bool) (now : time)
           (start_cond restart_cond : option cond) (st : cloop) (p : pod) : outcome cloop :=
  bind (highest_restart p) (fun hr =>
  let '(restart_count, high_reason) := hr in
  bind (if restart_count =? 0 then Ok (cl_new_restart st)
        else bind (most_recent_restart p) (fun mr =>
               Ok (if tafter (fst mr) (cl_new_restart st) then fst mr else cl_new_restart st)))
       (fun new_restart =>
  let '(cs0, cs_reason0) := cannot_start p in
  (* slow-start handling *)
  let slow_branch : outcome (bool * name * name) :=   (* cannotStart, cannotStartReason, cannotStartPodReason *)
    match cs0, cc_ap_slow cfg with
    | true, Some slow =>
        match p_start p with
        | None => Panic 3%N
        | Some stt =>
            if negb (tafter now (tadd stt slow)) then Ok (false, R_UNKNOWN, cl_cs_reason st)
            else Ok (true, cs_reason0, cs_reason0)
        end
    | true, None => Ok (true, cs_reason0, cs_reason0)
    | false, Some slow =>
        if cc_ap_enabled cfg && pending_create p then
          match p_start p with
          | None => Panic 3%N
          | Some stt =>
              if tafter now (tadd stt slow)
              then Ok (true, R_SLOW_START_TIMEOUT, R_SLOW_START_TIMEOUT)
              else Ok (false, cs_reason0, cl_cs_reason st)
          end
        else Ok (false, cs_reason0, cl_cs_reason st)
    | false, None => Ok (false, cs_reason0, cl_cs_reason st)
    end in
  bind slow_branch (fun sb =>
  let '(cannot, cannot_reason, cs_pod_reason) := sb in
  let st1 := MkCLoop (cl_failed st) (cl_failed_reason st) (cl_paused st) (cl_paused_reason st)
                     new_restart cannot cs_pod_reason in
  if cl_failed st then Ok st1
  else if cc_af_enabled cfg && (restart_count >? cc_af_max cfg) then
    Ok (MkCLoop true high_reason (cl_paused st) (cl_paused_reason st) new_restart cannot cs_pod_reason)
  else if cc_af_enabled cfg &&
          match cc_af_restarts_dur cfg, restart_cond with
          | Some d, Some rc => tsub (c_update rc) (c_trans rc) >? d
          | _, _ => false
          end then
    Ok (MkCLoop true R_RESTARTS_TIMEOUT (cl_paused st) (cl_paused_reason st) new_restart cannot cs_pod_reason)
  else if cc_af_enabled cfg &&
          match start_cond, cc_af_timeout cfg with
          | Some sc, Some d => tsub now (c_trans sc) >? d
          | _, _ => false
          end then
    Ok (MkCLoop true R_TIMEOUT (cl_paused st) (cl_paused_reason st) new_restart cannot cs_pod_reason)
  else if unpaused then
    Ok (MkCLoop false (cl_failed_reason st) false R_EMPTY new_restart cannot cs_pod_reason)
  else if cc_ap_enabled cfg then
    if cannot then
      Ok (MkCLoop false (cl_failed_reason st) true cannot_reason new_restart cannot cs_pod_reason)
    else if restart_count >? cc_ap_max cfg then
      Ok (MkCLoop false (cl_failed_reason st) true high_reason new_restart cannot cs_pod_reason)
    else Ok st1
  else Ok st1))).

Fixpoint canary_pod_loop (cfg : canary_cfg) (unpaused : bool) (now : time)
         (start_cond restart_cond : option cond) (st : cloop) (ps : list pod) : outcome cloop :=
  match ps with
  | [] => Ok st
  | p :: r => bind (canary_pod_step cfg unpaused now start_cond restart_cond st p)
                   (fun st' => canary_pod_loop cfg unpaused now start_cond restart_cond st' r)
  end.

Record canary_plan := MkCanaryPlan {
  cp_creates : list name;                 (* canary nodes to create a pod on (in canary-node order) *)
  cp_deletes : list name;                 (* canary nodes whose pod is outdated *)
  cp_failed : bool; cp_failed_reason : name;
  cp_paused : bool; cp_paused_reason : name;
  cp_unpaused : bool;
  cp_status : ers_status;
  cp_requeue : bool
}.

(** Scan of the canary node list. [find_item] looks the node up in the planning map. *)
Record cscan := MkCScan {
  cn_desired : Z; cn_current : Z; cn_available : Z; cn_ready : Z;
  cn_need_requeue : bool; cn_check : list pod; cn_create : list name; cn_delete : list name
}.
Definition find_item (items : list nitem) (nn : name) : option nitem :=
  find (fun i => N.eqb (ni_name i) nn) items.

Definition canary_scan_node (rs : ers) (listed : list name) (items : list nitem) (s : cscan) (nn : name) : cscan :=
  let s1 := MkCScan (cn_desired s + 1) (cn_current s) (cn_available s) (cn_ready s)
                    (cn_need_requeue s) (cn_check s) (cn_create s) (cn_delete s) in
  (* a canary node that is not listed maps to the nil NodeItem, which is never a key of the map *)
  if negb (memN nn listed) then s1 else
  match find_item items nn with
  | None => s1
  | Some i =>
      match ni_pod i with
      | None => MkCScan (cn_desired s1) (cn_current s1) (cn_available s1) (cn_ready s1)
                        (cn_need_requeue s1) (cn_check s1) (cn_create s1 ++ [nn]) (cn_delete s1)
      | Some p =>
          if pod_terminating p then
            MkCScan (cn_desired s1) (cn_current s1) (cn_available s1) (cn_ready s1)
                    true (cn_check s1) (cn_create s1) (cn_delete s1)
          else if negb (pod_up_to_date rs (ni_node i) (ni_setting i) p) then
            MkCScan (cn_desired s1) (cn_current s1) (cn_available s1) (cn_ready s1)
                    (cn_need_requeue s1) (cn_check s1) (cn_create s1) (cn_delete s1 ++ [nn])
          else
            MkCScan (cn_desired s1) (cn_current s1 + 1)
                    (cn_available s1 + (if pod_available p then 1 else 0))
                    (cn_ready s1 + (if pod_ready p then 1 else 0))
                    (cn_need_requeue s1) (cn_check s1 ++ [p]) (cn_create s1) (cn_delete s1)
      end
  end.

(** [manageCanaryPodFailures]: the evaluation of the checked pods and the condition updates.
    Without a canary strategy (removed from the spec while the replica set is still listed as the canary)
    nothing is evaluated and no condition is touched (repaired defect D15: it was a nil dereference);
    Panic 4 = a nil canary sub-structure (excluded for defaulted specs). *)
Definition canary_evaluate (ocanary : option canary_spec) (unpaused : bool) (now : time) (st0 : ers_status)
           (failed0 paused0 : bool) (paused_reason0 : name) (check : list pod) : outcome (cloop * list cond) :=
  match ocanary with
  | None => Ok (MkCLoop failed0 R_EMPTY paused0 paused_reason0 zero_time false R_EMPTY, rs_conds st0)
  | Some _ =>
  match canary_cfg_of ocanary with
  | None => Panic 4%N
  | Some cfg =>
  let start_cond := get_cond (rs_conds st0) CT_Canary in
  let restart_cond := get_cond (rs_conds st0) CT_PodRestarting in
  (* repaired (D6): a manual unpause lifts the pause even when no pod can be evaluated *)
  let '(paused1, paused_reason1) :=
    if unpaused && negb failed0 then (false, R_EMPTY) else (paused0, paused_reason0) in
  bind (canary_pod_loop cfg unpaused now start_cond restart_cond
          (MkCLoop failed0 R_EMPTY paused1 paused_reason1 zero_time false R_EMPTY) check)
       (fun l =>
  let conds1 := update_cond (rs_conds st0) now CT_CanaryFailed (bool_to_cond (cl_failed l))
                            (cl_failed_reason l) no_name false true in
  let conds2 := update_cond conds1 now CT_CanaryPaused (bool_to_cond (cl_paused l))
                            (cl_paused_reason l) no_name false true in
  let last_restart := match restart_cond with Some c => c_update c | None => zero_time end in
  let conds3 :=
    if negb (is_zero_time (cl_new_restart l)) && tafter (cl_new_restart l) last_restart
    then update_cond conds2 (cl_new_restart l) CT_PodRestarting CTrue (cl_cs_reason l) M_OTHER false true
    else conds2 in
  let conds4 := update_cond conds3 now CT_PodCannotStart (bool_to_cond (cl_cannot_start l))
                            (cl_cs_reason l) (if N.eqb (cl_cs_reason l) R_EMPTY then M_EMPTY else M_OTHER) false true in
  Ok (l, conds4))
  end
  end.

(** [manageCanaryStatus]. [st0] is params.NewStatus (the status read, with the role conditions
    already updated by [applyStrategy]). *)
Definition manage_canary_status (rs : ers) (ann : eds_annots) (ocanary : option canary_spec) (now : time)
           (canary_nodes listed : list name) (items : list nitem) (st0 : ers_status) : outcome canary_plan :=
  let read := r_status rs in
  let failed0 := canary_failed_rs read in
  let '(paused0, paused_reason0) := canary_paused ann (Some read) in
  let unpaused := canary_unpaused ann in
  let s := fold_left (canary_scan_node rs listed items) canary_nodes (MkCScan 0 0 0 0 false [] [] []) in
  bind (canary_evaluate ocanary unpaused now st0 failed0 paused0 paused_reason0 (cn_check s)) (fun lc =>
  let '(l, conds4) := lc in
  (* the status string is switched to canary-failed at the end of [manageCanaryPodFailures], which returns at once
     when the spec has no canary strategy (D15): the string then stays "canary" even for a failed replica set *)
  let status_name := if cl_failed l && match ocanary with Some _ => true | None => false end
                     then RS_CANARY_FAILED else RS_CANARY in
  let new_status := MkErsStatus status_name (cn_desired s) (cn_current s) (cn_ready s) (cn_available s)
                                (rs_ignored st0) conds4 in
  let do_create := negb (Nat.eqb (length (cn_create s)) 0) && negb (cl_paused l) && negb (cl_failed l) in
  let need_requeue := cn_need_requeue s || do_create in
  let requeue := need_requeue ||
                 (negb (cl_failed l) && negb (cl_paused l) && negb (cn_desired s =? cn_ready s)) in
  Ok (MkCanaryPlan (if do_create then cn_create s else []) (cn_delete s)
                   (cl_failed l) (cl_failed_reason l) (cl_paused l) (cl_paused_reason l)
                   unpaused new_status requeue)).
