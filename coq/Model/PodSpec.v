(** * PodSpec: [pkg/controller/utils/pod], [affinity], [comparison] and the up-to-date comparison of
    [strategy/utils.go]. *)
From EDS Require Import Model.Objects Model.Fitness.

(** [GetNodeNameFromPod]: spec.nodeName, else the name carried by the required affinity. *)
Definition node_of_pod (p : pod) : option name :=
  if negb (N.eqb (p_nodename p) no_name) then Some (p_nodename p)
  else if negb (N.eqb (p_affname p) no_name) then Some (p_affname p)
  else None.

Definition pod_scheduled (p : pod) : bool := negb (N.eqb (p_nodename p) no_name).
Definition pod_ready (p : pod) : bool := p_ready p.
(** [IsPodAvailable(pod, 0, now)]: with minReadySeconds = 0 (the only value used) = Ready. *)
Definition pod_available (p : pod) : bool := p_ready p.
Definition pod_terminating (p : pod) : bool := match p_deletion p with Some _ => true | None => false end.

(** [HasPodSchedulerIssue] *)
Definition scheduler_issue (now : time) (p : pod) : bool :=
  (negb (pod_scheduled p) && tbefore (tadd (p_created p) (10 * minute)) now) ||
  match p_deletion p with
  | Some (dt, Some grace) => tbefore (tadd dt (grace * second)) now
  | _ => false
  end.

(** ** Restarts and start failures *)
(** Reasons are interned through the harness's reason table: fixed numbers for the known ones. *)
Definition R_EMPTY : name := 0%N.
Definition R_UNKNOWN : name := 1%N.
Definition R_SLOW_START_TIMEOUT : name := 5%N.
Definition R_RESTARTS_TIMEOUT : name := 3%N.
Definition R_TIMEOUT : name := 4%N.
Definition R_MANUALLY_FAILED : name := 30%N.
(** the eleven "cannot start" waiting reasons have numbers 6..16 in the table *)
Definition is_cannot_start_reason (r : name) : bool := ((6 <=? r) && (r <=? 16))%N.
Definition R_CONTAINER_CREATING : name := 20%N.

(** [HighestRestartCount]: [Panic] when a container has a non-zero last state without [Terminated]. *)
Fixpoint highest_restart_aux (cs : list cstat) (best : Z) (reason : name) : outcome (Z * name) :=
  match cs with
  | [] => Ok (best, reason)
  | c :: r =>
      if cs_restarts c >? best then
        match cs_last c with
        | LTNone => highest_restart_aux r (cs_restarts c) R_UNKNOWN
        | LTNoTerm => Panic 1%N
        | LTTerm rs _ nonzero =>
            highest_restart_aux r (cs_restarts c)
              (if nonzero && negb (N.eqb rs R_EMPTY) then rs else R_UNKNOWN)
        end
      else highest_restart_aux r best reason
  end.
Definition highest_restart (p : pod) : outcome (Z * name) := highest_restart_aux (p_cstats p) 0 R_EMPTY.

(** [MostRecentRestart] *)
Fixpoint most_recent_restart_aux (cs : list cstat) (t : time) (reason : name) : outcome (time * name) :=
  match cs with
  | [] => Ok (t, reason)
  | c :: r =>
      if negb (cs_restarts c =? 0) then
        match cs_last c with
        | LTNone => most_recent_restart_aux r t reason
        | LTNoTerm => Panic 2%N
        | LTTerm rs fin _ =>
            if tafter fin t
            then most_recent_restart_aux r fin (if negb (N.eqb rs R_EMPTY) then rs else R_UNKNOWN)
            else most_recent_restart_aux r t reason
        end
      else most_recent_restart_aux r t reason
  end.
Definition most_recent_restart (p : pod) : outcome (time * name) :=
  most_recent_restart_aux (p_cstats p) zero_time R_EMPTY.

(** [CannotStart]: first container waiting with a cannot-start reason. The reason returned goes
    through [convertReasonToEDSStatusReason], the identity on those eleven. *)
Definition cannot_start (p : pod) : bool * name :=
  match find (fun c => match cs_waiting c with Some r => is_cannot_start_reason r | None => false end) (p_cstats p) with
  | Some c => (true, match cs_waiting c with Some r => r | None => R_UNKNOWN end)
  | None => (false, R_UNKNOWN)
  end.
Definition pending_create (p : pod) : bool :=
  existsb (fun c => match cs_waiting c with Some r => N.eqb r R_CONTAINER_CREATING | None => false end) (p_cstats p).

(** kubelet-shaped pod statuses: a non-zero last state carries [Terminated]; a pod with container
    statuses has a start time (the kubelet sets status.startTime before it reports any container). The malformed
    shapes make [HighestRestartCount] / [manageCanaryPodFailures] dereference nil: an input assumption of C06/C16. *)
Definition pod_shape_ok (p : pod) : bool :=
  forallb (fun cs => match cs_last cs with LTNoTerm => false | _ => true end) (p_cstats p) &&
  (match p_cstats p with [] => true | _ => match p_start p with Some _ => true | None => false end end).

(** ** Up-to-date comparison ([compareCurrentPodWithNewPod]) *)
Fixpoint assoc_res (k : name) (l : list (name * resources)) : option resources :=
  match l with
  | [] => None
  | (k', v) :: r => if N.eqb k k' then Some v else assoc_res k r
  end.
Fixpoint assocZ (k : name) (l : resmap) : option Z :=
  match l with
  | [] => None
  | (k', v) :: r => if N.eqb k k' then Some v else assocZ k r
  end.
(** every entry of [want] is present in [have] with the same quantity *)
Definition resmap_demands_met (want have : resmap) : bool :=
  forallb (fun kv => match assocZ (fst kv) have with Some v => v =? snd kv | None => false end) want.

Definition has_override (n : node) (container : name) : bool :=
  existsb (fun ko => N.eqb (fst ko) container) (n_overrides n).

(** The setting entries that are NOT overridden by a node annotation (repair of defect D4). *)
Definition effective_setting_containers (n : node) (s : setting) : list (name * resources) :=
  filter (fun cr => negb (has_override n (fst cr))) (s_containers s).

Definition setting_satisfied (p : pod) (n : node) (os : option setting) : bool :=
  match os with
  | None => true
  | Some s =>
      let sc := effective_setting_containers n s in
      forallb (fun cr =>
                 match assoc_res (fst cr) sc with
                 | None => true
                 | Some want =>
                     resmap_demands_met (res_limits want) (res_limits (snd cr)) &&
                     resmap_demands_met (res_requests want) (res_requests (snd cr))
                 end) (p_resources p)
  end.

Definition hash_matches (rs : ers) (p : pod) : bool :=
  match p_hash p with Some h => N.eqb h (r_tmplgen rs) | None => false end.
Definition nodehash_matches (n : node) (p : pod) : bool :=
  match p_nodehash p with
  | None => N.eqb (n_nodehash n) no_name
  | Some h => N.eqb h (n_nodehash n)
  end.
Definition pod_up_to_date (rs : ers) (n : node) (os : option setting) (p : pod) : bool :=
  hash_matches rs p && setting_satisfied p n os && nodehash_matches n p.

(** ** Pod construction ([CreatePodFromDaemonSetReplicaSet]) *)
Record newpod := MkNewPod {
  np_ns : name;
  np_gen_prefix : name;                    (* GenerateName = <replica set name>- ; recorded as the rs name *)
  np_rs_label : name;
  np_eds_label : name;
  np_setting_labels : option (name * name);(* setting name, namespace *)
  np_hash : name;
  np_nodehash : name;                      (* 0 = annotation absent *)
  np_autoscaler_annot : bool;
  np_tolerations : list toleration;
  np_nodename : name;                      (* spec.nodeName (nodeName mode) *)
  np_affinity : option (list nsterm);      (* required terms (affinity mode) *)
  np_owner : name;                         (* controller owner reference: the replica set *)
  np_resources : list (name * resources);
  np_override_errors : Z                   (* malformed node annotations met *)
}.

Definition name_field (n : name) : freq := MkFReq true OpIn [n].
(** [ReplaceNodeNameNodeAffinity] *)
Definition pin_term (n : name) (t : nsterm) : nsterm :=
  match nt_fields t with
  | [] => MkNsTerm (nt_exprs t) [name_field n]
  | fs =>
      if existsb fq_is_name fs
      then MkNsTerm (nt_exprs t) (map (fun f => if fq_is_name f then name_field n else f) fs)
      else MkNsTerm (nt_exprs t) (fs ++ [name_field n])
  end.
Definition pin_affinity (a : option (list nsterm)) (n : name) : list nsterm :=
  match a with
  | None => [MkNsTerm [] [name_field n]]
  | Some ts => map (pin_term n) ts
  end.
(** [GetNodeNameFromAffinity] on required terms. *)
Definition affinity_node_name (a : option (list nsterm)) : name :=
  match a with
  | None => no_name
  | Some ts =>
      match find (fun f => fq_is_name f && negb (Nat.eqb (length (fq_values f)) 0))
                 (flat_map nt_fields ts) with
      | Some f => hd no_name (fq_values f)
      | None => no_name
      end
  end.

Definition container_resources (n : option node) (os : option setting) (c : name * resources) : resources :=
  let from_setting :=
    match os with
    | Some s => match assoc_res (fst c) (s_containers s) with Some r => r | None => snd c end
    | None => snd c
    end in
  match n with
  | Some nd =>
      match find (fun ko => N.eqb (fst ko) (fst c)) (n_overrides nd) with
      | Some (_, OvOk r) => r
      | _ => from_setting
      end
  | None => from_setting
  end.

Definition create_pod (rs : ers) (n : option node) (os : option setting) (affinity_mode : bool) : newpod :=
  MkNewPod (r_ns rs) (r_name rs) (r_name rs) (r_eds_label rs)
    (match os with Some s => Some (s_name s, s_ns s) | None => None end)
    (r_tmplgen rs)
    (match n with Some nd => n_nodehash nd | None => no_name end)
    true
    (t_tolerations (r_tmpl rs) ++ std_tolerations)
    (match n with Some nd => if affinity_mode then no_name else n_name nd | None => no_name end)
    (match n with
     | Some nd => if affinity_mode then Some (pin_affinity (t_affinity (r_tmpl rs)) (n_name nd))
                  else t_affinity (r_tmpl rs)
     | None => t_affinity (r_tmpl rs)
     end)
    (r_name rs)
    (map (fun c => (fst c, container_resources n os c)) (t_containers (r_tmpl rs)))
    (match n with
     | Some nd => count_if (fun c => match find (fun ko => N.eqb (fst ko) (fst c)) (n_overrides nd) with
                                     | Some (_, OvMalformed) => true | _ => false end)
                           (t_containers (r_tmpl rs))
     | None => 0
     end).

(** The pod as the next sync will list it (what the API server stores of a [newpod]). *)
Definition pod_of_newpod (np : newpod) (nm : name) (created : time) : pod :=
  MkPod nm (np_ns np)
        ([(K_RS_NAME, np_rs_label np); (K_EDS_NAME, np_eds_label np)] ++
         match np_setting_labels np with Some (a, b) => [(K_SETTING_NAME, a); (K_SETTING_NS, b)] | None => [] end)
        [] (Some (np_hash np))
        (if N.eqb (np_nodehash np) no_name then None else Some (np_nodehash np))
        (np_nodename np) (affinity_node_name (np_affinity np))
        Pending false false created None None [] 0 (np_resources np).
