(** * Fitness: [scheduler/predicates.go] - node selector, required node affinity, taints vs
    tolerations - and label-selector matching ([labels.Selector], [metav1.LabelSelectorAsSelector],
    [utils.ConvertLabelSelector]). *)
From EDS Require Import Model.Objects.

Definition has_key (k : name) (m : labels) : bool :=
  match lookup k m with Some _ => true | None => false end.

(** [labels.SelectorFromSet]: every pair present with that value. *)
Definition set_matches (sel m : labels) : bool :=
  forallb (fun kv => match lookup (fst kv) m with Some v => N.eqb v (snd kv) | None => false end) sel.

(** ** Node selector requirements ([NodeSelectorRequirementsAsSelector]) *)
(** [labels.NewRequirement] arity rules; [false] = the requirement does not build. *)
Definition nsreq_builds (r : nsreq) : bool :=
  match rq_op r with
  | OpIn | OpNotIn => negb (Nat.eqb (length (rq_values r)) 0)
  | OpExists | OpDoesNotExist => Nat.eqb (length (rq_values r)) 0
  | OpOther => false
  end.
Definition nsreq_matches (m : labels) (r : nsreq) : bool :=
  match rq_op r with
  | OpIn => match lookup (rq_key r) m with Some v => memN v (rq_values r) | None => false end
  | OpNotIn => match lookup (rq_key r) m with Some v => negb (memN v (rq_values r)) | None => true end
  | OpExists => has_key (rq_key r) m
  | OpDoesNotExist => negb (has_key (rq_key r) m)
  | OpOther => false
  end.

(** ** Field requirements ([NodeSelectorRequirementsAsFieldSelector]) *)
Definition freq_builds (r : freq) : bool :=
  match fq_op r with
  | OpIn | OpNotIn => Nat.eqb (length (fq_values r)) 1
  | _ => false
  end.
Definition freq_matches (node_name : name) (r : freq) : bool :=
  let fv := if fq_is_name r then node_name else no_name in
  match fq_op r, fq_values r with
  | OpIn, [v] => N.eqb fv v
  | OpNotIn, [v] => negb (N.eqb fv v)
  | _, _ => false
  end.

(** [MatchNodeSelectorTerms]: terms are ORed; an empty term matches nothing; a term whose
    requirements do not build is skipped. *)
Definition term_matches (node_name : name) (m : labels) (t : nsterm) : bool :=
  match nt_exprs t, nt_fields t with
  | [], [] => false
  | es, fs =>
      (match es with [] => true | _ => forallb nsreq_builds es && forallb (nsreq_matches m) es end) &&
      (match fs with [] => true | _ => forallb freq_builds fs && forallb (freq_matches node_name) fs end)
  end.
Definition terms_match (node_name : name) (m : labels) (ts : list nsterm) : bool :=
  existsb (term_matches node_name m) ts.

Definition check_node_selector (t : tmpl) (n : node) : bool :=
  set_matches (t_nodesel t) (n_labels n) &&
  match t_affinity t with
  | None => true
  | Some ts => terms_match (n_name n) (n_labels n) ts
  end.

(** ** Taints and tolerations *)
Definition tolerates (tol : toleration) (ta : taint) : bool :=
  (match tol_effect tol with EffNone => true | e => effect_eqb e (ta_effect ta) end) &&
  (N.eqb (tol_key tol) no_name || N.eqb (tol_key tol) (ta_key ta)) &&
  match tol_op tol with
  | TolEqual => N.eqb (tol_value tol) (ta_value ta)
  | TolExists => true
  | TolOther => false
  end.
Definition taint_counts (ta : taint) : bool :=
  match ta_effect ta with NoSchedule | NoExecute => true | _ => false end.
Definition tolerates_taints (tols : list toleration) (tas : list taint) : bool :=
  forallb (fun ta => negb (taint_counts ta) || existsb (fun tol => tolerates tol ta) tols) tas.

(** The six [StandardDaemonSetTolerations]; their keys are interned with fixed numbers by the harness
    ([STD_KEY_BASE + i]), which no generated label key uses. *)
Definition STD_KEY_BASE : N := 900000%N.
Definition std_tolerations : list toleration :=
  [ MkTol (STD_KEY_BASE + 0)%N TolExists no_name NoExecute;      (* node.kubernetes.io/not-ready *)
    MkTol (STD_KEY_BASE + 1)%N TolExists no_name NoExecute;      (* node.kubernetes.io/unreachable *)
    MkTol (STD_KEY_BASE + 2)%N TolExists no_name NoSchedule;     (* node.kubernetes.io/disk-pressure *)
    MkTol (STD_KEY_BASE + 3)%N TolExists no_name NoSchedule;     (* node.kubernetes.io/memory-pressure *)
    MkTol (STD_KEY_BASE + 4)%N TolExists no_name NoSchedule;     (* node.kubernetes.io/unschedulable *)
    MkTol (STD_KEY_BASE + 5)%N TolExists no_name NoSchedule ].   (* node.kubernetes.io/network-unavailable *)

(** [CheckNodeFitness] for the pod a replica set would create (template + standard tolerations). *)
Definition fit_tols (t : tmpl) (tols : list toleration) (n : node) : bool :=
  check_node_selector t n && tolerates_taints tols (n_taints n).
Definition fit (t : tmpl) (n : node) : bool :=
  fit_tols t (t_tolerations t ++ std_tolerations) n.

(** ** [metav1.LabelSelector] *)
Definition selreq_matches (m : labels) (r : selreq) : bool :=
  match sr_op r with
  | SIn => match lookup (sr_key r) m with Some v => memN v (sr_values r) | None => false end
  | SNotIn => match lookup (sr_key r) m with Some v => negb (memN v (sr_values r)) | None => true end
  | SExists => has_key (sr_key r) m
  | SDoesNotExist => negb (has_key (sr_key r) m)
  | SBadOp => false
  end.
Definition selreq_builds (r : selreq) : bool :=
  match sr_op r with
  | SIn | SNotIn => negb (Nat.eqb (length (sr_values r)) 0)
  | SExists | SDoesNotExist => Nat.eqb (length (sr_values r)) 0
  | SBadOp => false
  end.

(** [metav1.LabelSelectorAsSelector]: any requirement that does not build (or an unknown operator) is
    an error of the whole selector. An empty selector matches everything. *)
Definition strict_selector_ok (s : selector) : bool := forallb selreq_builds (sel_exprs s).
Definition strict_selector_matches (s : selector) (m : labels) : bool :=
  set_matches (sel_labels s) m && forallb (selreq_matches m) (sel_exprs s).

(** [utils.ConvertLabelSelector]: unknown operators are silently dropped; a known operator with
    a wrong arity is an error. *)
Definition lenient_exprs (s : selector) : list selreq :=
  filter (fun r => match sr_op r with SBadOp => false | _ => true end) (sel_exprs s).
Definition lenient_selector_ok (s : selector) : bool := forallb selreq_builds (lenient_exprs s).
Definition lenient_selector_matches (s : selector) (m : labels) : bool :=
  set_matches (sel_labels s) m && forallb (selreq_matches m) (lenient_exprs s).
