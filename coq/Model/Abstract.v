(** * Abstract: the rollout of the active replica set seen per node class, for the convergence argument.

    Once no canary is in progress the targeted nodes fall in five classes; nodes of one class are
    interchangeable for the budgets, so the state is the five counts.  A FAIR ROUND is: the kubelet settles
    (terminating pods disappear, created pods become Ready), the clock advances, and the active replica set
    syncs once with the creation and deletion budgets of [Limits.v] - the SAME [calc_create] / [calc_delete]
    the sync model uses. *)
From EDS Require Import Model.Objects Model.Fitness Model.PodSpec Model.Limits Model.Rolling.

Record astate := MkA {
  a_missing : Z;        (* eligible nodes without a pod *)
  a_up_ready : Z;       (* up-to-date pod, Ready *)
  a_up_notready : Z;    (* up-to-date pod, not Ready yet (just created) *)
  a_old_ready : Z;      (* outdated pod, Ready (available) *)
  a_old_notready : Z;   (* outdated pod, not Ready *)
  a_terminating : Z     (* outdated pod being deleted *)
}.
Definition a_nodes (s : astate) : Z :=
  a_missing s + a_up_ready s + a_up_notready s + a_old_ready s + a_old_notready s + a_terminating s.
Definition a_wf (s : astate) : Prop :=
  0 <= a_missing s /\ 0 <= a_up_ready s /\ 0 <= a_up_notready s /\ 0 <= a_old_ready s /\ 0 <= a_old_notready s /\
  0 <= a_terminating s.

(** kubelet / scheduler: terminating pods are gone, created pods are Ready *)
Definition a_settle (s : astate) : astate :=
  MkA (a_missing s + a_terminating s) (a_up_ready s + a_up_notready s) 0 (a_old_ready s) (a_old_notready s) 0.

(** the limits of the sync in that state: [maxc] = the slow-start ramp (>= 1 under the hypotheses),
    [mu] = maxUnavailable resolved *)
Definition a_limits (s : astate) (maxc mu : Z) : limit_params :=
  MkLimits (a_nodes s)
           (a_up_ready s + a_up_notready s + a_old_ready s + a_old_notready s + a_terminating s)  (* pods *)
           (a_up_ready s)                                                                        (* available up to date *)
           (a_old_ready s)
           (a_up_ready s + a_up_notready s)
           0                                                                                     (* nothing stuck *)
           (a_old_notready s)
           maxc mu 0.

(** one sync: [calc_create] new pods on missing nodes; [calc_delete] update-deletions, unavailable
    (not Ready) outdated pods first *)
Definition a_sync (s : astate) (maxc mu : Z) : astate :=
  let lp := a_limits s maxc mu in
  let c := Z.min (calc_create lp) (a_missing s) in
  let d := Z.min (calc_delete lp) (a_old_notready s + a_old_ready s) in
  let d_unav := Z.min d (a_old_notready s) in
  let d_av := d - d_unav in
  MkA (a_missing s - c) (a_up_ready s) (a_up_notready s + c) (a_old_ready s - d_av) (a_old_notready s - d_unav)
      (a_terminating s + d).

Definition a_round (maxc mu : Z) (s : astate) : astate := a_sync (a_settle s) maxc mu.

(** the measure: 3 per outdated pod, 2 per node without a (non-terminating) pod, 1 per pod not Ready yet *)
Definition a_measure (s : astate) : Z :=
  3 * (a_old_ready s + a_old_notready s) + 2 * (a_missing s + a_terminating s) + a_up_notready s.

Definition a_converged (s : astate) : Prop :=
  a_missing s = 0 /\ a_up_notready s = 0 /\ a_old_ready s = 0 /\ a_old_notready s = 0 /\ a_terminating s = 0.

Fixpoint a_rounds (n : nat) (maxc mu : Z) (s : astate) : astate :=
  match n with O => s | S k => a_rounds k maxc mu (a_round maxc mu s) end.

(** ** the abstraction of a list of planning items of the sync model: the six class counts *)
Definition c_up_notready c := match c with UpToDate false => true | _ => false end.
Definition abs_of (rs : ers) (now : time) (items : list nitem) : astate :=
  let c f := count_if (is_class f rs now) items in
  MkA (c c_nopod) (c c_ready) (c c_up_notready) (c c_oldavail) (c c_oldunavail) (c c_oldterm).

(** ** what one sync does to the classes of the planning items *)
Definition cls_after (creates deletes : list name) (nn : name) (c : nclass) : nclass :=
  if memN nn creates then UpToDate false else if memN nn deletes then OldTerminating else c.

(** [items'] = the planning items after the sync's calls were applied: a created pod is up to date and not Ready yet,
    a pod whose deletion was requested is terminating, nothing else changed *)
Definition synced (rs : ers) (now : time) (creates deletes : list name) (items items' : list nitem) : Prop :=
  Forall2 (fun i i' => classify rs now i' = cls_after creates deletes (ni_name i) (classify rs now i)) items items'.

(** ** The environment's half of a fair round, as an explicit model of the kubelet and the API server:
    a pod being deleted is gone, a pod that was created (up to date, not Ready yet) is Ready, nothing else changes -
    and nothing becomes unresponsive (no scheduler issue appears while the clock moves from [now] to [now']). *)
Definition cls_settle (c : nclass) : nclass :=
  match c with OldTerminating => NoPod | UpToDate _ => UpToDate true | c => c end.
Definition settled (rs : ers) (now now' : time) (items items' : list nitem) : Prop :=
  Forall2 (fun i i' => classify rs now' i' = cls_settle (classify rs now i)) items items'.

(** ** A fair round on the planning items of the sync model: the environment settles, then the active replica set
    syncs once and its calls are applied - for ANY admissible choice of the runtime. *)
Inductive fair_round (rs : ers) (ann : eds_annots) (ru : rolling) : time * list nitem -> time * list nitem -> Prop :=
| FairRound : forall now items now' items' rp creates deletes items'',
    settled rs now now' items items' ->                               (* the environment settles; the clock moves *)
    NoDup (map ni_name items') ->
    rolling_plan_of rs ann ru now' items' = Ok rp ->                   (* the sync plans on what it reads *)
    rp_paused rp = false -> rp_frozen rp = false ->
    1 <= rp_max_creation rp -> 1 <= rp_max_unavailable rp -> 0 <= rp_max_sched_failure rp ->
    admissible_creates rp creates = true -> admissible_deletes rp deletes = true ->   (* any choice of the runtime *)
    synced rs now' creates deletes items' items'' ->                    (* its calls are applied *)
    fair_round rs ann ru (now, items) (now', items'').

(** ** chains of rounds whose limits may differ from round to round (the slow-start ramp grows) *)
Inductive a_chain : astate -> nat -> astate -> Prop :=
| ach0 : forall s, a_chain s 0 s
| achS : forall s maxc mu n s', 1 <= maxc -> 1 <= mu -> a_chain (a_round maxc mu s) n s' -> a_chain s (S n) s'.

(** ... and of fair rounds of the sync model *)
Inductive c_chain (rs : ers) (ann : eds_annots) (ru : rolling) : time * list nitem -> nat -> time * list nitem -> Prop :=
| cch0 : forall st, c_chain rs ann ru st 0 st
| cchS : forall st st1 n st', fair_round rs ann ru st st1 -> c_chain rs ann ru st1 n st' -> c_chain rs ann ru st (S n) st'.
