(** * Base: shared vocabulary of the model (names, time, conditions, int-or-percent, results).

    Everything here is total, computable Gallina over [list], [N], [Z], [option].  No proofs. *)
From Coq Require Export List ZArith NArith Bool Lia.
Export ListNotations.
Open Scope Z_scope.

(** Opaque Go strings (object names, reasons, label keys/values) are interned to [N] by the
    harness; [0] is the empty string.  Object names are interned order-preservingly per case, so
    [N.ltb] is Go's [<] on the original strings. *)
Definition name := N.
Definition no_name : name := 0%N.

(** Instants and durations are nanoseconds (Go's [time.Duration] is an [int64] of nanoseconds;
    instants are nanoseconds since the Unix epoch).  Stored stamps are whole seconds. *)
Definition time := Z.
Definition dur := Z.
Definition second : dur := 1000000000.
Definition minute : dur := 60 * second.
(** Go's zero [time.Time] (year 1), in nanoseconds since the Unix epoch. *)
Definition zero_time : time := -62135596800 * second.
Definition is_zero_time (t : time) : bool := t =? zero_time.

Definition max_dur : Z := 9223372036854775807.
Definition min_dur : Z := -9223372036854775808.
(** [t.Sub(u)] saturates at the [int64] range. *)
Definition tsub (t u : time) : dur :=
  let d := t - u in if d >? max_dur then max_dur else if d <? min_dur then min_dur else d.
Definition tadd (t : time) (d : dur) : time := t + d.
Definition tafter (t u : time) : bool := t >? u.
Definition tbefore (t u : time) : bool := t <? u.

(** ** Generic list helpers *)
Fixpoint find_index {A} (f : A -> bool) (l : list A) : option nat :=
  match l with
  | [] => None
  | x :: r => if f x then Some O else option_map S (find_index f r)
  end.

Fixpoint update_first {A} (f : A -> bool) (g : A -> A) (l : list A) : list A :=
  match l with
  | [] => []
  | x :: r => if f x then g x :: r else x :: update_first f g r
  end.

Definition memN (x : N) (l : list N) : bool := existsb (N.eqb x) l.

Fixpoint assocN {B} (k : N) (l : list (N * B)) : option B :=
  match l with
  | [] => None
  | (k', v) :: r => if N.eqb k k' then Some v else assocN k r
  end.

Definition count_if {A} (f : A -> bool) (l : list A) : Z := Z.of_nat (length (filter f l)).
Definition zlen {A} (l : list A) : Z := Z.of_nat (length l).

Definition firstn_z {A} (n : Z) (l : list A) : list A := firstn (Z.to_nat n) l.

Fixpoint dedupN (l : list N) : list N :=
  match l with
  | [] => []
  | x :: r => if memN x r then dedupN r else x :: dedupN r
  end.

Fixpoint nodupNb (l : list N) : bool :=
  match l with
  | [] => true
  | x :: r => negb (memN x r) && nodupNb r
  end.

(** ** Conditions (both the replica-set and the ExtendedDaemonSet flavour share the update rule) *)
Inductive cstatus := CTrue | CFalse | CUnknown.
Definition cstatus_eqb (a b : cstatus) : bool :=
  match a, b with CTrue, CTrue | CFalse, CFalse | CUnknown, CUnknown => true | _, _ => false end.
Definition bool_to_cond (b : bool) : cstatus := if b then CTrue else CFalse.

(** Condition types are numbered; the numbering is fixed in [tools/gallina.py]. *)
Definition ctype := N.
(* replica-set condition types *)
Definition CT_Active : ctype := 1%N.
Definition CT_RollingUpdatePaused : ctype := 2%N.
Definition CT_RolloutFrozen : ctype := 3%N.
Definition CT_Canary : ctype := 4%N.
Definition CT_ReconcileError : ctype := 5%N.
Definition CT_Unschedule : ctype := 6%N.
Definition CT_PodsCleanupDone : ctype := 7%N.
Definition CT_PodCreation : ctype := 8%N.
Definition CT_PodDeletion : ctype := 9%N.
Definition CT_PodRestarting : ctype := 10%N.
Definition CT_PodCannotStart : ctype := 11%N.
Definition CT_LastFullSync : ctype := 12%N.
Definition CT_CanaryPaused : ctype := 13%N.
Definition CT_CanaryFailed : ctype := 14%N.
(* ExtendedDaemonSet condition types *)
Definition ECT_ReconcileError : ctype := 5%N.
Definition ECT_CanaryPaused : ctype := 13%N.
Definition ECT_CanaryFailed : ctype := 14%N.

(** Condition messages: fixed numbers for the constant texts, [M_OTHER] for any other non-empty text
    (node lists, pod names: not predicted, only "non-empty"). *)
Definition M_EMPTY : name := 0%N.
Definition M_FULL_SYNC : name := 1%N.        (* "full sync" *)
Definition M_PODS_CREATED : name := 2%N.     (* "pods created" *)
Definition M_PODS_DELETED : name := 3%N.     (* "pods deleted" *)
Definition M_NOT_DEFAULTED : name := 4%N.    (* "Parent ExtendedDaemonSet is not defaulted, requeuing" *)
Definition M_OTHER : name := 999%N.

Record cond := MkCond {
  c_type : ctype;
  c_status : cstatus;
  c_trans : time;     (* lastTransitionTime *)
  c_update : time;    (* lastUpdateTime *)
  c_reason : name;
  c_message : name
}.

Definition cond_has_type (t : ctype) (c : cond) : bool := N.eqb (c_type c) t.

(** [GetIndexForConditionType] returns the FIRST match. *)
Definition get_cond (cs : list cond) (t : ctype) : option cond := find (cond_has_type t) cs.
Definition is_cond_true (cs : list cond) (t : ctype) : bool :=
  match get_cond cs t with Some c => cstatus_eqb (c_status c) CTrue | None => false end.

(** [UpdateExtendedDaemonSet(ReplicaSet)StatusCondition]: the exact rule of both
    [conditions/update.go] files. *)
Definition update_cond (cs : list cond) (now : time) (t : ctype) (st : cstatus)
           (reason msg : name) (write_false_if_absent support_last_update : bool) : list cond :=
  match get_cond cs t with
  | Some _ =>
      update_first (cond_has_type t)
        (fun c =>
           let changed := negb (cstatus_eqb (c_status c) st) in
           let tr := if changed then now else c_trans c in
           let up := if changed || support_last_update then now else c_update c in
           let is_true := cstatus_eqb st CTrue in
           MkCond (c_type c) st tr up
                  (if is_true then reason else c_reason c)
                  (if is_true then msg else c_message c)) cs
  | None =>
      if cstatus_eqb st CTrue || write_false_if_absent
      then cs ++ [MkCond t st now now reason msg]
      else cs
  end.

Definition cond_eqb (a b : cond) : bool :=
  N.eqb (c_type a) (c_type b) && cstatus_eqb (c_status a) (c_status b) &&
  (c_trans a =? c_trans b) && (c_update a =? c_update b) &&
  N.eqb (c_reason a) (c_reason b) && N.eqb (c_message a) (c_message b).

Fixpoint list_eqb {A} (eqb : A -> A -> bool) (l1 l2 : list A) : bool :=
  match l1, l2 with
  | [], [] => true
  | x :: r1, y :: r2 => eqb x y && list_eqb eqb r1 r2
  | _, _ => false
  end.

Definition option_eqb {A} (eqb : A -> A -> bool) (a b : option A) : bool :=
  match a, b with
  | None, None => true
  | Some x, Some y => eqb x y
  | _, _ => false
  end.

(** ** int-or-percent ([intstr.GetValueFromIntOrPercent], the deprecated variant the code uses)

    The harness projects an [IntOrString]: [Int n] to [IntV n]; a string that is an integer after
    deleting every ['%'] to [PctV v] (so ["5"] means 5 %%); any other string to [BadV]. *)
Inductive intorpct := IntV (z : Z) | PctV (v : Z) | BadV.

Definition ceil_div100 (a : Z) : Z := - ((- a) / 100).

(** [None] = the library returned an error. *)
Definition resolve_iop (x : intorpct) (total : Z) : option Z :=
  match x with
  | IntV z => Some z
  | PctV v => Some (ceil_div100 (v * total))
  | BadV => None
  end.

(** ** Outcomes: a function of the model can finish, return an error, or panic. *)
Inductive outcome (A : Type) := Ok (a : A) | Error (code : N) | Panic (code : N).
Arguments Ok {A} _.
Arguments Error {A} _.
Arguments Panic {A} _.

Definition bind {A B} (o : outcome A) (f : A -> outcome B) : outcome B :=
  match o with Ok a => f a | Error c => Error c | Panic c => Panic c end.

(** Multiset equality on lists with a decidable equality (for outputs whose order is irrelevant). *)
Definition count_occ_b {A} (eqb : A -> A -> bool) (x : A) (l : list A) : nat :=
  length (filter (eqb x) l).
Definition multiset_eqb {A} (eqb : A -> A -> bool) (l1 l2 : list A) : bool :=
  Nat.eqb (length l1) (length l2) &&
  forallb (fun x => Nat.eqb (count_occ_b eqb x l1) (count_occ_b eqb x l2)) l1.

(** Result of evaluating a list of cases: pairs (case index, failure code).
    Code 1 = the model does not predict the implementation (step mismatch);
    code 10+k = monitor k is false on what the implementation did;
    code 100+k = monitor k is false inside a listed known-finding region. *)
Fixpoint run_cases {C} (chk : C -> list N) (i : N) (cs : list C) : list (N * N) :=
  match cs with
  | [] => []
  | c :: r => map (fun code => (i, code)) (chk c) ++ run_cases chk (N.succ i) r
  end.

Definition code_if (b : bool) (code : N) : list N := if b then [] else [code].
