(** * EdsLogic: the decision functions of the ExtendedDaemonSet controller
    ([controllers/extendeddaemonset/controller.go], [utils.go]). *)
From EDS Require Import Model.Objects Model.Fitness Model.PodSpec Model.Canary.

(** [IsCanaryDeploymentEnded]: (ended, pending duration). *)
Definition canary_ended (oc : option canary_spec) (rs : ers) (now : time) : bool * dur :=
  match oc with
  | None => (true, 0)
  | Some c =>
      match ca_duration c with
      | None => (false, 0)
      | Some d =>
          let last_restart := match get_cond (rs_conds (r_status rs)) CT_PodRestarting with
                              | Some rc => c_update rc | None => zero_time end in
          let pending_nr :=
            match ca_norestarts c with
            | Some nrd => if negb (is_zero_time last_restart) then tsub (tadd last_restart nrd) now else - d
            | None => - d
            end in
          let pending := tsub (tadd (r_created rs) d) now in
          let p := if pending_nr >? pending then pending_nr else pending in
          if p >=? 0 then (false, p) else (true, p)
      end
  end.

(** [selectCurrentReplicaSet] as called by [Reconcile] (the two pointers never alias there).
    Returns the selected replica set and the requeue hint.  After the repair of D2 a failed canary
    always keeps the active replica set. *)
Definition select_current (ann : eds_annots) (oc : option canary_spec) (active : option ers) (uptodate : ers)
           (now : time) : ers * dur :=
  match active with
  | None => (uptodate, 0)
  | Some a =>
      match oc with
      | None => (uptodate, 0)
      | Some _ =>
          let '(ended, rq) := canary_ended oc uptodate now in
          let paused := fst (canary_paused ann (Some (r_status uptodate))) in
          let valid := canary_valid ann (r_name uptodate) in
          let failed := canary_failed_rs (r_status uptodate) in
          if negb failed && (valid || (negb paused && ended)) then (uptodate, rq) else (a, rq)
      end
  end.
(** the same before the repair of D2 *)
Definition select_current_before_fix (ann : eds_annots) (oc : option canary_spec) (active : option ers)
           (uptodate : ers) (now : time) : ers * dur :=
  match active with
  | None => (uptodate, 0)
  | Some a =>
      match oc with
      | None => (uptodate, 0)
      | Some _ =>
          let '(ended, rq) := canary_ended oc uptodate now in
          let paused := fst (canary_paused ann (Some (r_status uptodate))) in
          let valid := canary_valid ann (r_name uptodate) in
          if valid || (negb paused && ended) then (uptodate, rq) else (a, rq)
      end
  end.

Definition non_canary_state (ann : eds_annots) : name :=
  if a3_true (an_frozen ann) then ST_FROZEN
  else if a3_true (an_rolling_paused ann) then ST_RU_PAUSED else ST_RUNNING.

(** [shouldDeleteERS] *)
Definition should_delete_ers (now : time) (rs : ers) : bool :=
  let st := r_status rs in
  if is_cond_true (rs_conds st) CT_CanaryFailed &&
     match get_cond (rs_conds st) CT_CanaryFailed with
     | Some c => tbefore now (tadd (c_trans c) (2 * minute))
     | None => false
     end
  then false
  else rs_available st + rs_current st + rs_desired st + rs_ready st =? 0.

(** [manageCanaryStatusConditions] *)
Definition R_CANARY_FAILED_COND : name := 31%N.    (* "CanaryFailed" *)
Definition canary_conditions (cs : list cond) (now : time) (failed paused : bool) (reason : name) : list cond :=
  let c1 := if failed then update_cond cs now ECT_CanaryFailed CTrue R_CANARY_FAILED_COND M_OTHER false false
            else update_cond cs now ECT_CanaryFailed CFalse no_name no_name false false in
  if paused && negb failed then update_cond c1 now ECT_CanaryPaused CTrue reason M_OTHER false false
  else update_cond c1 now ECT_CanaryPaused CFalse no_name no_name false false.

(** [manageStatus] *)
Definition manage_status (st : eds_status) (ann : eds_annots) (uptodate : ers)
           (active failed paused : bool) (reason : name) : eds_status :=
  if failed then
    MkEdsStatus (es_desired st) (es_current st) (es_ready st) (es_available st) (es_uptodate st) (es_ignored st)
                ST_CANARY_FAILED (es_active st) None R_EMPTY (es_conds st)
  else if active then
    let u := r_status uptodate in
    MkEdsStatus (es_desired st + rs_desired u) (es_current st) (es_ready st) (es_available st)
                (rs_current u) (es_ignored st + rs_ignored u)
                (if paused then ST_CANARY_PAUSED else ST_CANARY) (es_active st)
                (Some (MkCanaryStatus (r_name uptodate)
                         (match es_canary st with Some c => cs_nodes c | None => [] end)))
                (if paused then reason else R_EMPTY) (es_conds st)
  else
    MkEdsStatus (es_desired st) (es_current st) (es_ready st) (es_available st) (es_uptodate st) (es_ignored st)
                (non_canary_state ann) (es_active st) None R_EMPTY (es_conds st).

(** ** Canary node selection ([selectNodes], after the repairs D5, D7, D8) *)
(** stable insertion sort (Go's [sort.Slice] is a stable insertion sort below 13 elements) *)
Fixpoint insert_by {A} (key : A -> Z) (x : A) (l : list A) : list A :=
  match l with
  | [] => [x]
  | y :: r => if key x <=? key y then x :: y :: r else y :: insert_by key x r
  end.
Definition sort_by {A} (key : A -> Z) (l : list A) : list A := fold_right (insert_by key) [] l.

(** restarts per node: sum over the listed pods, keyed by spec.nodeName *)
Definition node_restarts (pods : list pod) (nn : name) : Z :=
  fold_left (fun acc p => if N.eqb (p_nodename p) nn then acc + p_restart_sum p else acc) pods 0.

Definition aa_value (keys : list name) (n : node) : list name :=
  map (fun k => match lookup k (n_labels n) with Some v => v | None => no_name end) keys.
Definition aa_eqb (a b : list name) : bool := list_eqb N.eqb a b.
Fixpoint aa_get (v : list name) (m : list (list name * Z)) : option Z :=
  match m with
  | [] => None
  | (v', c) :: r => if aa_eqb v v' then Some c else aa_get v r
  end.
Fixpoint aa_set (v : list name) (c : Z) (m : list (list name * Z)) : list (list name * Z) :=
  match m with
  | [] => [(v, c)]
  | (v', c') :: r => if aa_eqb v v' then (v, c) :: r else (v', c') :: aa_set v c r
  end.
Definition aa_count (v : list name) (m : list (list name * Z)) : Z :=
  match aa_get v m with Some c => c | None => 0 end.

(** the map of anti-affinity values: every value of a listed node, counting the already selected *)
Definition aa_init (keys : list name) (nodes : list node) (current : list name) : list (list name * Z) :=
  fold_left (fun m n =>
               let v := aa_value keys n in
               let m1 := match aa_get v m with Some _ => m | None => aa_set v 0 m end in
               if memN (n_name n) current then aa_set v (aa_count v m1 + 1) m1 else m1) nodes [].

Record sel_state := MkSel { ss_current : list name; ss_aa : list (list name * Z); ss_done : bool }.

Definition select_step (t : tmpl) (keys : list name) (nb : Z) (s : sel_state) (n : node) : sel_state :=
  if ss_done s then s
  else if memN (n_name n) (ss_current s) then s
  else
    let use_aa := negb (Nat.eqb (length keys) 0) in
    let v := aa_value keys n in
    let quota := Z.quot (nb + zlen (ss_aa s) - 1) (zlen (ss_aa s)) in
    if use_aa && (aa_count v (ss_aa s) >=? quota) then s
    else
      let aa' := if use_aa then aa_set v (aa_count v (ss_aa s) + 1) (ss_aa s) else ss_aa s in
      let cur' := if fit t n then ss_current s ++ [n_name n] else ss_current s in
      MkSel cur' aa' (zlen cur' =? nb).

(** [select_nodes]: [nodes] = the nodes matching the canary node selector, in list order;
    [pods] = the ExtendedDaemonSet's pods. Returns the new list and whether it is long enough. *)
Definition select_nodes (t : tmpl) (keys : list name) (nb : Z) (nodes : list node) (pods : list pod)
           (previous : list name) : list name * bool :=
  let sorted := sort_by (fun n => node_restarts pods (n_name n)) nodes in
  let still_valid :=
    filter (fun nn => match find (fun n => N.eqb (n_name n) nn) sorted with
                      | Some n => fit t n | None => false end) previous in
  let final :=
    if zlen still_valid <? nb then
      let aa := if Nat.eqb (length keys) 0 then [] else aa_init keys sorted still_valid in
      ss_current (fold_left (select_step t keys nb) sorted (MkSel still_valid aa false))
    else still_valid in
  (final, negb (zlen final <? nb)).

(** the same filter loop before the repair of D8: only listed nodes are visited, so a vanished
    node stays. *)
Definition filter_previous_before_fix (t : tmpl) (sorted : list node) (previous : list name) : list name :=
  filter (fun nn => match find (fun n => N.eqb (n_name n) nn) sorted with
                    | Some n => fit t n | None => true end) previous.

Definition merge_requeue_after (a b : dur) : dur :=
  if a + b >? 0 then
    if b =? 0 then a else if a =? 0 then b else if a >? b then b else a
  else 0.
