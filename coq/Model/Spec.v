(** * Spec: the documented status function, short enough to read in a minute.

    The ExtendedDaemonSet status is a function of the replica sets listed (their statuses), of which
    one is current (active) and which one matches spec.template (up to date), and of the canary facts. *)
From EDS Require Import Model.Objects Model.Canary Model.EdsLogic.

Definition sum_over (f : ers_status -> Z) (rss : list ers) : Z :=
  fold_left (fun acc r => acc + f (r_status r)) rss 0.

Record status_facts := MkFacts {
  sf_canary_strategy : bool;   (* spec.strategy.canary is set *)
  sf_failed : bool;            (* the up-to-date replica set is marked Canary-Failed *)
  sf_paused : bool;            (* canary paused (its own condition, else the annotation) *)
  sf_reason : name;            (* ... and why *)
  sf_canary_active : bool      (* canary strategy, not failed, current <> up to date *)
}.

Definition facts_of (ann : eds_annots) (oc : option canary_spec) (current uptodate : ers) : status_facts :=
  let failed := canary_failed_rs (r_status uptodate) in
  let pr := canary_paused ann (Some (r_status uptodate)) in
  match oc with
  | None => MkFacts false false false 0%N false
  | Some _ => MkFacts true failed (fst pr) (snd pr) (negb (failed || N.eqb (r_name current) (r_name uptodate)))
  end.

(** counters: current/ready/available are sums over all replica sets; desired and upToDate come from the
    current replica set and, while a canary is active, desired adds the canary's and upToDate is the canary's *)
Definition spec_current (rss : list ers) : Z := sum_over rs_current rss.
Definition spec_ready (rss : list ers) : Z := sum_over rs_ready rss.
Definition spec_available (rss : list ers) : Z := sum_over rs_available rss.
Definition spec_desired (f : status_facts) (current uptodate : ers) : Z :=
  if sf_canary_active f then rs_desired (r_status current) + rs_desired (r_status uptodate)
  else rs_desired (r_status current).
Definition spec_uptodate (f : status_facts) (current uptodate : ers) : Z :=
  if sf_canary_active f then rs_current (r_status uptodate) else rs_current (r_status current).
Definition spec_ignored (f : status_facts) (current uptodate : ers) : Z :=
  if sf_canary_active f then rs_ignored (r_status current) + rs_ignored (r_status uptodate)
  else rs_ignored (r_status current).

(** state and reason *)
Definition spec_state (f : status_facts) (ann : eds_annots) : name :=
  if sf_failed f then ST_CANARY_FAILED
  else if sf_canary_active f then (if sf_paused f then ST_CANARY_PAUSED else ST_CANARY)
  else non_canary_state ann.
Definition spec_reason (f : status_facts) (read_reason : name) : name :=
  if sf_canary_strategy f then
    (if sf_failed f then 0%N else if sf_canary_active f then (if sf_paused f then sf_reason f else 0%N) else 0%N)
  else read_reason.

(** conditions (only with a canary strategy): Canary-Failed is true iff failed; Canary-Paused is true iff
    paused and not failed *)
Definition spec_cond_failed (f : status_facts) : bool := sf_failed f.
Definition spec_cond_paused (f : status_facts) : bool := sf_paused f && negb (sf_failed f).
