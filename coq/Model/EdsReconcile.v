(** * EdsReconcile: one [Reconcile] of the ExtendedDaemonSet controller as a function of the
    snapshot it reads ([controllers/extendeddaemonset/controller.go]). *)
From EDS Require Import Model.Objects Model.Fitness Model.PodSpec Model.Default Model.Canary Model.EdsLogic.

Record eds_snapshot := MkEdsSnap {
  es_now : time;
  es_obj : option eds;                 (* the requested object, None = not found *)
  es_rss : list ers;                   (* every replica set of the cluster, in list order *)
  es_nodes : list node;                (* every node, in list order *)
  es_pods : list pod;                  (* every pod, in list order *)
  es_default_mode : vmode;
  es_fail_status : bool;               (* the status write is rejected *)
  es_fail_update : bool;               (* the spec/annotation write is rejected *)
  es_fail_rs_delete : list name;       (* replica sets whose deletion is rejected *)
  es_fail_rs_create : bool;            (* the replica-set creation is rejected *)
  es_fail_list_rs : bool;              (* the List of the replica sets fails *)
  es_fail_list_cluster : bool          (* the List of the pods or of the nodes inside [selectNodes] fails *)
}.

(** The new replica set sent to the API (GenerateName = <eds name>-). *)
Record new_rs := MkNewRs {
  nr_ns : name; nr_eds_label : name; nr_owner : name;
  nr_hash_annot : name; nr_tmplgen : name; nr_tmpl_hash : name;
  nr_selector : option selector
}.

Inductive eds_write :=
| WDefault (e : eds)                                     (* Update with the defaulted object *)
| WCreateRs (r : new_rs)
| WDeleteRs (nm : name)
| WStatus (st : eds_status)
| WSpec (tmpl_hash : name) (ann : eds_annots).           (* Update: template (as hash) and annotations *)

Record eds_plan := MkEdsPlan {
  ep_writes : list eds_write;          (* in program order; a rejected write ends the list *)
  ep_requeue : bool;
  ep_requeue_after : dur;
  ep_error : bool
}.

Definition rs_of_eds (e : eds) (rss : list ers) : list ers :=
  filter (fun r => N.eqb (r_ns r) (e_ns e) && N.eqb (r_eds_label r) (e_name e)) rss.

Definition rs_up_to_date (e : eds) (r : ers) : bool :=
  match r_hash_annot r with Some h => N.eqb h (e_tmpl_hash e) | None => false end.

Definition last_such {A} (f : A -> bool) (l : list A) : option A :=
  fold_left (fun acc x => if f x then Some x else acc) l None.

Definition clear_canary_annots (a : eds_annots) : eds_annots * bool :=
  (MkAnnots (an_rolling_paused a) (an_frozen a) AAbsent None AAbsent (an_canary_valid a) (an_old_ds a),
   match an_canary_paused a, an_canary_paused_reason a, an_canary_unpaused a with
   | AAbsent, None, AAbsent => false
   | _, _, _ => true
   end).

Definition annots_eqb (a b : eds_annots) : bool :=
  let a3_eqb x y := match x, y with
                    | AAbsent, AAbsent | ATrue, ATrue | AFalse, AFalse | AOtherVal, AOtherVal => true
                    | _, _ => false end in
  a3_eqb (an_rolling_paused a) (an_rolling_paused b) && a3_eqb (an_frozen a) (an_frozen b) &&
  a3_eqb (an_canary_paused a) (an_canary_paused b) &&
  option_eqb N.eqb (an_canary_paused_reason a) (an_canary_paused_reason b) &&
  a3_eqb (an_canary_unpaused a) (an_canary_unpaused b) &&
  option_eqb N.eqb (an_canary_valid a) (an_canary_valid b) &&
  option_eqb N.eqb (an_old_ds a) (an_old_ds b).

Definition canary_status_eqb (a b : canary_status) : bool :=
  N.eqb (cs_rs a) (cs_rs b) && list_eqb N.eqb (cs_nodes a) (cs_nodes b).
Definition eds_status_eqb (a b : eds_status) : bool :=
  (es_desired a =? es_desired b) && (es_current a =? es_current b) && (es_ready a =? es_ready b) &&
  (es_available a =? es_available b) && (es_uptodate a =? es_uptodate b) && (es_ignored a =? es_ignored b) &&
  N.eqb (es_state a) (es_state b) && N.eqb (es_active a) (es_active b) &&
  option_eqb canary_status_eqb (es_canary a) (es_canary b) && N.eqb (es_reason a) (es_reason b) &&
  list_eqb cond_eqb (es_conds a) (es_conds b).

Definition with_canary_nodes (st : eds_status) (nodes : list name) : eds_status :=
  MkEdsStatus (es_desired st) (es_current st) (es_ready st) (es_available st) (es_uptodate st) (es_ignored st)
              (es_state st) (es_active st)
              (match es_canary st with Some c => Some (MkCanaryStatus (cs_rs c) nodes) | None => None end)
              (es_reason st) (es_conds st).
Definition with_eds_conds (st : eds_status) (cs : list cond) : eds_status :=
  MkEdsStatus (es_desired st) (es_current st) (es_ready st) (es_available st) (es_uptodate st) (es_ignored st)
              (es_state st) (es_active st) (es_canary st) (es_reason st) cs.

Section Sync.
Variable sn : eds_snapshot.

(** the two writes that end [updateInstanceWithCurrentRS]: status first, then (when asked) the object *)
Definition finish_update (e : eds) (st' : eds_status) (tmpl_hash' : name) (ann' : eds_annots) (write_spec : bool)
  : outcome eds_plan :=
  if eds_status_eqb (e_status e) st' && N.eqb tmpl_hash' (e_tmpl_hash e) && annots_eqb (e_annots e) ann'
  then Ok (MkEdsPlan [] false 0 false)
  else if es_fail_status sn then Ok (MkEdsPlan [WStatus st'] false 0 true)
  else if write_spec then Ok (MkEdsPlan [WStatus st'; WSpec tmpl_hash' ann'] false 0 (es_fail_update sn))
  else Ok (MkEdsPlan [WStatus st'] false 0 false).

(** the selection of canary nodes came up short: the status is still written (a percentage of replicas is resolved
    against status.desired, which must not stay stale) and the reconcile reports the error afterwards *)
Definition set_error (pl : eds_plan) : eds_plan :=
  MkEdsPlan (ep_writes pl) (ep_requeue pl) (ep_requeue_after pl) true.
Definition with_error (o : outcome eds_plan) : outcome eds_plan :=
  match o with
  | Ok pl => Ok (set_error pl)
  | other => other
  end.

(** the status before the canary bookkeeping: counters from the current replica set and the sums *)
Definition base_status (e : eds) (current : ers) (sum_cur sum_rdy sum_av : Z) : eds_status :=
  let st := e_status e in
  let cu := r_status current in
  MkEdsStatus (rs_desired cu) sum_cur sum_rdy sum_av (rs_current cu) (rs_ignored cu)
              (non_canary_state (e_annots e)) (r_name current) (es_canary st) (es_reason st) (es_conds st).

(** the nodes matching the canary node selector, in list order *)
Definition canary_candidate_nodes (c : canary_spec) : list node :=
  match ca_nodesel c with
  | Some sel => if lenient_selector_ok sel
                then filter (fun n => lenient_selector_matches sel (n_labels n)) (es_nodes sn)
                else es_nodes sn
  | None => es_nodes sn
  end.
Definition eds_pods (e : eds) : list pod :=
  filter (fun p => N.eqb (p_ns p) (e_ns e) && p_has_eds_label p (e_name e)) (es_pods sn).

(** [selectNodes] as the reconcile runs it: when the List of the pods or of the nodes fails it returns the error before
    it touches the list - which then stays as it was, and the reconcile reports the error after the status write. *)
Definition select_or_fail (t : tmpl) (keys : list name) (nb : Z) (nodes : list node) (pods : list pod)
           (previous : list name) : list name * bool :=
  if es_fail_list_cluster sn then (previous, false) else select_nodes t keys nb nodes pods previous.

(** [updateInstanceWithCurrentRS].  Errors: 51 canary replicas do not resolve (returns before any write);
    not enough canary nodes: the shortened list is written with the status and the error is reported. Panic 50: nil canary sub-structure. *)
Definition update_instance (e : eds) (current uptodate : ers) (sum_cur sum_rdy sum_av : Z) : outcome eds_plan :=
  let now := es_now sn in
  let st := e_status e in
  let ann := e_annots e in
  let st1 := base_status e current sum_cur sum_rdy sum_av in
  match st_canary (e_strategy e) with
  | None => finish_update e st1 (e_tmpl_hash e) ann false
  | Some c =>
      let '(paused, reason) := canary_paused ann (Some (r_status uptodate)) in
      let failed := canary_failed_rs (r_status uptodate) in
      let active := negb (failed || N.eqb (r_name current) (r_name uptodate)) in
      let st2 := with_eds_conds st1 (canary_conditions (es_conds st1) now failed paused reason) in
      let st3 := manage_status st2 ann uptodate active failed paused reason in
      let tmpl_hash' := if failed then r_tmpl_hash current else e_tmpl_hash e in
      if active then
        match ca_replicas c with
        | None => Error 51%N
        | Some rep =>
            match resolve_iop rep (es_desired st) with
            | None => Error 51%N
            | Some nb =>
                let previous := match es_canary st3 with Some cs => cs_nodes cs | None => [] end in
                if nb =? zlen previous then finish_update e st3 tmpl_hash' ann failed
                else
                  let '(sel, enough) := select_or_fail (r_tmpl uptodate) (ca_antiaffinity c) nb
                                                       (canary_candidate_nodes c) (eds_pods e) previous in
                  if enough then finish_update e (with_canary_nodes st3 sel) tmpl_hash' ann failed
                  else with_error (finish_update e (with_canary_nodes st3 sel) tmpl_hash' ann failed)
            end
        end
      else
        let '(ann', changed) := clear_canary_annots ann in
        finish_update e st3 tmpl_hash' ann' (failed || changed)
  end.

(** the replica sets the reconcile deletes: not current, not up to date, not already terminating,
    all-zero status and (failed canaries) older than the retention *)
Definition rs_to_delete (rss : list ers) (current uptodate : ers) : list name :=
  map r_name (filter (fun r => negb (N.eqb (r_name r) (r_name current)) &&
                               negb (N.eqb (r_name r) (r_name uptodate)) &&
                               negb (r_deleting r) && should_delete_ers (es_now sn) r) rss).

Definition eds_sync : outcome eds_plan :=
  match es_obj sn with
  | None => Ok (MkEdsPlan [] false 0 false)
  | Some e =>
      if negb (is_defaulted e) then
        Ok (MkEdsPlan [WDefault (default_eds (es_default_mode sn) e)]
                      (negb (es_fail_update sn)) 0 (es_fail_update sn))
      else
        match validate (e_strategy e) with
        | Panic c => Panic c
        | Error c => Error c
        | Ok _ =>
            if es_fail_list_rs sn then Error 60%N else
            let rss := rs_of_eds e (es_rss sn) in
            let sum f := fold_left (fun acc r => acc + f (r_status r)) rss 0 in
            let active := last_such (fun r => N.eqb (r_name r) (es_active (e_status e))) rss in
            match last_such (rs_up_to_date e) rss with
            | None =>
                Ok (MkEdsPlan [WCreateRs (MkNewRs (e_ns e) (e_name e) (e_name e) (e_tmpl_hash e) (e_tmpl_hash e)
                                                  (e_tmpl_hash e) (e_selector e))]
                              (negb (es_fail_rs_create sn)) 0 (es_fail_rs_create sn))
            | Some uptodate =>
                let '(current, rq) := select_current (e_annots e) (st_canary (e_strategy e)) active uptodate (es_now sn) in
                let dels := rs_to_delete rss current uptodate in
                let del_writes := map WDeleteRs dels in
                if existsb (fun d => memN d (es_fail_rs_delete sn)) dels
                then Ok (MkEdsPlan del_writes false rq true)
                else
                  match update_instance e current uptodate (sum rs_current) (sum rs_ready) (sum rs_available) with
                  | Ok pl => Ok (MkEdsPlan (del_writes ++ ep_writes pl)
                                           (ep_requeue pl)
                                           (merge_requeue_after 0 rq)
                                           (ep_error pl))
                  | Error c => Error c
                  | Panic c => Panic c
                  end
            end
        end
  end.
End Sync.
