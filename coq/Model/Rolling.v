(** * Rolling: [ManageDeployment] ([strategy/rollingupdate.go]) - the active role.

    Which candidates fill a budget depends on Go's map iteration order, so the deterministic part
    (candidate sets, counts, new status) is a function and the runtime's choice is constrained by
    [admissible_*]. *)
From EDS Require Import Model.Objects Model.Fitness Model.PodSpec Model.Limits.

(** A planning entry: an eligible node, the setting attached to it and the pod kept for it. *)
Record nitem := MkNItem { ni_node : node; ni_setting : option setting; ni_pod : option pod }.
Definition ni_name (i : nitem) : name := n_name (ni_node i).

Inductive nclass :=
| NoPod | Unresponsive | UpToDate (ready : bool) | OldAvailable | OldUnavailable | OldTerminating.

Definition classify (rs : ers) (now : time) (i : nitem) : nclass :=
  match ni_pod i with
  | None => NoPod
  | Some p =>
      if scheduler_issue now p then Unresponsive
      else if pod_up_to_date rs (ni_node i) (ni_setting i) p then UpToDate (pod_ready p)
      else if pod_terminating p then OldTerminating
      else if pod_available p then OldAvailable else OldUnavailable
  end.

Definition is_class (f : nclass -> bool) (rs : ers) (now : time) (i : nitem) : bool := f (classify rs now i).
Definition c_nopod c := match c with NoPod => true | _ => false end.
Definition c_unresp c := match c with Unresponsive => true | _ => false end.
Definition c_uptodate c := match c with UpToDate _ => true | _ => false end.
Definition c_ready c := match c with UpToDate true => true | _ => false end.
Definition c_oldavail c := match c with OldAvailable => true | _ => false end.
Definition c_oldunavail c := match c with OldUnavailable => true | _ => false end.
Definition c_oldterm c := match c with OldTerminating => true | _ => false end.
Definition c_haspod c := match c with NoPod | Unresponsive => false | _ => true end.

Record rolling_counts := MkCounts {
  k_nodes : Z; k_pods : Z; k_created : Z; k_available : Z; k_ready : Z;
  k_old_available : Z; k_old_unavailable : Z; k_terminating : Z; k_unresponsive : Z
}.
Definition count_items (rs : ers) (now : time) (items : list nitem) : rolling_counts :=
  let c f := count_if (is_class f rs now) items in
  MkCounts (zlen items) (c c_haspod) (c c_uptodate) (c c_ready) (c c_ready)
           (c c_oldavail) (c c_oldunavail) (c c_oldterm) (c c_unresp).

Record rolling_plan := MkRollingPlan {
  rp_paused : bool; rp_frozen : bool;
  rp_create_candidates : list name;        (* nodes without a pod *)
  rp_del_unavailable : list name;          (* nodes whose outdated pod is unavailable (replaced first) *)
  rp_del_available : list name;            (* nodes whose outdated pod is available *)
  rp_nb_create : Z;                        (* how many of the candidates are created *)
  rp_nb_delete : Z;                        (* how many of the candidates are deleted *)
  rp_counts : rolling_counts;
  rp_max_unavailable : Z; rp_max_sched_failure : Z; rp_max_creation : Z;
  rp_start : time                          (* rolling update start time *)
}.

(** Start of the rolling update: transition of a True Active condition in the status READ, else now. *)
Definition rolling_start (st : ers_status) (now : time) : time :=
  match get_cond (rs_conds st) CT_Active with
  | Some c => if cstatus_eqb (c_status c) CTrue then c_trans c else now
  | None => now
  end.

(** Error codes: 21 maxPodSchedulerFailure, 22 maxUnavailable, 23 slowStartAdditiveIncrease do not
    resolve.  Nil strategy pointers are a [Panic] (excluded for defaulted specs). *)
Definition rolling_plan_of (rs : ers) (ann : eds_annots) (ru : rolling) (now : time)
           (items : list nitem) : outcome rolling_plan :=
  let paused := a3_true (an_rolling_paused ann) in
  let frozen := a3_true (an_frozen ann) in
  let nb := zlen items in
  match ru_max_sched_failure ru with
  | None => Error 21%N   (* GetValueFromIntOrPercent(nil) is an error, not a panic *)
  | Some msf =>
  match resolve_iop msf nb with
  | None => Error 21%N
  | Some max_fail =>
  match ru_max_unavailable ru with
  | None => Error 22%N
  | Some mu =>
  match resolve_iop mu nb with
  | None => Error 22%N
  | Some max_unav =>
  match ru_increase ru with
  | None => Error 23%N
  | Some inc =>
  let start := rolling_start (r_status rs) now in
  match resolve_iop inc nb with
  | None => Error 23%N
  | Some _ =>
  match ru_interval ru, ru_max_parallel ru with
  | Some interval, Some maxpar =>
  match max_creation inc interval maxpar nb start now with
  | None => Error 23%N
  | Some maxc =>
      let k := count_items rs now items in
      let lp := MkLimits nb (k_pods k) (k_available k) (k_old_available k) (k_created k)
                         (k_unresponsive k) (k_old_unavailable k) maxc max_unav max_fail in
      let names f := map ni_name (filter (is_class f rs now) items) in
      let cc := names c_nopod in
      let du := names c_oldunavail in
      let da := names c_oldavail in
      let ncreate := Z.min (calc_create lp) (zlen cc) in
      let ndelete := Z.min (calc_delete lp) (zlen du + zlen da) in
      Ok (MkRollingPlan paused frozen cc du da
            (if frozen then 0 else ncreate)
            (if paused || frozen then 0 else ndelete)
            k max_unav max_fail maxc start)
  end
  | _, _ => Panic 20%N
  end end end end end end end.

Definition subsetN (a b : list name) : bool := forallb (fun x => memN x b) a.

(** The runtime's choice of creations: [nb_create] distinct candidates. *)
Definition admissible_creates (pl : rolling_plan) (obs : list name) : bool :=
  nodupNb obs && subsetN obs (rp_create_candidates pl) && (zlen obs =? rp_nb_create pl).

(** The runtime's choice of update-deletions (after the repair of D3): [nb_delete] distinct
    candidates, unavailable ones first. *)
Definition admissible_deletes (pl : rolling_plan) (obs : list name) : bool :=
  nodupNb obs && subsetN obs (rp_del_unavailable pl ++ rp_del_available pl) &&
  (zlen obs =? rp_nb_delete pl) &&
  (if rp_nb_delete pl <=? zlen (rp_del_unavailable pl)
   then subsetN obs (rp_del_unavailable pl)
   else subsetN (rp_del_unavailable pl) obs).

(** Before the repair of D3 any [nb_delete] distinct candidates were possible. *)
Definition admissible_deletes_before_fix (pl : rolling_plan) (obs : list name) : bool :=
  nodupNb obs && subsetN obs (rp_del_unavailable pl ++ rp_del_available pl) &&
  (zlen obs =? rp_nb_delete pl).

(** New status counters of the active role. *)
Definition rolling_status_counts (pl : rolling_plan) : Z * Z * Z * Z * Z :=
  let k := rp_counts pl in
  (k_nodes k, k_created k, k_ready k, k_available k, k_unresponsive k).
