(** * Plugin: the command bodies of kubectl-eds ([pkg/plugin/canary], [pause], [freeze]). *)
From EDS Require Import Model.Objects.

Inductive cmd := CanaryPause | CanaryUnpause | CanaryValidate | CanaryFail | RuPause | RuUnpause | Freeze | Unfreeze.

(** What a command does: refuses, patches the ExtendedDaemonSet's annotations, or appends a
    Canary-Failed condition to the status of the named replica set. *)
Inductive cmd_out := Refused | PatchAnn (ann' : eds_annots) | FailRs (rs_name : name).

Definition set_canary_pause (a : eds_annots) (paused unpaused : a3) : eds_annots :=
  MkAnnots (an_rolling_paused a) (an_frozen a) paused (an_canary_paused_reason a) unpaused (an_canary_valid a) (an_old_ds a).
Definition set_valid (a : eds_annots) (rs : name) : eds_annots :=
  MkAnnots (an_rolling_paused a) (an_frozen a) (an_canary_paused a) (an_canary_paused_reason a) (an_canary_unpaused a) (Some rs) (an_old_ds a).
Definition set_ru_paused (a : eds_annots) (v : a3) : eds_annots :=
  MkAnnots v (an_frozen a) (an_canary_paused a) (an_canary_paused_reason a) (an_canary_unpaused a) (an_canary_valid a) (an_old_ds a).
Definition set_frozen (a : eds_annots) (v : a3) : eds_annots :=
  MkAnnots (an_rolling_paused a) v (an_canary_paused a) (an_canary_paused_reason a) (an_canary_unpaused a) (an_canary_valid a) (an_old_ds a).

(** [rs_exists n] = a replica set of that name exists in the ExtendedDaemonSet's namespace. *)
Definition run_cmd (c : cmd) (oe : option eds) (rs_exists : name -> bool) : cmd_out :=
  match oe with
  | None => Refused
  | Some e =>
      let ann := e_annots e in
      let has_strategy := match st_canary (e_strategy e) with Some _ => true | None => false end in
      match c with
      | CanaryPause =>
          match es_canary (e_status e) with
          | Some _ => if negb has_strategy then Refused
                      else match an_canary_paused ann with ATrue => Refused | _ => PatchAnn (set_canary_pause ann ATrue AFalse) end
          | None => Refused
          end
      | CanaryUnpause =>
          match es_canary (e_status e) with
          | Some _ => if negb has_strategy then Refused
                      else match an_canary_paused ann with AFalse => Refused | _ => PatchAnn (set_canary_pause ann AFalse ATrue) end
          | None => Refused
          end
      | CanaryValidate =>
          match es_canary (e_status e) with
          | Some cs => if option_eqb N.eqb (an_canary_valid ann) (Some (cs_rs cs)) then Refused
                       else PatchAnn (set_valid ann (cs_rs cs))
          | None => Refused
          end
      | CanaryFail =>
          match es_canary (e_status e) with
          | Some cs => if negb has_strategy then Refused else if rs_exists (cs_rs cs) then FailRs (cs_rs cs) else Refused
          | None => Refused
          end
      | RuPause =>
          match es_canary (e_status e) with
          | Some _ => Refused
          | None => match an_rolling_paused ann with ATrue => Refused | _ => PatchAnn (set_ru_paused ann ATrue) end
          end
      | RuUnpause =>
          match es_canary (e_status e) with
          | Some _ => Refused
          | None => match an_rolling_paused ann with AFalse | AAbsent => Refused | _ => PatchAnn (set_ru_paused ann AFalse) end
          end
      | Freeze =>
          match es_canary (e_status e) with
          | Some _ => Refused
          | None => match an_frozen ann with ATrue => Refused | _ => PatchAnn (set_frozen ann ATrue) end
          end
      | Unfreeze =>
          match es_canary (e_status e) with
          | Some _ => Refused
          | None => match an_frozen ann with AFalse | AAbsent => Refused | _ => PatchAnn (set_frozen ann AFalse) end
          end
      end
  end.

(** the condition list of the replica set after [canary fail] *)
Definition R_MANUAL : name := 30%N.     (* "Manually failed" *)
(** repaired defect D13: the command used to APPEND a Canary-Failed=True entry ([fail_conds_before_fix]); every reader
    takes the first entry of a type, so an earlier entry that is not True shadowed it. It now updates the entry in place
    (appending only when there is none). *)
Definition fail_conds (cs : list cond) (now : time) : list cond :=
  update_cond cs now CT_CanaryFailed CTrue R_MANUAL M_EMPTY false true.
Definition fail_conds_before_fix (cs : list cond) (now : time) : list cond :=
  cs ++ [MkCond CT_CanaryFailed CTrue now now R_MANUAL M_EMPTY].
