(** * Metrics: label sanitising and the label-info pairing ([pkg/controller/utils/labels.go]),
      and the gauge families of both [metrics.go] files.  Label keys and values are real strings. *)
From Coq Require Import String Ascii.
From EDS Require Import Model.Base.
Open Scope string_scope.

(** [a-zA-Z0-9_] *)
Definition legal_char (c : ascii) : bool :=
  let n := N_of_ascii c in
  (((48 <=? n) && (n <=? 57)) || ((65 <=? n) && (n <=? 90)) ||
   ((97 <=? n) && (n <=? 122)) || (n =? 95))%N.

(** [invalidLabelCharRE.ReplaceAllString(s, "_")] on ASCII strings (one byte = one rune). *)
Fixpoint sanitize (s : string) : string :=
  match s with
  | EmptyString => EmptyString
  | String c r => String (if legal_char c then c else "_"%char) (sanitize r)
  end.

Fixpoint all_chars (f : ascii -> bool) (s : string) : bool :=
  match s with
  | EmptyString => true
  | String c r => f c && all_chars f r
  end.

(** [BuildInfoLabels]: a Go map is a list of pairs with distinct keys; the order of the result
    (sorted by raw key in the code) is not part of the model: outputs are compared as multisets
    of (key, value) pairs. *)
Definition build_info_labels (m : list (string * string)) : list string * list string :=
  (map (fun kv => sanitize (fst kv)) m, map snd m).

Definition pair_eqb (a b : string * string) : bool :=
  String.eqb (fst a) (fst b) && String.eqb (snd a) (snd b).

(** ** Gauge families.  A series is (family name, value, extra label pairs); every series also
    carries namespace and name of the object, modelled as the two leading label pairs. *)
Record eds_metric_view := MkEdsMV {
  ev_ns : string; ev_name : string;
  ev_created : Z;                       (* Unix seconds *)
  ev_desired : Z; ev_current : Z; ev_ready : Z; ev_available : Z; ev_uptodate : Z; ev_ignored : Z;
  ev_canary : option (string * Z);      (* canary replica set, number of canary nodes *)
  ev_canary_paused : option string;     (* first Canary-Paused condition True: its reason *)
  ev_state_paused : bool;               (* status.state = "RollingUpdate Paused" *)
  ev_state_frozen : bool                (* status.state = "Rollout frozen" *)
}.

Record series := MkSeries { s_family : string; s_value : Z; s_labels : list (string * string) }.

Definition base_labels (ns nm : string) : list (string * string) := [("namespace", ns); ("name", nm)].
Definition b2z (b : bool) : Z := if b then 1 else 0.

Definition eds_families (v : eds_metric_view) (labels : list (string * string)) : list series :=
  let bl := base_labels (ev_ns v) (ev_name v) in
  let (ks, vs) := build_info_labels labels in
  [ MkSeries "eds_labels" 1 (bl ++ combine ks vs);
    MkSeries "eds_created" (ev_created v) bl;
    MkSeries "eds_status_desired" (ev_desired v) bl;
    MkSeries "eds_status_current" (ev_current v) bl;
    MkSeries "eds_status_ready" (ev_ready v) bl;
    MkSeries "eds_status_available" (ev_available v) bl;
    MkSeries "eds_status_uptodate" (ev_uptodate v) bl;
    MkSeries "eds_status_ignored_unresponsive_nodes" (ev_ignored v) bl;
    MkSeries "eds_status_canary_activated"
             (match ev_canary v with Some _ => 1 | None => 0 end)
             (bl ++ [("replicaset", match ev_canary v with Some (rs, _) => rs | None => "" end)]);
    MkSeries "eds_status_canary_paused"
             (match ev_canary v, ev_canary_paused v with Some _, Some _ => 1 | _, _ => 0 end)
             (bl ++ match ev_canary v with
                    | Some (rs, _) =>
                        ("replicaset", rs) ::
                        match ev_canary_paused v with Some r => [("paused_reason", r)] | None => [] end
                    | None => []
                    end);
    MkSeries "eds_status_canary_node_number"
             (match ev_canary v with Some (_, n) => n | None => 0 end) bl;
    MkSeries "eds_status_rolling_update_paused" (b2z (ev_state_paused v)) bl;
    MkSeries "eds_status_rollout_frozen" (b2z (ev_state_frozen v)) bl ].

Record ers_metric_view := MkErsMV {
  rv_ns : string; rv_name : string; rv_created : Z;
  rv_desired : Z; rv_current : Z; rv_ready : Z; rv_available : Z; rv_ignored : Z;
  rv_canary_failed : bool               (* first Canary-Failed condition is True *)
}.

Definition ers_families (v : ers_metric_view) (labels : list (string * string)) : list series :=
  let bl := base_labels (rv_ns v) (rv_name v) in
  let (ks, vs) := build_info_labels labels in
  [ MkSeries "ers_labels" 1 (bl ++ combine ks vs);
    MkSeries "ers_created" (rv_created v) bl;
    MkSeries "ers_status_desired" (rv_desired v) bl;
    MkSeries "ers_status_current" (rv_current v) bl;
    MkSeries "ers_status_ready" (rv_ready v) bl;
    MkSeries "ers_status_available" (rv_available v) bl;
    MkSeries "ers_status_ignored_unresponsive_nodes" (rv_ignored v) bl;
    MkSeries "ers_status_canary_failed" (b2z (rv_canary_failed v)) bl ].

Definition series_eqb (a b : series) : bool :=
  String.eqb (s_family a) (s_family b) && (s_value a =? s_value b)%Z &&
  multiset_eqb pair_eqb (s_labels a) (s_labels b).

Definition lookup_series (fam : string) (l : list series) : option series :=
  find (fun s => String.eqb (s_family s) fam) l.
