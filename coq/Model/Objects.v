(** * Objects: the projected API objects the reconcilers read and write.

    The projection from real objects (JSON dumped by the harness) to these records is
    [tools/project.py]; what is not a field here is not observed by the model. *)
From EDS Require Export Model.Base.

Definition labels := list (name * name).   (* a Go map: distinct keys *)
Definition lookup (k : name) (m : labels) : option name := assocN k m.

(** ** Label selectors ([metav1.LabelSelector]) *)
Inductive selop := SIn | SNotIn | SExists | SDoesNotExist | SBadOp.
Record selreq := MkSelReq { sr_key : name; sr_op : selop; sr_values : list name }.
Record selector := MkSelector { sel_labels : labels; sel_exprs : list selreq }.

(** ** Node affinity terms, taints, tolerations *)
Inductive nsop := OpIn | OpNotIn | OpExists | OpDoesNotExist | OpOther.
Record nsreq := MkNsReq { rq_key : name; rq_op : nsop; rq_values : list name }.
(** A field requirement: the only node field is "metadata.name" ([fq_is_name]); any other key reads "". *)
Record freq := MkFReq { fq_is_name : bool; fq_op : nsop; fq_values : list name }.
Record nsterm := MkNsTerm { nt_exprs : list nsreq; nt_fields : list freq }.

Inductive effect := NoSchedule | NoExecute | PreferNoSchedule | EffNone | EffOther.
Definition effect_eqb (a b : effect) : bool :=
  match a, b with
  | NoSchedule, NoSchedule | NoExecute, NoExecute | PreferNoSchedule, PreferNoSchedule
  | EffNone, EffNone | EffOther, EffOther => true
  | _, _ => false
  end.
Record taint := MkTaint { ta_key : name; ta_value : name; ta_effect : effect }.
Inductive tolop := TolExists | TolEqual | TolOther.   (* "" is Equal *)
Record toleration := MkTol { tol_key : name; tol_op : tolop; tol_value : name; tol_effect : effect }.

(** ** Container resources: two maps resource-name -> milli-units *)
Definition resmap := list (name * Z).
Record resources := MkRes { res_limits : resmap; res_requests : resmap }.
Definition no_resources : resources := MkRes [] [].

(** ** Pod template (what the controllers look at) *)
Record tmpl := MkTmpl {
  t_nodesel : labels;
  t_affinity : option (list nsterm);      (* required node affinity terms, if any *)
  t_tolerations : list toleration;
  t_containers : list (name * resources); (* NoDup names (API validation) *)
  t_labels : labels                        (* template labels other than the controller's own *)
}.

(** ** Nodes *)
Inductive override := OvOk (r : resources) | OvMalformed.
Record node := MkNode {
  n_name : name;
  n_labels : labels;
  n_taints : list taint;
  n_overrides : list (name * override);   (* per container: resource annotation of THIS ExtendedDaemonSet *)
  n_nodehash : name                        (* hash of all annotations with this EDS's key prefix; 0 = none *)
}.

(** ** Pods *)
Inductive phase := Pending | Running | Succeeded | Failed | PhUnknown | PhOther.
Definition phase_eqb (a b : phase) : bool :=
  match a, b with
  | Pending, Pending | Running, Running | Succeeded, Succeeded | Failed, Failed
  | PhUnknown, PhUnknown | PhOther, PhOther => true
  | _, _ => false
  end.

(** Last termination state of a container as the code inspects it. *)
Inductive lastterm :=
| LTNone                                   (* zero ContainerState *)
| LTTerm (reason : name) (finished : time) (nonzero : bool) (* Terminated set; [nonzero] = struct <> {} *)
| LTNoTerm.                                (* non-zero state without Terminated: the code dereferences nil *)
Record cstat := MkCStat {
  cs_restarts : Z;
  cs_last : lastterm;
  cs_waiting : option name                 (* State.Waiting.Reason, interned through the reason table *)
}.

Record pod := MkPod {
  p_name : name;
  p_ns : name;
  p_labels : labels;                       (* all labels; well-known keys have fixed numbers, below *)
  p_ds_owners : list name;                 (* names of owner references of kind DaemonSet *)
  p_hash : option name;                    (* template-hash annotation *)
  p_nodehash : option name;                (* node-hash annotation *)
  p_nodename : name;                       (* spec.nodeName, 0 = "" *)
  p_affname : name;                        (* node name carried by the required affinity, 0 = none *)
  p_phase : phase;
  p_ready : bool;                          (* first Ready condition is True *)
  p_unschedulable : bool;                  (* first PodScheduled condition is False/Unschedulable *)
  p_created : time;
  p_deletion : option (time * option Z);   (* deletionTimestamp, grace period seconds *)
  p_start : option time;                   (* status.startTime *)
  p_cstats : list cstat;                   (* containers ++ init ++ ephemeral *)
  p_restart_sum : Z;                       (* sum of restartCount over status.containerStatuses only *)
  p_resources : list (name * resources)    (* spec.containers: name, resources *)
}.

(** Well-known label keys and values have fixed numbers in the harness's interning. *)
Definition K_EDS_NAME : name := 900010%N.      (* extendeddaemonset.datadoghq.com/name *)
Definition K_RS_NAME : name := 900011%N.       (* extendeddaemonsetreplicaset.datadoghq.com/name *)
Definition K_CANARY : name := 900012%N.        (* extendeddaemonsetreplicaset.datadoghq.com/canary *)
Definition K_SETTING_NAME : name := 900013%N.
Definition K_SETTING_NS : name := 900014%N.
Definition V_TRUE : name := 900020%N.          (* "true" *)
Definition p_eds_label (p : pod) : name := match lookup K_EDS_NAME (p_labels p) with Some v => v | None => no_name end.
Definition p_rs_label (p : pod) : name := match lookup K_RS_NAME (p_labels p) with Some v => v | None => no_name end.
Definition p_has_eds_label (p : pod) (e : name) : bool :=
  match lookup K_EDS_NAME (p_labels p) with Some v => N.eqb v e | None => false end.
Definition p_is_canary_labelled (p : pod) : bool :=
  match lookup K_CANARY (p_labels p) with Some v => N.eqb v V_TRUE | None => false end.
Definition p_has_canary_key (p : pod) : bool :=
  match lookup K_CANARY (p_labels p) with Some _ => true | None => false end.

(** ** Replica sets *)
Definition RS_ACTIVE : name := 1%N.
Definition RS_CANARY : name := 2%N.
Definition RS_CANARY_FAILED : name := 3%N.
Definition RS_UNKNOWN : name := 4%N.
Record ers_status := MkErsStatus {
  rs_status : name;
  rs_desired : Z; rs_current : Z; rs_ready : Z; rs_available : Z; rs_ignored : Z;
  rs_conds : list cond
}.
Record ers := MkErs {
  r_name : name; r_ns : name;
  r_eds_label : name;                      (* extendeddaemonset.datadoghq.com/name label *)
  r_owner : name;                          (* first owner reference of kind ExtendedDaemonSet, 0 = none *)
  r_hash_annot : option name;              (* templatehash annotation *)
  r_tmplgen : name;                        (* spec.templateGeneration *)
  r_tmpl : tmpl;
  r_tmpl_hash : name;                      (* hash of r_tmpl's canonical JSON, computed by the harness *)
  r_selector : option selector;
  r_created : time;
  r_deleting : bool;
  r_status : ers_status
}.

(** ** ExtendedDaemonSet *)
Record rolling := MkRolling {
  ru_max_unavailable : option intorpct;
  ru_max_sched_failure : option intorpct;
  ru_max_parallel : option Z;
  ru_interval : option dur;
  ru_increase : option intorpct
}.
Record autopause := MkAutoPause { ap_enabled : option bool; ap_max_restarts : option Z; ap_max_slow_start : option dur }.
Record autofail := MkAutoFail { af_enabled : option bool; af_max_restarts : option Z;
                                af_max_restarts_dur : option dur; af_timeout : option dur }.
Inductive vmode := VUnset | VAuto | VManual | VOtherMode.
Definition vmode_eqb (a b : vmode) : bool :=
  match a, b with VUnset, VUnset | VAuto, VAuto | VManual, VManual | VOtherMode, VOtherMode => true | _, _ => false end.
Record canary_spec := MkCanary {
  ca_replicas : option intorpct;
  ca_duration : option dur;
  ca_nodesel : option selector;
  ca_antiaffinity : list name;
  ca_autopause : option autopause;
  ca_autofail : option autofail;
  ca_norestarts : option dur;
  ca_mode : vmode
}.
Record strategy := MkStrategy { st_rolling : rolling; st_canary : option canary_spec; st_freq : option dur }.

(** Annotations of the ExtendedDaemonSet the controllers read. [A3]: absent / "true" / another value;
    for the pause key "false" is distinguished because kubectl-eds tests it. *)
Inductive a3 := AAbsent | ATrue | AFalse | AOtherVal.
Definition a3_true (a : a3) : bool := match a with ATrue => true | _ => false end.
Record eds_annots := MkAnnots {
  an_rolling_paused : a3;
  an_frozen : a3;
  an_canary_paused : a3;
  an_canary_paused_reason : option name;
  an_canary_unpaused : a3;
  an_canary_valid : option name;
  an_old_ds : option name
}.

Record canary_status := MkCanaryStatus { cs_rs : name; cs_nodes : list name }.
Definition ST_NONE : name := 0%N.
Definition ST_RUNNING : name := 1%N.
Definition ST_RU_PAUSED : name := 2%N.
Definition ST_FROZEN : name := 3%N.
Definition ST_CANARY : name := 4%N.
Definition ST_CANARY_PAUSED : name := 5%N.
Definition ST_CANARY_FAILED : name := 6%N.
Record eds_status := MkEdsStatus {
  es_desired : Z; es_current : Z; es_ready : Z; es_available : Z; es_uptodate : Z; es_ignored : Z;
  es_state : name;
  es_active : name;
  es_canary : option canary_status;
  es_reason : name;
  es_conds : list cond
}.
Record eds := MkEds {
  e_name : name; e_ns : name;
  e_annots : eds_annots;
  e_tmpl : tmpl;
  e_tmpl_hash : name;                      (* hash of spec.template's canonical JSON (harness) *)
  e_tmpl_name_set : bool;                  (* spec.template.metadata.name <> "" *)
  e_selector : option selector;
  e_strategy : strategy;
  e_status : eds_status
}.

(** ** Settings and the old DaemonSet *)
Definition SET_VALID : name := 1%N.
Definition SET_ERROR : name := 2%N.
Record setting := MkSetting {
  s_name : name; s_ns : name;
  s_ref : option name;                     (* spec.reference.name ([Some 0] = empty name), None = nil reference *)
  s_selector : selector;
  s_containers : list (name * resources);
  s_created : time;
  s_status : name;
  s_error_set : bool
}.
Record daemonset := MkDs { d_name : name; d_ns : name; d_selector : option selector }.

Definition fst3 {A B C} (x : A * B * C) : A := fst (fst x).
