(** * Fanin: the two ways the replica-set controller collects the errors of parallel pod operations.

    [n] workers run concurrently; worker [i] performs its API call and, when the call fails, adds its error to
    a shared collection.  [Atomic]: the addition is one indivisible step - a send on a buffered channel that is
    drained until it is closed after all workers are done ([createPods], [deletePods]), or an append under a
    mutex ([deletePodSlice] after the repair of D10).  [Unsync]: the addition is an unsynchronised append, i.e.
    a load of the shared slice followed by a store of the extended copy ([deletePodSlice] of the pinned tree).
    A schedule is the sequence in which the runtime lets workers take their next step. *)
From Coq Require Export List Arith Bool.
Export ListNotations.

Inductive discipline := Atomic | Unsync.

Record fstate := MkF {
  f_shared : list nat;                   (* the collection, as stored *)
  f_loaded : list (nat * list nat);      (* Unsync: workers between their load and their store, with the copy loaded *)
  f_done : list nat                      (* workers that have added their error *)
}.
Definition f_init : fstate := MkF [] [] [].

Definition mem (i : nat) (l : list nat) : bool := existsb (Nat.eqb i) l.
Fixpoint lookup_loaded (i : nat) (l : list (nat * list nat)) : option (list nat) :=
  match l with
  | [] => None
  | (j, c) :: r => if Nat.eqb i j then Some c else lookup_loaded i r
  end.

(** worker [i] takes its next step; only workers whose call failed ([fails]) have anything to do *)
Definition fstep (d : discipline) (fails : list nat) (s : fstate) (i : nat) : fstate :=
  if negb (mem i fails) || mem i (f_done s) then s
  else match d with
       | Atomic => MkF (f_shared s ++ [i]) (f_loaded s) (i :: f_done s)
       | Unsync =>
           match lookup_loaded i (f_loaded s) with
           | None => MkF (f_shared s) ((i, f_shared s) :: f_loaded s) (f_done s)        (* load *)
           | Some copy => MkF (copy ++ [i]) (f_loaded s) (i :: f_done s)                (* store *)
           end
       end.

Definition frun (d : discipline) (fails : list nat) (sched : list nat) (s : fstate) : fstate :=
  fold_left (fstep d fails) sched s.

(** every failing worker got all the steps it needs *)
Definition complete (d : discipline) (fails sched : list nat) : bool :=
  forallb (fun i => match d with
                    | Atomic => Nat.leb 1 (count_occ Nat.eq_dec sched i)
                    | Unsync => Nat.leb 2 (count_occ Nat.eq_dec sched i)
                    end) fails.
