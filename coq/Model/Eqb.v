(** * Eqb: boolean equalities on the projected objects (used to compare the model's prediction with
    what the implementation did). *)
From EDS Require Import Model.Objects Model.PodSpec Model.EdsReconcile.

Definition pairNN_eqb (a b : name * name) : bool := N.eqb (fst a) (fst b) && N.eqb (snd a) (snd b).
(** label maps are compared as sets of pairs *)
Definition labels_eqb (a b : labels) : bool := multiset_eqb pairNN_eqb a b.
Definition pairNZ_eqb (a b : name * Z) : bool := N.eqb (fst a) (fst b) && (snd a =? snd b).
Definition resmap_eqb (a b : resmap) : bool := multiset_eqb pairNZ_eqb a b.
Definition resources_eqb (a b : resources) : bool :=
  resmap_eqb (res_limits a) (res_limits b) && resmap_eqb (res_requests a) (res_requests b).
Definition container_eqb (a b : name * resources) : bool := N.eqb (fst a) (fst b) && resources_eqb (snd a) (snd b).

Definition nsop_eqb (a b : nsop) : bool :=
  match a, b with
  | OpIn, OpIn | OpNotIn, OpNotIn | OpExists, OpExists | OpDoesNotExist, OpDoesNotExist | OpOther, OpOther => true
  | _, _ => false
  end.
Definition nsreq_eqb (a b : nsreq) : bool :=
  N.eqb (rq_key a) (rq_key b) && nsop_eqb (rq_op a) (rq_op b) && list_eqb N.eqb (rq_values a) (rq_values b).
Definition freq_eqb (a b : freq) : bool :=
  Bool.eqb (fq_is_name a) (fq_is_name b) && nsop_eqb (fq_op a) (fq_op b) && list_eqb N.eqb (fq_values a) (fq_values b).
Definition nsterm_eqb (a b : nsterm) : bool :=
  list_eqb nsreq_eqb (nt_exprs a) (nt_exprs b) && list_eqb freq_eqb (nt_fields a) (nt_fields b).
Definition tolop_eqb (a b : tolop) : bool :=
  match a, b with TolExists, TolExists | TolEqual, TolEqual | TolOther, TolOther => true | _, _ => false end.
Definition toleration_eqb (a b : toleration) : bool :=
  N.eqb (tol_key a) (tol_key b) && tolop_eqb (tol_op a) (tol_op b) && N.eqb (tol_value a) (tol_value b) &&
  effect_eqb (tol_effect a) (tol_effect b).

(** the created pod, every field but the count of malformed annotations (not observable on the object) *)
Definition newpod_eqb (a b : newpod) : bool :=
  N.eqb (np_ns a) (np_ns b) && N.eqb (np_gen_prefix a) (np_gen_prefix b) &&
  N.eqb (np_rs_label a) (np_rs_label b) && N.eqb (np_eds_label a) (np_eds_label b) &&
  option_eqb pairNN_eqb (np_setting_labels a) (np_setting_labels b) &&
  N.eqb (np_hash a) (np_hash b) && N.eqb (np_nodehash a) (np_nodehash b) &&
  Bool.eqb (np_autoscaler_annot a) (np_autoscaler_annot b) &&
  list_eqb toleration_eqb (np_tolerations a) (np_tolerations b) &&
  N.eqb (np_nodename a) (np_nodename b) &&
  option_eqb (list_eqb nsterm_eqb) (np_affinity a) (np_affinity b) &&
  N.eqb (np_owner a) (np_owner b) && list_eqb container_eqb (np_resources a) (np_resources b).

Definition ers_status_eqb (a b : ers_status) : bool :=
  N.eqb (rs_status a) (rs_status b) && (rs_desired a =? rs_desired b) && (rs_current a =? rs_current b) &&
  (rs_ready a =? rs_ready b) && (rs_available a =? rs_available b) && (rs_ignored a =? rs_ignored b) &&
  list_eqb cond_eqb (rs_conds a) (rs_conds b).

Definition intorpct_eqb (a b : intorpct) : bool :=
  match a, b with
  | IntV x, IntV y => x =? y
  | PctV x, PctV y => x =? y
  | BadV, BadV => true
  | _, _ => false
  end.
Definition selop_eqb (a b : selop) : bool :=
  match a, b with
  | SIn, SIn | SNotIn, SNotIn | SExists, SExists | SDoesNotExist, SDoesNotExist | SBadOp, SBadOp => true
  | _, _ => false
  end.
Definition selreq_eqb (a b : selreq) : bool :=
  N.eqb (sr_key a) (sr_key b) && selop_eqb (sr_op a) (sr_op b) && list_eqb N.eqb (sr_values a) (sr_values b).
Definition selector_eqb (a b : selector) : bool :=
  labels_eqb (sel_labels a) (sel_labels b) && list_eqb selreq_eqb (sel_exprs a) (sel_exprs b).
Definition rolling_eqb (a b : rolling) : bool :=
  option_eqb intorpct_eqb (ru_max_unavailable a) (ru_max_unavailable b) &&
  option_eqb intorpct_eqb (ru_max_sched_failure a) (ru_max_sched_failure b) &&
  option_eqb Z.eqb (ru_max_parallel a) (ru_max_parallel b) &&
  option_eqb Z.eqb (ru_interval a) (ru_interval b) &&
  option_eqb intorpct_eqb (ru_increase a) (ru_increase b).
Definition autopause_eqb (a b : autopause) : bool :=
  option_eqb Bool.eqb (ap_enabled a) (ap_enabled b) && option_eqb Z.eqb (ap_max_restarts a) (ap_max_restarts b) &&
  option_eqb Z.eqb (ap_max_slow_start a) (ap_max_slow_start b).
Definition autofail_eqb (a b : autofail) : bool :=
  option_eqb Bool.eqb (af_enabled a) (af_enabled b) && option_eqb Z.eqb (af_max_restarts a) (af_max_restarts b) &&
  option_eqb Z.eqb (af_max_restarts_dur a) (af_max_restarts_dur b) && option_eqb Z.eqb (af_timeout a) (af_timeout b).
Definition canary_spec_eqb (a b : canary_spec) : bool :=
  option_eqb intorpct_eqb (ca_replicas a) (ca_replicas b) && option_eqb Z.eqb (ca_duration a) (ca_duration b) &&
  option_eqb selector_eqb (ca_nodesel a) (ca_nodesel b) && list_eqb N.eqb (ca_antiaffinity a) (ca_antiaffinity b) &&
  option_eqb autopause_eqb (ca_autopause a) (ca_autopause b) && option_eqb autofail_eqb (ca_autofail a) (ca_autofail b) &&
  option_eqb Z.eqb (ca_norestarts a) (ca_norestarts b) && vmode_eqb (ca_mode a) (ca_mode b).
Definition strategy_eqb (a b : strategy) : bool :=
  rolling_eqb (st_rolling a) (st_rolling b) && option_eqb canary_spec_eqb (st_canary a) (st_canary b) &&
  option_eqb Z.eqb (st_freq a) (st_freq b).

Definition new_rs_eqb (a b : new_rs) : bool :=
  N.eqb (nr_ns a) (nr_ns b) && N.eqb (nr_eds_label a) (nr_eds_label b) && N.eqb (nr_owner a) (nr_owner b) &&
  N.eqb (nr_hash_annot a) (nr_hash_annot b) && N.eqb (nr_tmplgen a) (nr_tmplgen b) &&
  N.eqb (nr_tmpl_hash a) (nr_tmpl_hash b) && option_eqb selector_eqb (nr_selector a) (nr_selector b).
