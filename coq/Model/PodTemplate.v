(** * PodTemplate: [controllers/podtemplate/controller.go] - the PodTemplate object that mirrors
    spec.template of an ExtendedDaemonSet. *)
From EDS Require Import Model.Objects.

Record podtemplate := MkPt {
  pt_name : name; pt_ns : name;
  pt_hash_annot : option name;     (* the templatehash annotation *)
  pt_tmpl_hash : name;             (* hash of its own template's canonical JSON (harness) *)
  pt_owner : name                  (* controller owner reference of kind ExtendedDaemonSet, 0 = none *)
}.

Inductive pt_write := PtCreate (p : podtemplate) | PtUpdate (p : podtemplate).

(** [newPodTemplate] *)
Definition new_podtemplate (e : eds) : podtemplate :=
  MkPt (e_name e) (e_ns e) (Some (e_tmpl_hash e)) (e_tmpl_hash e) (e_name e).

(** One reconcile: the ExtendedDaemonSet and the PodTemplate of the same name and namespace as read.
    Error 60 = the ExtendedDaemonSet does not exist. Returns the writes and whether an error is returned. *)
Definition podtemplate_sync (oe : option eds) (opt : option podtemplate) (fail : bool) : outcome (list pt_write * bool) :=
  match oe with
  | None => Error 60%N
  | Some e =>
      match opt with
      | None => Ok ([PtCreate (new_podtemplate e)], fail)
      | Some pt =>
          if option_eqb N.eqb (pt_hash_annot pt) (Some (e_tmpl_hash e)) then Ok ([], false)
          else Ok ([PtUpdate (new_podtemplate e)], fail)
      end
  end.

(** the PodTemplate after the reconcile, when its write (if any) is accepted *)
Definition pt_after (opt : option podtemplate) (ws : list pt_write) : option podtemplate :=
  match ws with
  | PtCreate p :: _ => Some p
  | PtUpdate p :: _ => Some p
  | [] => opt
  end.

(** the controller's own invariant: the annotation is the hash of the object's template *)
Definition pt_faithful (p : podtemplate) : bool :=
  option_eqb N.eqb (pt_hash_annot p) (Some (pt_tmpl_hash p)).

Definition pt_eqb (a b : podtemplate) : bool :=
  N.eqb (pt_name a) (pt_name b) && N.eqb (pt_ns a) (pt_ns b) &&
  option_eqb N.eqb (pt_hash_annot a) (pt_hash_annot b) && N.eqb (pt_tmpl_hash a) (pt_tmpl_hash b) &&
  N.eqb (pt_owner a) (pt_owner b).
Definition pt_write_eqb (a b : pt_write) : bool :=
  match a, b with
  | PtCreate x, PtCreate y | PtUpdate x, PtUpdate y => pt_eqb x y
  | _, _ => false
  end.
