(** * Default: [api/v1alpha1/extendeddaemonset_default.go] and [_validate.go]. *)
From EDS Require Import Model.Objects.

Definition or_default {A} (o : option A) (d : A) : option A := match o with Some x => Some x | None => Some d end.

Definition default_rolling (r : rolling) : rolling :=
  MkRolling (or_default (ru_max_unavailable r) (IntV 1))
            (or_default (ru_max_sched_failure r) (IntV 0))
            (or_default (ru_max_parallel r) 250)
            (or_default (ru_interval r) (1 * minute))
            (or_default (ru_increase r) (IntV 1)).

Definition default_autopause (a : autopause) : autopause :=
  MkAutoPause (or_default (ap_enabled a) true) (or_default (ap_max_restarts a) 2) (ap_max_slow_start a).
Definition default_autofail (a : autofail) : autofail :=
  MkAutoFail (or_default (af_enabled a) true) (or_default (af_max_restarts a) 5)
             (af_max_restarts_dur a) (af_timeout a).

Definition empty_selector : selector := MkSelector [] [].

(** [default_mode] is the controller-level default validation mode (a free string; the flag accepts
    auto or manual). *)
Definition default_canary (default_mode : vmode) (c : canary_spec) : canary_spec :=
  let mode := match ca_mode c with VUnset => default_mode | m => m end in
  let is_auto := vmode_eqb mode VAuto in
  MkCanary (or_default (ca_replicas c) (IntV 1))
           (match ca_duration c with None => if is_auto then Some (10 * minute) else None | d => d end)
           (or_default (ca_nodesel c) empty_selector)
           (ca_antiaffinity c)
           (Some (default_autopause (match ca_autopause c with Some a => a | None => MkAutoPause None None None end)))
           (Some (default_autofail (match ca_autofail c with Some a => a | None => MkAutoFail None None None None end)))
           (match ca_norestarts c with None => if is_auto then Some (5 * minute) else None | d => d end)
           mode.

Definition default_strategy (default_mode : vmode) (s : strategy) : strategy :=
  MkStrategy (default_rolling (st_rolling s))
             (option_map (default_canary default_mode) (st_canary s))
             (or_default (st_freq s) (10 * second)).

(** The defaulted object: the template's name is cleared, the strategy is defaulted.  Clearing a
    non-empty template name changes the canonical JSON of the template, hence its hash, to a value
    the abstraction cannot name: [no_name] stands for "some other hash" in that case. *)
Definition default_eds (default_mode : vmode) (e : eds) : eds :=
  MkEds (e_name e) (e_ns e) (e_annots e) (e_tmpl e)
        (if e_tmpl_name_set e then no_name else e_tmpl_hash e) false (e_selector e)
        (default_strategy default_mode (e_strategy e)) (e_status e).

Definition is_some {A} (o : option A) : bool := match o with Some _ => true | None => false end.

Definition is_defaulted_rolling (r : rolling) : bool :=
  is_some (ru_max_unavailable r) && is_some (ru_max_parallel r) && is_some (ru_max_sched_failure r) &&
  is_some (ru_interval r) && is_some (ru_increase r).
Definition is_defaulted_canary (c : canary_spec) : bool :=
  is_some (ca_replicas c) && negb (vmode_eqb (ca_mode c) VUnset) &&
  negb (negb (is_some (ca_duration c)) && vmode_eqb (ca_mode c) VAuto) &&
  is_some (ca_nodesel c) &&
  match ca_autopause c with Some a => is_some (ap_enabled a) && is_some (ap_max_restarts a) | None => false end &&
  match ca_autofail c with Some a => is_some (af_enabled a) && is_some (af_max_restarts a) | None => false end.
Definition is_defaulted_strategy (s : strategy) : bool :=
  is_defaulted_rolling (st_rolling s) &&
  match st_canary s with Some c => is_defaulted_canary c | None => true end &&
  is_some (st_freq s).
Definition is_defaulted (e : eds) : bool :=
  is_defaulted_strategy (e_strategy e) && negb (e_tmpl_name_set e).

(** ** Validation.  Error codes: 1 autoFail.maxRestarts below autoPause.maxRestarts; 2 canaryTimeout
    not above the duration; 3 duration in manual mode; 4 noRestartsDuration in manual mode.
    [Panic] = a nil pointer is dereferenced. *)
Definition validate_canary (c : canary_spec) : outcome unit :=
  match ca_autofail c, ca_autopause c with
  | Some af, Some ap =>
      match af_enabled af, ap_enabled ap with
      | None, _ => Panic 10%N
      | Some afe, ape =>
          (* short-circuit evaluation of  *AutoFail.Enabled && *AutoPause.Enabled && *af.Max < *ap.Max *)
          let step1 : outcome bool :=
            if afe then
              match ape with
              | None => Panic 11%N
              | Some true =>
                  match af_max_restarts af, ap_max_restarts ap with
                  | Some a, Some b => Ok (a <? b)
                  | _, _ => Panic 12%N
                  end
              | Some false => Ok false
              end
            else Ok false in
          bind step1 (fun bad1 =>
          if bad1 then Error 1%N else
          let step2 : outcome bool :=
            if afe then
              match af_timeout af with
              | None => Ok false
              | Some to =>
                  match ca_duration c with
                  | None => Ok false          (* repaired: was a nil dereference (defect D1a) *)
                  | Some d => Ok (to <=? d)
                  end
              end
            else Ok false in
          bind step2 (fun bad2 =>
          if bad2 then Error 2%N else
          if vmode_eqb (ca_mode c) VManual then
            if is_some (ca_duration c) then Error 3%N
            else if is_some (ca_norestarts c) then Error 4%N
            else Ok tt
          else Ok tt))
      end
  | _, _ => Panic 13%N
  end.

Definition validate (s : strategy) : outcome unit :=
  match st_canary s with
  | None => Ok tt
  | Some c => validate_canary c
  end.

(** The same function before the repair of D1a, kept for the [_refuted] record. *)
Definition validate_canary_before_fix (c : canary_spec) : outcome unit :=
  match ca_autofail c, ca_duration c with
  | Some af, None =>
      match af_enabled af, af_timeout af with
      | Some true, Some _ => Panic 14%N
      | _, _ => validate_canary c
      end
  | _, _ => validate_canary c
  end.
