(** * Setting: [controllers/extendeddaemonsetsetting] - validity of ExtendedDaemonsetSettings. *)
From EDS Require Import Model.Objects Model.Fitness.

(** [edsNodeByCreationTimestampAndPhase.Less]: [a] sorts before [b] - newest first, ties by descending name.
    A strict total order on settings with distinct names. *)
Definition setting_before (a b : setting) : bool :=
  if s_created a =? s_created b then N.ltb (s_name b) (s_name a) else s_created b <? s_created a.

Definition setting_matches (s : setting) (n : node) : bool :=
  strict_selector_ok (s_selector s) && strict_selector_matches (s_selector s) (n_labels n).

(** [other] takes a node away from [inst]: it sorts before it (is newer), its selector is usable and
    some node is matched by both *)
Definition conflicts_with (inst : setting) (nodes : list node) (other : setting) : bool :=
  negb (N.eqb (s_name other) (s_name inst)) && setting_before other inst &&
  existsb (fun n => setting_matches other n && setting_matches inst n) nodes.

Definition has_reference (s : setting) : bool :=
  match s_ref s with Some r => negb (N.eqb r no_name) | None => false end.

(** The status a reconcile of [inst] establishes: a function of the SPECS of the settings of its
    namespace and of the nodes - never of another setting's status.
    (after the repair of D12: an unusable selector is the error of the setting that carries it) *)
Definition setting_valid (inst : setting) (same_ns : list setting) (nodes : list node) : bool :=
  has_reference inst && strict_selector_ok (s_selector inst) &&
  negb (existsb (conflicts_with inst nodes) same_ns).

Definition settings_of_ns (ns : name) (all : list setting) : list setting :=
  filter (fun s => N.eqb (s_ns s) ns) all.

(** one reconcile: the (status, error set) pair it leaves on the object.  [fail_settings] / [fail_nodes]: the List of
    the settings / of the nodes fails.  Without the list of settings no verdict is possible: the phase is left as it
    was (and the error text cleared); without the nodes the setting is put in error. *)
Definition setting_sync (inst : setting) (all : list setting) (nodes : list node) (fail_settings fail_nodes : bool)
  : name * bool :=
  if negb (has_reference inst) then (SET_ERROR, true)
  else if fail_settings then (s_status inst, false)
  else if fail_nodes then (SET_ERROR, true)
  else if setting_valid inst (settings_of_ns (s_ns inst) all) nodes then (SET_VALID, false) else (SET_ERROR, true).
