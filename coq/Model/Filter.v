(** * Filter: [FilterAndMapPodsByNode] and [FilterPodsByNode] ([filters.go]). *)
From EDS Require Import Model.Objects Model.Fitness Model.PodSpec Model.Backoff.

(** [sortPodByNodeName.Less]: scheduled pods first, then oldest, then by name. A strict total
    order on pods with distinct names. *)
Definition pod_lt (a b : pod) : bool :=
  let sa := pod_scheduled a in let sb := pod_scheduled b in
  if sa && negb sb then true
  else if negb sa && sb then false
  else if p_created a =? p_created b then N.ltb (p_name a) (p_name b)
  else p_created a <? p_created b.

Fixpoint best_pod (best : pod) (l : list pod) : pod :=
  match l with
  | [] => best
  | x :: r => if pod_lt x best then best_pod x r else best_pod best r
  end.

Definition pod_name_eqb (a b : pod) : bool := N.eqb (p_name a) (p_name b).

Record filter_out := MkFilterOut {
  fo_by_node : list (name * option pod);  (* one entry per eligible, non-ignored node: the pod kept *)
  fo_cleanup : list pod;                  (* pods to delete: Failed, on ineligible nodes, duplicates *)
  fo_unscheduled : list pod;
  fo_backoff : backoff
}.

(** Eligible, non-ignored nodes in list order. *)
Definition eligible_nodes (rs : ers) (nodes : list node) (ignore : list name) : list name :=
  map n_name (filter (fun n => negb (memN (n_name n) ignore) && fit (r_tmpl rs) n) nodes).

Record scan := MkScan {
  sc_counted : list (name * pod);         (* (node, pod) pairs entering duplicate resolution, in pod order *)
  sc_cleanup : list pod;
  sc_unsched : list pod;
  sc_bo : backoff
}.

Definition scan_pod (rs : ers) (elig ignore : list name) (now : time) (s : scan) (p : pod) : scan :=
  match node_of_pod p with
  | None => s
  | Some nn =>
      if phase_eqb (p_phase p) PhUnknown then s
      else if memN nn elig then
        let '(del, bo') :=
          if phase_eqb (p_phase p) Failed then should_delete_failed (r_name rs, nn) now (sc_bo s)
          else (false, sc_bo s) in
        if del then MkScan (sc_counted s) (sc_cleanup s ++ [p]) (sc_unsched s) bo'
        else MkScan (sc_counted s ++ [(nn, p)]) (sc_cleanup s)
                    (if pod_scheduled p then sc_unsched s else sc_unsched s ++ [p]) bo'
      else if memN nn ignore then s
      else if pod_terminating p then s
      else MkScan (sc_counted s) (sc_cleanup s ++ [p]) (sc_unsched s) (sc_bo s)
  end.

Definition pods_on (nn : name) (counted : list (name * pod)) : list pod :=
  map snd (filter (fun np => N.eqb (fst np) nn) counted).

Definition kept_pod (ps : list pod) : option pod :=
  match ps with [] => None | x :: r => Some (best_pod x r) end.

Fixpoint remove_first_pod (k : pod) (l : list pod) : list pod :=
  match l with
  | [] => []
  | x :: r => if pod_name_eqb x k then r else x :: remove_first_pod k r
  end.
Definition duplicates_of (ps : list pod) : list pod :=
  match kept_pod ps with
  | None => []
  | Some k => remove_first_pod k ps
  end.

Definition filter_and_map (rs : ers) (nodes : list node) (pods : list pod) (ignore : list name)
           (now : time) (bo : backoff) : filter_out :=
  let elig := eligible_nodes rs nodes ignore in
  let s := fold_left (scan_pod rs elig ignore now) pods (MkScan [] [] [] bo) in
  let uniq := dedupN elig in
  MkFilterOut
    (map (fun nn => (nn, kept_pod (pods_on nn (sc_counted s)))) uniq)
    (sc_cleanup s ++ flat_map (fun nn => duplicates_of (pods_on nn (sc_counted s))) uniq)
    (sc_unsched s)
    (sc_bo s).
