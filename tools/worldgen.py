"""Random worlds (stores + operations) for the reconcile-level correspondence cases.  Structured,
mostly-valid inputs; every random choice comes from the rng passed in."""
import json

import k8s as K
import project as P

NS = "ns1"
# quantities as users write them: canonical and not (the API server stores a custom resource's text verbatim)
CPUS = ["1", "500m", "2", "0.5", "1000m", "5e-1", "2000m"]
MEMS = ["64Mi", "128Mi", "0.125Gi", "131072Ki"]
EDS = "foo"

TAINTS = [
    None, None, None, None,
    {"key": "dedicated", "value": "db", "effect": "NoSchedule"},
    {"key": "dedicated", "value": "gpu", "effect": "NoExecute"},
    {"key": "soft", "value": "x", "effect": "PreferNoSchedule"},
    {"key": "node.kubernetes.io/not-ready", "effect": "NoExecute"},
    {"key": "node.kubernetes.io/unschedulable", "effect": "NoSchedule"},
]
TOLS = [
    [], [], [],
    [{"key": "dedicated", "operator": "Equal", "value": "db", "effect": "NoSchedule"}],
    [{"key": "dedicated", "operator": "Exists"}],
    [{"operator": "Exists"}],
    [{"key": "dedicated", "value": "gpu"}],
]
WAITING = ["ErrImagePull", "ImagePullBackOff", "CreateContainerConfigError", "ContainerCreating", "PodInitializing",
           "CrashLoopBackOff", "PostStartHookError", "InvalidImageName"]


def pick_iop(rng, n):
    return rng.choice([0, 1, 1, 2, 3, n, n + 1, "1%", "25%", "50%", "100%", "150%", "10", -1, "abc", "-10%"])


def gen_template(rng, variant=1, containers=("main",)):
    nodesel = rng.choice([None, None, {"role": "w"}])
    terms = None
    r = rng.random()
    if r < 0.15:
        terms = [{"matchExpressions": [{"key": "zone", "operator": rng.choice(["In", "NotIn"]), "values": ["a"]}]}]
    elif r < 0.22:
        terms = [{"matchExpressions": [{"key": "zone", "operator": "Exists"}]},
                 {"matchFields": [{"key": "metadata.name", "operator": "In", "values": ["n1"]}]}]
    elif r < 0.26:
        terms = rng.choice([[], [{}], [{"matchExpressions": [{"key": "zone", "operator": "In", "values": []}]}],
                            [{"matchExpressions": [{"key": "zone", "operator": "DoesNotExist"}]}],
                            [{"matchFields": [{"key": "metadata.name", "operator": "NotIn", "values": ["n0"]}]}]])
    elif r < 0.33:
        # a template that excludes (or names) nodes by metadata.name: the pin to the pod's own node replaces such a requirement
        terms = [{"matchFields": [{"key": "metadata.name", "operator": rng.choice(["NotIn", "NotIn", "In"]),
                                   "values": [rng.choice(["n0", "n1", "n9"])]}]}]
        if rng.random() < 0.4:
            terms[0]["matchExpressions"] = [{"key": "zone", "operator": "Exists"}]
    res = {}
    if rng.random() < 0.3:
        res = {containers[0]: {"limits": {"cpu": "500m"}, "requests": {"memory": "64Mi"}}}
    # an affinity block that carries no required term (preferences only, or empty) next to a node selector
    pref = rng.choice(["preferred", "preferred", "empty"]) if terms is None and rng.random() < 0.12 else False
    if pref and nodesel is None:
        nodesel = {"role": "w"}
    # annotations on the template: part of its identity (two templates may differ in nothing else)
    annots = rng.choice([None, None, None, {"checksum/config": "v%d" % variant}, {"checksum/config": "same"}])
    t = K.template(containers=containers, image="img:%d" % variant, node_selector=nodesel, terms=terms,
                   tolerations=rng.choice(TOLS), resources=res, labels=template_labels(rng), annotations=annots,
                   preferred_only=pref)
    if rng.random() < 0.06:
        # a namespace on the pod template (the schema allows it): the pods still go to the replica set's namespace
        t["metadata"]["namespace"] = rng.choice(["ns2", "ns9"])
    return t


def template_labels(rng):
    """the labels of a pod template: now and then a manifest copied from a live pod, still carrying the controller's own
    linking labels (of another ExtendedDaemonSet) - the controller's values have to win"""
    labels = {"app": "agent"}
    if rng.random() < 0.12:
        if rng.random() < 0.8:
            labels["extendeddaemonset.datadoghq.com/name"] = rng.choice(["bar", "other", ""])
        if rng.random() < 0.6:
            labels["extendeddaemonsetreplicaset.datadoghq.com/name"] = rng.choice(["bar-abcde", "foo-a", "zzz"])
    return labels


def gen_nodes(rng, n, eds_ns=NS, eds_name=EDS, containers=("main",)):
    nodes = []
    for i in range(n):
        labels = {"role": rng.choice(["w", "w", "w", "x"]), "zone": rng.choice(["a", "b"])}
        if rng.random() < 0.15:
            del labels["zone"]
        if rng.random() < 0.3:
            labels["big"] = "yes"
        taint = rng.choice(TAINTS)
        ann = {}
        r = rng.random()
        if r < 0.12:
            ann["%s%s.%s.%s" % (P.RES_PREFIX, eds_ns, eds_name, containers[0])] = json.dumps({"limits": {"cpu": rng.choice(["1", "500m", "0.5", "1000m"])}})
        elif r < 0.16:
            ann["%s%s.%s.%s" % (P.RES_PREFIX, eds_ns, eds_name, containers[0])] = "{not json"
        elif r < 0.2:
            ann["%s%s.%s.%s" % (P.RES_PREFIX, eds_ns, eds_name + ".bar", "main")] = json.dumps({"limits": {"cpu": "2"}})
        elif r < 0.23:
            ann["%s%s.%s.%s" % (P.RES_PREFIX, "other", eds_name, "main")] = json.dumps({"limits": {"cpu": "2"}})
        taints = [taint] if taint else None
        if rng.random() < 0.12:
            # two taints, in either order: a tolerated one does not make up for an untolerated one
            taints = rng.sample([t for t in TAINTS if t], 2)
        nodes.append(K.node("n%d" % i, labels=labels, taints=taints, annotations=ann or None))
    return nodes


POD_CLASSES = ["none", "none", "uptodate_ready", "uptodate_ready", "uptodate_notready", "old_ready", "old_ready", "old_notready",
               "old_terminating", "stuck_unscheduled", "stuck_terminating", "failed", "unknown", "dup", "foreign_hash",
               "uptodate_terminating", "pending_unschedulable", "succeeded"]


def gen_cstats(rng, allow_bad=False):
    cs = []
    r = rng.random()
    if r < 0.5:
        cs.append(K.container_status("main", restarts=0))
    elif r < 0.8:
        n = rng.choice([1, 2, 3, 5, 6, 7])
        cs.append(K.container_status("main", restarts=n, last_reason=rng.choice(["", "Error", "OOMKilled", "CrashLoopBackOff"]) or None,
                                     last_finished=rng.choice([-500, -120, -30, -1])))
    else:
        cs.append(K.container_status("main", restarts=rng.choice([0, 0, 3]), waiting=rng.choice(WAITING),
                                     last_finished=rng.choice([None, -60])))
    return cs


def gen_pods_for_node(rng, node_name, k, rs_name, other_rs, affinity_mode, nodehash_of=None, eds_name=EDS, ns=NS, counter=[0]):
    """pods of one node for the given class"""
    def mk(suffix, **kw):
        counter[0] += 1
        kw.setdefault("eds_name", eds_name)
        kw.setdefault("affinity_mode", affinity_mode)
        nh = nodehash_of(node_name) if nodehash_of else ""
        if nh and rng.random() < 0.85:
            kw.setdefault("nodehash", nh)
        return K.pod(ns, "p-%s-%s%d" % (node_name, suffix, counter[0]), node=node_name, **kw)
    up = dict(rs_name=rs_name, hash_value="@HASH:" + rs_name)
    old = dict(rs_name=other_rs, hash_value="@HASH:" + other_rs) if other_rs else dict(rs_name="foo-gone", hash_value="deadbeef")
    if k == "none":
        return []
    if k == "uptodate_ready":
        return [mk("u", cstats=gen_cstats(rng), **up)]
    if k == "uptodate_notready":
        # (a pod that is scheduled and slow to start - a long image pull - may stay Pending well beyond ten minutes: it is
        # unavailable, not stuck)
        ph = rng.choice(["Running", "Pending", "Pending"])
        return [mk("u", ready=False, phase=ph, created=rng.choice([-100, -601, -1200, -3000]) if ph == "Pending" else -300, cstats=gen_cstats(rng), **up)]
    if k == "old_ready":
        return [mk("o", **old)]
    if k == "old_notready":
        return [mk("o", ready=False, **old)]
    if k == "old_terminating":
        return [mk("o", deleting=rng.choice([-5, -40]), grace=rng.choice([30, None]), ready=rng.random() < 0.5, **old)]
    if k == "uptodate_terminating":
        return [mk("u", deleting=-5, grace=30, **up)]
    if k == "stuck_unscheduled":
        return [mk("s", affinity_mode=True, created=rng.choice([-601, -1200]), phase="Pending", ready=False, start=None, **rng.choice([up, old]))]
    if k == "pending_unschedulable":
        return [mk("s", affinity_mode=True, created=rng.choice([-30, -599, -600]), phase="Pending", ready=False, start=None, unschedulable=True, **rng.choice([up, old]))]
    if k == "stuck_terminating":
        return [mk("s", deleting=-100, grace=rng.choice([30, 99, 100]), ready=False, **rng.choice([up, old]))]
    if k == "failed":
        return [mk("f", phase="Failed", ready=False, **rng.choice([up, old]))] + (gen_pods_for_node(rng, node_name, rng.choice(["none", "uptodate_ready", "failed"]), rs_name, other_rs, affinity_mode, nodehash_of, eds_name, ns) if rng.random() < 0.4 else [])
    if k == "unknown":
        return [mk("k", phase="Unknown", ready=False, **rng.choice([up, old]))] + (gen_pods_for_node(rng, node_name, rng.choice(["none", "uptodate_ready"]), rs_name, other_rs, affinity_mode, nodehash_of, eds_name, ns) if rng.random() < 0.4 else [])
    if k == "succeeded":
        return [mk("z", phase="Succeeded", ready=False, **up)]
    if k == "foreign_hash":
        return [mk("x", rs_name="foo-gone", hash_value="deadbeef", ready=rng.random() < 0.7)]
    if k == "dup":
        out = []
        for j in range(rng.choice([2, 2, 3])):
            kw = dict(rng.choice([up, old]))
            out.append(mk("d", created=rng.choice([-300, -300, -200, -400]), affinity_mode=rng.random() < 0.3 or affinity_mode,
                          ready=rng.random() < 0.7, **kw))
        return out
    raise ValueError(k)


def gen_rs_conditions(rng, role, now=0, freq=10):
    conds = []
    if rng.random() < 0.8:
        conds.append(K.cond("LastFullSync", "True", trans=-3000, update=rng.choice([-freq - 5, -freq, -freq + 1, -1, -100, -freq - 1])))
    if role == "active":
        r = rng.random()
        if r < 0.6:
            conds.append(K.cond("Active", "True", trans=rng.choice([-3000, -299, -300, -301, -61, -60, -59, -10, 0])))
        elif r < 0.75:
            conds.append(K.cond("Active", "False", trans=-100))
        if rng.random() < 0.3:
            conds.append(K.cond("Canary", rng.choice(["True", "False"]), trans=-700))
        if rng.random() < 0.15:
            conds.append(K.cond("Canary-Failed", rng.choice(["True", "False"]), trans=-700, reason="Unknown"))
        if rng.random() < 0.2:
            # left over from the time this replica set was a (paused) canary: promoted by validation while paused
            conds.append(K.cond("Canary-Paused", rng.choice(["True", "True", "False"]), trans=-650,
                                reason=rng.choice(["CrashLoopBackOff", "ImagePullBackOff", "Unknown"])))
    if role not in ("active", "canary"):
        # just superseded: the conditions of its former role are still there
        if rng.random() < 0.35:
            conds.append(K.cond("Active", "True", trans=rng.choice([-3000, -300, -61])))
        elif rng.random() < 0.2:
            conds.append(K.cond("Canary", "True", trans=rng.choice([-600, -30])))
    if role not in ("active", "canary") and rng.random() < 0.35:
        conds.append(K.cond("Canary-Failed", rng.choice(["True", "True", "False"]), trans=rng.choice([-20, -121, -700]), reason="CrashLoopBackOff"))
        if rng.random() < 0.5:
            conds.append(K.cond("Canary-Paused", rng.choice(["True", "False"]), trans=-30, reason="ImagePullBackOff"))
    if role == "canary":
        if rng.random() < 0.7:
            conds.append(K.cond("Canary", "True", trans=rng.choice([-30, -600, -601, -3000])))
        r = rng.random()
        if r < 0.2:
            conds.append(K.cond("Canary-Paused", "True", trans=-20, reason=rng.choice(["CrashLoopBackOff", "ImagePullBackOff", "Unknown"])))
        elif r < 0.3:
            conds.append(K.cond("Canary-Paused", "False", trans=-20))
        r = rng.random()
        if r < 0.12:
            conds.append(K.cond("Canary-Failed", "True", trans=rng.choice([-20, -119, -120, -121]), reason="CrashLoopBackOff"))
        elif r < 0.2:
            conds.append(K.cond("Canary-Failed", "False", trans=-20))
        if rng.random() < 0.3:
            conds.append(K.cond("PodRestarting", "True", trans=rng.choice([-400, -100]), update=rng.choice([-90, -40, -2]), reason=""))
        if rng.random() < 0.2:
            conds.append(K.cond("PodCannotStart", rng.choice(["True", "False"]), trans=-50, reason="ImagePullBackOff"))
    if rng.random() < 0.25:
        conds.append(K.cond("PodCreation", "True", trans=-500, update=rng.choice([-freq - 1, -freq, -freq + 1, -400])))
        if rng.random() < 0.8:
            conds.append(K.cond("PodDeletion", "True", trans=-500, update=rng.choice([-freq - 1, -freq, -freq + 1, -400])))
    elif rng.random() < 0.2:
        conds.append(K.cond("PodDeletion", "True", trans=-500, update=rng.choice([-freq - 1, -freq, -freq + 1, -400])))
    if rng.random() < 0.2:
        conds.append(K.cond("ReconcileError", rng.choice(["True", "False"]), trans=-50))
    if rng.random() < 0.2:
        conds.append(K.cond("Unschedule", rng.choice(["True", "False"]), trans=-50))
    if rng.random() < 0.15:
        conds.append(K.cond("PodsCleanupDone", rng.choice(["True", "False"]), trans=-50))
    rng.shuffle(conds)
    return conds


def open_gates(conds, force):
    """drops the time gates (recent full sync / creation / deletion) when the generator asks for it"""
    if not force.get("open_gates"):
        return conds
    return [c for c in conds if c["type"] not in ("LastFullSync", "PodCreation", "PodDeletion")]


def gen_strategy(rng, n, canary):
    freq = rng.choice([10, 10, 10, 1, 60, 0])
    s = K.default_strategy(canary=canary, freq=freq, max_unavailable=pick_iop(rng, n) if rng.random() < 0.7 else 1,
                           max_sched_failure=rng.choice([0, 0, 1, 2, "50%", n]),
                           max_parallel=rng.choice([250, 250, 1, 2, 0, 3]), interval=rng.choice([60, 60, 1, 30, 0, 3600]),
                           increase=rng.choice([1, 1, 2, 5, "100%", "50%", "1%", 0]))
    return s, freq


def gen_canary_spec(rng):
    return K.default_canary(replicas=rng.choice([1, 1, 2, 3, "50%", "100%"]), duration=rng.choice([600, 60, 10, None]),
                            mode=rng.choice(["auto", "auto", "manual"]), no_restarts=rng.choice([300, 30, None]),
                            ap_enabled=rng.random() < 0.8, ap_max=rng.choice([2, 2, 0, 3]), af_enabled=rng.random() < 0.8,
                            af_max=rng.choice([5, 5, 2, 6]), max_slow=rng.choice([None, None, 60, 290, 300]),
                            restarts_dur=rng.choice([None, None, 30, 50, 60]), timeout=rng.choice([None, None, 700, 599, 600, 25]))


def gen_eds_annotations(rng, role_canary):
    ann = {}
    if rng.random() < 0.15:
        ann[P.A_RU_PAUSED] = rng.choice(["true", "true", "false", "yes"])
    if rng.random() < 0.12:
        ann[P.A_FROZEN] = rng.choice(["true", "true", "false"])
    if role_canary:
        if rng.random() < 0.25:
            ann[P.A_PAUSED] = rng.choice(["true", "true", "false"])
            if rng.random() < 0.5:
                ann[P.A_PAUSED_REASON] = rng.choice(["CrashLoopBackOff", "because"])
        if rng.random() < 0.2:
            ann[P.A_UNPAUSED] = rng.choice(["true", "true", "false"])
        if rng.random() < 0.15:
            ann[P.A_VALID] = rng.choice(["foo-b", "foo-a", "foo-zz"])
    return ann


def gen_ers_world(rng, stats=None, force=None):
    """a store and ONE replica-set reconcile (sometimes two, to exercise the back-off memory).
    `force` pins parts of the world for the property-specific generators: scenario, n, classes (pod classes
    to draw from), open_gates (no recent LastFullSync/PodCreation/PodDeletion), strategy (dict of overrides),
    no_faults, annotations (dict), canary (dict of overrides of the canary spec)."""
    force = force or {}
    n = force.get("n", rng.choice([0, 1, 2, 3, 4, 4, 5, 6, 8, 10]))
    affinity_mode = rng.random() < 0.4
    scenario = force.get("scenario") or rng.choice(["active", "active", "active", "canary", "canary", "active_with_canary", "unknown", "unknown_leftover"])
    conts = tuple(force.get("containers") or ("main",))
    tplA, tplB = gen_template(rng, 1, conts), gen_template(rng, 2, conts)
    role_canary = scenario in ("canary", "active_with_canary")
    canary = gen_canary_spec(rng) if (role_canary or rng.random() < 0.3) else None
    if canary is not None and force.get("canary"):
        K.override_canary(canary, force["canary"])
    strat, freq = gen_strategy(rng, n, canary)
    if force.get("strategy"):
        freq = K.override_strategy(strat, force["strategy"], freq)
    nodes = gen_nodes(rng, n, containers=conts)
    if force.get("rich_resources"):
        # more override annotations: per container, well-formed / malformed, limits and requests
        for nd in nodes:
            for cname in conts:
                r = rng.random()
                key = "%s%s.%s.%s" % (P.RES_PREFIX, NS, EDS, cname)
                if r < 0.25:
                    nd["metadata"].setdefault("annotations", {})[key] = json.dumps(
                        {"limits": {"cpu": rng.choice(CPUS)}, "requests": {"memory": rng.choice(MEMS)}})
                elif r < 0.32:
                    nd["metadata"].setdefault("annotations", {})[key] = rng.choice(["{not json", "[]", "\"x\""])
    node_names = [x["metadata"]["name"] for x in nodes]
    ann = gen_eds_annotations(rng, role_canary)
    if "annotations" in force:
        ann = dict(force["annotations"])
    objs = list(nodes)
    canary_nodes = []
    if role_canary:
        k = force.get("canary_k", rng.choice([0, 1, 1, 2, 3]))
        canary_nodes = rng.sample(node_names, min(k, len(node_names)))
        if rng.random() < 0.15:
            canary_nodes.append("n-gone")
        if rng.random() < 0.05 and canary_nodes:
            canary_nodes.append(canary_nodes[0])
    if scenario in ("active", "active_with_canary"):
        target, other = "foo-a", ("foo-b" if scenario == "active_with_canary" or rng.random() < 0.5 else None)
        role = "active"
    elif scenario == "canary":
        target, other, role = "foo-b", "foo-a", "canary"
    else:
        target, other, role = "foo-z", "foo-a", "unknown"
    est = K.eds_status(active="foo-a" if scenario != "unknown" or rng.random() < 0.7 else "", desired=n, current=n, ready=n, available=n,
                       uptodate=n, state="Running",
                       canary={"replicaSet": "foo-b", "nodes": canary_nodes} if role_canary or (scenario == "unknown_leftover" and rng.random() < 0.5) else None)
    eds_tpl = tplB if role_canary else tplA
    selector = None
    if rng.random() < 0.15:
        selector = rng.choice([{"matchLabels": {"role": "w"}}, {"matchExpressions": [{"key": "zone", "operator": "Exists"}]},
                               {"matchExpressions": [{"key": "zone", "operator": "Bogus", "values": ["a"]}]},
                               {"matchExpressions": [{"key": "zone", "operator": "In", "values": []}]}])
    e = K.eds(NS, EDS, eds_tpl, strategy=strat, annotations=ann, status=est, selector=selector)
    if rng.random() < 0.04:
        del e["spec"]["strategy"]["reconcileFrequency"]     # not defaulted
    objs.append(e)
    rs_objs = {}
    for nm, tpl in (("foo-a", tplA), ("foo-b", tplB), ("foo-z", gen_template(rng, 3, conts))):
        if nm == target or nm == other or rng.random() < 0.3:
            r_role = "active" if nm == "foo-a" else ("canary" if nm == "foo-b" and role_canary else "unknown")
            # the role string stored by the last sync: mostly the present role, sometimes none yet, sometimes the role the
            # replica set had before the ExtendedDaemonSet's status changed (just promoted, just superseded)
            stored_role = rng.choice([r_role] * 7 + [""] + [x for x in ("active", "canary", "unknown", "canary-failed") if x != r_role][:2])
            st = K.ers_status(status=stored_role, desired=rng.randint(0, n), current=rng.randint(0, n),
                              ready=rng.randint(0, n), available=rng.randint(0, n),
                              conditions=open_gates(gen_rs_conditions(rng, r_role, freq=freq), force) if nm == target else None)
            rs_objs[nm] = K.ers(NS, nm, EDS, tpl, created=rng.choice([-3000, -700, -600, -599, -30]), status=st, selector=selector)
            if rng.random() < 0.03 and nm == target:
                del rs_objs[nm]["metadata"]["ownerReferences"]
            objs.append(rs_objs[nm])
    containers = ["main"]
    # settings
    sets = []
    if rng.random() < (0.8 if force.get("rich_resources") else 0.3):
        for j in range(rng.choice([1, 1, 2])):
            entries = [(cname, {"limits": {"cpu": rng.choice(CPUS)}, "requests": {"memory": rng.choice(["128Mi", "128Mi", "0.125Gi"])}})
                       for cname in conts if cname == conts[0] or rng.random() < 0.5]
            if rng.random() < 0.35:
                # a setting that fills only one of the two resource lists: the other is then EMPTY on the pod (the setting
                # replaces the container's resources as a whole), not inherited from the template
                drop = rng.choice(["limits", "requests"])
                for _, r_ in entries:
                    r_.pop(drop, None)
            sets.append(K.setting(NS, "set%d" % j, rng.choice([EDS, EDS, EDS, "other", None]),
                                  rng.choice([{"matchLabels": {"big": "yes"}}, {"matchLabels": {"zone": "a"}},
                                              {"matchExpressions": [{"key": "big", "operator": "In", "values": []}]},
                                              {"matchLabels": {"zone": "not a label value"}}]),
                                  entries,
                                  status=rng.choice(["valid", "valid", "valid", "error", ""]), created=-1000 - j))
        objs += sets

    def nodehash_of(node_name):
        nd = [x for x in nodes if x["metadata"]["name"] == node_name]
        return P.node_hash(nd[0]["metadata"].get("annotations"), NS, EDS) if nd else ""
    classes = {}
    node_class = {}
    for nn in node_names + (["n-gone"] if rng.random() < 0.2 else []):
        k = rng.choice(force.get("classes") or POD_CLASSES)
        classes[k] = classes.get(k, 0) + 1
        node_class[nn] = k
        pods = gen_pods_for_node(rng, nn, k, target, other if other in rs_objs else None, affinity_mode, nodehash_of)
        if len(conts) > 1:
            for p in pods:
                p["spec"]["containers"] = [{"name": cname, "image": "img:1", "resources": {}} for cname in conts]
        # pods of a setting: give some pods the setting's resources
        for p in pods:
            if sets and rng.random() < 0.5:
                p["spec"]["containers"][0]["resources"] = {"limits": {"cpu": rng.choice(["1", "500m"])}, "requests": {"memory": "128Mi"}}
            if rng.random() < 0.1 and p["metadata"]["labels"].get(P.K_RS) == target:
                p["metadata"]["labels"][P.K_CANARY] = "true"
        objs += pods
    # a foreign pod with no EDS label, a pod of another namespace carrying the label
    if rng.random() < 0.2 and node_names:
        objs.append(K.pod(NS, "stranger", node=rng.choice(node_names), labels={"app": "x"}))
    if rng.random() < 0.2 and node_names:
        objs.append(K.pod("ns2", "twin", eds_name=EDS, rs_name=target, hash_value="@HASH:" + target, node=rng.choice(node_names)))
    if force.get("old_ds"):
        # migration: nodes without a pod of the ExtendedDaemonSet still run the old DaemonSet's pod
        e["metadata"].setdefault("annotations", {})[P.A_OLD_DS] = "legacy"
        objs.append(K.daemonset(NS, "legacy", selector=rng.choice([{"matchLabels": {"ds": "legacy"}}, None])))
        for nn in node_names:
            if node_class.get(nn) == "none" and rng.random() < 0.8:
                # mostly the old DaemonSet's own pods; also pods that merely look like them: owned by a workload of another
                # kind with the same name, by another DaemonSet, by nobody, or referencing the DaemonSet without controller flag
                owner = rng.choice(["legacy"] * 6 + [("DaemonSet", "legacy", False), ("StatefulSet", "legacy", True),
                                                     ("ReplicaSet", "legacy", True), ("DaemonSet", "other", True), None])
                if stats is not None:
                    stats.setdefault("old-daemonset pod owners", {})
                    kk = "DaemonSet legacy (controller)" if owner == "legacy" else str(owner)
                    stats["old-daemonset pod owners"][kk] = stats["old-daemonset pod owners"].get(kk, 0) + 1
                objs.append(K.pod(NS, "legacy-" + nn, node=nn, labels={"ds": "legacy"}, ds_owner=owner, ready=rng.random() < 0.6))
    elif rng.random() < 0.08:
        e["metadata"].setdefault("annotations", {})[P.A_OLD_DS] = "legacy"
        if rng.random() < 0.8:
            objs.append(K.daemonset(NS, "legacy", selector=rng.choice([{"matchLabels": {"ds": "legacy"}}, None])))
        for nn in node_names[:2]:
            objs.append(K.pod(NS, "legacy-" + nn, node=nn, labels={"ds": "legacy"}, ds_owner="legacy", ready=rng.random() < 0.7))
    ops = []
    faults = None
    if rng.random() < force.get("fault_rate", 0.12) and not force.get("no_faults"):
        faults = {}
        if rng.random() < 0.5 and node_names:
            faults["create_nodes"] = rng.sample(node_names, rng.randint(1, len(node_names)))
        if rng.random() < 0.5:
            pods_names = [o["metadata"]["name"] for o in objs if o["kind"] == "Pod"]
            if pods_names:
                faults["delete_pods"] = rng.sample(pods_names, rng.randint(1, len(pods_names)))
        if rng.random() < 0.2:
            faults["status"] = True
        if rng.random() < 0.15:
            faults["list_fail"] = [rng.choice(["Node", "Pod", "ExtendedDaemonsetSetting"])]
        if P.A_OLD_DS in (e["metadata"].get("annotations") or {}) and rng.random() < 0.4:
            faults["get_fail"] = ["DaemonSet"]      # the old DaemonSet of the migration cannot be read
        if rng.random() < 0.2:
            faults["patch_pods"] = ["*"]
            pods_names = [o["metadata"]["name"] for o in objs if o["kind"] == "Pod"]
            faults["patch_pods"] = pods_names
    ops.append(K.reconcile("ers", NS, target, faults))
    if rng.random() < 0.3:
        ops.append(K.sleep(rng.choice([1, 5, 10, 11, 20, 60, 1900])))
        ops.append(K.reconcile("ers", NS, target))
    if stats is not None:
        stats.setdefault("scenarios", {})
        stats["scenarios"][scenario] = stats["scenarios"].get(scenario, 0) + 1
        stats.setdefault("nodes", {})
        stats["nodes"][str(n)] = stats["nodes"].get(str(n), 0) + 1
        stats.setdefault("node_classes", {})
        for k, v in classes.items():
            stats["node_classes"][k] = stats["node_classes"].get(k, 0) + v
    return {"kind": "world", "objects": objs, "ops": ops, "options": {"affinity": affinity_mode, "default_mode": "auto", "list_order": 1 if rng.random() < 0.3 else 0}}


def gen_eds_world(rng, stats=None, force=None):
    """a store and one to three reconciles of the ExtendedDaemonSet. `force`: scenario, n, annotations (dict),
    canary (overrides), no_faults, plain_templates (templates every node is eligible for)."""
    force = force or {}
    n = force.get("n", rng.choice([0, 1, 2, 3, 4, 5, 6, 8, 10, 12]))
    tplA, tplB, tplC = gen_template(rng, 1), gen_template(rng, 2), gen_template(rng, 3)
    if rng.random() < 0.15:
        # B is A with another annotation on the pod template and nothing else: a template of its own
        import copy
        tplB = copy.deepcopy(tplA)
        tplB["metadata"]["annotations"] = dict(tplB["metadata"].get("annotations") or {}, **{"checksum/config": "b"})
    if force.get("plain_templates"):
        tplA, tplB, tplC = K.template(image="img:1"), K.template(image="img:2"), K.template(image="img:3")
    scenario = force.get("scenario") or rng.choice(["fresh", "undefaulted", "steady", "steady", "new_template", "canary_running", "canary_running",
                           "canary_running", "canary_failed", "canary_failed", "active_missing", "many_rs", "no_canary_update"])
    has_canary = scenario in ("canary_running", "canary_failed") or rng.random() < 0.4
    if scenario == "no_canary_update":
        has_canary = False
    canary = gen_canary_spec(rng) if has_canary else None
    if canary is not None and force.get("canary"):
        K.override_canary(canary, force["canary"])
    if canary is not None and rng.random() < 0.25 and not force.get("canary"):
        canary["nodeSelector"] = rng.choice([{"matchLabels": {"role": "w"}}, {"matchExpressions": [{"key": "zone", "operator": "In", "values": ["a"]}]},
                                             {"matchExpressions": [{"key": "zone", "operator": "In", "values": []}]},
                                             {"matchExpressions": [{"key": "zone", "operator": "Weird"}]},
                                             {"matchLabels": {"role": "w", "zone": "not a label value"}}])
    if canary is not None and rng.random() < 0.3:
        canary["nodeAntiAffinityKeys"] = rng.choice([["zone"], ["zone", "role"], ["missing"]])
    strat, freq = gen_strategy(rng, n, canary)
    nodes = gen_nodes(rng, n)
    node_names = [x["metadata"]["name"] for x in nodes]
    objs = list(nodes)
    role_canary = scenario in ("canary_running", "canary_failed")
    ann = gen_eds_annotations(rng, role_canary or rng.random() < 0.2)
    if "annotations" in force:
        ann = dict(force["annotations"])
    if scenario == "undefaulted":
        strat = rng.choice([{}, {"rollingUpdate": {"maxUnavailable": "10%"}}, {"canary": {}}, {"canary": {"validationMode": "manual"}},
                            {"canary": {"replicas": 2, "autoFail": {"enabled": False}}, "reconcileFrequency": "3s"},
                            {"canary": {"duration": "1m", "autoPause": {"maxRestarts": 7}}}])
    eds_tpl = tplA
    rss = []

    def mk_rs(nm, tpl, role, created, conds=None):
        st = K.ers_status(status=role, desired=rng.choice([0, 0, n, rng.randint(0, n)]), current=rng.choice([0, 0, rng.randint(0, n)]),
                          ready=rng.choice([0, 0, rng.randint(0, n)]), available=rng.choice([0, 0, rng.randint(0, n)]),
                          ignored=rng.choice([0, 0, 1]), conditions=conds)
        return K.ers(NS, nm, EDS, tpl, created=created, status=st)
    est = K.eds_status()
    if scenario in ("fresh", "undefaulted"):
        if rng.random() < 0.3:
            rss.append(mk_rs("foo-a", tplA, "", -30))
    elif scenario in ("steady", "no_canary_update"):
        rss.append(mk_rs("foo-a", tplA, "active", -3000))
        est = K.eds_status(active="foo-a", desired=n, current=n, ready=n, available=n, uptodate=n, state="Running")
        if scenario == "no_canary_update":
            eds_tpl = tplB
            rss.append(mk_rs("foo-b", tplB, "unknown", -20))
    elif scenario == "new_template":
        rss.append(mk_rs("foo-a", tplA, "active", -3000))
        eds_tpl = tplB
        est = K.eds_status(active="foo-a", desired=n, current=n, ready=n, available=n, uptodate=n, state="Running")
    elif scenario in ("canary_running", "canary_failed"):
        rss.append(mk_rs("foo-a", tplA, "active", -3000))
        conds = []
        if scenario == "canary_failed" or rng.random() < 0.1:
            conds.append(K.cond("Canary-Failed", "True", trans=rng.choice([-10, -119, -120, -121, -500]), reason=rng.choice(["CrashLoopBackOff", "Manually failed"])))
        elif rng.random() < 0.1:
            conds.append(K.cond("Canary-Failed", "False", trans=-10))
        if rng.random() < 0.25:
            conds.append(K.cond("Canary-Paused", rng.choice(["True", "True", "False"]), trans=-10, reason=rng.choice(["ImagePullBackOff", "CrashLoopBackOff"])))
        if rng.random() < 0.3:
            conds.append(K.cond("PodRestarting", "True", trans=-400, update=rng.choice([-301, -300, -299, -31, -30, -29, -5])))
        created = rng.choice([-601, -600, -599, -61, -60, -59, -11, -10, -9, -5, -3000])
        rss.append(mk_rs("foo-b", tplB, "canary", created, conds))
        eds_tpl = tplB
        k = force.get("canary_k", rng.choice([0, 0, 1, 1, 2, 3]))
        cn = rng.sample(node_names, min(k, len(node_names)))
        if rng.random() < 0.15:
            cn.append("n-gone")
        can = {"replicaSet": rng.choice(["foo-b", "foo-b", "foo-b", "foo-old"]), "nodes": cn} if rng.random() < 0.8 else None
        if scenario == "canary_failed" and rng.random() < 0.3:
            # in the middle of a rollback that cannot finish (the status write went through, the spec write keeps failing):
            # status.canary is gone, the failed replica set - still the one of spec.template - has given its nodes back
            can = None
            st = rss[-1]["status"]
            st["status"] = rng.choice(["unknown", "canary", ""])
            for k_ in ("desired", "current", "ready", "available"):
                st[k_] = 0
            for c_ in st.get("conditions") or []:
                if c_["type"] == "Canary-Failed":
                    c_["lastTransitionTime"] = K.ts(rng.choice([-119, -120, -121, -500]))
            force = dict(force, mid_rollback=True)
            if stats is not None:
                d_ = stats.setdefault("rollback interrupted between its two writes", {})
                d_["yes"] = d_.get("yes", 0) + 1
        est = K.eds_status(active="foo-a", desired=rng.choice([n, n, 0, n + len(cn)]), current=n, ready=n, available=n, uptodate=n,
                           state=rng.choice(["Running", "Canary", "Canary Paused"]), canary=can,
                           # the status left by an earlier reconcile may name a pause reason (a canary that was paused and is
                           # failed or resumed now); derived from values already drawn, so that the random stream stays as it was
                           reason=["", "ImagePullBackOff", "", "CrashLoopBackOff"][(created + n) % 4],
                           conditions=rng.choice([None, None, [K.cond("Canary-Paused", "True", trans=-50, reason="ImagePullBackOff")],
                                                  [K.cond("Canary-Failed", "False", trans=-50), K.cond("Canary-Paused", "False", trans=-50)]]))
    elif scenario == "active_missing":
        rss.append(mk_rs("foo-b", tplB, "", -3000))
        eds_tpl = tplB
        est = K.eds_status(active=rng.choice(["foo-gone", ""]), desired=n)
    elif scenario == "many_rs":
        rss.append(mk_rs("foo-a", tplA, "active", -3000))
        eds_tpl = rng.choice([tplA, tplB])
        rss.append(mk_rs("foo-b", tplB, "unknown", -2000, [K.cond("Canary-Failed", "True", trans=rng.choice([-100, -120, -121, -1000]))] if rng.random() < 0.5 else None))
        rss.append(mk_rs("foo-c", tplC, "unknown", -1000))
        if rng.random() < 0.5:
            rss.append(mk_rs("foo-a2", tplA, "unknown", -500))   # a second replica set with the same template
        if rng.random() < 0.3:
            rss[-1]["metadata"]["deletionTimestamp"] = K.ts(-5)
            rss[-1]["metadata"]["finalizers"] = ["x/y"]
        est = K.eds_status(active="foo-a", desired=n, current=n, ready=n, available=n, uptodate=n, state="Running")
    # same-named objects elsewhere
    if rng.random() < 0.15:
        rss.append(K.ers("ns2", "foo-x", EDS, eds_tpl, created=-100))
    if rng.random() < 0.1:
        rss.append(K.ers(NS, "bar-a", "bar", eds_tpl, created=-100))
    e = K.eds(NS, EDS, eds_tpl, strategy=strat, annotations=ann, status=est,
              labels=rng.choice([None, None, {"team": "x"}]))
    if rng.random() < 0.08:
        import copy
        e["spec"]["template"] = copy.deepcopy(e["spec"]["template"])     # the replica sets share the template dict
        e["spec"]["template"]["metadata"]["name"] = "named"
    objs.append(e)
    objs += rss
    # pods with restart history (for canary node selection)
    for nn in node_names:
        if rng.random() < 0.7:
            restarts = rng.choice([0, 0, 0, 1, 2, 5])
            objs.append(K.pod(NS, "p-" + nn, eds_name=EDS, rs_name="foo-a", hash_value="@HASH:foo-a" if any(r["metadata"]["name"] == "foo-a" for r in rss) else "x",
                              node=nn, cstats=[K.container_status("main", restarts=restarts, last_reason="Error" if restarts else None,
                                                                  last_finished=-50 if restarts else None)]))
    if rng.random() < 0.1 and node_names:
        objs.append(K.pod("ns2", "twin", eds_name=EDS, rs_name="foo-a", hash_value="x", node=node_names[0],
                          cstats=[K.container_status("main", restarts=9, last_reason="Error", last_finished=-50)]))
    ops = []
    faults = None
    if force.get("mid_rollback") and rng.random() < 0.6 and not force.get("no_faults"):
        faults = {"update": True}
    elif rng.random() < 0.1 and not force.get("no_faults"):
        faults = rng.choice([{"status": True}, {"update": True}, {"rs_delete": ["*"]}, {"rs_create": True},
                             {"list_fail": ["ExtendedDaemonSetReplicaSet"]}, {"list_fail": ["Pod"]}, {"list_fail": ["Node"]}])
        if "rs_delete" in faults:
            faults = {"rs_delete": [r["metadata"]["name"] for r in rss]}
    ops.append(K.reconcile("eds", NS, EDS, faults))
    for _ in range(rng.choice([0, 1, 2])):
        if rng.random() < (0.8 if force.get("mid_rollback") else 0.25):
            # the replica-set controller works in between
            op = K.reconcile("ers", NS, "*")
            op["seconds"] = rng.randint(0, 5)
            ops.append(op)
        if rng.random() < 0.5:
            ops.append(K.sleep(rng.choice([1, 10, 60, 120, 600])))
        ops.append(K.reconcile("eds", NS, EDS))
    if stats is not None:
        stats.setdefault("eds_scenarios", {})
        stats["eds_scenarios"][scenario] = stats["eds_scenarios"].get(scenario, 0) + 1
    return {"kind": "world", "objects": objs, "ops": ops, "options": {"affinity": False, "default_mode": rng.choice(["auto", "auto", "manual"]), "list_order": 1 if rng.random() < 0.3 else 0}}
