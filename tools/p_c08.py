"""C08 - pause and freeze annotations stop exactly what they promise to stop."""
import k8s as K
import project as P
import worldgen
import wprop
from wprop import encode, classify_unencodable, sample  # noqa: F401

ID = "C08"
TAGS = ["h_world"]
CHECK_MODULE = "Check.C08Check"
IMPORTS = ["Model.Objects", "Model.PodSpec", "Model.Backoff", "Model.ErsReconcile", "Model.EdsReconcile", "Check.World"]
RULE = ("real Reconciles on stores in every rollout state (outdated, missing, unavailable pods, joining nodes): the ACTIVE replica "
        "set under every combination of rolling-update-paused / rollout-frozen in {absent, true, false, other}; the CANARY replica "
        "set under every combination of canary-paused / canary-unpaused annotations and Canary-Paused / Canary-Failed conditions, "
        "with and without up-to-date canary pods; the ExtendedDaemonSet reconcile on running canaries (paused or not, duration "
        "elapsed or not, valid annotation naming this / another / no replica set). Non-trivial = an annotation is set or a "
        "pause/fail condition is true.")
ASSUMPTIONS = [
    "the snapshot is the store the Reconcile listed; names unique per kind and namespace",
    "the canary monitors judge the conditions the sync itself wrote (status after) - a rejected status write is outside",
]
CODES = {
    1: "model does not predict the reconcile",
    10: "a pod was deleted for updating while rolling-update-paused is true",
    11: "a pod was created or deleted for updating while rollout-frozen is true",
    12: "a canary pod was created while the canary is paused or failed",
    13: "the canary stayed paused although canary-unpaused is true and it is not failed",
    14: "status.state / status.reason do not reflect the paused, frozen or canary situation",
    15: "a paused canary without the canary-valid annotation was promoted",
    16: "the canary-valid annotation names the (not failed) new replica set but it was not made the active one",
    20: "harness panic",
}
GO_TIMEOUT = 1200
A3 = [None, "true", "true", "false", "yes"]


def generate(rng, tier, stats):
    n = 300 if tier == "quick" else 4500
    out = []
    for i in range(n):
        k = i % 3
        if k == 0:
            ann = {}
            p, f = rng.choice(A3), rng.choice(A3 + [None, None])
            if p is not None:
                ann[P.A_RU_PAUSED] = p
            if f is not None:
                ann[P.A_FROZEN] = f
            force = {"scenario": rng.choice(["active", "active", "active_with_canary"]), "annotations": ann,
                     "open_gates": rng.random() < 0.8, "no_faults": rng.random() < 0.9,
                     "classes": ["none", "none", "uptodate_ready", "old_ready", "old_ready", "old_notready", "dup", "failed",
                                 "old_terminating", "stuck_unscheduled"],
                     "strategy": {"maxUnavailable": rng.choice([1, 2, "50%", "100%"]), "slowStartAdditiveIncrease": rng.choice([1, 5, "100%"])}}
            c = worldgen.gen_ers_world(rng, stats, force)
            wprop.bump(stats, "paused/frozen", "%s/%s" % (p, f))
        elif k == 1:
            ann = {}
            p, u = rng.choice(A3), rng.choice(A3)
            if p is not None:
                ann[P.A_PAUSED] = p
                if rng.random() < 0.5:
                    ann[P.A_PAUSED_REASON] = rng.choice(["CrashLoopBackOff", "because"])
            if u is not None:
                ann[P.A_UNPAUSED] = u
            force = {"scenario": "canary", "annotations": ann, "open_gates": rng.random() < 0.8, "no_faults": rng.random() < 0.9,
                     "classes": ["none", "none", "none", "uptodate_ready", "uptodate_notready", "old_ready", "failed"]}
            c = worldgen.gen_ers_world(rng, stats, force)
            wprop.bump(stats, "canary paused/unpaused", "%s/%s" % (p, u))
        else:
            ann = {}
            p, u, f = rng.choice(A3), rng.choice([None, None, "true"]), rng.choice([None, None, None, "true"])
            if p is not None:
                ann[P.A_PAUSED] = p
            if u is not None:
                ann[P.A_UNPAUSED] = u
            if f is not None:
                ann[rng.choice([P.A_RU_PAUSED, P.A_FROZEN])] = f
            v = rng.choice([None, None, None, "foo-b", "foo-a", "foo-zz"])
            if v is not None:
                ann[P.A_VALID] = v
            force = {"scenario": rng.choice(["canary_running", "canary_running", "steady", "new_template", "canary_failed"]),
                     "annotations": ann, "no_faults": rng.random() < 0.9}
            c = worldgen.gen_eds_world(rng, stats, force)
            wprop.bump(stats, "eds paused/valid", "%s/%s" % (p, v))
        if k != 0 and ann.get(P.A_PAUSED) not in (None, "true") and rng.random() < 0.6:
            # the replica set paused itself (auto-pause) while the annotation says anything but "true"
            for o in c["objects"]:
                if o["kind"] == "ExtendedDaemonSetReplicaSet" and o["metadata"]["name"] == "foo-b":
                    conds = o.setdefault("status", {}).setdefault("conditions", [])
                    conds[:] = [x for x in conds if x["type"] != "Canary-Paused"]
                    conds.append(K.cond("Canary-Paused", "True", trans=-40, reason=rng.choice(["CrashLoopBackOff", "ImagePullBackOff"])))
                    wprop.bump(stats, "auto-paused under a non-true canary-paused annotation", ann.get(P.A_PAUSED))
        out.append(c)
    # directed: a canary paused by nothing but the replica set's own Canary-Paused condition (no canary-paused annotation, or
    # one that does not say "true"), long past its duration in validation mode auto, neither failed nor validated: elapsed time
    # must not promote it (ninth round: the paused test read the active replica set's conditions)
    for i in range(24 if tier == "quick" else 240):
        ann = {}
        if i % 3 == 1:
            ann[P.A_PAUSED] = rng.choice(["false", "yes"])
        if i % 4 == 3:
            ann[rng.choice([P.A_RU_PAUSED, P.A_FROZEN])] = "true"
        force = {"scenario": "canary_running", "annotations": ann, "no_faults": True,
                 "canary": {"duration": rng.choice(["1m", "10s", "5m"]), "validationMode": rng.choice(["auto", "auto", None]),
                            "noRestartsDuration": None}}
        c = worldgen.gen_eds_world(rng, stats, force)
        for o in c["objects"]:
            if o["kind"] == "ExtendedDaemonSetReplicaSet" and o["metadata"]["name"] == "foo-b":
                o["metadata"]["creationTimestamp"] = K.ts(rng.choice([-3000, -900, -301]))
                st = o.setdefault("status", {})
                st["conditions"] = [K.cond("Canary-Paused", "True", trans=rng.choice([-40, -290]),
                                           reason=rng.choice(["CrashLoopBackOff", "ImagePullBackOff"]))]
            if o["kind"] == "ExtendedDaemonSetReplicaSet" and o["metadata"]["name"] == "foo-a" and i % 2 == 0:
                # the active replica set carries a stale Canary-Paused=False from its own time as a canary
                st = o.setdefault("status", {})
                st["conditions"] = [x for x in (st.get("conditions") or []) if x["type"] != "Canary-Paused"] + \
                    [K.cond("Canary-Paused", "False", trans=-2000)]
        wprop.bump(stats, "directed: paused by its own condition past the duration", ann.get(P.A_PAUSED))
        out.append(c)
    return out


def nontrivial(c, r):
    e = [o for o in c["objects"] if o["kind"] == "ExtendedDaemonSet"]
    ann = (e[0]["metadata"].get("annotations") or {}) if e else {}
    if any(k in ann for k in (P.A_RU_PAUSED, P.A_FROZEN, P.A_PAUSED, P.A_UNPAUSED)):
        return True
    for o in c["objects"]:
        if o["kind"] == "ExtendedDaemonSetReplicaSet":
            for cd in (o.get("status") or {}).get("conditions") or []:
                if cd["type"] in ("Canary-Paused", "Canary-Failed") and cd["status"] == "True":
                    return True
    return False
