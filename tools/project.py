"""Projection of real API objects (JSON dumped by the harness) to the Gallina records of
coq/Model/Objects.v.  Independent of /repo's code: everything the model reads is re-derived here from
the object JSON.  Names are emitted as markers and interned order-preservingly per case by `finish`."""
import calendar
import hashlib
import json
import re
import time as _time

from fw import gZ, gN, gB, gL, gO, gP, gC

NS = 1000000000
ZERO_TIME = -62135596800 * NS

K_EDS = "extendeddaemonset.datadoghq.com/name"
K_RS = "extendeddaemonsetreplicaset.datadoghq.com/name"
K_CANARY = "extendeddaemonsetreplicaset.datadoghq.com/canary"
K_SET_NAME = "extendeddaemonsetsetting.datadoghq.com/name"
K_SET_NS = "extendeddaemonsetsetting.datadoghq.com/namespace"
A_HASH = "extendeddaemonset.datadoghq.com/templatehash"
A_NODEHASH = "extendeddaemonset.datadoghq.com/nodehash"
A_VALID = "extendeddaemonset.datadoghq.com/canary-valid"
A_PAUSED = "extendeddaemonset.datadoghq.com/canary-paused"
A_PAUSED_REASON = "extendeddaemonset.datadoghq.com/canary-paused-reason"
A_UNPAUSED = "extendeddaemonset.datadoghq.com/canary-unpaused"
A_OLD_DS = "extendeddaemonset.datadoghq.com/old-daemonset"
A_RU_PAUSED = "extendeddaemonset.datadoghq.com/rolling-update-paused"
A_FROZEN = "extendeddaemonset.datadoghq.com/rollout-frozen"
A_AUTOSCALER = "cluster-autoscaler.kubernetes.io/daemonset-pod"
RES_PREFIX = "resources.extendeddaemonset.datadoghq.com/"

STD_TOL_KEYS = ["node.kubernetes.io/not-ready", "node.kubernetes.io/unreachable", "node.kubernetes.io/disk-pressure",
                "node.kubernetes.io/memory-pressure", "node.kubernetes.io/unschedulable",
                "node.kubernetes.io/network-unavailable"]
FIXED = {k: 900000 + i for i, k in enumerate(STD_TOL_KEYS)}
FIXED.update({K_EDS: 900010, K_RS: 900011, K_CANARY: 900012, K_SET_NAME: 900013, K_SET_NS: 900014, "true": 900020})

REASONS = {"": 0, "Unknown": 1, "CrashLoopBackOff": 2, "RestartsTimeoutExceeded": 3, "TimeoutExceeded": 4,
           "SlowStartTimeoutExceeded": 5, "ErrImagePull": 6, "ImagePullBackOff": 7, "ImageInspectError": 8,
           "ErrImageNeverPull": 9, "RegistryUnavailable": 10, "InvalidImageName": 11,
           "CreateContainerConfigError": 12, "CreateContainerError": 13, "PreStartHookError": 14,
           "PostStartHookError": 15, "PreCreateHookError": 16, "StartError": 17, "OOMKilled": 18,
           "ContainerCreating": 20, "Manually failed": 30, "CanaryFailed": 31}
_extra_reasons = {}

ERS_CTYPES = {"Active": 1, "RollingUpdatePaused": 2, "RolloutFrozen": 3, "Canary": 4, "ReconcileError": 5,
              "Unschedule": 6, "PodsCleanupDone": 7, "PodCreation": 8, "PodDeletion": 9, "PodRestarting": 10,
              "PodCannotStart": 11, "LastFullSync": 12, "Canary-Paused": 13, "Canary-Failed": 14}
RS_STATUS = {"": 0, "active": 1, "canary": 2, "canary-failed": 3, "unknown": 4}
EDS_STATE = {"": 0, "Running": 1, "RollingUpdate Paused": 2, "Rollout frozen": 3, "Canary": 4, "Canary Paused": 5,
             "Canary Failed": 6}
SET_STATUS = {"": 0, "valid": 1, "error": 2}


def reason(s):
    s = s or ""
    if s in REASONS:
        return gN(REASONS[s])
    if s not in _extra_reasons:
        _extra_reasons[s] = 1000 + len(_extra_reasons)
    return gN(_extra_reasons[s])


def nm(s):
    """an opaque name, interned later"""
    s = s or ""
    if s in FIXED:
        return gN(FIXED[s])
    assert "\x00" not in s
    return "\x00N:%s\x00" % s


_MARK = re.compile("\x00N:([^\x00]*)\x00")


def finish(lit, extra_names=()):
    """order-preserving interning of every name in the literal: rank among the distinct names, "" = 0"""
    names = set(_MARK.findall(lit)) | set(extra_names)
    names.discard("")
    rank = {n: i + 1 for i, n in enumerate(sorted(names))}
    rank[""] = 0
    return _MARK.sub(lambda m: gN(rank[m.group(1)]), lit), rank


def t_ns(ts):
    """RFC3339 (whole seconds) -> nanoseconds since the Unix epoch; None/'' -> Go's zero time"""
    if not ts:
        return ZERO_TIME
    m = re.match(r"^(\d{4}-\d\d-\d\dT\d\d:\d\d:\d\d)(\.\d+)?Z$", ts)
    assert m, ts
    sec = calendar.timegm(_time.strptime(m.group(1), "%Y-%m-%dT%H:%M:%S"))
    frac = int(round(float(m.group(2)) * NS)) if m.group(2) else 0
    return sec * NS + frac


_DUR = re.compile(r"(-?\d+(?:\.\d+)?)(ns|us|µs|ms|s|m|h)")
_UNIT = {"ns": 1, "us": 1000, "µs": 1000, "ms": 1000000, "s": NS, "m": 60 * NS, "h": 3600 * NS}


def dur_ns(s):
    """Go duration string (as marshalled by metav1.Duration) -> nanoseconds"""
    if s is None:
        return None
    if isinstance(s, (int, float)):
        return int(s)
    neg = s.startswith("-")
    body = s[1:] if neg else s
    if body == "0":
        return 0
    tot = 0
    pos = 0
    for m in _DUR.finditer(body):
        assert m.start() == pos, s
        pos = m.end()
        tot += int(round(float(m.group(1)) * _UNIT[m.group(2)]))
    assert pos == len(body), s
    return -tot if neg else tot


def g_dur(s):
    return gO(dur_ns(s), gZ)


def quantity_milli(q):
    """resource.Quantity string -> milli-units (the generators use simple forms only)"""
    if isinstance(q, (int, float)):
        return int(q * 1000)
    e = re.match(r"^(-?\d+(?:\.\d+)?)[eE]([+-]?\d+)$", q)
    if e:
        from fractions import Fraction
        return int(Fraction(e.group(1)) * Fraction(10) ** int(e.group(2)) * 1000)
    m = re.match(r"^(-?\d+(?:\.\d+)?)(m|k|M|G|T|Ki|Mi|Gi|Ti)?$", q)
    assert m, q
    mult = {None: 1000, "m": 1, "k": 10 ** 6, "M": 10 ** 9, "G": 10 ** 12, "T": 10 ** 15,
            "Ki": 1024 * 1000, "Mi": 1024 ** 2 * 1000, "Gi": 1024 ** 3 * 1000, "Ti": 1024 ** 4 * 1000}[m.group(2)]
    return int(round(float(m.group(1)) * mult))


def g_labels(m):
    return gL([gP(nm(k), nm(v)) for k, v in sorted((m or {}).items())])


def g_resmap(m):
    return gL([gP(nm(k), gZ(quantity_milli(v))) for k, v in sorted((m or {}).items())])


def g_resources(r):
    r = r or {}
    return gC("MkRes", g_resmap(r.get("limits")), g_resmap(r.get("requests")))


def g_iop(v):
    """IntOrString as it appears in JSON -> intorpct"""
    if v is None:
        return "None"
    if isinstance(v, bool):
        raise ValueError("bool IntOrString")
    if isinstance(v, int):
        return "(Some (IntV %s))" % gZ(v)
    s = v.replace("%", "")
    if re.match(r"^[+-]?\d+$", s) and -(2 ** 63) <= int(s) < 2 ** 63:
        return "(Some (PctV %s))" % gZ(int(s))
    return "(Some BadV)"


SELOPS = {"In": "SIn", "NotIn": "SNotIn", "Exists": "SExists", "DoesNotExist": "SDoesNotExist"}


_NAME_PART = re.compile(r"^([A-Za-z0-9][-A-Za-z0-9_.]*)?[A-Za-z0-9]$")
_DNS_SUB = re.compile(r"^[a-z0-9]([-a-z0-9]*[a-z0-9])?(\.[a-z0-9]([-a-z0-9]*[a-z0-9])?)*$")


def label_value_ok(v):
    """validation.IsValidLabelValue"""
    return v == "" or (len(v) <= 63 and bool(_NAME_PART.match(v)))


def label_key_ok(k):
    """validation.IsQualifiedName"""
    parts = k.split("/")
    if len(parts) == 1:
        name = parts[0]
    elif len(parts) == 2:
        prefix, name = parts
        if not prefix or len(prefix) > 253 or not _DNS_SUB.match(prefix):
            return False
    else:
        return False
    return 0 < len(name) <= 63 and bool(_NAME_PART.match(name))


def g_selector(sel):
    """labels.NewRequirement refuses a key or a value that is not a legal label key / value, under every operator and for
    matchLabels entries alike: such a requirement is projected as one that does not build (a known operator with the wrong
    number of values), which is all the model's selector conversion distinguishes"""
    if sel is None:
        return "None"
    exprs = []
    ml = {}
    for k, v in sorted((sel.get("matchLabels") or {}).items()):
        if label_key_ok(k) and label_value_ok(v):
            ml[k] = v
        else:
            exprs.append(gC("MkSelReq", nm(k), "SIn", gL([])))
    for e in sel.get("matchExpressions") or []:
        op = SELOPS.get(e.get("operator"), "SBadOp")
        key, vals = e.get("key", ""), e.get("values") or []
        if op != "SBadOp" and not (label_key_ok(key) and all(label_value_ok(v) for v in vals)):
            exprs.append(gC("MkSelReq", nm(key), "SIn", gL([])))
        else:
            exprs.append(gC("MkSelReq", nm(key), op, gL([nm(v) for v in vals])))
    return "(Some %s)" % gC("MkSelector", g_labels(ml), gL(exprs))


def g_selector_plain(sel):
    s = g_selector(sel or {})
    return s[len("(Some "):-1]


NSOPS = {"In": "OpIn", "NotIn": "OpNotIn", "Exists": "OpExists", "DoesNotExist": "OpDoesNotExist"}
EFFECTS = {"NoSchedule": "NoSchedule", "NoExecute": "NoExecute", "PreferNoSchedule": "PreferNoSchedule", "": "EffNone",
           None: "EffNone"}


def required_terms(spec):
    a = (spec or {}).get("affinity") or {}
    na = a.get("nodeAffinity")
    if not na:
        return None
    req = na.get("requiredDuringSchedulingIgnoredDuringExecution")
    if req is None:
        return None
    return req.get("nodeSelectorTerms") or []


def g_terms(terms):
    if terms is None:
        return "None"
    out = []
    for t in terms:
        es = [gC("MkNsReq", nm(e.get("key", "")), NSOPS.get(e.get("operator"), "OpOther"),
                 gL([nm(v) for v in e.get("values") or []])) for e in t.get("matchExpressions") or []]
        fs = [gC("MkFReq", gB(f.get("key") == "metadata.name"), NSOPS.get(f.get("operator"), "OpOther"),
                 gL([nm(v) for v in f.get("values") or []])) for f in t.get("matchFields") or []]
        out.append(gC("MkNsTerm", gL(es), gL(fs)))
    return "(Some %s)" % gL(out)


def g_toleration(t):
    op = {"Exists": "TolExists", "Equal": "TolEqual", "": "TolEqual", None: "TolEqual"}.get(t.get("operator"), "TolOther")
    return gC("MkTol", nm(t.get("key", "")), op, nm(t.get("value", "")), EFFECTS.get(t.get("effect"), "EffOther"))


def g_containers(cs):
    return gL([gP(nm(c["name"]), g_resources(c.get("resources"))) for c in cs or []])


def g_tmpl(tpl):
    spec = tpl.get("spec") or {}
    md = tpl.get("metadata") or {}
    return gC("MkTmpl", g_labels(spec.get("nodeSelector")), g_terms(required_terms(spec)),
              gL([g_toleration(t) for t in spec.get("tolerations") or []]),
              g_containers(spec.get("containers")), g_labels(md.get("labels")))


def affinity_node_name(spec):
    for t in required_terms(spec) or []:
        for f in t.get("matchFields") or []:
            if f.get("key") == "metadata.name" and f.get("values"):
                return f["values"][0]
    return ""


def node_hash(annots, eds_ns, eds_name):
    prefix = "%s%s.%s." % (RES_PREFIX, eds_ns, eds_name)
    items = sorted("%s=%s" % (k, v) for k, v in (annots or {}).items() if k.startswith(prefix))
    if not items:
        return ""
    h = hashlib.md5()
    for it in items:
        h.update(it.encode())
    return h.hexdigest()


def g_node(n, eds_ns, eds_name, containers):
    md = n["metadata"]
    ann = md.get("annotations") or {}
    ovs = []
    for c in containers:
        key = "%s%s.%s.%s" % (RES_PREFIX, eds_ns, eds_name, c)
        if key in ann:
            try:
                v = json.loads(ann[key])
                if not isinstance(v, dict):
                    raise ValueError
                for part in ("limits", "requests"):
                    for q in (v.get(part) or {}).values():
                        quantity_milli(q)
                ovs.append(gP(nm(c), gC("OvOk", g_resources(v))))
            except Exception:
                ovs.append(gP(nm(c), "OvMalformed"))
    taints = [gC("MkTaint", nm(t.get("key", "")), nm(t.get("value", "")), EFFECTS.get(t.get("effect"), "EffOther"))
              for t in (n.get("spec") or {}).get("taints") or []]
    return gC("MkNode", nm(md["name"]), g_labels(md.get("labels")), gL(taints), gL(ovs),
              nm(node_hash(ann, eds_ns, eds_name)))


PHASES = {"Pending": "Pending", "Running": "Running", "Succeeded": "Succeeded", "Failed": "Failed",
          "Unknown": "PhUnknown", "": "PhOther", None: "PhOther"}


def first_cond(conds, t):
    for c in conds or []:
        if c.get("type") == t:
            return c
    return None


def g_cstat(s):
    last = s.get("lastState") or {}
    if not last:
        lt = "LTNone"
    elif "terminated" in last and last["terminated"] is not None:
        t = last["terminated"]
        nonzero = any(t.get(k) for k in ("exitCode", "signal", "reason", "message", "startedAt", "finishedAt", "containerID"))
        lt = gC("LTTerm", reason(t.get("reason", "")), gZ(t_ns(t.get("finishedAt"))), gB(bool(nonzero)))
    else:
        lt = "LTNoTerm"
    st = s.get("state") or {}
    waiting = st.get("waiting")
    return gC("MkCStat", gZ(s.get("restartCount", 0)), lt,
              gO(None if waiting is None else waiting.get("reason", ""), reason))


def g_pod(p):
    md, spec, st = p["metadata"], p.get("spec") or {}, p.get("status") or {}
    ann = md.get("annotations") or {}
    ready = first_cond(st.get("conditions"), "Ready")
    sched = first_cond(st.get("conditions"), "PodScheduled")
    cst = (st.get("containerStatuses") or []) + (st.get("initContainerStatuses") or []) + (st.get("ephemeralContainerStatuses") or [])
    dele = None
    if md.get("deletionTimestamp"):
        dele = gP(gZ(t_ns(md["deletionTimestamp"])), gO(md.get("deletionGracePeriodSeconds"), gZ))
    owners = [o["name"] for o in md.get("ownerReferences") or [] if o.get("kind") == "DaemonSet"]
    return gC("MkPod", nm(md["name"]), nm(md.get("namespace", "")), g_labels(md.get("labels")),
              gL([nm(o) for o in owners]),
              gO(ann.get(A_HASH), nm), gO(ann.get(A_NODEHASH), nm),
              nm(spec.get("nodeName", "")), nm(affinity_node_name(spec)),
              PHASES.get(st.get("phase"), "PhOther"),
              gB(bool(ready and ready.get("status") == "True")),
              gB(bool(sched and sched.get("status") == "False" and sched.get("reason") == "Unschedulable")),
              gZ(t_ns(md.get("creationTimestamp"))), gO(dele),
              gO(st.get("startTime"), lambda x: gZ(t_ns(x))),
              gL([g_cstat(s) for s in cst]),
              gZ(sum(s.get("restartCount", 0) for s in st.get("containerStatuses") or [])),
              g_containers(spec.get("containers")))


CSTAT = {"True": "CTrue", "False": "CFalse"}


MESSAGES = {"": 0, "full sync": 1, "pods created": 2, "pods deleted": 3,
            "Parent ExtendedDaemonSet is not defaulted, requeuing": 4}


def g_cond(c, types):
    t = types.get(c.get("type"))
    if t is None:
        t = 500 + (abs(hash(c.get("type"))) % 100)
    return gC("MkCond", gN(t), CSTAT.get(c.get("status"), "CUnknown"), gZ(t_ns(c.get("lastTransitionTime"))),
              gZ(t_ns(c.get("lastUpdateTime"))), reason(c.get("reason", "")), gN(MESSAGES.get(c.get("message", ""), 999)))


def g_ers_status(st):
    st = st or {}
    return gC("MkErsStatus", gN(RS_STATUS.get(st.get("status", ""), 99)), gZ(st.get("desired", 0)), gZ(st.get("current", 0)),
              gZ(st.get("ready", 0)), gZ(st.get("available", 0)), gZ(st.get("ignoredUnresponsiveNodes", 0)),
              gL([g_cond(c, ERS_CTYPES) for c in st.get("conditions") or []]))


def owner_eds(md):
    for o in md.get("ownerReferences") or []:
        if o.get("kind") == "ExtendedDaemonSet":
            return o.get("name", "")
    return ""


def g_ers(r):
    md, spec = r["metadata"], r.get("spec") or {}
    ann = md.get("annotations") or {}
    return gC("MkErs", nm(md["name"]), nm(md.get("namespace", "")), nm((md.get("labels") or {}).get(K_EDS, "")),
              nm(owner_eds(md)), gO(ann.get(A_HASH), nm), nm(spec.get("templateGeneration", "")),
              g_tmpl(spec.get("template") or {}), nm(r.get("_tmplHash", "")), g_selector(spec.get("selector")),
              gZ(t_ns(md.get("creationTimestamp"))), gB(bool(md.get("deletionTimestamp"))),
              g_ers_status(r.get("status")))


def a3(ann, key):
    if key not in ann:
        return "AAbsent"
    return {"true": "ATrue", "false": "AFalse"}.get(ann[key], "AOtherVal")


def g_annots(ann):
    ann = ann or {}
    return gC("MkAnnots", a3(ann, A_RU_PAUSED), a3(ann, A_FROZEN), a3(ann, A_PAUSED),
              gO(ann.get(A_PAUSED_REASON), reason), a3(ann, A_UNPAUSED), gO(ann.get(A_VALID), nm),
              gO(ann.get(A_OLD_DS), nm))


def g_rolling(ru):
    ru = ru or {}
    return gC("MkRolling", g_iop(ru.get("maxUnavailable")), g_iop(ru.get("maxPodSchedulerFailure")),
              gO(ru.get("maxParallelPodCreation"), gZ), g_dur(ru.get("slowStartIntervalDuration")),
              g_iop(ru.get("slowStartAdditiveIncrease")))


def g_canary_spec(c):
    if c is None:
        return "None"
    ap, af = c.get("autoPause"), c.get("autoFail")
    g_ap = "None" if ap is None else "(Some %s)" % gC("MkAutoPause", gO(ap.get("enabled"), gB), gO(ap.get("maxRestarts"), gZ),
                                                       g_dur(ap.get("maxSlowStartDuration")))
    g_af = "None" if af is None else "(Some %s)" % gC("MkAutoFail", gO(af.get("enabled"), gB), gO(af.get("maxRestarts"), gZ),
                                                       g_dur(af.get("maxRestartsDuration")), g_dur(af.get("canaryTimeout")))
    mode = {"": "VUnset", None: "VUnset", "auto": "VAuto", "manual": "VManual"}.get(c.get("validationMode"), "VOtherMode")
    return "(Some %s)" % gC("MkCanary", g_iop(c.get("replicas")), g_dur(c.get("duration")), g_selector(c.get("nodeSelector")),
                             gL([nm(k) for k in c.get("nodeAntiAffinityKeys") or []]), g_ap, g_af,
                             g_dur(c.get("noRestartsDuration")), mode)


def g_strategy(s):
    s = s or {}
    return gC("MkStrategy", g_rolling(s.get("rollingUpdate")), g_canary_spec(s.get("canary")), g_dur(s.get("reconcileFrequency")))


EDS_CTYPES = {"ReconcileError": 5, "Canary-Paused": 13, "Canary-Failed": 14}


def g_eds_status(st):
    st = st or {}
    can = st.get("canary")
    return gC("MkEdsStatus", gZ(st.get("desired", 0)), gZ(st.get("current", 0)), gZ(st.get("ready", 0)),
              gZ(st.get("available", 0)), gZ(st.get("upToDate", 0)), gZ(st.get("ignoredUnresponsiveNodes", 0)),
              gN(EDS_STATE.get(st.get("state", ""), 99)), nm(st.get("activeReplicaSet", "")),
              gO(can, lambda c: gC("MkCanaryStatus", nm(c.get("replicaSet", "")), gL([nm(n) for n in c.get("nodes") or []]))),
              reason(st.get("reason", "")), gL([g_cond(c, EDS_CTYPES) for c in st.get("conditions") or []]))


def g_eds(e):
    md, spec = e["metadata"], e.get("spec") or {}
    tpl = spec.get("template") or {}
    return gC("MkEds", nm(md["name"]), nm(md.get("namespace", "")), g_annots(md.get("annotations")), g_tmpl(tpl),
              nm(e.get("_tmplHash", "")), gB(bool((tpl.get("metadata") or {}).get("name"))),
              g_selector(spec.get("selector")), g_strategy(spec.get("strategy")), g_eds_status(e.get("status")))


def g_setting(s):
    md, spec, st = s["metadata"], s.get("spec") or {}, s.get("status") or {}
    ref = spec.get("reference")
    return gC("MkSetting", nm(md["name"]), nm(md.get("namespace", "")),
              gO(None if ref is None else ref.get("name", ""), nm), g_selector_plain(spec.get("nodeSelector")),
              g_containers(spec.get("containers")), gZ(t_ns(md.get("creationTimestamp"))),
              gN(SET_STATUS.get(st.get("status", ""), 99)), gB(bool(st.get("error"))))


def g_daemonset(d):
    md = d["metadata"]
    return gC("MkDs", nm(md["name"]), nm(md.get("namespace", "")), g_selector((d.get("spec") or {}).get("selector")))


def g_newpod(p):
    """the pod object sent to Create, as the model's newpod"""
    md, spec = p["metadata"], p.get("spec") or {}
    lab, ann = md.get("labels") or {}, md.get("annotations") or {}
    ctrl = [o for o in md.get("ownerReferences") or [] if o.get("controller")]
    owner = ctrl[0]["name"] if ctrl and ctrl[0].get("kind") == "ExtendedDaemonSetReplicaSet" else ""
    gen = md.get("generateName", "")
    setl = None
    if K_SET_NAME in lab or K_SET_NS in lab:
        setl = gP(nm(lab.get(K_SET_NAME, "")), nm(lab.get(K_SET_NS, "")))
    return gC("MkNewPod", nm(md.get("namespace", "")), nm(gen[:-1] if gen.endswith("-") else "?" + gen), nm(lab.get(K_RS, "")),
              nm(lab.get(K_EDS, "")), gO(setl), nm(ann.get(A_HASH, "")), nm(ann.get(A_NODEHASH, "")),
              gB(ann.get(A_AUTOSCALER) == "true"), gL([g_toleration(t) for t in spec.get("tolerations") or []]),
              nm(spec.get("nodeName", "")), g_terms(required_terms(spec)), nm(owner),
              g_containers(spec.get("containers")), gZ(0))
