"""C01 - at most one daemon pod per node, and only on eligible nodes."""
import k8s as K
import worldgen
import wprop
from wprop import encode, classify_unencodable, sample  # noqa: F401

ID = "C01"
TAGS = ["h_world"]
CHECK_MODULE = "Check.C01Check"
IMPORTS = ["Model.Objects", "Model.PodSpec", "Model.Backoff", "Model.ErsReconcile", "Model.EdsReconcile", "Check.World"]
CORPUS = ["WORLD"]
RULE = ("real replica-set Reconciles (active, canary and leftover replica sets) on stores with 0-10 nodes (labels, taints of the "
        "three effects, annotations), templates with node selectors, required affinity terms (In/NotIn/Exists/DoesNotExist, "
        "metadata.name fields, empty and unbuildable terms) and tolerations, and per node 0-4 pods of every phase, scheduled "
        "or pinned by affinity, terminating, duplicated, of the old, the new or a vanished replica set, adopted from a "
        "DaemonSet, plus pods on vanished nodes; a third of the cases run a second sync (back-off memory primed). "
        "half of the cases read their lists in reversed order, as an informer cache may return them. Non-trivial = the sync issued a pod creation or deletion.")
ASSUMPTIONS = [
    "the snapshot is the store the Reconcile listed (a stale informer cache is a sync that ran earlier)",
    "pod names are unique per namespace; node names unique",
    "D11 (DESIGN.md 6): a Failed pod retained by the in-memory back-off takes part in duplicate resolution; the "
    "'kept pod is the minimum' monitor is not judged on nodes that also hold a Failed pod",
]
CODES = {
    1: "model does not predict the replica-set sync",
    10: "a pod was created for a node that is not listed, not fit, or already holds a live pod of the ExtendedDaemonSet",
    11: "two pods created for one node in the same sync",
    12: "a replica set that is neither active nor canary touched pods",
    13: "a pod in Unknown phase was deleted",
    14: "duplicate pods: more than one live pod survives on a node, or the survivor is not scheduled-then-oldest",
    15: "a pod on a node that stopped being eligible was not deleted",
    16: "a sync that returned early (no parent / not defaulted / gate closed) created or deleted pods",
    20: "harness panic",
}
GO_TIMEOUT = 1200


def generate(rng, tier, stats):
    n = 300 if tier == "quick" else 5000
    out = []
    for i in range(n):
        force = {"open_gates": rng.random() < 0.75}
        if i % 4 == 0:
            force["classes"] = ["dup", "dup", "none", "failed", "unknown", "uptodate_ready", "old_ready", "succeeded", "foreign_hash"]
        c = worldgen.gen_ers_world(rng, stats, force)
        if len(c["ops"]) == 1 and rng.random() < 0.15:
            # a second sync right after the gate reopens: created pods are now listed
            c["ops"] += [K.sleep(rng.choice([10, 11, 61])), dict(c["ops"][0], faults=None)]
        if rng.random() < 0.5:
            # an informer cache lists in no particular order (the fake client sorts by name)
            c["options"]["list_order"] = 1
            wprop.bump(stats, "list order", "permuted")
        out.append(c)
    return out


def nontrivial(c, r):
    return bool(wprop.calls_of(r, "create", "Pod") or wprop.calls_of(r, "delete", "Pod"))
