"""C12 - an ExtendedDaemonSet only ever touches its own objects."""
import copy

import histgen
import k8s as K
import project as P
import worldgen
import wprop
from wprop import encode, classify_unencodable, sample  # noqa: F401

ID = "C12"
TAGS = ["h_world"]
CHECK_MODULE = "Check.C12Check"
IMPORTS = ["Model.Objects", "Model.PodSpec", "Model.Backoff", "Model.ErsReconcile", "Model.EdsReconcile", "Check.World"]
RULE = ("stores holding two or three ExtendedDaemonSets - same name in another namespace, another name in the same namespace, another "
        "name elsewhere - each with its own replica sets and pods (same or different templates), plus unrelated pods and DaemonSets "
        "with overlapping labels and a declared migration (in a third of the replica-set stores: pods of the old DaemonSet and look-alikes owned by a same-named workload of another kind, by another DaemonSet, by nobody); real Reconciles of every ExtendedDaemonSet and of every replica set of both "
        "namespaces, interleaved, through rollouts and canaries (single stores and histories). Every object passed to Create, "
        "Update, Patch, Delete is judged. Non-trivial = the step wrote something while a second ExtendedDaemonSet existed.")
ASSUMPTIONS = [
    "API calls address objects by (namespace, name): the harness records both",
    "the PodTemplate of the same name and namespace is written only by the PodTemplate reconcile (C13)",
]
CODES = {
    1: "model does not predict the reconcile",
    10: "a pod that is not the ExtendedDaemonSet's (nor a migrated DaemonSet pod of its namespace) was deleted",
    11: "a pod that is not the ExtendedDaemonSet's was relabelled",
    12: "a pod was created outside the ExtendedDaemonSet's namespace or without its labels/owner",
    13: "a replica set acted for an ExtendedDaemonSet that is not its owner in its namespace",
    14: "a reconcile without its object wrote something",
    15: "a replica set of another ExtendedDaemonSet (or namespace) was deleted",
    16: "a replica set was created outside the ExtendedDaemonSet's namespace or without its label/owner",
    17: "status counters include replica sets of another ExtendedDaemonSet",
    18: "a foreign replica set was adopted as activeReplicaSet",
    19: "another ExtendedDaemonSet object was updated",
    20: "harness panic",
}
GO_TIMEOUT = 1800


def retarget(objs, ns_new, eds_new, eds_old="foo"):
    """a copy of a population moved to another namespace and/or ExtendedDaemonSet name"""
    def rn(s):
        if not isinstance(s, str):
            return s
        if s == eds_old:
            return eds_new
        if s.startswith(eds_old + "-"):
            return eds_new + s[len(eds_old):]
        if s.startswith("@HASH:" + eds_old + "-"):
            return "@HASH:" + eds_new + s[len("@HASH:" + eds_old):]
        return s
    out = []
    for o in objs:
        if o["kind"] in ("Node",):
            continue
        o = copy.deepcopy(o)
        md = o["metadata"]
        md["namespace"] = ns_new
        md["uid"] = "uid-%s-%s-%s" % (ns_new, eds_new, md["name"])
        if o["kind"] in ("ExtendedDaemonSet", "ExtendedDaemonSetReplicaSet"):
            md["name"] = rn(md["name"])
        elif o["kind"] == "Pod":
            md["name"] = ("t-" if eds_new != eds_old else "") + md["name"]
        for k in (P.K_EDS, P.K_RS):
            if k in (md.get("labels") or {}):
                md["labels"][k] = rn(md["labels"][k])
        for k, v in list((md.get("annotations") or {}).items()):
            md["annotations"][k] = rn(v)
        for ref in md.get("ownerReferences") or []:
            if ref.get("kind") in ("ExtendedDaemonSet", "ExtendedDaemonSetReplicaSet"):
                ref["name"] = rn(ref["name"])
                ref["uid"] = "uid-%s-%s" % (ns_new, ref["name"])
        if o["kind"] == "ExtendedDaemonSet":
            st = o.get("status") or {}
            if st.get("activeReplicaSet"):
                st["activeReplicaSet"] = rn(st["activeReplicaSet"])
            if st.get("canary"):
                st["canary"]["replicaSet"] = rn(st["canary"]["replicaSet"])
            for k, v in list((md.get("annotations") or {}).items()):
                if k == P.A_VALID:
                    md["annotations"][k] = rn(v)
        out.append(o)
    return out


def two_worlds(rng, stats, gen):
    w1 = gen()
    w2 = gen()
    ns2, name2 = rng.choice([("ns2", "foo"), ("ns2", "foo"), ("ns1", "bar"), ("ns2", "bar")])
    extra = retarget(w2["objects"], ns2, name2)
    objs = w1["objects"] + extra
    if rng.random() < 0.3:
        objs += retarget(w2["objects"], "ns3", "foo")
    ops = []
    for op in w1["ops"]:
        ops.append(op)
    for op in w2["ops"]:
        if op.get("op") == "reconcile":
            op = dict(op, ns=ns2)
            if op.get("ctrl") == "eds":
                op["name"] = name2
            elif op.get("name") not in (None, "*"):
                op["name"] = (name2 + op["name"][3:]) if op["name"].startswith("foo-") else op["name"]
        ops.append(op)
    # both populations are reconciled again in the other order
    ops += [o for o in reversed(ops) if o.get("op") == "reconcile"][:4]
    wprop.bump(stats, "second ExtendedDaemonSet", "%s/%s" % (ns2, name2))
    seen, uniq = set(), []
    for o in objs:
        k = (o["kind"], o["metadata"].get("namespace", ""), o["metadata"]["name"])
        if k not in seen:
            seen.add(k)
            uniq.append(o)
    return {"kind": "world", "objects": uniq, "ops": ops, "options": w1["options"]}


def generate(rng, tier, stats):
    out = []
    for _ in range(110 if tier == "quick" else 1800):
        out.append(two_worlds(rng, stats, lambda: worldgen.gen_ers_world(rng, stats, {"open_gates": rng.random() < 0.8, "no_faults": True,
                                                                                   "old_ds": rng.random() < 0.35})))
    for _ in range(90 if tier == "quick" else 1500):
        out.append(two_worlds(rng, stats, lambda: worldgen.gen_eds_world(rng, None, {"no_faults": True})))
    for _ in range(12 if tier == "quick" else 200):
        # two ExtendedDaemonSets rolled out side by side by the real controllers
        n = rng.choice([2, 3, 4])
        objs = histgen.initial_store(rng, n, canary=rng.random() < 0.5)
        ns2, name2 = rng.choice([("ns2", "foo"), ("ns1", "bar")])
        e2 = histgen.initial_store(rng, 0, canary=rng.random() < 0.5, tpl_image=rng.choice(["img:1", "img:7"]), name=name2, ns=ns2)
        objs += e2
        ops = []
        for _ in range(rng.choice([3, 4, 6])):
            ops += [histgen.kubelet("all"), K.sleep(61), histgen.rec_eds(), histgen.rec_eds(name2, ns2),
                    histgen.rec_all_ers(rng, "ns1")] + ([histgen.rec_all_ers(rng, "ns2")] if ns2 != "ns1" else [])
            if rng.random() < 0.5:
                ops.append(histgen.edit("ExtendedDaemonSet", rng.choice([("ns1", "foo"), (ns2, name2)])[0], "foo" if rng.random() < 0.5 or ns2 == "ns2" and name2 == "foo" else name2,
                                        "image:" + rng.choice(["img:2", "img:3"])))
        out.append({"kind": "world", "objects": objs, "ops": ops, "options": {"affinity": False, "default_mode": "auto"}})
    return out


def nontrivial(c, r):
    return len([o for o in c["objects"] if o["kind"] == "ExtendedDaemonSet"]) >= 2 and bool(wprop.calls_of(r))
