"""C13 - one replica set per template, faithful to it, never collected while in use."""
import k8s as K
import histgen
import project as P
import worldenc
import worldgen
import wprop
from fw import gB, gL, gO, gC
from wprop import classify_unencodable, sample  # noqa: F401

ID = "C13"
TAGS = ["h_world"]
CHECK_MODULE = "Check.C13Check"
IMPORTS = ["Model.Objects", "Model.PodSpec", "Model.Backoff", "Model.ErsReconcile", "Model.EdsReconcile", "Model.PodTemplate", "Check.World"]
RULE = ("(a) histories driven by the real controllers over a three-template alphabet: A->B->A, A->B->C, edits during a canary, "
        "edits that only re-serialise the same template (same image again), with all reconcile interleavings the history "
        "generator draws, PodTemplate reconciles included; (b) random ExtendedDaemonSet stores with one to four replica sets, "
        "every combination of zero / non-zero desired, current, ready, available at clean-up time, failed canaries around the "
        "two-minute retention, a second replica set with the same template, replica sets already terminating. "
        "Non-trivial = a replica set or PodTemplate was created, updated or deleted.")
ASSUMPTIONS = [
    "template identity is the MD5 of the canonical JSON (injective on the templates a run explores; checked by the harness: "
    "the hash the code computes is compared with the harness's own)",
    "'the active replica set' is the one the promotion rule selects in this reconcile (DESIGN.md 5/C13)",
]
CODES = {
    1: "model does not predict the reconcile",
    10: "a replica set was created although one matching the template exists",
    11: "a replica set in use (active or matching spec.template), reporting pods, or a recently failed canary was deleted",
    12: "a created replica set does not record the template it was created from",
    13: "a pod does not carry the hash of the replica set that created it",
    15: "the PodTemplate does not mirror spec.template and its hash after its reconcile",
    20: "harness panic",
}
GO_TIMEOUT = 1500


def g_pt(o):
    md = o["metadata"]
    ctrl = [r for r in md.get("ownerReferences") or [] if r.get("controller") and r.get("kind") == "ExtendedDaemonSet"]
    return gC("MkPt", P.nm(md.get("name", "")), P.nm(md.get("namespace", "")), gO((md.get("annotations") or {}).get(P.A_HASH), P.nm),
              P.nm(o.get("_tmplHash", "")), P.nm(ctrl[0]["name"] if ctrl else ""))


def encode(c, r):
    if r.get("panic"):
        return None
    lits = []
    for st in (r["out"].get("steps") or []):
        op = st["op"]
        if op.get("op") == "reconcile" and op.get("ctrl") == "podtemplate" and not st.get("stopped") and st.get("pre") is not None:
            e = worldenc.find(st["pre"], "ExtendedDaemonSet", op["ns"], op["name"])
            pt = worldenc.find(st["pre"], "PodTemplate", op["ns"], op["name"])
            obs = []
            for cl in st["calls"]:
                if cl["kind"] != "PodTemplate" or cl["verb"] not in ("create", "update"):
                    raise ValueError("unexpected call of the PodTemplate reconcile: %s %s" % (cl["verb"], cl["kind"]))
                obs.append(gC("PtCreate" if cl["verb"] == "create" else "PtUpdate", g_pt(cl["obj"])))
            f = bool((op.get("faults") or {}).get("update"))
            lit = gC("Pt", gO(e, P.g_eds), gO(pt, g_pt), gB(f), gL(obs), gB(bool(st.get("err"))), gB(bool(st.get("panic"))))
            lits.append(P.finish(lit)[0])
            continue
        l = worldenc.encode_step(st, c["options"])
        if l is not None:
            lits.append("(W %s)" % l)
    return lits


def generate(rng, tier, stats):
    out = []
    for _ in range(40 if tier == "quick" else 700):
        out.append(histgen.gen_history(rng, stats, length=rng.choice([10, 16, 24]), podtemplate=True, edit_bias=0.2,
                                       canary=rng.random() < 0.5))
    for _ in range(160 if tier == "quick" else 2500):
        out.append(worldgen.gen_eds_world(rng, stats, {"scenario": rng.choice(["many_rs", "many_rs", "fresh", "new_template", "canary_failed", "steady", "no_canary_update"])}))
    # a template edit that lands in the middle of a reconcile (after the controller read the ExtendedDaemonSet and listed the
    # replica sets): the replica set created is the one for the template the decision was taken on
    for _ in range(14 if tier == "quick" else 200):
        n = rng.choice([2, 3])
        c = histgen.gen_history(rng, None, n=n, canary=rng.random() < 0.4, length=0, podtemplate=True)
        ops = c["ops"]
        ops += histgen.rollout_ops(rng, 2)
        imgs = ["img:1", "img:2", "img:3"]
        for _k in range(rng.choice([1, 2])):
            ops += [histgen.edit("ExtendedDaemonSet", histgen.NS, histgen.EDS, "image:" + rng.choice(imgs[1:])),
                    histgen.rec_eds(faults={"mid_edit": "image:" + rng.choice(imgs)})]
            ops += histgen.rollout_ops(rng, rng.choice([1, 2]))
        wprop.bump(stats, "template edit landing in the middle of a reconcile", "yes")
        out.append(c)
    # the replica set of the current template may be marked for deletion and still be there (a finalizer holds it):
    # it still is the replica set of that template - no second one is created
    for c in out:
        if rng.random() < 0.15:
            rss = [o for o in c["objects"] if o["kind"] == "ExtendedDaemonSetReplicaSet"]
            if rss:
                o = rng.choice(rss)
                o["metadata"]["deletionTimestamp"] = K.ts(-30)
                o["metadata"]["finalizers"] = ["foregroundDeletion"]
                wprop.bump(stats, "a replica set marked for deletion but still present", "yes")
    # an ExtendedDaemonSet may itself carry the hash annotation (a manifest exported from a replica set or from the
    # generated PodTemplate): the replica set created for a template still records the hash of THAT template
    for c in out:
        if rng.random() < 0.3:
            for o in c["objects"]:
                if o["kind"] == "ExtendedDaemonSet":
                    o["metadata"].setdefault("annotations", {})[P.A_HASH] = rng.choice(["0123456789abcdef0123456789abcdef", "stale"])
                    wprop.bump(stats, "ExtendedDaemonSet carries a templatehash annotation", "yes")
    return out


def nontrivial(c, r):
    return bool(wprop.calls_of(r, None, "ExtendedDaemonSetReplicaSet") and [x for x in wprop.calls_of(r, None, "ExtendedDaemonSetReplicaSet") if x["verb"] in ("create", "delete")]
                or wprop.calls_of(r, None, "PodTemplate"))
