#!/bin/sh
# usage: seed3.sh <letter> [extra checks...] - confirms the round-3 seeded change /tmp/seedout3-<letter> and runs the checks of the
# properties its README names (first line "PROPERTY: Cxx [Cyy]", second line "PACKAGE: <dir>")
L=$1; shift
OUT=/tmp/seedout${ROUND:-3}-$L
PROPS=$(head -1 $OUT/README.txt | sed 's/^PROPERTY: *//' | tr ',' ' ')
PKG=$(sed -n 2p $OUT/README.txt | sed 's/^PACKAGE: *//' | sed 's#^##')
echo "### $L: properties=$PROPS package=$PKG"
SEEDOUT=$OUT /verif/tools/seedtest.sh $L "$PKG" $PROPS "$@" 2>&1 | grep -v conda | grep "^ok\|^FAIL\|module:\|VIOLATION\|tier=\|patch does not"
rm -rf /tmp/k8s_test_framework_*
