"""Development plug-in: whole-reconcile correspondence only (no property), used to validate the model."""
import worldenc
import worldgen

ID = "WORLD"
TAGS = ["h_world"]
CHECK_MODULE = "Check.WorldCheck"
IMPORTS = ["Model.Objects", "Model.PodSpec", "Model.Backoff", "Model.ErsReconcile", "Model.EdsReconcile", "Check.World"]
RULE = "random stores + one or two replica-set reconciles"
ASSUMPTIONS = []
CODES = {1: "model does not predict the implementation"}
GO_TIMEOUT = 1200


def generate(rng, tier, stats):
    n = 200 if tier == "quick" else 2000
    import os
    which = os.environ.get("WORLD_KIND", "both")
    out = []
    for i in range(n):
        if which == "ers" or (which == "both" and i % 2 == 0):
            out.append(worldgen.gen_ers_world(rng, stats))
        else:
            out.append(worldgen.gen_eds_world(rng, stats))
    return out


def encode(c, r):
    if r.get("panic"):
        return None
    lits = []
    for st in r["out"]["steps"]:
        l = worldenc.encode_step(st, c["options"])
        if l is not None:
            lits.append(l)
    return lits


def classify_unencodable(c, r):
    return (20, "harness panic " + r.get("panic", "")[:200])


def nontrivial(c, r):
    return any(st.get("calls") for st in r["out"]["steps"])


def sample(c, r):
    return {"ops": c["ops"], "objects": len(c["objects"]), "calls": [st.get("calls") for st in r["out"]["steps"]][:1]}
