"""C06 - auto-fail and auto-pause fire exactly on their documented triggers."""
import k8s as K
import worldgen
import wprop
from wprop import encode, classify_unencodable, sample  # noqa: F401

ID = "C06"
TAGS = ["h_world"]
CHECK_MODULE = "Check.C06Check"
IMPORTS = ["Model.Objects", "Model.PodSpec", "Model.Backoff", "Model.ErsReconcile", "Model.EdsReconcile", "Check.World"]
RULE = ("real Reconciles of the CANARY replica set (virtual clock) on stores with zero to three up-to-date canary pods whose container "
        "restart counts sit at, just below and just above autoPause.maxRestarts and autoFail.maxRestarts, waiting reasons inside "
        "and outside the cannot-start set (ErrImagePull, ImagePullBackOff, CreateContainerConfigError, InvalidImageName, "
        "PostStartHookError, ContainerCreating, PodInitializing, CrashLoopBackOff), pod start time before/at/after "
        "maxSlowStartDuration, every autoPause/autoFail enabled combination, maxRestartsDuration and canaryTimeout around the "
        "recorded spans, every previous Canary-Paused / Canary-Failed / PodRestarting / Canary condition state and age, and "
        "every pause/unpause annotation combination. Non-trivial = the sync evaluated at least one canary pod or a condition was true.")
ASSUMPTIONS = [
    "pod statuses are kubelet shaped: a non-zero lastState carries Terminated; startTime is set whenever container statuses exist",
    "the statement is scoped to 'at least one up-to-date canary pod'; with none, the pause state is the previous one unless unpaused (D6)",
    "the triggers are judged on the conditions the sync wrote (a rejected status write is outside)",
]
CODES = {
    1: "model does not predict the replica-set sync",
    10: "Canary-Failed after the sync is not 'was failed or an auto-fail trigger fired'",
    11: "Canary-Paused after the sync is not what the triggers, the previous state and the unpause annotation dictate",
    12: "a failed canary became un-failed",
    14: "the recorded latest restart moved backwards, or the recorded first restart changed",
    13: "a canary pod was created while the canary is paused or failed",
    20: "harness panic",
}
GO_TIMEOUT = 1500
WAIT = ["ErrImagePull", "ImagePullBackOff", "CreateContainerConfigError", "InvalidImageName", "PostStartHookError",
        "ContainerCreating", "PodInitializing", "CrashLoopBackOff"]


def generate(rng, tier, stats):
    n = 420 if tier == "quick" else 7000
    out = []
    for i in range(n):
        apm, afm = rng.choice([0, 2, 3]), rng.choice([2, 5, 6])
        slow = rng.choice([None, None, 60, 290])
        canary = {"autoPause": {"enabled": rng.random() < 0.8, "maxRestarts": apm},
                  "autoFail": {"enabled": rng.random() < 0.8, "maxRestarts": max(afm, apm)}}
        if slow is not None:
            canary["autoPause"]["maxSlowStartDuration"] = K.dur(slow)
        if rng.random() < 0.4:
            canary["autoFail"]["maxRestartsDuration"] = K.dur(rng.choice([30, 50, 60, 300]))
        if rng.random() < 0.4:
            canary["autoFail"]["canaryTimeout"] = K.dur(rng.choice([25, 599, 600, 601, 700]))
        nn = rng.choice([1, 2, 3, 4])
        force = {"scenario": "canary", "n": nn, "canary_k": rng.choice([0, 1, 2, 3]), "open_gates": rng.random() < 0.85,
                 "no_faults": rng.random() < 0.95, "canary": canary,
                 "classes": ["uptodate_ready", "uptodate_ready", "uptodate_notready", "uptodate_notready", "none", "old_ready"]}
        c = worldgen.gen_ers_world(rng, stats, force)
        if rng.random() < 0.15:
            # a replica set that is the canary for the second time: its Canary condition is False, left over from an earlier
            # canary episode (both stamps old); the timeout counts from the moment it becomes true again
            for o in c["objects"]:
                if o["kind"] == "ExtendedDaemonSetReplicaSet" and o["metadata"]["name"] == "foo-b":
                    conds = o["status"].setdefault("conditions", [])
                    conds[:] = [x for x in conds if x["type"] != "Canary"]
                    conds.insert(0, K.cond("Canary", "False", trans=rng.choice([-700, -3000]), update=rng.choice([-3000, -5000])))
                    canary["autoFail"].setdefault("canaryTimeout", K.dur(rng.choice([601, 700])))
            e_ = [o for o in c["objects"] if o["kind"] == "ExtendedDaemonSet"][0]
            if e_["spec"]["strategy"].get("canary"):
                e_["spec"]["strategy"]["canary"].setdefault("autoFail", {}).setdefault("canaryTimeout", K.dur(700))
            wprop.bump(stats, "canary for the second time (a False Canary condition left over)", "yes")
        # restart counts and waiting reasons at the thresholds, start times around maxSlowStartDuration
        for o in c["objects"]:
            if o["kind"] == "Pod" and o["metadata"]["labels"].get("extendeddaemonsetreplicaset.datadoghq.com/name") == "foo-b":
                r = rng.random()
                if r < 0.45:
                    k = rng.choice([apm - 1, apm, apm + 1, afm - 1, afm, afm + 1])
                    k = max(k, 0)
                    o["status"]["containerStatuses"] = [K.container_status("main", restarts=k, last_reason=rng.choice([None, "Error", "OOMKilled"]) if k else None,
                                                                           last_finished=rng.choice([-500, -120, -30, -1]) if k else None)]
                elif r < 0.8:
                    o["status"]["containerStatuses"] = [K.container_status("main", restarts=rng.choice([0, 0, apm + 1]), waiting=rng.choice(WAIT),
                                                                           last_finished=rng.choice([None, -60]))]
                    o["status"]["phase"] = "Pending"
                if rng.random() < 0.3:
                    # several statuses: a harmless waiting reason first, the one that cannot start later (a sidecar, an init container)
                    first = K.container_status("main", restarts=0, waiting=rng.choice(["PodInitializing", "ContainerCreating", "CrashLoopBackOff"]))
                    later = K.container_status("side", restarts=0, waiting=rng.choice(["ImagePullBackOff", "CreateContainerConfigError", "ErrImagePull"]))
                    if rng.random() < 0.5:
                        o["status"]["containerStatuses"] = [first, later]
                    else:
                        o["status"]["containerStatuses"] = [first]
                        o["status"]["initContainerStatuses"] = [K.container_status("init", restarts=0, waiting="ImagePullBackOff")]
                    o["status"]["phase"] = "Pending"
                    wprop.bump(stats, "cannot-start status behind a harmless waiting one", "yes")
                # the triggers read regular, init and ephemeral container statuses alike (kubectl debug adds the latter)
                r2 = rng.random()
                if r2 < 0.25:
                    o["status"]["ephemeralContainerStatuses"] = [K.container_status("debugger", restarts=0)] * rng.choice([1, 1, 2])
                    wprop.bump(stats, "extra container statuses", "ephemeral")
                elif r2 < 0.4:
                    o["status"]["initContainerStatuses"] = [K.container_status("init", restarts=rng.choice([0, apm + 1, afm + 1]),
                                                                               last_reason="Error", last_finished=-20)]
                    wprop.bump(stats, "extra container statuses", "init")
                elif r2 < 0.5 and o["status"].get("containerStatuses"):
                    o["status"]["ephemeralContainerStatuses"] = o["status"]["containerStatuses"]
                    o["status"]["containerStatuses"] = [K.container_status("main", restarts=0)]
                    wprop.bump(stats, "extra container statuses", "trigger in the ephemeral one")
                if slow is not None:
                    o["status"]["startTime"] = K.ts(-(slow + rng.choice([-1, 0, 1, 100])))
        mrd = canary["autoFail"].get("maxRestartsDuration")
        if mrd is not None and rng.random() < 0.7:
            # a recorded restart history whose FIRST restart is older than maxRestartsDuration while the span between the first
            # and the latest restart is just below, at, or just above it
            d = int(mrd.rstrip("s")) if mrd.endswith("s") and mrd[:-1].isdigit() else None
            if d is not None:
                first = -(d + rng.choice([1, 40, 200]))
                span = rng.choice([0, 5, d - 1, d, d + 1])
                last = min(first + span, 0)
                for o in c["objects"]:
                    if o["kind"] == "ExtendedDaemonSetReplicaSet" and o["metadata"]["name"] == "foo-b":
                        conds = o.setdefault("status", {}).setdefault("conditions", [])
                        if conds is None:
                            o["status"]["conditions"] = conds = []
                        conds[:] = [x for x in conds if x["type"] != "PodRestarting"]
                        conds.append(K.cond("PodRestarting", "True", trans=first, update=last, reason=""))
                wprop.bump(stats, "restart span vs maxRestartsDuration", "%+d" % (last - first - d))
        wprop.bump(stats, "thresholds ap/af", "%s/%s" % (apm, max(afm, apm)))
        wprop.bump(stats, "maxSlowStartDuration", slow)
        out.append(c)
    return out


def nontrivial(c, r):
    for o in c["objects"]:
        if o["kind"] == "Pod" and o["metadata"]["labels"].get("extendeddaemonsetreplicaset.datadoghq.com/name") == "foo-b":
            return True
    return False
