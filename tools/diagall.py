"""Debug aid: diagnose every mismatching step of the last WORLD run."""
import json, os, sys, re
sys.path.insert(0, os.path.dirname(os.path.abspath(__file__)))
import fw, worldenc
prop = sys.argv[1] if len(sys.argv) > 1 else "WORLD"
rundir = os.path.join(fw.BUILD, "run", prop)
cases = [json.loads(l) for l in open(os.path.join(rundir, "cases.jsonl"))]
res = {}
for l in open(os.path.join(rundir, "cases.out.jsonl")):
    r = json.loads(l); res[r["id"]] = r
lits = []
for c in cases:
    r = res.get(c["id"])
    if not r or r.get("panic") or "out" not in r: continue
    k = 0
    for st in r["out"]["steps"]:
        try:
            l = worldenc.encode_step(st, c["options"])
        except Exception as e:
            print("encode error", c["id"], e); continue
        if l is not None:
            lits.append((c["id"], k, l, st)); k += 1
d = os.path.join(fw.BUILD, "diag"); os.makedirs(d, exist_ok=True)
f = os.path.join(d, "diag.v")
with open(f, "w") as fh:
    fh.write("From Coq Require Import String ZArith NArith List.\nImport ListNotations.\nFrom EDS Require Import Model.Base Model.Objects Model.PodSpec Model.Backoff Model.ErsReconcile Model.EdsReconcile Check.World.\n")
    fh.write("Definition cases : list World.case := [\n" + ";\n".join(l for _, _, l, _ in lits) + "].\n")
    fh.write("Definition R := Eval vm_compute in (map (fun c => if step_ok c then [] else 1%N :: diag c) cases).\nPrint R.\n")
rc, out = fw.sh(["coqc", "-Q", fw.COQ, "EDS", f], 1200, cwd=d)
m = re.search(r"R\s*=\s*(.*?)\s*:\s*list", out, flags=re.S)
body = m.group(1)
items = re.findall(r"\[([^\[\]]*)\]", body[1:-1])
from collections import Counter
cnt = Counter()
for (cid, k, _, st), it in zip(lits, items):
    if it.strip():
        codes = tuple(int(x.replace("%N", "")) for x in it.split(";"))
        cnt[codes] += 1
        print("case", cid, "step", k, "codes", codes, "op", st["op"]["name"], "err", (st.get("err") or "")[:80], "panic", (st.get("panic") or "")[:80])
print(cnt)
