"""Builders of real API objects (as JSON) for the generators, and the virtual-clock time helpers."""
import calendar
import json
import time as _time

import project as P

EPOCH = calendar.timegm(_time.strptime("2000-01-01T00:00:00Z", "%Y-%m-%dT%H:%M:%SZ"))


def ts(sec):
    """RFC3339 of (virtual epoch + sec seconds)"""
    return _time.strftime("%Y-%m-%dT%H:%M:%SZ", _time.gmtime(EPOCH + int(sec)))


def dur(sec):
    """Go duration string (what metav1.Duration unmarshals): whole seconds, or milliseconds for a fractional value"""
    if isinstance(sec, float) and sec != int(sec):
        return "%dms" % int(round(sec * 1000))
    return "%ds" % int(sec)


def node(name, labels=None, taints=None, annotations=None):
    o = {"kind": "Node", "apiVersion": "v1", "metadata": {"name": name, "labels": labels or {}}}
    if annotations:
        o["metadata"]["annotations"] = annotations
    if taints:
        o["spec"] = {"taints": taints}
    return o


def template(containers=("main",), image="img:1", node_selector=None, terms=None, tolerations=None, labels=None,
             resources=None, name=None, annotations=None, preferred_only=False):
    spec = {"containers": [{"name": c, "image": image, "resources": (resources or {}).get(c, {})} for c in containers]}
    if node_selector:
        spec["nodeSelector"] = node_selector
    if terms is not None:
        spec["affinity"] = {"nodeAffinity": {"requiredDuringSchedulingIgnoredDuringExecution": {"nodeSelectorTerms": terms}}}
    elif preferred_only:
        # an affinity block without required terms (a preference only, or an empty nodeAffinity): it restricts nothing
        spec["affinity"] = {"nodeAffinity": {"preferredDuringSchedulingIgnoredDuringExecution": [
            {"weight": 1, "preference": {"matchExpressions": [{"key": "zone", "operator": "In", "values": ["a"]}]}}]}} \
            if preferred_only == "preferred" else {"nodeAffinity": {}}
    if tolerations:
        spec["tolerations"] = tolerations
    md = {"labels": dict(labels or {"app": "agent"})}
    if name:
        md["name"] = name
    if annotations:
        md["annotations"] = dict(annotations)
    return {"metadata": md, "spec": spec}


def cond(t, status, trans=0, update=None, reason=""):
    c = {"type": t, "status": status, "lastTransitionTime": ts(trans), "lastUpdateTime": ts(trans if update is None else update)}
    if reason:
        c["reason"] = reason
    return c


def eds(ns, name, tpl, strategy=None, annotations=None, labels=None, selector=None, status=None, created=-3600):
    o = {"kind": "ExtendedDaemonSet", "apiVersion": "datadoghq.com/v1alpha1",
         "metadata": {"name": name, "namespace": ns, "creationTimestamp": ts(created), "uid": "uid-" + ns + "-" + name},
         "spec": {"template": tpl, "strategy": strategy if strategy is not None else {}}}
    if annotations:
        o["metadata"]["annotations"] = annotations
    if labels:
        o["metadata"]["labels"] = labels
    if selector is not None:
        o["spec"]["selector"] = selector
    if status is not None:
        o["status"] = status
    return o


def default_strategy(canary=None, freq=10, max_unavailable=1, max_sched_failure=0, max_parallel=250, interval=60, increase=1):
    s = {"rollingUpdate": {"maxUnavailable": max_unavailable, "maxPodSchedulerFailure": max_sched_failure,
                           "maxParallelPodCreation": max_parallel, "slowStartIntervalDuration": dur(interval),
                           "slowStartAdditiveIncrease": increase},
         "reconcileFrequency": dur(freq)}
    if canary is not None:
        s["canary"] = canary
    return s


def default_canary(replicas=1, duration=600, mode="auto", no_restarts=300, ap_enabled=True, ap_max=2, af_enabled=True, af_max=5,
                   node_selector=None, anti_affinity=None, max_slow=None, restarts_dur=None, timeout=None):
    c = {"replicas": replicas, "validationMode": mode, "nodeSelector": node_selector if node_selector is not None else {"matchLabels": {}},
         "autoPause": {"enabled": ap_enabled, "maxRestarts": ap_max}, "autoFail": {"enabled": af_enabled, "maxRestarts": af_max}}
    if duration is not None:
        c["duration"] = dur(duration)
    if no_restarts is not None:
        c["noRestartsDuration"] = dur(no_restarts)
    if anti_affinity:
        c["nodeAntiAffinityKeys"] = anti_affinity
    if max_slow is not None:
        c["autoPause"]["maxSlowStartDuration"] = dur(max_slow)
    if restarts_dur is not None:
        c["autoFail"]["maxRestartsDuration"] = dur(restarts_dur)
    if timeout is not None:
        c["autoFail"]["canaryTimeout"] = dur(timeout)
    return c


def ers(ns, name, eds_name, tpl, created=-600, status=None, hash_value="@HASH", annotations=None, selector=None, owner=True,
        labels=None, deleting=False):
    ann = dict(annotations or {})
    if hash_value is not None:
        ann[P.A_HASH] = hash_value
    lab = {P.K_EDS: eds_name}
    lab.update(labels or {})
    o = {"kind": "ExtendedDaemonSetReplicaSet", "apiVersion": "datadoghq.com/v1alpha1",
         "metadata": {"name": name, "namespace": ns, "creationTimestamp": ts(created), "labels": lab, "annotations": ann,
                      "uid": "uid-" + ns + "-" + name},
         "spec": {"template": tpl, "templateGeneration": hash_value or ""},
         "status": status or {"status": "", "desired": 0, "current": 0, "ready": 0, "available": 0, "ignoredUnresponsiveNodes": 0}}
    if owner:
        o["metadata"]["ownerReferences"] = [{"apiVersion": "datadoghq.com/v1alpha1", "kind": "ExtendedDaemonSet", "name": eds_name,
                                             "uid": "uid-" + ns + "-" + eds_name, "controller": True, "blockOwnerDeletion": True}]
    if selector is not None:
        o["spec"]["selector"] = selector
    if deleting:
        o["metadata"]["deletionTimestamp"] = ts(-1)
        o["metadata"]["finalizers"] = ["verif.example/hold"]
    return o


def ers_status(status="", desired=0, current=0, ready=0, available=0, ignored=0, conditions=None):
    st = {"status": status, "desired": desired, "current": current, "ready": ready, "available": available,
          "ignoredUnresponsiveNodes": ignored}
    if conditions:
        st["conditions"] = conditions
    return st


def eds_status(active="", desired=0, current=0, ready=0, available=0, uptodate=0, ignored=0, state="", canary=None, reason="",
               conditions=None):
    st = {"desired": desired, "current": current, "ready": ready, "available": available, "upToDate": uptodate,
          "ignoredUnresponsiveNodes": ignored, "activeReplicaSet": active}
    if state:
        st["state"] = state
    if canary is not None:
        st["canary"] = canary
    if reason:
        st["reason"] = reason
    if conditions:
        st["conditions"] = conditions
    return st


def container_status(name="main", restarts=0, waiting=None, last_reason=None, last_finished=None, ready=True, last_other=False):
    cs = {"name": name, "restartCount": restarts, "ready": ready, "image": "img", "imageID": ""}
    if waiting is not None:
        cs["state"] = {"waiting": {"reason": waiting}}
    else:
        cs["state"] = {"running": {"startedAt": ts(-100)}}
    if last_other:
        cs["lastState"] = {"waiting": {"reason": "x"}}
    elif last_reason is not None or last_finished is not None:
        t = {"exitCode": 1}
        if last_reason:
            t["reason"] = last_reason
        if last_finished is not None:
            t["finishedAt"] = ts(last_finished)
        cs["lastState"] = {"terminated": t}
    return cs


def pod(ns, name, eds_name=None, rs_name=None, hash_value=None, node=None, affinity_mode=False, phase="Running", ready=True,
        created=-300, deleting=None, grace=None, labels=None, annotations=None, cstats=None, init_cstats=None, start=-290,
        containers=("main",), resources=None, unschedulable=False, ds_owner=None, nodehash=None, extra_terms=None,
        ready_cond=True):
    lab = dict(labels or {})
    if eds_name is not None:
        lab[P.K_EDS] = eds_name
    if rs_name is not None:
        lab[P.K_RS] = rs_name
    ann = dict(annotations or {})
    if hash_value is not None:
        ann[P.A_HASH] = hash_value
    if nodehash:
        ann[P.A_NODEHASH] = nodehash
    spec = {"containers": [{"name": c, "image": "img:1", "resources": (resources or {}).get(c, {})} for c in containers]}
    if node is not None:
        if affinity_mode:
            terms = [{"matchFields": [{"key": "metadata.name", "operator": "In", "values": [node]}]}]
            if extra_terms:
                terms = extra_terms
            spec["affinity"] = {"nodeAffinity": {"requiredDuringSchedulingIgnoredDuringExecution": {"nodeSelectorTerms": terms}}}
        else:
            spec["nodeName"] = node
    st = {"phase": phase}
    conds = []
    if ready_cond:
        conds.append({"type": "Ready", "status": "True" if ready else "False", "lastTransitionTime": ts(created + 5)})
    if unschedulable:
        conds.append({"type": "PodScheduled", "status": "False", "reason": "Unschedulable", "lastTransitionTime": ts(created)})
    if conds:
        st["conditions"] = conds
    if start is not None:
        st["startTime"] = ts(start)
    if cstats is not None:
        st["containerStatuses"] = cstats
    if init_cstats is not None:
        st["initContainerStatuses"] = init_cstats
    md = {"name": name, "namespace": ns, "labels": lab, "annotations": ann, "creationTimestamp": ts(created),
          "finalizers": ["verif.example/graceful"]}
    if deleting is not None:
        md["deletionTimestamp"] = ts(deleting)
        if grace is not None:
            md["deletionGracePeriodSeconds"] = grace
    if isinstance(ds_owner, tuple):
        okind, oname, octrl = ds_owner          # an owner of any kind (a same-named StatefulSet, a non-controller reference, ...)
        md["ownerReferences"] = [{"apiVersion": "apps/v1", "kind": okind, "name": oname, "uid": "uid-%s-%s" % (okind.lower(), oname),
                                  "controller": octrl}]
    elif ds_owner:
        md["ownerReferences"] = [{"apiVersion": "apps/v1", "kind": "DaemonSet", "name": ds_owner, "uid": "uid-ds-" + ds_owner,
                                  "controller": True}]
    elif rs_name:
        md["ownerReferences"] = [{"apiVersion": "datadoghq.com/v1alpha1", "kind": "ExtendedDaemonSetReplicaSet", "name": rs_name,
                                  "uid": "uid-" + ns + "-" + rs_name, "controller": True, "blockOwnerDeletion": True}]
    return {"kind": "Pod", "apiVersion": "v1", "metadata": md, "spec": spec, "status": st}


def setting(ns, name, ref, selector, containers, created=-1000, status="valid", error=""):
    o = {"kind": "ExtendedDaemonsetSetting", "apiVersion": "datadoghq.com/v1alpha1",
         "metadata": {"name": name, "namespace": ns, "creationTimestamp": ts(created)},
         "spec": {"nodeSelector": selector, "containers": [{"name": c, "resources": r} for c, r in containers]},
         "status": {"status": status}}
    if ref is not None:
        o["spec"]["reference"] = {"name": ref, "kind": "ExtendedDaemonset"}
    if error:
        o["status"]["error"] = error
    return o


def daemonset(ns, name, selector=None):
    o = {"kind": "DaemonSet", "apiVersion": "apps/v1", "metadata": {"name": name, "namespace": ns},
         "spec": {"template": {"metadata": {"labels": {"ds": name}}, "spec": {"containers": [{"name": "c", "image": "i"}]}}}}
    if selector is not None:
        o["spec"]["selector"] = selector
    return o


def reconcile(ctrl, ns, name, faults=None):
    op = {"op": "reconcile", "ctrl": ctrl, "ns": ns, "name": name}
    if faults:
        op["faults"] = faults
    return op


def sleep(seconds, millis=0):
    op = {"op": "sleep", "seconds": int(seconds)}
    if millis:
        op["millis"] = int(millis)      # the clock then carries a fraction of a second; stored stamps do not
    return op


def dumps(o):
    return json.dumps(o, separators=(",", ":"))


def override_strategy(strat, ov, freq):
    """applies overrides {maxUnavailable, maxPodSchedulerFailure, maxParallelPodCreation,
    slowStartIntervalDuration (s), slowStartAdditiveIncrease, reconcileFrequency (s)}; returns the frequency"""
    ru = strat["rollingUpdate"]
    for k in ("maxUnavailable", "maxPodSchedulerFailure", "maxParallelPodCreation", "slowStartAdditiveIncrease"):
        if k in ov:
            ru[k] = ov[k]
    if "slowStartIntervalDuration" in ov:
        ru["slowStartIntervalDuration"] = dur(ov["slowStartIntervalDuration"])
    if "reconcileFrequency" in ov:
        freq = ov["reconcileFrequency"]
        strat["reconcileFrequency"] = dur(freq)
    return freq


def override_canary(canary, ov):
    for k, v in ov.items():
        if k in ("autoPause", "autoFail"):
            canary.setdefault(k, {}).update(v)
        elif v is None:
            canary.pop(k, None)
        else:
            canary[k] = v


def apply(obj):
    return {"op": "apply", "object": obj}


def delete(kind, ns, name):
    return {"op": "delete", "kind": kind, "ns": ns, "name": name}


def finalize(ns, name):
    return {"op": "finalize", "kind": "Pod", "ns": ns, "name": name}


def cmd(cmd_name, ns, name):
    return {"op": "cmd", "cmd": cmd_name, "ns": ns, "name": name}
