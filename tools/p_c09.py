"""C09 - pod creation is rate limited by slow start and syncs are spaced."""
import k8s as K
import worldgen
import wprop
from wprop import encode, classify_unencodable, sample  # noqa: F401

ID = "C09"
TAGS = ["h_world"]
CHECK_MODULE = "Check.C09Check"
IMPORTS = ["Model.Objects", "Model.PodSpec", "Model.Backoff", "Model.ErsReconcile", "Model.EdsReconcile", "Check.World"]
RULE = ("three to five real Reconciles of the ACTIVE replica set on one store, separated by sleeps of 0..3x reconcileFrequency "
        "(frequencies 0, 1, 10, 60 s), with many nodes lacking a pod; slow-start interval 1 s..1 h (and 0), additive increase "
        "as number and percent, maxParallelPodCreation 1..250; the Active condition's transition placed at multiples of the "
        "interval -1/0/+1 s; in a third of the cases some pod creations or deletions of a sync are rejected (the sync still "
        "counts for the spacing); created pods stay Pending (no kubelet) so later syncs see them. Non-trivial = at least one pod "
        "creation or deletion was issued in the case.")
ASSUMPTIONS = [
    "the virtual clock moves in whole seconds and does not run backwards; stored stamps are whole seconds",
    "the status write of the previous sync succeeded (the statement's own hypothesis) for the spacing monitor",
    "percent * total below 2^53",
]
CODES = {
    1: "model does not predict the replica-set sync",
    10: "more pods created in one sync than min(maxParallelPodCreation, (1+floor(t/interval))*increase) or than nodes lacking a pod",
    11: "more than maxUnavailable pods deleted for updating in one sync",
    12: "a sync younger than reconcileFrequency after the last full sync created or deleted pods",
    13: "a sync that touched pods did not stamp LastFullSync with its own instant",
    14: "a replica set synced in another role than active keeps a True Active condition (the ramp of a later re-activation would start in the past)",
    20: "harness panic",
}
GO_TIMEOUT = 1200
CLASSES = ["none", "none", "none", "none", "uptodate_ready", "old_ready", "old_notready", "uptodate_notready"]


def generate(rng, tier, stats):
    n = 160 if tier == "quick" else 2500
    out = []
    for i in range(n):
        nn = rng.choice([2, 4, 6, 8, 10, 12])
        freq = rng.choice([0, 1, 10, 10, 60])
        interval = rng.choice([0, 1, 30, 60, 60, 3600, 0.5, 1.5, 2.5, 1.999])   # also fractions of a second, also below one second
        inc = rng.choice([1, 1, 2, 5, "100%", "50%", "1%", "34%", "25%", "10%", "34%", 0])
        mp = rng.choice([250, 250, 1, 2, 3])
        force = {"scenario": rng.choice(["active", "active", "active_with_canary"]), "n": nn, "classes": CLASSES, "no_faults": rng.random() < 0.6, "fault_rate": 0.8,
                 "open_gates": rng.random() < 0.6, "annotations": {},
                 "strategy": {"reconcileFrequency": freq, "slowStartIntervalDuration": interval, "slowStartAdditiveIncrease": inc,
                              "maxParallelPodCreation": mp, "maxUnavailable": rng.choice([1, 2, "50%"])}}
        c = worldgen.gen_ers_world(rng, stats, force)
        sub = rng.random() < 0.4     # the clock carries fractions of a second (stored stamps have a resolution of one second)
        # place the Active transition around a multiple of the interval
        rs = [o for o in c["objects"] if o["kind"] == "ExtendedDaemonSetReplicaSet" and o["metadata"]["name"] == "foo-a"]
        if rs and interval and rng.random() < 0.7:
            conds = rs[0]["status"].setdefault("conditions", [])
            conds[:] = [x for x in conds if x["type"] != "Active"]
            k = rng.choice([0, 1, 2, 3])
            # (a False Active condition - the rollout was frozen or paused - does not start the ramp: t = 0)
            conds.append(K.cond("Active", rng.choice(["True", "True", "True", "False"]), trans=-max(0, int(k * interval) + (rng.choice([-1, -1, -1, 0, 1]) if sub else rng.choice([-1, 0, 1])))))   # never in the future
        # further reconciles at arbitrary times
        ops = [c["ops"][0]]
        if sub:
            ops.insert(0, K.sleep(0, millis=rng.choice([300, 500, 600, 700, 900])))
            wprop.bump(stats, "clock with a sub-second part", "yes")
        for _ in range(rng.choice([2, 3, 4])):
            d = int(rng.choice([0, 1, max(freq - 1, 0), freq, freq + 1, 2 * freq, 3 * freq, interval, interval + 1, 3 * interval + 1, 9, 28]))
            ms = rng.choice([0, 100, 400, 500, 800]) if sub else 0
            if d or ms:
                ops.append(K.sleep(min(d, 7200), millis=ms))
            faults = None
            if rng.random() < 0.2:
                # a later sync with rejected pod calls: what it did must still be spaced from the next one
                names = [o["metadata"]["name"] for o in c["objects"] if o["kind"] == "Node"]
                pods = [o["metadata"]["name"] for o in c["objects"] if o["kind"] == "Pod"]
                faults = {}
                if names and rng.random() < 0.7:
                    faults["create_nodes"] = rng.sample(names, rng.randint(1, len(names)))
                if pods and rng.random() < 0.7:
                    faults["delete_pods"] = rng.sample(pods, rng.randint(1, len(pods)))
                wprop.bump(stats, "later sync with rejected pod calls", "yes")
            ops.append(K.reconcile("ers", worldgen.NS, "foo-a", faults))
        if freq >= 10 and rng.random() < 0.15:
            # the role changed since the last full sync, which is younger than the period: the gate still holds
            for o in c["objects"]:
                if o["kind"] == "ExtendedDaemonSetReplicaSet" and o["metadata"]["name"] == "foo-a":
                    o["status"]["status"] = rng.choice(["canary", "unknown", ""])
                    conds = o["status"].setdefault("conditions", [])
                    conds[:] = [x for x in conds if x["type"] != "LastFullSync"]
                    conds.append(K.cond("LastFullSync", "True", trans=-3000, update=-rng.choice([1, 2, freq - 1])))
            wprop.bump(stats, "role changed inside the sync period", "yes")
        c["ops"] = ops
        wprop.bump(stats, "frequency", freq)
        wprop.bump(stats, "interval", interval)
        wprop.bump(stats, "increase", inc)
        out.append(c)
    for _ in range(25 if n < 1000 else 300):
        out.append(directed_boundary(rng, stats))
    for _ in range(8 if n < 1000 else 100):
        out.append(reactivation_history(rng, stats))
    return out


def reactivation_history(rng, stats):
    """A is rolled out, superseded by B (and synced without a role), and - the template going back while A still owns pods -
    active again on a cluster that grew meanwhile: its ramp starts at the re-activation, not at its first activation"""
    import histgen
    n = rng.choice([4, 6])
    c = histgen.gen_history(rng, None, n=n, canary=False, length=0)
    e = [o for o in c["objects"] if o["kind"] == "ExtendedDaemonSet"][0]
    e["spec"]["strategy"]["rollingUpdate"].update({"maxUnavailable": 1, "maxParallelPodCreation": 10, "slowStartIntervalDuration": "60s",
                                                   "slowStartAdditiveIncrease": 1})
    e["spec"]["strategy"]["reconcileFrequency"] = "10s"
    ED = lambda cmd: histgen.edit("ExtendedDaemonSet", histgen.NS, histgen.EDS, cmd)
    ops = c["ops"] + histgen.rollout_ops(rng, n + 1)                    # the ramp of A: one more pod per minute
    ops += [ED("image:img:2")] + histgen.rollout_ops(rng, 2)           # B active, A superseded and synced in no role
    ops += [ED("image:img:1")]                                          # back to A
    ops += [K.apply(K.node("n%d" % (n + i), labels={"role": "w", "zone": "a"})) for i in range(rng.choice([2, 3]))]
    ops += [histgen.rec_eds(), K.sleep(11), histgen.rec_all_ers(rng), K.sleep(11), histgen.rec_all_ers(rng)]
    ops += histgen.rollout_ops(rng, 2)
    c["ops"] = ops
    wprop.bump(stats, "a superseded replica set becomes active again", "yes")
    return c


def directed_boundary(rng, stats):
    """the sync runs in the last half second before a slot of the ramp opens: the allowance is still that of the slot before"""
    interval = rng.choice([1, 5, 60])
    k = rng.choice([0, 1, 2, 3])
    force = {"scenario": "active", "n": 12, "classes": ["none", "none", "none", "none", "none", "uptodate_ready"], "no_faults": True,
             "open_gates": True, "annotations": {},
             "strategy": {"reconcileFrequency": 10, "slowStartIntervalDuration": interval, "slowStartAdditiveIncrease": rng.choice([1, 2]),
                          "maxParallelPodCreation": 250, "maxUnavailable": 1}}
    c = worldgen.gen_ers_world(rng, stats, force)
    rs = [o for o in c["objects"] if o["kind"] == "ExtendedDaemonSetReplicaSet" and o["metadata"]["name"] == "foo-a"]
    if rs:
        conds = rs[0]["status"].setdefault("conditions", [])
        conds[:] = [x for x in conds if x["type"] != "Active"]
        conds.append(K.cond("Active", "True", trans=-max(0, k * interval - 1)))
    c["ops"] = [K.sleep(0, millis=rng.choice([500, 600, 800, 900, 999])), c["ops"][0]]
    wprop.bump(stats, "half a second before a slot boundary", "interval %ds" % interval)
    return c


def nontrivial(c, r):
    return bool(wprop.calls_of(r, "create", "Pod") or wprop.calls_of(r, "delete", "Pod"))
