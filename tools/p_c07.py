"""C07 - a failed canary is rolled back to the active version."""
import histgen
import worldgen
import wprop
from wprop import classify_unencodable, sample  # noqa: F401
import k8s as K

ID = "C07"
TAGS = ["h_world"]
CHECK_MODULE = "Check.C07Check"
IMPORTS = ["Model.Objects", "Model.PodSpec", "Model.Backoff", "Model.ErsReconcile", "Model.EdsReconcile", "Check.World", "Check.C02Check"]
RULE = ("(a) real ExtendedDaemonSet Reconciles on stores whose canary replica set is marked failed (reason restart storm, timeout, "
        "manually failed; paused or not; before/after the duration; with and without the canary-valid annotation; Canary-Failed "
        "transition 10 s .. 500 s ago around the 120 s retention; zero and non-zero counters), with every write of the rollback "
        "rejected in turn (status, object update, replica-set deletion) and followed by one or two further reconciles; "
        "(b) histories in which the real controllers run a canary, `kubectl-eds canary fail` (or restarts) fails it, the "
        "controller is stopped before/after each write of the rollback reconcile and a fresh instance carries on, then fair rounds. "
        "Non-trivial = the reconcile ran with a failed canary replica set present.")
ASSUMPTIONS = [
    "the recorded active replica set exists (otherwise C05's adoption clause applies)",
    "'subsequently replaces the canary pods' is the liveness part: covered by C02's convergence runs ending in a failed canary",
]
CODES = {
    1: "model does not predict the reconcile",
    10: "a status written during the rollback keeps status.canary, changes activeReplicaSet or does not report Canary Failed",
    11: "the object update of the rollback does not restore the active template / clear the canary pause annotations",
    12: "the rollback did not write both the status and the object although nothing was rejected",
    13: "a failed canary replica set was deleted within two minutes of its failure",
    14: "a replica set still reporting pods was deleted",
    15: "the failed canary replica set was deleted while spec.template still names its template (the rollback cannot complete any more)",
    16: "a replica set that is not the active one lost its Canary-Failed mark (the only durable record of the failure)",
    17: "at rest after a rollback a node outside status.canary.nodes does not run one Ready pod of the active template (a pod of the failed canary was left behind)",
    20: "harness panic",
}
GO_TIMEOUT = 1500


def generate(rng, tier, stats):
    out = []
    for i in range(220 if tier == "quick" else 3500):
        c = worldgen.gen_eds_world(rng, stats, {"scenario": rng.choice(["canary_failed", "canary_failed", "canary_failed", "many_rs"])})
        # reject each write of the rollback in turn, then let the next reconciles finish the job
        k = i % 5
        if k == 1:
            c["ops"][0]["faults"] = {"status": True}
        elif k == 2:
            c["ops"][0]["faults"] = {"update": True}
        elif k == 3:
            c["ops"][0]["faults"] = {"stop_after": 1}
        elif k == 4:
            c["ops"][0]["faults"] = {"stop_at": 2}
        if len(c["ops"]) == 1:
            c["ops"].append(dict(c["ops"][0], faults=None))
        out.append(c)
    for _ in range(30 if tier == "quick" else 500):
        out.append(histgen.gen_history(rng, stats, canary=True, length=rng.choice([10, 16]), fail_bias=0.12, faults=True, fair_tail=2))
    # the failed canary's pod has to go although another canary starts right away: B runs as a canary (its pod gets the
    # canary label), is failed, rolled back - and before the active replica set syncs again the user pushes template C,
    # whose canary lands on another node (B's node restarted) and stays (manual validation); then fair rounds
    import p_c02
    for _ in range(8 if tier == "quick" else 120):
        n = rng.choice([3, 4])
        c = histgen.gen_history(rng, None, n=n, canary=True, length=0)
        e = [o for o in c["objects"] if o["kind"] == "ExtendedDaemonSet"][0]
        can = e["spec"]["strategy"]["canary"]
        can.pop("duration", None)
        can.pop("noRestartsDuration", None)
        can.update({"validationMode": "manual", "replicas": 1, "autoFail": {"enabled": True, "maxRestarts": 5},
                    "autoPause": {"enabled": False, "maxRestarts": 2}})
        ED = lambda cmd: histgen.edit("ExtendedDaemonSet", histgen.NS, histgen.EDS, cmd)
        ops = c["ops"] + histgen.rollout_ops(rng, 3) + [ED("image:img:2")] + histgen.rollout_ops(rng, 5)
        how = rng.choice(["command after a restart", "command after a restart", "command"])
        if how != "command":
            # the (labelled) canary pod restarted once: the next canary prefers another node
            ops += [histgen.kubelet("restarted", 0, only="canary"), K.sleep(11), histgen.rec_all_ers(rng)]
        ops += [K.cmd("canary_fail", histgen.NS, histgen.EDS)]
        ops += [histgen.rec_eds(), histgen.rec_eds()]                       # the rollback (status, then spec)
        ops += [ED("image:img:3"), histgen.rec_eds(), histgen.rec_eds()]    # ... and at once the next template
        c["ops"] = ops
        p_c02.add_tail(rng, c, n, resume=False)
        wprop.bump(stats, "a new canary right after a rollback, before the active replica set synced", how)
        out.append(c)
    return out


def encode(c, r):
    import p_c02
    if "tail_rounds" in c:
        return p_c02.encode(c, r)
    lits = wprop.encode(c, r)
    return None if lits is None else ["(W %s)" % l for l in lits]


def nontrivial(c, r):
    for st in (r.get("out") or {}).get("steps", []):
        for o in st.get("pre") or []:
            if o.get("kind") == "ExtendedDaemonSetReplicaSet":
                for cd in (o.get("status") or {}).get("conditions") or []:
                    if cd["type"] == "Canary-Failed" and cd["status"] == "True":
                        return True
    return False
