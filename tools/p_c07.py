"""C07 - a failed canary is rolled back to the active version."""
import histgen
import worldgen
import wprop
from wprop import encode, classify_unencodable, sample  # noqa: F401

ID = "C07"
TAGS = ["h_world"]
CHECK_MODULE = "Check.C07Check"
IMPORTS = ["Model.Objects", "Model.PodSpec", "Model.Backoff", "Model.ErsReconcile", "Model.EdsReconcile", "Check.World"]
RULE = ("(a) real ExtendedDaemonSet Reconciles on stores whose canary replica set is marked failed (reason restart storm, timeout, "
        "manually failed; paused or not; before/after the duration; with and without the canary-valid annotation; Canary-Failed "
        "transition 10 s .. 500 s ago around the 120 s retention; zero and non-zero counters), with every write of the rollback "
        "rejected in turn (status, object update, replica-set deletion) and followed by one or two further reconciles; "
        "(b) histories in which the real controllers run a canary, `kubectl-eds canary fail` (or restarts) fails it, the "
        "controller is stopped before/after each write of the rollback reconcile and a fresh instance carries on, then fair rounds. "
        "Non-trivial = the reconcile ran with a failed canary replica set present.")
ASSUMPTIONS = [
    "the recorded active replica set exists (otherwise C05's adoption clause applies)",
    "'subsequently replaces the canary pods' is the liveness part: covered by C02's convergence runs ending in a failed canary",
]
CODES = {
    1: "model does not predict the reconcile",
    10: "a status written during the rollback keeps status.canary, changes activeReplicaSet or does not report Canary Failed",
    11: "the object update of the rollback does not restore the active template / clear the canary pause annotations",
    12: "the rollback did not write both the status and the object although nothing was rejected",
    13: "a failed canary replica set was deleted within two minutes of its failure",
    14: "a replica set still reporting pods was deleted",
    15: "the failed canary replica set was deleted while spec.template still names its template (the rollback cannot complete any more)",
    16: "a replica set that is not the active one lost its Canary-Failed mark (the only durable record of the failure)",
    20: "harness panic",
}
GO_TIMEOUT = 1500


def generate(rng, tier, stats):
    out = []
    for i in range(220 if tier == "quick" else 3500):
        c = worldgen.gen_eds_world(rng, stats, {"scenario": rng.choice(["canary_failed", "canary_failed", "canary_failed", "many_rs"])})
        # reject each write of the rollback in turn, then let the next reconciles finish the job
        k = i % 5
        if k == 1:
            c["ops"][0]["faults"] = {"status": True}
        elif k == 2:
            c["ops"][0]["faults"] = {"update": True}
        elif k == 3:
            c["ops"][0]["faults"] = {"stop_after": 1}
        elif k == 4:
            c["ops"][0]["faults"] = {"stop_at": 2}
        if len(c["ops"]) == 1:
            c["ops"].append(dict(c["ops"][0], faults=None))
        out.append(c)
    for _ in range(30 if tier == "quick" else 500):
        out.append(histgen.gen_history(rng, stats, canary=True, length=rng.choice([10, 16]), fail_bias=0.12, faults=True, fair_tail=2))
    return out


def nontrivial(c, r):
    for st in (r.get("out") or {}).get("steps", []):
        for o in st.get("pre") or []:
            if o.get("kind") == "ExtendedDaemonSetReplicaSet":
                for cd in (o.get("status") or {}).get("conditions") or []:
                    if cd["type"] == "Canary-Failed" and cd["status"] == "True":
                        return True
    return False
