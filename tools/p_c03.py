"""C03 - the rolling update respects maxUnavailable."""
import worldgen
import wprop
from wprop import encode, classify_unencodable, sample  # noqa: F401

ID = "C03"
TAGS = ["h_world"]
CHECK_MODULE = "Check.C03Check"
IMPORTS = ["Model.Objects", "Model.PodSpec", "Model.Backoff", "Model.ErsReconcile", "Model.EdsReconcile", "Check.World"]
RULE = ("one real replica-set Reconcile of the ACTIVE replica set on a store with 0-12 nodes, each node drawn from the "
        "seven classes of the quantifier (no pod, up-to-date ready/not ready, outdated ready/not ready, outdated "
        "terminating, stuck unscheduled/terminating) plus duplicates, Failed and Unknown pods; maxUnavailable and "
        "maxPodSchedulerFailure as numbers (0,1,2,N,N+1) and percents, a third of the cases with pods adopted from an old "
        "DaemonSet; the time gates are open so deletions are actually issued; Go's map order varies per run. "
        "A case is non-trivial when at least one pod deletion was issued.")
ASSUMPTIONS = [
    "names are unique per kind and namespace (API-server guarantee); the snapshot is the store the Reconcile listed",
    "availability = Ready condition (minReadySeconds is 0 everywhere in the controller)",
    "percent * total below 2^53 (float64 of apimachinery agrees with exact integer arithmetic)",
]
CODES = {
    1: "model does not predict the replica-set sync",
    10: "more available pods deleted than max(0, maxUnavailable - U) allows",
    11: "an available pod was deleted while an unavailable outdated pod was left",
    12: "more than maxUnavailable pods deleted for updating in one sync",
    13: "a pod deletion that is neither an update of a candidate nor a clean-up",
    20: "harness panic",
}
GO_TIMEOUT = 1200
OPEN_STATEMENTS = []

CLASSES = ["none", "uptodate_ready", "uptodate_ready", "uptodate_notready", "old_ready", "old_ready", "old_ready", "old_notready",
           "old_notready", "old_terminating", "stuck_unscheduled", "stuck_terminating", "dup", "failed", "unknown", "foreign_hash"]


def generate(rng, tier, stats):
    n = 240 if tier == "quick" else 4000
    out = []
    for i in range(n):
        nn = rng.choice([1, 2, 3, 4, 5, 6, 8, 10, 10, 12])
        mu = rng.choice([0, 1, 2, 2, 3, nn, nn + 1, "1%", "25%", "50%", "100%", "150%"])
        msf = rng.choice([0, 0, 1, 2, nn, "50%"])
        force = {"scenario": rng.choice(["active", "active", "active_with_canary"]), "n": nn, "classes": CLASSES,
                 "open_gates": True, "no_faults": rng.random() < 0.9,
                 "strategy": {"maxUnavailable": mu, "maxPodSchedulerFailure": msf},
                 "annotations": {} if rng.random() < 0.85 else None}
        if force["annotations"] is None:
            del force["annotations"]
        if i % 3 == 0:
            force["old_ds"] = True
        c = worldgen.gen_ers_world(rng, stats, force)
        wprop.bump(stats, "maxUnavailable", mu)
        wprop.bump(stats, "maxPodSchedulerFailure", msf)
        out.append(c)
    # the witness of the repaired defect D3: 10 nodes, 2 outdated-unavailable, 8 outdated-available, maxUnavailable 2
    for _ in range(6):
        out.append(worldgen.gen_ers_world(rng, None, {"scenario": "active", "n": 10, "open_gates": True, "no_faults": True,
                                                       "classes": ["old_ready"] * 4 + ["old_notready"],
                                                       "strategy": {"maxUnavailable": 2, "maxPodSchedulerFailure": 0},
                                                       "annotations": {}}))
    # more stuck nodes than maxPodSchedulerFailure tolerates, maxUnavailable above that, available outdated pods left: the
    # stuck nodes beyond the tolerance count against the unavailable budget
    for _ in range(24 if tier == "quick" else 300):
        msf = rng.choice([0, 1, 2])
        nn = rng.choice([8, 10, 12])
        out.append(worldgen.gen_ers_world(rng, stats, {"scenario": "active", "n": nn, "open_gates": True, "no_faults": True,
                                                       "classes": ["old_ready"] * 5 + ["stuck_unscheduled", "stuck_terminating", "stuck_unscheduled"] + ["uptodate_ready"],
                                                       "strategy": {"maxUnavailable": rng.choice([msf + 1, msf + 2, 4, "50%"]), "maxPodSchedulerFailure": msf},
                                                       "annotations": {}}))
        wprop.bump(stats, "more stuck nodes than the tolerance", "maxPodSchedulerFailure %d" % msf)
    # outdated pods deleted by an earlier sync and still Ready inside their grace period, next to available outdated pods and a
    # small budget: a terminating pod is not available - its node counts against the budget (ninth round)
    for _ in range(16 if tier == "quick" else 200):
        nn = rng.choice([6, 8, 10])
        out.append(worldgen.gen_ers_world(rng, stats, {"scenario": "active", "n": nn, "open_gates": True, "no_faults": True,
                                                       "classes": ["old_ready"] * 5 + ["old_terminating"] * 3,
                                                       "strategy": {"maxUnavailable": rng.choice([1, 2, 3, "25%"]), "maxPodSchedulerFailure": 0},
                                                       "annotations": {}}))
        wprop.bump(stats, "directed", "terminating outdated pods next to available ones")
    return out


def nontrivial(c, r):
    return bool(wprop.calls_of(r, "delete", "Pod"))
