"""Regenerates /verif/MANIFEST.json from the property plug-ins (tools/p_cXX.py): one check per plug-in,
every other property under not_applicable with the reason 'not yet registered'."""
import glob
import importlib
import json
import os
import subprocess
import sys

HERE = os.path.dirname(os.path.abspath(__file__))
ROOT = os.path.dirname(HERE)
sys.path.insert(0, HERE)

ALL = ["C%02d" % i for i in range(1, 21)]
plugins = {}
for p in sorted(glob.glob(os.path.join(HERE, "p_c*.py"))):
    m = importlib.import_module(os.path.basename(p)[:-3])
    plugins[m.ID] = m

hooks_commits = subprocess.run(["git", "-C", "/repo", "log", "--format=%h", "--grep=^verif hooks"], capture_output=True, text=True).stdout.split()
checks = []
for pid in ALL:
    if pid not in plugins:
        continue
    m = plugins[pid]
    checks.append({
        "property_id": pid,
        "quick_cmd": "./check %s --tier quick" % pid,
        "thorough_cmd": "./check %s --tier thorough" % pid,
        "evidence_file": "/verif/evidence/%s.json" % pid,
        "replay_cmd_template": "./check %s --replay {path}" % pid,
        "engine": "coq-model",
        "level_claimed": {"category": "proof", "text": getattr(m, "LEVEL_TEXT", None) or (
            "Theorems (coq/Properties/%s.v, Coq 8.16.1, closed under the global context) over the hand-written Gallina model "
            "of the code the property is anchored in, for all inputs/choices the property quantifies over; the model is tied "
            "to /repo's working tree on every run by executing the real code on generated cases and evaluating, by vm_compute, "
            "model-vs-implementation agreement and the property's monitors on what the implementation did." % pid),
            "design_ref": "DESIGN.md 5/%s" % pid},
        "level_note": getattr(m, "LEVEL_NOTE", "Trusted: Coq kernel + vm_compute, the hand-written model, the Go harness and its "
                              "projection of API objects (controller-runtime fake client, synctest virtual clock), the Python driver; "
                              "see the evidence file's trusted_base and assumptions."),
        "technique": getattr(m, "TECHNIQUE", "Coq theorems on a hand-written model + differential correspondence check (vm_compute)"),
    })
claimed = [c["property_id"] for c in checks]
man = {
    "version": 1,
    "setup_cmd": "./setup.sh",
    "hooks": {
        "guard": "verif",
        "enable": "go1.26.8 test -c -tags 'verif h_<group>' in /verif/harness (go.work uses /repo and /repo/api); hooks are add-only files zz_verif_export.go with //go:build verif",
        "baseline_off_cmd": json.load(open("/root/.vp/BASELINE.json"))["cmd"],
        "source_commits": hooks_commits,
        "add_only": True,
    },
    "engines": [
        {"name": "coq-model", "path": "coq/", "serves_properties": claimed,
         "kind_free_text": "hand-written Gallina model + theorems (Coq 8.16.1), full .vo build, Print Assumptions audit"},
        {"name": "correspondence", "path": "harness/ tools/", "serves_properties": claimed,
         "kind_free_text": "Go harness running the real code of /repo's working tree (tag verif) + vm_compute evaluation of model-vs-implementation cases and property monitors"},
    ],
    "checks": checks,
    "notes": "see DESIGN.md; one entry point ./check Cxx --tier quick|thorough; VERIF_SEED honoured",
    "not_applicable": [{"property_id": p, "reason": "check under construction (not yet registered); not a claim that the technique cannot apply"}
                       for p in ALL if p not in plugins],
}
json.dump(man, open(os.path.join(ROOT, "MANIFEST.json"), "w"), indent=1)
print("claimed:", claimed)
