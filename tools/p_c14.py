"""C14 - status tells the truth about replica sets and pods."""
import histgen
import worldgen
import wprop
from wprop import encode, classify_unencodable, sample  # noqa: F401

ID = "C14"
TAGS = ["h_world"]
CHECK_MODULE = "Check.C14Check"
IMPORTS = ["Model.Objects", "Model.PodSpec", "Model.Backoff", "Model.ErsReconcile", "Model.EdsReconcile", "Check.World"]
RULE = ("(a) real ExtendedDaemonSet Reconciles over random combinations of one to four replica-set statuses (counters 0..N, every role, "
        "every subset of the Canary-Failed / Canary-Paused / PodRestarting conditions) and annotation sets; (b) real replica-set "
        "Reconciles of active and canary replica sets on random stores (status counters against the pods listed); (c) histories "
        "in which the real controllers roll out, canary, promote and fail, every intermediate status being checked. "
        "Non-trivial = a status was written.")
ASSUMPTIONS = [
    "availability = Ready (minReadySeconds is 0 everywhere in the controller)",
    "the quiescence clause (desired = eligible nodes, counters = pods at rest) is checked with C02's final-state monitors",
]
CODES = {
    1: "model does not predict the reconcile",
    10: "status.current/ready/available is not the sum over the ExtendedDaemonSet's replica sets",
    11: "status.desired/upToDate/ignoredUnresponsiveNodes does not come from the active (and canary) replica set",
    12: "status.state / status.reason disagree with the canary facts and annotations",
    13: "the Canary-Failed / Canary-Paused conditions disagree with the canary facts",
    14: "status.canary is set although no canary is active",
    15: "a replica-set status violates 0 <= available <= ready <= current <= desired",
    17: "status.activeReplicaSet names a replica set that was not listed",
    20: "harness panic",
}
GO_TIMEOUT = 1500


def generate(rng, tier, stats):
    out = []
    for _ in range(150 if tier == "quick" else 2500):
        out.append(worldgen.gen_eds_world(rng, stats))
    for _ in range(120 if tier == "quick" else 2000):
        out.append(worldgen.gen_ers_world(rng, stats, {"open_gates": rng.random() < 0.8}))
    for _ in range(25 if tier == "quick" else 400):
        out.append(histgen.gen_history(rng, stats, length=rng.choice([8, 15])))
    return out


def nontrivial(c, r):
    return bool(wprop.calls_of(r, "status_update"))
