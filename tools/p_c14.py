"""C14 - status tells the truth about replica sets and pods."""
import histgen
import k8s as K
import project as P
import worldgen
import wprop
from wprop import classify_unencodable, sample  # noqa: F401

ID = "C14"
TAGS = ["h_world"]
CHECK_MODULE = "Check.C14Check"
IMPORTS = ["Model.Objects", "Model.PodSpec", "Model.Backoff", "Model.ErsReconcile", "Model.EdsReconcile", "Check.World", "Check.C02Check"]
RULE = ("(a) real ExtendedDaemonSet Reconciles over random combinations of one to four replica-set statuses (counters 0..N, every role, "
        "every subset of the Canary-Failed / Canary-Paused / PodRestarting conditions) and annotation sets; (b) real replica-set "
        "Reconciles of active and canary replica sets on random stores (status counters against the pods listed); (c) histories "
        "in which the real controllers roll out, canary, promote and fail, every intermediate status being checked; (d) histories "
        "(template changes, node churn, commands, a template change under a freeze; a percent canary on a cluster that grows and "
        "then shrinks below the stale resolved replicas; a pod stuck Terminating on a node that stopped answering) followed by a fair tail of reconciles of all "
        "controllers with a kubelet, the quiescence clause being judged on the store the last two rounds left untouched. "
        "Non-trivial = a status was written.")
ASSUMPTIONS = [
    "availability = Ready (minReadySeconds is 0 everywhere in the controller)",
    "quiescent = the last two fair rounds (all controllers, kubelet) created or deleted no pod and no replica set",
]
CODES = {
    1: "model does not predict the reconcile",
    10: "status.current/ready/available is not the sum over the ExtendedDaemonSet's replica sets",
    11: "status.desired/upToDate/ignoredUnresponsiveNodes does not come from the active (and canary) replica set",
    12: "status.state / status.reason disagree with the canary facts and annotations",
    13: "the Canary-Failed / Canary-Paused conditions disagree with the canary facts",
    14: "status.canary is set although no canary is active",
    15: "a replica-set status violates 0 <= available <= ready <= current <= desired",
    16: "during a canary the Canary-Paused condition is True but names another reason than the one the canary is paused for (status.reason)",
    17: "status.activeReplicaSet names a replica set that was not listed",
    18: "at rest status.desired is not the number of eligible nodes, or current/ready/available not the number of daemon pods",
    118: "known finding D9 at rest: a vanished or ineligible node still on status.canary.nodes is counted in status.desired",
    19: "at rest status.upToDate is not the number of daemon pods of the up-to-date template",
    20: "harness panic",
}
GO_TIMEOUT = 1500


def generate(rng, tier, stats):
    out = []
    for _ in range(150 if tier == "quick" else 2500):
        out.append(worldgen.gen_eds_world(rng, stats))
    for _ in range(40 if tier == "quick" else 600):
        # a pause whose reason changes while the Canary-Paused condition of the ExtendedDaemonSet stays True
        # (paused by hand, then auto-paused; auto-paused for one reason, then another)
        c = worldgen.gen_eds_world(rng, stats, {"scenario": "canary_running", "no_faults": True,
                                                "annotations": rng.choice([{}, {P.A_PAUSED: "true"}, {P.A_PAUSED: "true", P.A_PAUSED_REASON: "because"}])})
        was = rng.choice(["ManuallyPaused", "ImagePullBackOff", "CrashLoopBackOff", "because"])
        now_r = rng.choice([None, "ImagePullBackOff", "CrashLoopBackOff", "SlowStartTimeout"])
        for o in c["objects"]:
            if o["kind"] == "ExtendedDaemonSet":
                conds = o.setdefault("status", {}).setdefault("conditions", []) if o.get("status") else None
                if conds is None:
                    o["status"] = K.eds_status()
                    conds = o["status"].setdefault("conditions", [])
                if o["status"].get("conditions") is None:
                    o["status"]["conditions"] = conds = []
                conds[:] = [x for x in conds if x["type"] != "Canary-Paused"]
                conds.append(K.cond("Canary-Paused", rng.choice(["True", "True", "False"]), trans=-90, reason=was))
            if o["kind"] == "ExtendedDaemonSetReplicaSet" and o["metadata"]["name"] == "foo-b" and now_r is not None:
                rc = o.setdefault("status", {}).setdefault("conditions", [])
                if rc is None:
                    o["status"]["conditions"] = rc = []
                rc[:] = [x for x in rc if x["type"] not in ("Canary-Paused", "Canary-Failed")]
                rc.append(K.cond("Canary-Paused", "True", trans=-30, reason=now_r))
        wprop.bump(stats, "pause reason before/now", "%s/%s" % (was, now_r))
        out.append(c)
    for _ in range(120 if tier == "quick" else 2000):
        out.append(worldgen.gen_ers_world(rng, stats, {"open_gates": rng.random() < 0.8}))
    for _ in range(25 if tier == "quick" else 400):
        out.append(histgen.gen_history(rng, stats, length=rng.choice([8, 15])))
    import p_c02
    out += p_c02.gen_cases(rng, stats, 10 if tier == "quick" else 200)
    for _ in range(6 if tier == "quick" else 60):
        out.append(p_c02.shrinking_cluster_case(rng, stats))
    for _ in range(6 if tier == "quick" else 60):
        out.append(p_c02.hung_pod_case(rng, stats))
    return out


def encode(c, r):
    import p_c02
    if "tail_rounds" in c:
        return p_c02.encode(c, r)
    lits = wprop.encode(c, r)
    return None if lits is None else ["(W %s)" % l for l in lits]


def nontrivial(c, r):
    return bool(wprop.calls_of(r, "status_update"))
