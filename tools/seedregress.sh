#!/bin/sh
# usage: seedregress.sh [seed] - applies every filed seeded change to /repo in turn, runs the quick check of its property under
# the given generator seed (default 2), restores /repo; prints one line per change. Nothing else may use /repo meanwhile.
cd /verif
S=${1:-2}
for d in seeded/C*; do
  p=$(python3 -c "import json,sys; print(json.load(open('$d/meta.json'))['property'].split()[0])")
  if ! git -C /repo apply --check /verif/$d/patch.diff 2>/dev/null; then echo "$d: patch does not apply any more"; continue; fi
  git -C /repo apply /verif/$d/patch.diff
  r=$(VERIF_SEED=$S ./check $p --tier quick 2>&1 | grep "tier=" | tail -1)
  git -C /repo checkout -- .
  echo "$d: $r"
done
git -C /repo status --short
