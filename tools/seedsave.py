"""usage: seedsave.py <seed id> <name> <property> <needs> <detected-by> <ran>  - files a confirmed seeded change under /verif/seeded/<name>/"""
import json, os, shutil, sys
sid, name, prop, needs, detected, ran = sys.argv[1:7]
import os as _os
src = _os.environ.get("SEEDOUT") or "/tmp/seedout-%s" % sid
dst = "/verif/seeded/%s" % name
os.makedirs(dst, exist_ok=True)
for f in os.listdir(src):
    if f == "patch.diff" or f.endswith("_test.go") or f == "README.txt" or f.endswith(".go"):
        shutil.copy(os.path.join(src, f), os.path.join(dst, f if not f.endswith("_test.go") else "demo_test.go.txt"))
json.dump({"property": prop, "breaks": open(os.path.join(src, "README.txt")).read()[:1500], "needs_to_manifest": needs,
           "confirmed": "patch applies to /repo HEAD; the demonstration passes without and fails with the change; the existing suite passes with it "
                        "(controllers/TestAPIs needs an etcd binary and fails identically on the pristine tree)",
           "detected_by": detected, "what_was_run": ran}, open(os.path.join(dst, "meta.json"), "w"), indent=1)
print("saved", dst)
