"""C04 - canary blast radius: the new template runs only on the selected canary nodes."""
import histgen
import k8s as K
import project as P
import worldgen
import wprop
from wprop import encode, classify_unencodable, sample  # noqa: F401

ID = "C04"
TAGS = ["h_world"]
CHECK_MODULE = "Check.C04Check"
IMPORTS = ["Model.Objects", "Model.PodSpec", "Model.Backoff", "Model.ErsReconcile", "Model.EdsReconcile", "Check.World"]
RULE = ("(a) histories on one store: a fresh ExtendedDaemonSet with a canary strategy is rolled out by the real controllers, then "
        "8-30 further operations interleave the ExtendedDaemonSet reconcile with the syncs of ALL its replica sets (active, "
        "canary, leftover; rotating order) and with template edits (also a second edit while a canary runs), kubectl-eds "
        "pause/unpause/validate/fail, node deletion/addition/tainting, kubelet actions, clock ticks and controller restarts; "
        "(b) single replica-set syncs on random stores with canary node lists (also naming vanished nodes), replicas as number "
        "and percent; (c) ExtendedDaemonSet reconciles on a running canary with previously selected lists shorter, equal or "
        "longer than the resolved replicas, followed by node churn and a second reconcile. Every reconcile step is judged against status.canary.nodes of its own pre-state. "
        "Non-trivial = the case issued a pod creation, deletion or label patch.")
ASSUMPTIONS = [
    "the role of a replica set is a function of the parent's status as read by that sync",
    "pod and node names unique; status.canary.nodes duplicate free for the canary role's distinctness",
]
CODES = {
    1: "model does not predict the reconcile",
    10: "the canary replica set created a pod on a node that is not in status.canary.nodes",
    11: "the active replica set created or deleted a pod on a canary node",
    12: "a created pod does not carry the creating replica set's template hash, labels or owner",
    13: "the canary label was added by a non-canary role, to a foreign pod or off the canary nodes",
    14: "the canary label was removed by a non-active role or from a foreign pod",
    16: "a canary sync left one of its pods on a canary node without the canary label",
    17: "an active replica set inside its label clean-up window left the canary label on one of its own pods",
    18: "the ExtendedDaemonSet reconcile added canary nodes beyond the resolved replicas",
    20: "harness panic",
}
GO_TIMEOUT = 1500


def generate(rng, tier, stats):
    nh = 50 if tier == "quick" else 800
    nw = 120 if tier == "quick" else 2000
    out = []
    for _ in range(nh):
        out.append(histgen.gen_history(rng, stats, canary=True, length=rng.choice([8, 12, 20, 30])))
    for i in range(nw):
        force = {"scenario": rng.choice(["canary", "canary", "active_with_canary", "active_with_canary", "unknown_leftover"]),
                 "open_gates": rng.random() < 0.8}
        out.append(worldgen.gen_ers_world(rng, stats, force))
    # (b') a replica set promoted a moment ago whose pods are all Ready already (the canary covered every node): nothing is
    # left to roll out, and the pods still lose the canary label
    for _ in range(16 if tier == "quick" else 200):
        c = worldgen.gen_ers_world(rng, stats, {"scenario": "active", "n": rng.choice([1, 2, 3]), "open_gates": True, "no_faults": True,
                                                "classes": ["uptodate_ready"], "annotations": {}})
        for o in c["objects"]:
            if o["kind"] == "Pod" and o["metadata"]["labels"].get(P.K_RS) == "foo-a":
                o["metadata"]["labels"][P.K_CANARY] = "true"
            if o["kind"] == "ExtendedDaemonSetReplicaSet" and o["metadata"]["name"] == "foo-a":
                conds = o["status"].setdefault("conditions", [])
                conds[:] = [x for x in conds if x["type"] != "Active"]
                conds.append(K.cond("Active", "True", trans=-rng.choice([5, 60, 299])))
        wprop.bump(stats, "promoted with every pod Ready and labelled", "yes")
        out.append(c)
    # (c) ExtendedDaemonSet reconciles on a running canary whose previous node list is shorter, equal or LONGER than the
    # resolved replicas (replicas lowered mid-canary, percent with node churn): the list never grows beyond the replicas
    import p_c15
    out += p_c15.gen_cases(rng, stats, 80 if tier == "quick" else 1200, shrink=0.5)
    return out


def nontrivial(c, r):
    return bool(wprop.calls_of(r, None, "Pod")) or p_c15_nontrivial(c, r)


def p_c15_nontrivial(c, r):
    import p_c15
    return p_c15.nontrivial(c, r)
