"""Histories: an initial store plus a sequence of operations - reconciles of the real controllers in random
interleavings, kubelet/scheduler actions, user edits (template, annotations), kubectl-eds commands, node churn,
clock ticks, faults.  Every reconcile step of the run becomes an independent correspondence case (pre-state,
calls, result), so the states visited are reachable states of the real code."""
import k8s as K
import project as P

NS = "ns1"
EDS = "foo"


def node_objs(rng, n, plain=True):
    out = []
    for i in range(n):
        labels = {"role": "w", "zone": rng.choice(["a", "b"])}
        taints = None
        if not plain and rng.random() < 0.15:
            taints = [{"key": "dedicated", "value": "gpu", "effect": "NoExecute"}]
        out.append(K.node("n%d" % i, labels=labels, taints=taints))
    return out


def strategy(rng, n, canary):
    return K.default_strategy(canary=canary, freq=rng.choice([1, 10, 10]),
                              max_unavailable=rng.choice([1, 2, "50%", "100%"]), max_sched_failure=rng.choice([0, 1]),
                              max_parallel=rng.choice([250, 250, 1, 2]), interval=rng.choice([1, 30, 60]),
                              increase=rng.choice([1, 2, 5, "100%"]))


def canary_spec(rng, n):
    mode = rng.choice(["auto", "auto", "manual"])
    # a valid spec: manual validation mode has neither duration nor noRestartsDuration
    return K.default_canary(replicas=rng.choice([1, 1, 2, "50%"]), duration=rng.choice([30, 60, 600]) if mode == "auto" else None,
                            mode=mode, no_restarts=rng.choice([None, 10, 30]) if mode == "auto" else None,
                            ap_enabled=rng.random() < 0.8, ap_max=rng.choice([2, 0]), af_enabled=rng.random() < 0.8,
                            af_max=rng.choice([5, 3]), max_slow=None, restarts_dur=rng.choice([None, 30]),
                            timeout=rng.choice([None, None, 700]))


def rec_eds(name=EDS, ns=NS, faults=None):
    return K.reconcile("eds", ns, name, faults)


def rec_all_ers(rng=None, ns=NS, order=None):
    op = K.reconcile("ers", ns, "*")
    op["seconds"] = order if order is not None else (rng.randint(0, 5) if rng else 0)
    return op


def kubelet(mode="all", part=0, only=None):
    op = {"op": "kubelet", "cmd": mode, "seconds": part}
    if only:
        op["kind"] = only       # "canary": only the pods carrying the canary label
    return op


def edit(kind, ns, name, what):
    return {"op": "edit", "kind": kind, "ns": ns, "name": name, "cmd": what}


def fair_round(rng, sleep=None, name=EDS, ns=NS):
    """kubelet settles, the clock advances, the ExtendedDaemonSet reconciles, every replica set syncs once"""
    return [kubelet("all"), K.sleep(sleep if sleep is not None else rng.choice([10, 61, 61])), rec_eds(name, ns), rec_all_ers(rng, ns)]


def initial_store(rng, n, canary, tpl_image="img:1", name=EDS, ns=NS, annotations=None, plain=True):
    objs = node_objs(rng, n, plain)
    can = canary_spec(rng, n) if canary else None
    import worldgen
    e = K.eds(ns, name, K.template(image=tpl_image, labels=worldgen.template_labels(rng)), strategy=strategy(rng, n, can), annotations=annotations or None,
              status=K.eds_status())
    objs.append(e)
    return objs


def rollout_ops(rng, rounds):
    ops = []
    for _ in range(rounds):
        ops += fair_round(rng)
    return ops


def random_env_op(rng, n, images=("img:1", "img:2", "img:3"), allow_cmds=True, name=EDS, ns=NS):
    r = rng.random()
    if r < 0.04:
        # a manifest re-applied with a name on the pod template (defaulting clears it again)
        return edit("ExtendedDaemonSet", ns, name, "tmplname:" + rng.choice(["agent", "agent", ""]))
    if r < 0.22:
        if rng.random() < 0.2:
            # a change of the pod template's annotations and nothing else (a new config checksum): a new template
            return edit("ExtendedDaemonSet", ns, name, "tmplannot:checksum/config=" + rng.choice(["a", "b", "c"]))
        return edit("ExtendedDaemonSet", ns, name, "image:" + rng.choice(images))
    if r < 0.32:
        k = rng.choice([P.A_RU_PAUSED, P.A_FROZEN])
        return edit("ExtendedDaemonSet", ns, name, rng.choice(["annotate:%s=true" % k, "annotate:%s=false" % k, "unannotate:%s" % k]))
    if r < 0.45 and allow_cmds:
        return K.cmd(rng.choice(["canary_pause", "canary_unpause", "canary_validate", "canary_fail", "ru_pause", "ru_unpause",
                                 "freeze", "unfreeze"]), ns, name)
    if r < 0.55 and n:
        return K.delete("Node", "", "n%d" % rng.randrange(n))
    if r < 0.62:
        return K.apply(K.node("n%d" % rng.randrange(n + 2), labels={"role": "w", "zone": "a"}))
    if r < 0.7 and n:
        # an untolerated taint, a standard one every daemon pod tolerates (cordon, node not ready), or none again
        return edit("Node", "", "n%d" % rng.randrange(n), rng.choice(["taint:dedicated=gpu:NoExecute", "untaint",
                                                                      "taint:node.kubernetes.io/unschedulable=:NoSchedule",
                                                                      "taint:dedicated=infra:NoSchedule",
                                                                      "taint:node.kubernetes.io/not-ready=:NoExecute"]))
    if r < 0.8:
        return kubelet(rng.choice(["all", "ready", "finalize"]), rng.choice([0, 2, 3]))
    if r < 0.9:
        return K.sleep(rng.choice([1, 5, 10, 30, 61, 120, 601]))
    return {"op": "restart"}


def gen_history(rng, stats=None, n=None, canary=None, length=None, fair_tail=0, allow_cmds=True, faults=False, podtemplate=False,
                edit_bias=0.0, fail_bias=0.0):
    """fresh ExtendedDaemonSet -> first rollout -> random interleaving of reconciles and environment actions"""
    n = n if n is not None else rng.choice([2, 3, 4, 5, 6])
    canary = canary if canary is not None else rng.random() < 0.6
    objs = initial_store(rng, n, canary)
    ops = rollout_ops(rng, rng.choice([2, 3, 4]))          # defaulting, replica set, first pods
    length = length if length is not None else rng.choice([8, 12, 20, 30])
    for _ in range(length):
        if podtemplate and rng.random() < 0.15:
            ops.append(K.reconcile("podtemplate", NS, EDS))
            continue
        if edit_bias and rng.random() < edit_bias:
            ops.append(edit("ExtendedDaemonSet", NS, EDS, "image:" + rng.choice(["img:1", "img:2", "img:3"])))
            continue
        if fail_bias and rng.random() < fail_bias:
            ops.append(K.cmd("canary_fail", NS, EDS))
            continue
        r = rng.random()
        if r < 0.3:
            f = None
            if faults and rng.random() < 0.2:
                f = rng.choice([{"status": True}, {"update": True}, {"stop_at": rng.randint(1, 3)}, {"stop_after": rng.randint(1, 2)},
                                {"status": True, "lost": True}, {"update": True, "lost": True}])
            ops.append(rec_eds(faults=f))
        elif r < 0.6:
            op = rec_all_ers(rng)
            if faults and rng.random() < 0.2:
                op["faults"] = rng.choice([{"create_nodes": ["*"]}, {"delete_pods": ["*"]}, {"status": True}, {"stop_at": rng.randint(1, 4)},
                                           {"stop_after": rng.randint(1, 4)}, {"create_nodes": ["*"], "lost": True}, {"patch_pods": ["*"]}])
            ops.append(op)
        else:
            ops.append(random_env_op(rng, n, allow_cmds=allow_cmds))
    for _ in range(fair_tail):
        ops += fair_round(rng, sleep=61)
    if stats is not None:
        stats.setdefault("history_lengths", {})
        k = str(len(ops) // 10 * 10)
        stats["history_lengths"][k] = stats["history_lengths"].get(k, 0) + 1
        stats.setdefault("op_mix", {})
        for o in ops:
            kk = o["op"] + (":" + o.get("ctrl", o.get("cmd", "")) if o["op"] in ("reconcile", "cmd", "edit", "kubelet") else "")
            kk = kk.split("=")[0]
            stats["op_mix"][kk] = stats["op_mix"].get(kk, 0) + 1
    return {"kind": "world", "objects": objs, "ops": ops, "options": {"affinity": rng.random() < 0.3, "default_mode": "auto", "list_order": 1 if rng.random() < 0.3 else 0}}
