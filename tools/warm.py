"""Warm build of every harness binary the registered checks use (so that a check only pays for
what changed in /repo)."""
import glob
import importlib
import os
import sys
from concurrent.futures import ThreadPoolExecutor

sys.path.insert(0, os.path.dirname(os.path.abspath(__file__)))
import fw  # noqa: E402

seen = {}
for p in sorted(glob.glob(os.path.join(os.path.dirname(os.path.abspath(__file__)), "p_c*.py"))):
    m = importlib.import_module(os.path.basename(p)[:-3])
    seen[(tuple(sorted(m.TAGS)), bool(getattr(m, "RACE", False)))] = m.ID


def one(k):
    tags, race = k
    b, log = fw.build_go(list(tags), race=race)
    return k, b, log


ok = True
with ThreadPoolExecutor(max_workers=4) as ex:
    for k, b, log in ex.map(one, list(seen)):
        print("harness", k, "->", b)
        if b is None:
            ok = False
            print(log[-3000:])
sys.exit(0 if ok else 1)
