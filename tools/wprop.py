"""Shared part of the property plug-ins that are decided on world cases (real Reconcile steps):
encoding through worldenc, classification of unencodable outcomes, samples."""
import worldenc


def encode(c, r):
    if r.get("panic"):
        return None
    lits = []
    for st in (r["out"].get("steps") or []):
        l = worldenc.encode_step(st, c["options"])
        if l is not None:
            lits.append(l)
    return lits


def classify_unencodable(c, r):
    return (20, "the harness itself panicked: " + r.get("panic", "")[:200])


def calls_of(r, verb=None, kind=None):
    out = []
    for st in (r.get("out") or {}).get("steps", []):
        for cl in st.get("calls") or []:
            if (verb is None or cl["verb"] == verb) and (kind is None or cl["kind"] == kind):
                out.append(cl)
    return out


def sample(c, r):
    steps = (r.get("out") or {}).get("steps", [])
    return {"ops": c["ops"], "objects": len(c["objects"]),
            "calls": [[{k: v for k, v in cl.items() if k != "obj"} for cl in st.get("calls") or []] for st in steps][:2]}


def bump(stats, key, sub):
    stats.setdefault(key, {})
    stats[key][str(sub)] = stats[key].get(str(sub), 0) + 1
